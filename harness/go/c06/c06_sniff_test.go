//go:build verif

package sniff

// C06 harness, level (c): the relay END TO END WITH THE REAL REQUEST HOOK.  core cannot import extras, so the end-to-end
// runs of c06_e2e_test.go (package core/internal/integration_tests) drive a scripted mock hook; here the same set-up lives
// in package extras/sniff: a real server.NewServer whose RequestHook hands every hooked stream to a real *Sniffer (one
// Sniffer value per case: Timeout, TCPPorts, RewriteDomain as drawn), a real client.NewClient over loopback QUIC (fast
// open on / off, TrafficLogger present / absent), a recording target behind the Outbound.
//
// The client's stream is a first flight that looks like TLS / HTTP / neither and is CUT at a chosen position: the
// client writes the bytes in front of the cut (in one or several Writes with gaps), then
//   - hold:  writes nothing more until the server has dialled the target, i.e. until the sniffer has returned (record
//            complete, or its read deadline fired in the middle of the record header / record body / header block), then
//            writes the rest, or
//   - the stream simply ends there (the client closes: FIN in the middle of the record), or
//   - no pause at all.
// Every run ends deterministically: the client writes everything, optionally reads what the target sent, closes; the
// target never ends by itself, so the server's Up direction ends on the client's EOF and the server closes the target.
// Judged then (the property, on the implementation alone):
//   - what the target holds is a prefix of what the client wrote at every moment, and ALL of it - nothing lost,
//     duplicated or reordered - once the server has closed the target connection after the client's EOF;
//   - what the application read is a prefix of what the target sent (all of it when it read to the end);
//   - the target was dialled once, at the address the hook left;
//   - with a logger: StreamStats.Tx == bytes the target received, LogTraffic tx total == bytes forwarded behind the
//     putback (delivered - putback), rx likewise.
// The bytes the sniffer handed back are recorded by the delegating hook (a copy, taken when Sniffer.TCP returns) for the
// diagnosis and for the comparison with the model (model/C17_Sniff.v sniff_tcp composed with model/C06_Hook.v).
// Infrastructure trouble is a "skip", never a verdict.

import (
	"bytes"
	"crypto/ecdsa"
	"crypto/elliptic"
	"crypto/rand"
	"crypto/tls"
	"crypto/x509"
	"crypto/x509/pkix"
	"encoding/json"
	"errors"
	"fmt"
	"io"
	"math/big"
	"net"
	"sync"
	"sync/atomic"
	"testing"
	"time"

	"github.com/apernet/hysteria/core/v2/client"
	"github.com/apernet/hysteria/core/v2/server"
	"github.com/apernet/hysteria/extras/v2/utils"
)

type c06sCase struct {
	K         string  `json:"k"`
	Shape     string  `json:"shape"`
	Logger    bool    `json:"logger"`
	FastOpen  bool    `json:"fastopen"`
	TimeoutMs int     `json:"timeout_ms"` // Sniffer.Timeout; 0 = the sniffer's default
	Ports     string  `json:"ports"`      // Sniffer.TCPPorts; "" = nil (every port)
	RwDomain  bool    `json:"rw_domain"`  // Sniffer.RewriteDomain
	Addr      string  `json:"addr"`       // the request address
	WantAddr  string  `json:"want_addr"`  // the address the sniffer leaves when it sees the whole first flight ("" = Addr)
	SentP     [][]any `json:"sentp"`      // everything the client writes, as pieces
	Cuts      []int   `json:"cuts"`       // the client writes sent[:cuts[0]], sent[cuts[0]:cuts[1]], ... with GapMs in between
	GapMs     int     `json:"gap_ms"`
	Hold      bool    `json:"hold"`  // behind the last cut: nothing more until the server has dialled the target
	Chunk     int     `json:"chunk"` // size of the Write calls behind the last cut
	Down      int     `json:"down"`  // bytes the target sends (at once, then it stays silent)
}

func c06sBytes(parts [][]any) []byte {
	var out []byte
	for _, q := range parts {
		switch q[0].(string) {
		case "l":
			out = append(out, vUnhex(q[1].(string))...)
		case "gd":
			out = append(out, vGenData(uint64(q[1].(float64)), uint64(q[2].(float64)), int(q[3].(float64)))...)
		default:
			panic("c06s: unknown stream piece")
		}
	}
	return out
}

// per-case state shared by the hook, the outbound, the logger and the judge; it is also the target connection
type c06sState struct {
	mu       sync.Mutex
	idx      int
	c        c06sCase
	sn       *Sniffer // the hook of this case
	checked  []bool
	hookN    int // calls of Sniffer.TCP
	hookPb   []byte
	hookAddr string
	hookErr  string
	hookMs   int64
	dialAddr []string
	writes   []int
	got      bytes.Buffer
	logs     [][2]uint64
	badLog   string
	stats    *server.StreamStats
	traced   int
	down     []byte
	dialled  chan struct{}
	dialOne  sync.Once
	closed   chan struct{}
	closeOne sync.Once
	untraced chan struct{}
	untrOne  sync.Once
}

func (s *c06sState) Read(p []byte) (int, error) {
	s.mu.Lock()
	if len(s.down) > 0 {
		n := copy(p, s.down)
		s.down = s.down[n:]
		s.mu.Unlock()
		return n, nil
	}
	s.mu.Unlock()
	<-s.closed // the target never ends by itself
	return 0, errors.New("target closed")
}

func (s *c06sState) Write(p []byte) (int, error) {
	select {
	case <-s.closed:
		return 0, errors.New("target closed")
	default:
	}
	s.mu.Lock()
	s.writes = append(s.writes, len(p))
	s.got.Write(p)
	s.mu.Unlock()
	return len(p), nil
}
func (s *c06sState) Close() error                     { s.closeOne.Do(func() { close(s.closed) }); return nil }
func (s *c06sState) LocalAddr() net.Addr              { return &net.TCPAddr{} }
func (s *c06sState) RemoteAddr() net.Addr             { return &net.TCPAddr{} }
func (s *c06sState) SetDeadline(time.Time) error      { return nil }
func (s *c06sState) SetReadDeadline(time.Time) error  { return nil }
func (s *c06sState) SetWriteDeadline(time.Time) error { return nil }

type c06sEnv struct {
	mu  sync.Mutex
	cur *c06sState
	srv server.Server
	cl  client.Client
}

// the state of the running case, if addr is one of its two addresses
func (e *c06sEnv) state(addr string) *c06sState {
	e.mu.Lock()
	defer e.mu.Unlock()
	if e.cur == nil || (addr != e.cur.c.Addr && addr != e.cur.c.WantAddr) {
		return nil
	}
	return e.cur
}

// the hook: delegates to the case's own real Sniffer, on the server's real stream, and records what came back
type c06sHook struct{ e *c06sEnv }

func (h c06sHook) Check(isUDP bool, reqAddr string) bool {
	s := h.e.state(reqAddr)
	if s == nil {
		return false
	}
	r := s.sn.Check(isUDP, reqAddr)
	s.mu.Lock()
	s.checked = append(s.checked, r)
	s.mu.Unlock()
	return r
}

func (h c06sHook) TCP(stream server.HyStream, reqAddr *string) ([]byte, error) {
	s := h.e.state(*reqAddr)
	if s == nil {
		return nil, errors.New("c06s: no such case")
	}
	t0 := time.Now()
	pb, err := s.sn.TCP(stream, reqAddr)
	s.mu.Lock()
	s.hookN++
	s.hookPb = append([]byte(nil), pb...)
	s.hookAddr = *reqAddr
	s.hookMs = time.Since(t0).Milliseconds()
	if err != nil {
		s.hookErr = err.Error()
	}
	s.mu.Unlock()
	return pb, err
}

func (h c06sHook) UDP(data []byte, reqAddr *string) error { return nil }

type c06sOutbound struct{ e *c06sEnv }

func (o c06sOutbound) TCP(reqAddr string) (net.Conn, error) {
	s := o.e.state(reqAddr)
	if s == nil {
		return nil, errors.New("c06s: no such case")
	}
	s.mu.Lock()
	s.dialAddr = append(s.dialAddr, reqAddr)
	s.mu.Unlock()
	s.dialOne.Do(func() { close(s.dialled) })
	return s, nil
}
func (o c06sOutbound) UDP(reqAddr string) (server.UDPConn, error) { return nil, errors.New("no udp") }
func (o c06sOutbound) CheckUDP(reqAddr string) error              { return nil }

type c06sAuth struct{}

func (c06sAuth) Authenticate(addr net.Addr, auth string, tx uint64) (bool, string) { return true, "u06s" }

// the traffic logger (cases run one after the other on an environment: calls belong to the current case)
type c06sLogger struct{ e *c06sEnv }

func (l c06sLogger) curState() *c06sState {
	l.e.mu.Lock()
	defer l.e.mu.Unlock()
	return l.e.cur
}

func (l c06sLogger) LogTraffic(id string, tx, rx uint64) bool {
	if s := l.curState(); s != nil {
		s.mu.Lock()
		if id != "u06s" || (tx > 0) == (rx > 0) {
			s.badLog = fmt.Sprintf("LogTraffic(%q,%d,%d)", id, tx, rx)
		}
		s.logs = append(s.logs, [2]uint64{tx, rx})
		s.mu.Unlock()
	}
	return true
}
func (l c06sLogger) LogOnlineState(id string, online bool) {}
func (l c06sLogger) TraceStream(stream server.HyStream, stats *server.StreamStats) {
	if s := l.curState(); s != nil {
		s.mu.Lock()
		s.stats = stats
		s.traced++
		s.mu.Unlock()
	}
}
func (l c06sLogger) UntraceStream(stream server.HyStream) {
	if s := l.curState(); s != nil {
		s.untrOne.Do(func() { close(s.untraced) })
	}
}

var (
	c06sCertOnce sync.Once
	c06sCert     tls.Certificate
	c06sCertErr  error
)

func c06sTLS() (tls.Certificate, error) {
	c06sCertOnce.Do(func() {
		key, err := ecdsa.GenerateKey(elliptic.P256(), rand.Reader)
		if err != nil {
			c06sCertErr = err
			return
		}
		tmpl := &x509.Certificate{SerialNumber: big.NewInt(6), Subject: pkix.Name{CommonName: "c06s.verif"},
			NotBefore: time.Now().Add(-time.Hour), NotAfter: time.Now().Add(24 * time.Hour),
			KeyUsage: x509.KeyUsageDigitalSignature, ExtKeyUsage: []x509.ExtKeyUsage{x509.ExtKeyUsageServerAuth},
			DNSNames: []string{"c06s.verif"}}
		der, err := x509.CreateCertificate(rand.Reader, tmpl, tmpl, &key.PublicKey, key)
		if err != nil {
			c06sCertErr = err
			return
		}
		c06sCert = tls.Certificate{Certificate: [][]byte{der}, PrivateKey: key}
	})
	return c06sCert, c06sCertErr
}

func c06sNewEnv(logger, fastOpen bool) (*c06sEnv, error) {
	cert, err := c06sTLS()
	if err != nil {
		return nil, fmt.Errorf("certificate: %w", err)
	}
	udpConn, err := net.ListenUDP("udp", &net.UDPAddr{IP: net.IPv4(127, 0, 0, 1), Port: 0})
	if err != nil {
		return nil, fmt.Errorf("listen: %w", err)
	}
	e := &c06sEnv{}
	cfg := &server.Config{TLSConfig: server.TLSConfig{Certificates: []tls.Certificate{cert}}, Conn: udpConn,
		Outbound: c06sOutbound{e}, Authenticator: c06sAuth{}, RequestHook: c06sHook{e}}
	if logger {
		cfg.TrafficLogger = c06sLogger{e}
	}
	s, err := server.NewServer(cfg)
	if err != nil {
		udpConn.Close()
		return nil, fmt.Errorf("server: %w", err)
	}
	go s.Serve()
	type cr struct {
		cl  client.Client
		err error
	}
	ch := make(chan cr, 1)
	go func() {
		cl, _, err := client.NewClient(&client.Config{ServerAddr: udpConn.LocalAddr(), TLSConfig: client.TLSConfig{InsecureSkipVerify: true}, FastOpen: fastOpen})
		ch <- cr{cl, err}
	}()
	select {
	case r := <-ch:
		if r.err != nil {
			s.Close()
			return nil, fmt.Errorf("client: %w", r.err)
		}
		e.srv, e.cl = s, r.cl
		return e, nil
	case <-time.After(60 * time.Second):
		s.Close()
		return nil, errors.New("client: no handshake within 60 s")
	}
}

func (e *c06sEnv) close() {
	if e.cl != nil {
		e.cl.Close()
	}
	if e.srv != nil {
		e.srv.Close()
	}
}

var c06sEnvs = map[[2]bool]*c06sEnv{}

func c06sFirstDiff(a, b []byte) int {
	n := min(len(a), len(b))
	for i := 0; i < n; i++ {
		if a[i] != b[i] {
			return i
		}
	}
	return n
}

// digits -> '#': the "why" of a verdict is stable across inputs of the same kind
func c06sStable(s string) string {
	out := make([]byte, 0, len(s))
	prev := false
	for i := 0; i < len(s); i++ {
		if s[i] >= '0' && s[i] <= '9' {
			if !prev {
				out = append(out, '#')
			}
			prev = true
			continue
		}
		prev = false
		out = append(out, s[i])
	}
	return string(out)
}

// returns true when the environment may be used for the next case
func c06sRun(idx int, c c06sCase, res map[string]any) (reusable bool) {
	skip := func(why string, err error) {
		res["skip"] = fmt.Sprintf("%s: %v", why, err)
		res["ok"] = true
		res["why"] = ""
	}
	fail := func(f string, a ...any) {
		if _, done := res["ok"]; done && res["ok"] == false {
			return
		}
		res["ok"] = false
		res["detail"] = fmt.Sprintf(f, a...)
		res["why"] = c06sStable(fmt.Sprintf(f, a...))
	}
	key := [2]bool{c.Logger, c.FastOpen}
	e := c06sEnvs[key]
	if e == nil {
		var err error
		e, err = c06sNewEnv(c.Logger, c.FastOpen)
		if err != nil {
			skip("environment", err)
			return false
		}
		c06sEnvs[key] = e
	}
	sent := c06sBytes(c.SentP)
	if c.WantAddr == "" {
		c.WantAddr = c.Addr
	}
	sn := &Sniffer{Timeout: time.Duration(c.TimeoutMs) * time.Millisecond, RewriteDomain: c.RwDomain}
	if c.Ports != "" {
		sn.TCPPorts = utils.ParsePortUnion(c.Ports)
		if sn.TCPPorts == nil {
			panic("c06s: bad port union " + c.Ports)
		}
	}
	down := vGenData(11, uint64(idx), c.Down)
	st := &c06sState{idx: idx, c: c, sn: sn, down: append([]byte(nil), down...), dialled: make(chan struct{}),
		closed: make(chan struct{}), untraced: make(chan struct{})}
	e.mu.Lock()
	e.cur = st
	e.mu.Unlock()
	defer func() {
		e.mu.Lock()
		e.cur = nil
		e.mu.Unlock()
	}()
	type tcpRes struct {
		conn net.Conn
		err  error
	}
	tch := make(chan tcpRes, 1)
	go func() {
		cn, err := e.cl.TCP(c.Addr)
		tch <- tcpRes{cn, err}
	}()
	var conn net.Conn
	select {
	case r := <-tch:
		if r.err != nil {
			skip("TCP()", r.err)
			return false
		}
		conn = r.conn
	case <-time.After(30 * time.Second):
		skip("TCP()", errors.New("no response within 30 s"))
		return false
	}
	held := func() ([]byte, []int) {
		st.mu.Lock()
		defer st.mu.Unlock()
		return append([]byte(nil), st.got.Bytes()...), append([]int(nil), st.writes...)
	}
	prefixOK := func(got []byte) bool { return len(got) <= len(sent) && bytes.Equal(got, sent[:len(got)]) }
	// the client writes: the stretches in front of the last cut with gaps, [hold,] the rest in Writes of c.Chunk bytes
	write := func(lo, hi int) error {
		if hi <= lo {
			return nil
		}
		if n, err := conn.Write(sent[lo:hi]); err != nil || n != hi-lo {
			return fmt.Errorf("write at %d: n=%d %v", lo, n, err)
		}
		return nil
	}
	wdone := make(chan error, 1)
	var heldBack atomic.Bool
	go func() {
		off := 0
		for i, k := range c.Cuts {
			k = min(max(k, off), len(sent))
			if err := write(off, k); err != nil {
				wdone <- err
				return
			}
			off = k
			if i+1 < len(c.Cuts) && c.GapMs > 0 {
				time.Sleep(time.Duration(c.GapMs) * time.Millisecond)
			}
		}
		if c.Hold {
			select {
			case <-st.dialled:
				heldBack.Store(true)
			case <-time.After(30 * time.Second):
				wdone <- errors.New("the server did not dial the target within 30 s of the client's pause")
				return
			}
		}
		chunk := c.Chunk
		if chunk <= 0 {
			chunk = len(sent)
		}
		for off < len(sent) {
			end := min(off+chunk, len(sent))
			if err := write(off, end); err != nil {
				wdone <- err
				return
			}
			off = end
		}
		wdone <- nil
	}()
	var werr error
	wroteAll := false
	select {
	case werr = <-wdone:
		wroteAll = werr == nil
	case <-time.After(60 * time.Second):
		werr = errors.New("client writes did not finish within 60 s")
	}
	res["held_back"] = heldBack.Load()
	if !wroteAll {
		conn.Close()
		got, _ := held()
		res["got"] = len(got)
		if !prefixOK(got) {
			fail("target received %d bytes that are not a prefix of the %d the client wrote (first difference at offset %d)", len(got), len(sent), c06sFirstDiff(got, sent))
			return false
		}
		skip("client write", werr)
		return false
	}
	// the bytes the target sent
	var recv []byte
	recvComplete := true
	if c.Down > 0 {
		recv = make([]byte, c.Down)
		conn.SetReadDeadline(time.Now().Add(30 * time.Second))
		n, err := io.ReadFull(conn, recv)
		recv = recv[:n]
		recvComplete = err == nil
	}
	// the client finishes first
	conn.Close()
	tornDown := false
	wait := 30*time.Second + time.Duration(c.TimeoutMs)*time.Millisecond
	if c.TimeoutMs == 0 {
		wait += 4 * time.Second
	}
	select {
	case <-st.closed:
		tornDown = true
	case <-time.After(wait):
	}
	untraced := !c.Logger
	if tornDown && c.Logger {
		select {
		case <-st.untraced:
			untraced = true
		case <-time.After(10 * time.Second):
		}
	}
	got, writes := held()
	st.mu.Lock()
	checked, hookN, hookPb, hookAddr, hookErr, hookMs := st.checked, st.hookN, st.hookPb, st.hookAddr, st.hookErr, st.hookMs
	dialAddr, logs, badLog, stats, traced := st.dialAddr, st.logs, st.badLog, st.stats, st.traced
	st.mu.Unlock()
	hooked := len(checked) > 0 && checked[0]
	res["got"], res["gotdg"], res["writes"], res["torn"], res["recv"] = len(got), vDigest(got), writes, tornDown, len(recv)
	res["gotpfx"] = prefixOK(got)
	res["hooked"], res["hookn"], res["pbn"], res["hook_addr"], res["hook_err"], res["hook_ms"] = hooked, hookN, len(hookPb), hookAddr, hookErr, hookMs
	res["pbpfx"] = prefixOK(hookPb)
	res["dial"] = dialAddr
	res["sn"] = len(sent)
	// prefix clauses first: they hold at every moment of every run
	if !prefixOK(got) {
		d := c06sFirstDiff(got, sent)
		k := -1
		if d < len(got) {
			k = bytes.Index(sent, got[d:min(len(got), d+32)])
		}
		fail("target received %d bytes that are not a prefix of the %d the client wrote (stream %s, the sniffer handed back %d bytes, logger %v, fast open %v; the first difference is at offset %d, what arrived there is found at offset %d of what was sent)",
			len(got), len(sent), c.Shape, len(hookPb), c.Logger, c.FastOpen, d, k)
	}
	if len(recv) > len(down) || !bytes.Equal(recv, down[:len(recv)]) {
		fail("client received %d bytes that are not a prefix of the %d the target sent", len(recv), len(down))
	}
	if res["ok"] == false {
		return false
	}
	if hookErr != "" {
		// the sniffer refused the stream (cannot set the deadline / address without a port): the server closes it
		skip("hook", errors.New(hookErr))
		return false
	}
	if !tornDown {
		skip("teardown", fmt.Errorf("target connection still open %v after the client closed, holding %d of %d bytes", wait, len(got), len(sent)))
		return false
	}
	if len(got) != len(sent) {
		fail("the client wrote %d bytes (stream %s; the sniffer handed back %d of them) and closed; the server closed the target connection after delivering %d bytes (logger %v, fast open %v): %d bytes of the flow never reached the target",
			len(sent), c.Shape, len(hookPb), len(got), c.Logger, c.FastOpen, len(sent)-len(got))
	}
	if hooked && hookN != 1 {
		fail("Sniffer.TCP called %d times for one hooked stream", hookN)
	}
	if !hooked && hookN != 0 {
		fail("Sniffer.TCP called %d times although Check returned false", hookN)
	}
	if !prefixOK(hookPb) {
		fail("the sniffer handed back %d bytes that are not the head of the client's stream", len(hookPb))
	}
	wantDial := c.Addr
	if hooked {
		wantDial = hookAddr
	}
	if len(dialAddr) != 1 || dialAddr[0] != wantDial {
		fail("target dialled at %v, the hook left %q", dialAddr, wantDial)
	}
	res["rewritten"] = hooked && hookAddr != c.Addr
	if c.Down > 0 && recvComplete && !bytes.Equal(recv, down) {
		fail("client received %d of the %d bytes the target sent", len(recv), len(down))
	}
	if c.Logger {
		var ltx, lrx uint64
		ups := []uint64{}
		for _, l := range logs {
			ltx += l[0]
			lrx += l[1]
			if l[0] > 0 {
				ups = append(ups, l[0])
			}
		}
		res["ltx"], res["lrx"], res["uplogs"] = ltx, lrx, ups
		if badLog != "" {
			fail("bad logger arguments: %s", badLog)
		}
		if stats == nil || traced != 1 {
			fail("TraceStream called %d times for one stream", traced)
		} else {
			res["stx"], res["srx"] = stats.Tx.Load(), stats.Rx.Load()
			if !untraced {
				fail("stream not untraced 10 s after the relay was torn down")
			}
			if stats.Tx.Load() != uint64(len(got)) {
				fail("StreamStats.Tx = %d, the target received %d bytes (putback %d)", stats.Tx.Load(), len(got), len(hookPb))
			}
			if recvComplete && stats.Rx.Load() < uint64(len(recv)) {
				fail("StreamStats.Rx = %d, the client received %d bytes", stats.Rx.Load(), len(recv))
			}
			if stats.Rx.Load() > uint64(len(down)) {
				fail("StreamStats.Rx = %d, the target sent only %d bytes", stats.Rx.Load(), len(down))
			}
		}
		if ltx+uint64(len(hookPb)) != uint64(len(got)) {
			fail("LogTraffic approved tx=%d in total, but %d bytes were forwarded behind the %d-byte putback", ltx, len(got)-len(hookPb), len(hookPb))
		}
		if recvComplete && lrx < uint64(len(recv)) {
			fail("LogTraffic approved rx=%d, the client received %d bytes", lrx, len(recv))
		}
		if lrx > uint64(len(down)) {
			fail("LogTraffic approved rx=%d, the target sent only %d bytes", lrx, len(down))
		}
	}
	if _, done := res["ok"]; !done {
		res["ok"] = true
		res["why"] = ""
	}
	return res["ok"] == true
}

func TestVerifC06Sniff(t *testing.T) {
	out := vOpenOut(t, "VERIF_OUT")
	defer out.Close()
	defer func() {
		for _, e := range c06sEnvs {
			e.close()
		}
	}()
	for i, raw := range vReadCases(t) {
		var c c06sCase
		if err := json.Unmarshal(raw, &c); err != nil {
			t.Fatal(err)
		}
		res := map[string]any{"i": i, "k": c.K}
		reusable := false
		panicked, msg := vCatch(func() { reusable = c06sRun(i, c, res) })
		if panicked {
			res["ok"] = false
			res["why"] = "panic: " + msg
			res["panic"] = true
		}
		if !reusable {
			key := [2]bool{c.Logger, c.FastOpen}
			if e := c06sEnvs[key]; e != nil {
				e.close()
				delete(c06sEnvs, key)
			}
		}
		out.Emit(res)
	}
}
