//go:build verif

package server

// C06 harness, level (a): copyTwoWayEx / copyTwoWay (and through them copyBufferLog / io.Copy) of
// /repo's working tree are driven with a scripted fake client stream, a scripted fake target and a
// scripted traffic logger inside a testing/synctest bubble.  Every boundary call (Read, LogTraffic,
// Write, the return of the copy, the teardown calls) is appended to one log under one mutex at the
// moment its outcome is fixed, so the log is a linearisation of the run.  The log is replayed
// against the LTS of coq/model/C06_Relay.v by the driver; the verdict of the property on the
// implementation alone (prefix, completeness, log-before-write, accounting, veto) is computed here.
//
// The teardown after the copy returns (close target, close stream, close the QUIC connection iff
// the error is errDisconnect) is server.go:338-342 transcribed, because handleTCPRequest needs a
// real *quic.Conn; the real teardown - including the EventLogger.TCPError call that sits between the copy
// and the Close calls and reads the same err variable - is exercised and judged by level (b) in
// internal/integration_tests in every configuration (EventLogger present / absent x veto none / Up / Down:
// target closed, stream ended, QUIC connection closed iff vetoed), and compared there with
// coq/model/C06_Events.v, whose tail is proved to be this teardown (C06_tail_is_relay_teardown).
//
// Cases with a "req" object put the request in front of the client stream: the scripted stream first
// delivers the frame type, the address and the padding (in scripted segments) and then the payload,
// with the first payload segment optionally arriving in the same segment as the tail of the request
// (fast open: the client writes before the server has parsed the request).  The harness then does what
// ProxyStreamHijacker/handleTCPRequest do with a stream (server.go:246 and 276, transcribed):
// quicvarint.Read of the frame type, protocol.ReadTCPRequest(stream), and the two-way copy on the
// same stream.  Every byte the stream hands out before the copy starts is recorded ("Q" events), so
// client payload consumed by the request phase shows up as a source offset the relay never read.
//
// Cases with an "e2e" object (they also carry "req") run the whole server side of one connection on the fakes:
// the request in front of the client stream is the buffer the REAL protocol.WriteTCPRequest produces (random
// padding), it is parsed as above, the dial is faked (ok, or an error with a message), the response is written to
// the fake stream by the REAL protocol.WriteTCPResponse (server.go:308-323 transcribed: failure response + Close,
// or "Connected"), then the relay and the teardown run as for every other case.  The request and response
// frames are reported in hex; what the stream was handed after the response is the Down sink.  The client half
// (real client.TCP / tcpConn.Read on a real QUIC stream that is served these very bytes) runs in package client
// (c06_client_test.go); the driver joins the two and evaluates the composed model of coq/model/C06_E2E.v.

import (
	"bytes"
	"encoding/json"
	"fmt"
	"io"
	"runtime"
	"strconv"
	"sync"
	"testing"
	"testing/synctest"
	"time"
	"unsafe"

	"github.com/apernet/hysteria/core/v2/internal/protocol"
	"github.com/apernet/quic-go/quicvarint"
)

type c06Read struct {
	N     int    `json:"n"`     // bytes available in this segment (a Read returns min(len(p), what is left of it))
	Err   string `json:"err"`   // "", "eof", "err": delivered together with the last byte of the segment
	Delay int    `json:"delay"` // microseconds of (virtual) time before the first Read of this segment returns
}

type c06Write struct {
	Delay int    `json:"delay"`
	Short int    `json:"short"` // -1: whole chunk accepted; k >= 0: only min(k, len(p)) bytes accepted
	Err   string `json:"err"`   // "", "err", "eof"
}

type c06Log struct {
	Delay int  `json:"delay"`
	V     bool `json:"v"`
}

type c06Side struct {
	A      uint64     `json:"a"`
	B      uint64     `json:"b"`
	Reads  []c06Read  `json:"reads"`
	Writes []c06Write `json:"writes"` // behaviour of the sink this direction writes to
	Logs   []c06Log   `json:"logs"`   // behaviour of LogTraffic calls of this direction (argument position decides)
}

// c06Req: the request in front of the client stream (nil: the stream starts with the payload)
type c06Req struct {
	Addr string `json:"addr"`
	Pad  int    `json:"pad"`  // padding length
	Segs []int  `json:"segs"` // arrival of the request bytes (frame type, address, padding): segment lengths; what is left over arrives as one more segment
	Glue bool   `json:"glue"` // the first payload segment arrives together with the last request segment (one Read can return both)
}

// c06E2E: the dial of an end-to-end case ("" = connected; otherwise the message of the dial error)
type c06E2E struct {
	DialErr string `json:"dial_err"`
}

type c06Case struct {
	K        string  `json:"k"`
	Req      *c06Req `json:"req"`
	E2E      *c06E2E `json:"e2e"`
	Mode     string  `json:"mode"` // "logged" | "fast"
	Up       c06Side `json:"up"`
	Down     c06Side `json:"down"`
	Teardown int     `json:"teardown"` // microseconds between the return of the copy and the first Close
}

type c06FakeErr struct{ code int }

func (e c06FakeErr) Error() string { return "fake error " + strconv.Itoa(e.code) }

const (
	c06ErrScript      = 7
	c06ErrReadClosed  = 90
	c06ErrIdle        = 92
	c06ErrWriteClosed = 91
)

// 32-bit polynomial digest (cheap to evaluate inside Coq: no division)
func c06Digest(b []byte) uint64 {
	var h uint64
	for _, c := range b {
		h = (h*131 + uint64(c) + 1) & 0xffffffff
	}
	return h
}

func c06ErrOf(s string, code int) error {
	switch s {
	case "":
		return nil
	case "eof":
		return io.EOF
	default:
		return c06FakeErr{code}
	}
}

func c06Class(err error) string {
	switch {
	case err == nil:
		return "nil"
	case err == io.EOF:
		return "eof"
	case err == errDisconnect:
		return "disconnect"
	case err == io.ErrShortWrite:
		return "short"
	}
	if fe, ok := err.(c06FakeErr); ok {
		return "e" + strconv.Itoa(fe.code)
	}
	if err.Error() == "invalid write result" {
		return "invalid"
	}
	return "other:" + err.Error()
}

// one relay's share of a run: its boundary log.  In a cross-relay run ("xrelay") all relays of the bubble share
// ONE mutex and every event is also appended to the world's log, tagged with the relay and - for Read and
// Write - with the identity of the memory the code handed in, so the world log is one linearisation of all relays.
type c06Run struct {
	mu    *sync.Mutex
	trace [][]any
	idx   int
	world *c06World
}

// c06World: the log of a cross-relay run, [relay, buffer id, event...], and the interning of buffer addresses
type c06World struct {
	log [][]any
	ids map[uintptr]int
}

func (r *c06Run) rec(ev ...any) { r.recBuf(nil, ev...) }

// recBuf: p is the slice the code passed to Read / Write (nil for other events).  Called with mu held.
func (r *c06Run) recBuf(p []byte, ev ...any) {
	r.trace = append(r.trace, ev)
	if r.world == nil {
		return
	}
	id := -1
	if cap(p) > 0 {
		a := uintptr(unsafe.Pointer(unsafe.SliceData(p)))
		k, ok := r.world.ids[a]
		if !ok {
			k = len(r.world.ids)
			r.world.ids[a] = k
		}
		id = k
	}
	r.world.log = append(r.world.log, append([]any{r.idx, id}, ev...))
}

// c06End is one io.ReadWriter handed to the copy: reading it is the source of direction rd,
// writing it is the sink of direction wd.
type c06End struct {
	run    *c06Run
	rd, wd string // "U" / "D"
	a, b   uint64
	reads  []c06Read
	off    int // stream offset of the next source byte
	last   int // stream offset of the chunk the last Read returned
	from   *c06End // the end whose Read feeds what is written here
	hdr    []byte  // request bytes not yet handed out (they precede the source stream)
	hsegs  []int   // their arrival segments
	glue   bool
	writes []c06Write
	inResp bool   // the response frame is being written (before the relay): kept apart from the Down sink
	resp   []byte // the response frame
	sink   bytes.Buffer
	closed chan struct{}
	once   sync.Once
}

func (e *c06End) sleep(us int) {
	if us <= 0 {
		return
	}
	select {
	case <-e.closed:
	case <-time.After(time.Duration(us) * time.Microsecond):
	}
}

func (e *c06End) isClosed() bool {
	select {
	case <-e.closed:
		return true
	default:
		return false
	}
}

// readHdr: a Read while request bytes are still outstanding.  Returns what is left of the current
// request segment; when that was the last request byte, the segment is glued and p has room, the first
// payload segment follows in the same Read.  Called with run.mu held.
func (e *c06End) readHdr(p []byte) (int, error) {
	k := len(e.hdr)
	if len(e.hsegs) > 0 && e.hsegs[0] < k {
		k = e.hsegs[0]
	}
	if k > len(p) {
		k = len(p)
	}
	copy(p, e.hdr[:k])
	e.hdr = e.hdr[k:]
	if len(e.hsegs) > 0 {
		e.hsegs[0] -= k
		if e.hsegs[0] == 0 {
			e.hsegs = e.hsegs[1:]
		}
	}
	np := 0
	var err error
	if len(e.hdr) == 0 && e.glue && len(e.reads) > 0 {
		e.reads[0].Delay = 0 // it has arrived already
		if k < len(p) {
			seg := &e.reads[0]
			np = seg.N
			if np > len(p)-k {
				np = len(p) - k
			} else {
				err = c06ErrOf(seg.Err, c06ErrScript)
			}
			for i := 0; i < np; i++ {
				p[k+i] = byte((e.a*uint64(e.off+i) + e.b) % 256)
			}
			e.off += np
			seg.N -= np
			if seg.N == 0 {
				e.reads = e.reads[1:]
			}
		}
	}
	e.run.rec("Q", len(p), k, np, c06Class(err))
	return k + np, err
}

func (e *c06End) Read(p []byte) (int, error) {
	e.run.mu.Lock()
	if len(e.hdr) > 0 {
		defer e.run.mu.Unlock()
		if len(p) == 0 {
			return 0, nil
		}
		return e.readHdr(p)
	}
	var delay int
	exhausted := len(e.reads) == 0
	if !exhausted {
		delay = e.reads[0].Delay
		e.reads[0].Delay = 0
	}
	e.run.mu.Unlock()
	if exhausted {
		// nothing more to deliver: block until torn down, or until the peer gives up (virtual 10 minutes)
		select {
		case <-e.closed:
		case <-time.After(10 * time.Minute):
		}
	} else {
		e.sleep(delay)
	}
	e.run.mu.Lock()
	defer e.run.mu.Unlock()
	if e.isClosed() {
		e.run.recBuf(p, "R", e.rd, len(p), e.off, 0, "e"+strconv.Itoa(c06ErrReadClosed))
		return 0, c06FakeErr{c06ErrReadClosed}
	}
	if exhausted || len(e.reads) == 0 { // (second case: two readers on one end, only a broken relay does that)
		e.run.recBuf(p, "R", e.rd, len(p), e.off, 0, "e"+strconv.Itoa(c06ErrIdle))
		return 0, c06FakeErr{c06ErrIdle}
	}
	seg := &e.reads[0]
	k := seg.N
	var err error
	if k > len(p) {
		k = len(p)
	} else {
		err = c06ErrOf(seg.Err, c06ErrScript)
	}
	for i := 0; i < k; i++ {
		p[i] = byte((e.a*uint64(e.off+i) + e.b) % 256)
	}
	e.run.recBuf(p, "R", e.rd, len(p), e.off, k, c06Class(err))
	e.last = e.off
	e.off += k
	seg.N -= k
	if seg.N == 0 {
		e.reads = e.reads[1:]
	}
	return k, err
}

func (e *c06End) Write(p []byte) (int, error) {
	e.run.mu.Lock()
	if e.inResp {
		e.resp = append(e.resp, p...)
		e.run.rec("P", len(p))
		e.run.mu.Unlock()
		return len(p), nil
	}
	w := c06Write{Short: -1}
	if len(e.writes) > 0 {
		w = e.writes[0]
		e.writes = e.writes[1:]
	}
	e.run.mu.Unlock()
	e.sleep(w.Delay)
	e.run.mu.Lock()
	defer e.run.mu.Unlock()
	if e.isClosed() {
		e.run.recBuf(p, "W", e.wd, len(p), c06Digest(p), 0, "e"+strconv.Itoa(c06ErrWriteClosed), e.sliceOf(p))
		return 0, c06FakeErr{c06ErrWriteClosed}
	}
	nw := len(p)
	if w.Short >= 0 && w.Short < nw {
		nw = w.Short
	}
	err := c06ErrOf(w.Err, c06ErrScript)
	e.sink.Write(p[:nw])
	e.run.recBuf(p, "W", e.wd, len(p), c06Digest(p), nw, c06Class(err), e.sliceOf(p))
	return nw, err
}

// sliceOf: p compared byte by byte with the chunk the feeding end last returned; its stream offset, or -1.
// (Chunks above 2 KiB are compared with the model through this descriptor instead of a digest.)
func (e *c06End) sliceOf(p []byte) int {
	f := e.from
	for i := range p {
		if p[i] != byte((f.a*uint64(f.last+i)+f.b)%256) {
			return -1
		}
	}
	return f.last
}

func (e *c06End) Close() {
	e.once.Do(func() { close(e.closed) })
}

type c06Logger struct {
	run  *c06Run
	logs map[string][]c06Log
}

func (l *c06Logger) LogTraffic(id string, tx, rx uint64) bool {
	d := "?"
	if tx > 0 && rx == 0 {
		d = "U"
	} else if rx > 0 && tx == 0 {
		d = "D"
	}
	l.run.mu.Lock()
	e := c06Log{V: true}
	if s := l.logs[d]; len(s) > 0 {
		e = s[0]
		l.logs[d] = s[1:]
	}
	l.run.mu.Unlock()
	if e.Delay > 0 {
		time.Sleep(time.Duration(e.Delay) * time.Microsecond)
	}
	l.run.mu.Lock()
	defer l.run.mu.Unlock()
	l.run.rec("L", id, tx, rx, e.V)
	return e.V
}
func (l *c06Logger) LogOnlineState(id string, online bool)         {}
func (l *c06Logger) TraceStream(stream HyStream, stats *StreamStats) {}
func (l *c06Logger) UntraceStream(stream HyStream)                  {}

// c06Rel: one relayed connection of a run: the scripted ends, its logger, its log, what the copy returned
type c06Rel struct {
	c              c06Case
	id             string
	run            *c06Run
	stream, target *c06End
	logger         *c06Logger
	stats          *StreamStats
	err            error
	connClosed     bool
	reqAddr        string
	reqErr         string
	reqFT          uint64
	reqHdr         []byte
	dialed         bool
}

// c06NewRel builds the fakes of one relay.  Must be called inside the synctest bubble: channels made outside
// make waiting on them not count as durably blocked.
func c06NewRel(c c06Case, run *c06Run, id string) *c06Rel {
	r := &c06Rel{c: c, id: id, run: run, stats: &StreamStats{}}
	r.stream = &c06End{run: run, rd: "U", wd: "D", a: c.Up.A, b: c.Up.B, reads: append([]c06Read(nil), c.Up.Reads...),
		writes: append([]c06Write(nil), c.Down.Writes...), closed: make(chan struct{})}
	r.target = &c06End{run: run, rd: "D", wd: "U", a: c.Down.A, b: c.Down.B, reads: append([]c06Read(nil), c.Down.Reads...),
		writes: append([]c06Write(nil), c.Up.Writes...), closed: make(chan struct{})}
	r.stream.from, r.target.from = r.target, r.stream
	r.logger = &c06Logger{run: run, logs: map[string][]c06Log{
		"U": append([]c06Log(nil), c.Up.Logs...), "D": append([]c06Log(nil), c.Down.Logs...)}}
	return r
}

// serve: what the server does with one accepted stream: the request phase (cases with "req"), the two-way copy,
// the teardown.  Returns when the handler would return; the copy loop that did not finish first may still run.
func (r *c06Rel) serve() {
	c, run, stream, target := r.c, r.run, r.stream, r.target
	if c.Req != nil {
		// what the client wrote on the stream ahead of its payload (the frame WriteTCPRequest produces)
		hdr := quicvarint.Append(nil, protocol.FrameTypeTCPRequest)
		hdr = quicvarint.Append(hdr, uint64(len(c.Req.Addr)))
		hdr = append(hdr, c.Req.Addr...)
		hdr = quicvarint.Append(hdr, uint64(c.Req.Pad))
		hdr = append(hdr, bytes.Repeat([]byte{'p'}, c.Req.Pad)...)
		if c.E2E != nil {
			// the client's own writer (client.go:199): frame type, address, padding drawn by the code
			var wb bytes.Buffer
			if werr := protocol.WriteTCPRequest(&wb, c.Req.Addr); werr != nil {
				panic("WriteTCPRequest: " + werr.Error())
			}
			hdr = append([]byte(nil), wb.Bytes()...)
		}
		r.reqHdr = append([]byte(nil), hdr...)
		stream.hdr, stream.glue = hdr, c.Req.Glue
		left := len(hdr)
		for _, n := range c.Req.Segs {
			if n > 0 && n < left {
				stream.hsegs = append(stream.hsegs, n)
				left -= n
			}
		}
		stream.hsegs = append(stream.hsegs, left)
		// server.go:246 (ProxyStreamHijacker) and server.go:276 (handleTCPRequest)
		ft, ferr := quicvarint.Read(quicvarint.NewReader(stream))
		var addr string
		var rerr error
		if ferr == nil {
			addr, rerr = protocol.ReadTCPRequest(stream)
		}
		r.reqAddr, r.reqFT, r.reqErr = addr, ft, c06Class(ferr)
		if ferr == nil {
			r.reqErr = c06Class(rerr)
		}
		run.mu.Lock()
		run.rec("A", r.reqErr)
		run.mu.Unlock()
		if r.reqErr != "nil" {
			stream.Close() // server.go:278
			return
		}
	}
	if c.E2E != nil {
		// server.go:306-323 for a connection no hook intercepts, the dial faked
		if c.E2E.DialErr != "" {
			stream.inResp = true
			_ = protocol.WriteTCPResponse(stream, false, c.E2E.DialErr)
			stream.inResp = false
			run.mu.Lock()
			stream.Close()
			run.rec("CS")
			run.mu.Unlock()
			return
		}
		r.dialed = true
		stream.inResp = true
		_ = protocol.WriteTCPResponse(stream, true, "Connected")
		stream.inResp = false
	}
	var err error
	if c.Mode == "fast" {
		err = copyTwoWay(stream, target)
	} else {
		err = copyTwoWayEx(r.id, stream, target, r.logger, r.stats)
	}
	r.err = err
	run.mu.Lock()
	run.rec("F", c06Class(err))
	run.mu.Unlock()
	if c.Teardown > 0 {
		time.Sleep(time.Duration(c.Teardown) * time.Microsecond)
	}
	// server.go:338-342
	run.mu.Lock()
	target.Close()
	run.rec("CT")
	run.mu.Unlock()
	run.mu.Lock()
	stream.Close()
	run.rec("CS")
	run.mu.Unlock()
	if err == errDisconnect {
		run.mu.Lock()
		r.connClosed = true
		run.rec("CC")
		run.mu.Unlock()
	}
}

// result: the relay's outputs and the verdict of the property on this relay alone.  Called after the bubble ended.
func (r *c06Rel) result(res map[string]any) {
	c, run, stream, target := r.c, r.run, r.stream, r.target
	res["ret"] = c06Class(r.err)
	res["tx"] = r.stats.Tx.Load()
	res["rx"] = r.stats.Rx.Load()
	res["sink_up"] = []uint64{uint64(target.sink.Len()), c06Digest(target.sink.Bytes())}
	res["sink_down"] = []uint64{uint64(stream.sink.Len()), c06Digest(stream.sink.Bytes())}
	ok, why, facts := c06Verdict(c, run.trace, r.err, r.connClosed,
		map[string]*c06End{"U": stream, "D": target}, map[string]*c06End{"U": target, "D": stream})
	if c.Req != nil {
		// the request phase on a well-formed request: accepted, with the address the client wrote
		res["req_err"], res["req_addr_ok"] = r.reqErr, r.reqAddr == c.Req.Addr
		early := 0
		for _, ev := range run.trace {
			if ev[0].(string) == "Q" {
				early += ev[3].(int)
			}
		}
		res["req_early"] = early // payload bytes the stream handed out before the copy started
		facts["req_early"] = early
		if c.E2E != nil {
			res["req_hex"] = vHex(r.reqHdr)
			res["resp_hex"] = vHex(stream.resp)
			res["dialed"] = r.dialed
			// the Down sink as a stretch of the target's stream: what the client half is served behind the response
			sinkOK := true
			sb := stream.sink.Bytes()
			for i := range sb {
				if sb[i] != byte((target.a*uint64(i)+target.b)%256) {
					sinkOK = false
					break
				}
			}
			res["sink_down_is_prefix"] = sinkOK
			if ok && r.reqErr == "nil" && len(stream.resp) == 0 {
				ok, why = false, "the request was accepted but no response frame was written to the stream"
			}
			if ok && c.E2E.DialErr != "" && (stream.sink.Len() != 0 || target.sink.Len() != 0) {
				ok, why = false, fmt.Sprintf("failed dial: %d bytes reached the client stream and %d the target", stream.sink.Len(), target.sink.Len())
			}
		}
		if ok {
			switch {
			case r.reqErr != "nil":
				ok, why = false, fmt.Sprintf("request: a well-formed request (address of %d bytes, padding %d) was rejected with %s", len(c.Req.Addr), c.Req.Pad, r.reqErr)
			case r.reqFT != protocol.FrameTypeTCPRequest || r.reqAddr != c.Req.Addr:
				ok, why = false, fmt.Sprintf("request: parsed frame type %d address %q, the client wrote %q", r.reqFT, r.reqAddr, c.Req.Addr)
			}
		}
	}
	res["ok"] = ok
	res["why"] = c06Stable(why) // numbers go to "detail" so that equal failures collapse into one report
	res["detail"] = why
	res["facts"] = facts
}

func c06RunRelay(t *testing.T, c c06Case, res map[string]any) {
	run := &c06Run{mu: &sync.Mutex{}}
	var rel *c06Rel
	synctest.Test(t, func(t *testing.T) {
		rel = c06NewRel(c, run, "u1")
		rel.serve()
		time.Sleep(time.Hour) // virtual: every scripted delay is far shorter
		synctest.Wait()       // the other loop has run into the closed ends and finished
	})
	run.mu.Lock()
	defer run.mu.Unlock()
	res["trace"] = run.trace
	rel.result(res)
}

// ---- cross-relay runs ("xrelay"): several relays alive in one bubble, all going through the real copyBufPool.
// Each relay has its own scripted ends, logger and payload pattern (distinct multipliers, so two chunks of two
// bytes or more from different streams never coincide); relay i starts `start` microseconds into the run.  The
// property is judged per relay, on that relay's own log and sinks, exactly as for a single relay: what its sinks
// hold is a prefix of what ITS sources produced, every chunk written is the chunk that loop just read, ... -
// only now with other relays starting, forwarding and being torn down around it (a loop of an ended relay still
// parked in Read, late bytes arriving between the return of the copy and the Close of the ends, another relay
// holding a chunk inside LogTraffic or a slow Write meanwhile).
// GOMAXPROCS is 1 for the duration of such a run: sync.Pool is per-P, so with one P the order in which buffers
// put back are handed out again is deterministic (most recent first) and a run is reproducible from its case.
type c06XRelay struct {
	c06Case
	Start int `json:"start"`
}

type c06XCase struct {
	K      string      `json:"k"`
	Relays []c06XRelay `json:"relays"`
}

func c06RunX(t *testing.T, xc c06XCase, res map[string]any) {
	defer runtime.GOMAXPROCS(runtime.GOMAXPROCS(1))
	mu := &sync.Mutex{}
	world := &c06World{ids: map[uintptr]int{}}
	rels := make([]*c06Rel, len(xc.Relays))
	synctest.Test(t, func(t *testing.T) {
		for i := range xc.Relays {
			rels[i] = c06NewRel(xc.Relays[i].c06Case, &c06Run{mu: mu, idx: i, world: world}, "u"+strconv.Itoa(i+1))
		}
		for i := range rels {
			go func(r *c06Rel, start int) {
				if start > 0 {
					time.Sleep(time.Duration(start) * time.Microsecond)
				}
				r.serve()
			}(rels[i], xc.Relays[i].Start)
		}
		time.Sleep(time.Hour)
		synctest.Wait()
	})
	mu.Lock()
	defer mu.Unlock()
	res["xtrace"] = world.log
	res["nbuf"] = len(world.ids)
	ok, why, detail, bad := true, "", "", -1
	rr := make([]map[string]any, len(rels))
	for i, r := range rels {
		rr[i] = map[string]any{}
		r.result(rr[i])
		if ok && rr[i]["ok"] == false {
			ok, why, bad = false, rr[i]["why"].(string), i
			detail = fmt.Sprintf("relay %d of %d (id %s): %s%s", i, len(rels), r.id, rr[i]["detail"], c06Foreign(rels, i))
		}
	}
	res["rel"] = rr
	res["ok"], res["why"], res["detail"], res["bad_relay"] = ok, why, detail, bad
	res["facts"] = c06XFacts(world.log, len(rels))
}

// c06Foreign: diagnostics for a relay whose sink does not hold a prefix of its own source: does the stretch where
// the sink departs from the relay's own stream follow the pattern of another relay's stream?
func c06Foreign(rels []*c06Rel, i int) string {
	r := rels[i]
	for _, d := range []struct {
		name     string
		src, snk *c06End
	}{{"U", r.stream, r.target}, {"D", r.target, r.stream}} {
		got := d.snk.sink.Bytes()
		at := -1
		for k := range got {
			if got[k] != byte((d.src.a*uint64(k)+d.src.b)%256) {
				at = k
				break
			}
		}
		if at < 0 || at+3 > len(got) {
			continue
		}
		for j, o := range rels {
			if j == i {
				continue
			}
			for _, e := range []struct {
				name string
				end  *c06End
			}{{"client stream", o.stream}, {"target", o.target}} {
				if got[at+1]-got[at] == byte(e.end.a) && got[at+2]-got[at+1] == byte(e.end.a) {
					return fmt.Sprintf("; direction %s: from offset %d the sink holds bytes of the %s of relay %d (another connection)", d.name, at, e.name, j)
				}
			}
		}
		return fmt.Sprintf("; direction %s: the sink departs from the relay's own stream at offset %d", d.name, at)
	}
	return ""
}

// c06XFacts: what kind of overlap the run had (coverage only, no verdict):
// late = a loop of a relay got bytes from a Read after that relay's copy had returned (before the ends were closed);
// inflight = while that happened another relay had a chunk between its Read and the end of its Write.
func c06XFacts(log [][]any, n int) map[string]any {
	returned := make([]bool, n)
	type key struct {
		r int
		d string
	}
	open := map[key]bool{} // chunk read, Write not finished
	late, inflight, fwd := 0, 0, 0
	for _, ev := range log {
		r := ev[0].(int)
		switch ev[2].(string) {
		case "F":
			returned[r] = true
		case "R":
			k := key{r, ev[3].(string)}
			if ev[6].(int) > 0 {
				if returned[r] {
					late++
					for o, v := range open {
						if v && o.r != r {
							inflight++
							break
						}
					}
				}
				open[k] = true
			}
		case "W":
			open[key{r, ev[3].(string)}] = false
			if ev[6].(int) > 0 {
				fwd++
			}
		}
	}
	return map[string]any{"relays": n, "late_reads": late, "inflight_across_late_read": inflight, "writes": fwd}
}

func c06Stable(s string) string {
	out := make([]byte, 0, len(s))
	prevDigit := false
	for i := 0; i < len(s); i++ {
		if s[i] >= '0' && s[i] <= '9' {
			if !prevDigit {
				out = append(out, '#')
			}
			prevDigit = true
			continue
		}
		prevDigit = false
		out = append(out, s[i])
	}
	return string(out)
}

// c06Verdict evaluates the property on the recorded run, without the model.
// src[d] is the end whose Read feeds direction d, snk[d] the end whose Write receives it.
func c06Verdict(c c06Case, trace [][]any, ret error, connClosed bool, src, snk map[string]*c06End) (bool, string, map[string]any) {
	facts := map[string]any{}
	side := map[string]c06Side{"U": c.Up, "D": c.Down}
	logged := c.Mode != "fast"
	anyVeto := false
	contractBroken := false
	// what each loop has to return, and where in the log that was decided (independent reading of copy.go:24-43)
	term := map[string]string{}
	termAt := map[string]int{}
	firstAt := -1
	for i, ev := range trace {
		if ev[0].(string) == "F" {
			firstAt = i
		}
	}
	for _, d := range []string{"U", "D"} {
		// whole byte stream the source of d would produce
		total := 0
		for _, r := range side[d].Reads {
			total += r.N
		}
		all := vGenData(src[d].a, src[d].b, total)
		got := snk[d].sink.Bytes()
		var (
			readBytes              int
			approved, lastApproved uint64
			pendingLog             = false // an approved LogTraffic not yet followed by its Write
			vetoed, sawEOF         bool
			writeFault             bool
			lastChunk              []byte
			lastLogN               uint64
			broken                 bool
			pendingErr             string
			sunk                   int // bytes the sink accepted so far
		)
		setTerm := func(i int, cls string) {
			if _, done := term[d]; !done {
				term[d] = cls
				termAt[d] = i
			}
		}
		retOf := func(cls string) string {
			if cls == "eof" {
				return "nil"
			}
			return cls
		}
		for i, ev := range trace {
			switch ev[0].(string) {
			case "R":
				if ev[1].(string) != d {
					continue
				}
				off, n := ev[3].(int), ev[4].(int)
				readBytes += n
				lastChunk = all[off : off+n]
				if ev[5].(string) == "eof" {
					sawEOF = true
				}
				pendingErr = ""
				if ev[5].(string) != "nil" {
					if n == 0 {
						setTerm(i, retOf(ev[5].(string)))
					} else {
						pendingErr = ev[5].(string)
					}
				}
				if vetoed {
					return false, fmt.Sprintf("%s: Read after the logger vetoed in this direction", d), facts
				}
			case "L":
				tx, rx, v := ev[2].(uint64), ev[3].(uint64), ev[4].(bool)
				if (tx > 0) == (rx > 0) {
					return false, fmt.Sprintf("LogTraffic(%d,%d): exactly one of tx/rx must be non-zero", tx, rx), facts
				}
				if (d == "U") != (tx > 0) {
					continue
				}
				n := tx + rx
				if vetoed {
					return false, fmt.Sprintf("%s: LogTraffic after a veto in the same direction", d), facts
				}
				if !v {
					vetoed = true
					anyVeto = true
					setTerm(i, "disconnect")
					continue
				}
				approved += n
				lastApproved = n
				lastLogN = n
				pendingLog = true
			case "W":
				if ev[1].(string) != d {
					continue
				}
				ln, nw, ec := ev[2].(int), ev[4].(int), ev[5].(string)
				if vetoed {
					return false, fmt.Sprintf("%s: %d bytes written after the logger vetoed", d, ln), facts
				}
				if logged {
					if !pendingLog || lastLogN != uint64(ln) {
						return false, fmt.Sprintf("%s: Write of %d bytes not preceded by an approving LogTraffic of the same size in the same argument position", d, ln), facts
					}
					pendingLog = false
				}
				if ln != len(lastChunk) || ev[3].(uint64) != c06Digest(lastChunk) {
					return false, fmt.Sprintf("%s: the chunk written (%d bytes) is not the chunk just read (%d bytes)", d, ln, len(lastChunk)), facts
				}
				// identity, not only value (the source pattern is periodic): the chunk handed to the sink must be the
				// stretch of the sender's stream that starts where the sink's content ends
				if so := ev[6].(int); so >= 0 && so != sunk && !broken && ln > 0 {
					return false, fmt.Sprintf("%s: the sink holds the first %d bytes the sender sent and is handed the stretch starting at offset %d: %d bytes of the sender's stream never reach it", d, sunk, so, so-sunk), facts
				}
				if nw > 0 {
					sunk += nw
				}
				if nw < ln && ec == "nil" {
					broken = true
					contractBroken = true
				}
				if nw < ln || ec != "nil" {
					writeFault = true
				}
				if ec != "nil" {
					setTerm(i, ec)
				} else if pendingErr != "" {
					setTerm(i, retOf(pendingErr))
				}
			}
		}
		facts["read_"+d] = readBytes
		facts["fwd_"+d] = len(got)
		facts["approved_"+d] = approved
		facts["eof_"+d] = sawEOF
		facts["veto_"+d] = vetoed
		facts["wfault_"+d] = writeFault
		if broken {
			continue // the sink broke the io.Writer contract (n < len(p) with a nil error): outside the property
		}
		if len(got) > len(all) || !bytes.Equal(got, all[:len(got)]) {
			return false, fmt.Sprintf("%s: the %d bytes delivered are not a prefix of the %d bytes sent", d, len(got), len(all)), facts
		}
		if len(got) > readBytes {
			return false, fmt.Sprintf("%s: delivered %d bytes but only %d were read", d, len(got), readBytes), facts
		}
		if sawEOF && !vetoed && !writeFault && len(got) != len(all) {
			return false, fmt.Sprintf("%s: the sender finished (EOF read, no veto, no failed write) but only %d of %d bytes were delivered", d, len(got), len(all)), facts
		}
		if logged {
			diff := int64(approved) - int64(len(got))
			if diff < 0 || uint64(diff) > lastApproved {
				return false, fmt.Sprintf("%s: logger approved %d bytes, %d forwarded: differs by more than the chunk in flight (%d)", d, approved, len(got), lastApproved), facts
			}
			if diff != 0 && !writeFault && !pendingLog {
				return false, fmt.Sprintf("%s: logger approved %d bytes but %d were forwarded, with no chunk in flight", d, approved, len(got)), facts
			}
			if pendingLog {
				return false, fmt.Sprintf("%s: an approved chunk of %d bytes was never handed to the sink", d, lastLogN), facts
			}
		}
	}
	facts["veto"] = anyVeto
	facts["contract_broken"] = contractBroken
	if anyVeto && !connClosed {
		// known class: the loop that was NOT vetoed had already finished, and it is its result the copy returned
		for _, d := range []string{"U", "D"} {
			o := map[string]string{"U": "D", "D": "U"}[d]
			if term[d] == "disconnect" && term[o] != "" && term[o] != "disconnect" && term[o] == c06Class(ret) && termAt[o] < firstAt {
				return false, fmt.Sprintf("veto-swallowed: the logger vetoed in %s but the copy returned %q, the result of direction %s which finished first; the user's connection is not closed", d, c06Class(ret), o), facts
			}
		}
		return false, fmt.Sprintf("veto-ignored: the logger vetoed but the copy returned %q and the user's connection is not closed", c06Class(ret)), facts
	}
	if connClosed && !anyVeto {
		return false, "connection closed for traffic limit without a veto", facts
	}
	return true, "", facts
}

func TestVerifC06(t *testing.T) {
	bp := copyBufPool.Get().(*[]byte)
	bufSize := len(*bp)
	copyBufPool.Put(bp)
	vParams(t, [][3]string{
		{"CopyBufSize", "N", strconv.Itoa(bufSize)},
	})
	out := vOpenOut(t, "VERIF_OUT")
	defer out.Close()
	for i, raw := range vReadCases(t) {
		var c c06Case
		if err := json.Unmarshal(raw, &c); err != nil {
			t.Fatal(err)
		}
		res := map[string]any{"i": i, "k": c.K}
		var xc c06XCase
		if c.K == "xrelay" {
			if err := json.Unmarshal(raw, &xc); err != nil {
				t.Fatal(err)
			}
		}
		panicked, msg := vCatch(func() {
			if c.K == "xrelay" {
				c06RunX(t, xc, res)
			} else {
				c06RunRelay(t, c, res)
			}
		})
		if panicked {
			res["ok"] = false
			res["why"] = "panic: " + msg
			res["panic"] = true
		}
		out.Emit(res)
	}
}
