//go:build verif

package server

// C07 stress histories: the REAL udpSessionManager.Run loop under REAL concurrency (no synctest bubble, real clock).
//
// The synctest histories of c07_test.go sweep at instants of the fake clock, i.e. while every other goroutine is
// durably blocked: a sweep never runs BETWEEN two statements of feed() or of an exit function.  Here the receive
// loop is fed with thousands of datagrams of fresh session ids (sessions that end at once: refused by the remote,
// dial refused, hook refused, SendMessage failing; a bounded number that stay; fragment-only ones) while one to three
// goroutines call cleanup(true) back to back (many sweeper ticks compressed into a loop, next to the manager's own
// ticker), then the connection is lost while the sweeps go on (cleanup(false) overlapping cleanup(true) and the exit
// functions of reply loops), then the sweeps stop.
//
// Verdicts on the implementation alone (all sound whatever the scheduling, see c07sVerdict):
//   safety    every complete datagram of a fresh id calls the hook, logs New, dials and is written to that socket
//             (as far as the injected fault of its kind lets it); a session is never reported closed with a nil
//             error (= idle / final cleanup) before the connection is lost unless the latest datagram of its id was
//             handed to the receive loop more than the idle timeout earlier; exactly one Close event per session;
//             every socket closed exactly once; replies go back tagged with the owner's id.
//   liveness  a progress watchdog: the receive loop, every sweeper, Run's return after the connection loss, the
//             sweepers' return and the exit of every goroutine of the manager must make progress; no progress for
//             c07sStall of real time while the process itself is being scheduled (heartbeat goroutine) is a wedge,
//             reported with the dump of the manager's goroutines.  At the end Count() == 0, nothing left running.

import (
	"errors"
	"fmt"
	"regexp"
	"runtime"
	"sort"
	"strings"
	"sync"
	"sync/atomic"
	"time"

	"github.com/apernet/hysteria/core/v2/internal/protocol"
)

type c07sCase struct {
	K         string `json:"k"`
	N         int    `json:"n"`        // datagrams handed to the receive loop
	TimeoutMs int    `json:"timeout"`  // idle timeout of the manager
	Seed      uint64 `json:"seed"`     // kinds of the sessions, choice of "again" datagrams
	Base      uint32 `json:"base"`     // first session id (ids are base+i, wrapping)
	Sweepers  int    `json:"sweepers"` // goroutines calling cleanup(true) back to back
	Yield     int    `json:"yield"`    // a sweeper yields the processor every `yield` sweeps (0: never)
	Pace      int    `json:"pace"`     // the receive side yields every `pace` datagrams (0: never)
	NapEvery  int    `json:"napevery"` // the receive side sleeps NapUs microseconds every `napevery` datagrams (0: never)
	NapUs     int    `json:"napus"`
	Mix       []int  `json:"mix"`     // weights of the session kinds, in the order of the c07k constants
	MaxStay   int    `json:"maxstay"` // bound on the sessions that stay in the table until the connection is lost
	Again     int    `json:"again"`   // per mille of the datagrams that go to a session that stays instead of a fresh id
	Procs     int    `json:"procs"`   // GOMAXPROCS during the history (0: unchanged)
	Counters  int    `json:"counters"` // goroutines calling Count() in a loop
	CapMs     int    `json:"capms"`   // feeding phase is cut (not a violation) after this much real time
}

const (
	c07kRefuse   = iota // dial ok; the remote refuses the datagram: the reply loop's next read fails
	c07kDialFail        // UDP() fails
	c07kHookFail        // Hook() fails
	c07kStay            // dial ok; the session stays until the connection is lost
	c07kEcho            // dial ok; one reply comes back (must reach SendMessage tagged with the id), then a read error
	c07kFrag            // never-completed fragment: an entry without a socket
	c07kSendFail        // dial ok; one reply comes back and SendMessage fails: the reply loop ends the session
	c07kKinds
)

var c07kNames = [...]string{"refuse", "dialfail", "hookfail", "stay", "echo", "frag", "sendfail"}

const (
	c07sStall    = 20 * time.Second  // no progress for this long, with the process being scheduled, is a wedge
	c07sStallMax = 150 * time.Second // ... whatever the heartbeat says
	c07sBeats    = 2000              // heartbeats (1 ms sleeps) that must have elapsed inside a stall window
)

var (
	errC07sClosed  = errors.New("c07s: use of closed socket")
	errC07sRefused = errors.New("c07s: connection refused")
	errC07sFault   = errors.New("c07s: injected fault")
	errC07sLost    = errors.New("c07s: connection lost")
)

type c07sSlot struct {
	kind     int32
	used     atomic.Bool
	recvN    atomic.Int32 // datagrams of this id handed to the receive loop
	complN   atomic.Int32 // ... complete ones
	firstT   int64 // ns: first datagram handed out (under env.recvMu)
	lastT    int64 // ns: latest datagram handed out (under env.recvMu)
	prevT    int64 // ns: the one before (under env.recvMu)
	hookN    atomic.Int32
	newN     atomic.Int32
	dialN    atomic.Int32
	dialOk   atomic.Int32
	writeN   atomic.Int32 // successful writes to the session's socket
	writeBad atomic.Int32 // writes of a datagram that carries another session's id, or to a closed socket
	readN    atomic.Int32 // datagrams ReadFrom returned with a nil error
	sendN    atomic.Int32 // SendMessage calls stamped with this id carrying a datagram read from its socket
	sendBad  atomic.Int32 // SendMessage calls with the wrong id / tag
	closeNil atomic.Int32
	closeErr atomic.Int32
	closeT   atomic.Int64 // ns of the first Close event
	closeAge atomic.Int64 // ns between the latest datagram handed out before the first nil Close event and that event
	earlyNil atomic.Int32 // nil Close events logged before the connection was lost
	conn     atomic.Pointer[c07sConn]
	socks    atomic.Int32 // sockets dialed for this id
}

type c07sConn struct {
	env    *c07sEnv
	slot   *c07sSlot
	sid    uint32
	closed chan struct{}
	rd     chan int // 1: a datagram from the remote; 2: a read error
	closes atomic.Int32
	first  atomic.Bool
}

type c07sEnv struct {
	c     c07sCase
	t0    time.Time
	slots []c07sSlot
	kinds []int

	// receive side (touched by the receive loop's goroutine only, except the atomics)
	next     int // datagrams handed out
	fresh    int // fresh ids handed out
	stayers  []uint32
	fragLeft map[uint32]bool
	cur      *c07sSlot
	curSid   uint32
	seq      uint64
	consumed atomic.Int64
	cut      atomic.Bool
	lose     chan struct{}
	lostT    atomic.Int64 // ns at which ReceiveMessage returned its error (0: not yet)
	total    atomic.Int64 // datagrams handed out when the feeding phase ended

	recvMu   sync.Mutex // firstT / lastT / prevT of the slots, inflight
	inflight uint32     // id of the datagram handed out last (its Feed may not have stamped Last yet)

	closes  atomic.Int64 // Close events (progress of the teardown)
	strays  atomic.Int64 // boundary calls naming an id that was never handed out
	socks   atomic.Int64
	sockMu  sync.Mutex
	allSock []*c07sConn
}

func c07sMix64(x uint64) uint64 {
	x += 0x9e3779b97f4a7c15
	x = (x ^ (x >> 30)) * 0xbf58476d1ce4e5b9
	x = (x ^ (x >> 27)) * 0x94d049bb133111eb
	return x ^ (x >> 31)
}

func (e *c07sEnv) ns() int64 { return int64(time.Since(e.t0)) + 1 }

func (e *c07sEnv) slotOf(sid uint32) *c07sSlot {
	i := sid - e.c.Base
	if int64(i) >= int64(len(e.slots)) || !e.slots[i].used.Load() {
		e.strays.Add(1)
		return nil
	}
	return &e.slots[i]
}

func c07sData(sid uint32, seq uint64) []byte {
	b := make([]byte, 12)
	for i := 0; i < 4; i++ {
		b[i] = byte(sid >> (24 - 8*i))
	}
	for i := 0; i < 8; i++ {
		b[4+i] = byte(seq >> (56 - 8*i))
	}
	return b
}

func c07sSid(b []byte) (uint32, bool) {
	if len(b) != 12 {
		return 0, false
	}
	return uint32(b[0])<<24 | uint32(b[1])<<16 | uint32(b[2])<<8 | uint32(b[3]), true
}

// ---- udpIO

func (e *c07sEnv) ReceiveMessage() (*protocol.UDPMessage, error) {
	if e.next >= e.c.N || e.cut.Load() {
		if e.total.Load() == 0 {
			e.total.Store(int64(e.next) + 1)
		}
		<-e.lose
		e.lostT.Store(e.ns())
		return nil, errC07sLost
	}
	j := e.next
	e.next++
	if e.c.Pace > 0 && j%e.c.Pace == e.c.Pace-1 {
		runtime.Gosched()
	}
	if e.c.NapEvery > 0 && j%e.c.NapEvery == e.c.NapEvery-1 {
		time.Sleep(time.Duration(e.c.NapUs) * time.Microsecond)
	}
	r := c07sMix64(e.c.Seed ^ uint64(j)*0x51ed27)
	e.seq++
	var sid uint32
	complete := true
	if len(e.stayers) > 0 && int(r%1000) < e.c.Again {
		// a later datagram of a session that is still there (a fragment-only one gets its socket now)
		sid = e.stayers[int((r>>20)%uint64(len(e.stayers)))]
	} else {
		i := e.fresh
		e.fresh++
		sid = e.c.Base + uint32(i)
		s := &e.slots[i]
		k := e.kinds[i]
		if (k == c07kStay || k == c07kFrag) && len(e.stayers) >= e.c.MaxStay {
			k = c07kRefuse
		}
		s.kind = int32(k)
		s.used.Store(true)
		if k == c07kStay || k == c07kFrag {
			e.stayers = append(e.stayers, sid)
		}
		if k == c07kFrag {
			complete = false
			e.fragLeft[sid] = true
		}
	}
	s := &e.slots[sid-e.c.Base]
	if e.fragLeft[sid] && complete {
		delete(e.fragLeft, sid)
	}
	e.cur, e.curSid = s, sid
	m := &protocol.UDPMessage{SessionID: sid, PacketID: 0, FragID: 0, FragCount: 1, Addr: "target.example:53", Data: c07sData(sid, e.seq)}
	if !complete {
		m.PacketID, m.FragCount = uint16(e.seq%60000)+1, 2
	}
	e.recvMu.Lock()
	now := e.ns()
	if s.firstT == 0 {
		s.firstT = now
	}
	s.prevT, s.lastT = s.lastT, now
	e.inflight = sid
	s.recvN.Add(1)
	e.recvMu.Unlock()
	if complete {
		s.complN.Add(1)
	}
	e.consumed.Add(1)
	return m, nil
}

func (e *c07sEnv) SendMessage(buf []byte, m *protocol.UDPMessage) error {
	s := e.slotOf(m.SessionID)
	if s == nil {
		return nil
	}
	if from, ok := c07sSid(m.Data); !ok || from != m.SessionID {
		s.sendBad.Add(1) // a datagram read from another session's socket
	} else {
		s.sendN.Add(1)
	}
	if s.kind == c07kSendFail {
		return errC07sFault
	}
	return nil
}

func (e *c07sEnv) Hook(data []byte, reqAddr *string) error {
	s := e.cur // DialFunc runs on the receive loop's goroutine
	if sid, ok := c07sSid(data); !ok || sid != e.curSid {
		e.strays.Add(1)
	}
	s.hookN.Add(1)
	if s.kind == c07kHookFail {
		return errC07sFault
	}
	return nil
}

func (e *c07sEnv) UDP(reqAddr string) (UDPConn, error) {
	s := e.cur
	s.dialN.Add(1)
	if s.kind == c07kDialFail {
		return nil, errC07sRefused
	}
	c := &c07sConn{env: e, slot: s, sid: e.curSid, closed: make(chan struct{}), rd: make(chan int, 4)}
	s.dialOk.Add(1)
	s.socks.Add(1)
	s.conn.Store(c)
	e.socks.Add(1)
	e.sockMu.Lock()
	e.allSock = append(e.allSock, c)
	e.sockMu.Unlock()
	return c, nil
}

func (e *c07sEnv) CheckUDP(reqAddr string) error { return nil }

// ---- udpEventLogger

type c07sLogger struct{ e *c07sEnv }

func (l c07sLogger) New(sid uint32, reqAddr string) {
	if s := l.e.slotOf(sid); s != nil {
		s.newN.Add(1)
	}
}

func (l c07sLogger) Close(sid uint32, err error) {
	e := l.e
	now := e.ns()
	lost := e.lostT.Load() != 0
	e.closes.Add(1)
	s := e.slotOf(sid)
	if s == nil {
		return
	}
	s.closeT.CompareAndSwap(0, now)
	if err == nil {
		if s.closeNil.Add(1) == 1 {
			// the traffic this Close event is measured against: the latest datagram of the id handed to the receive loop.
			// Every datagram but the one handed out last has been fed completely (Last stamped at or after its hand-out);
			// the one in flight counts when it is the id's first (the entry cannot be older than the datagram that
			// creates it), otherwise the one before it does.
			e.recvMu.Lock()
			ref := s.lastT
			if e.inflight == sid && s.prevT != 0 {
				ref = s.prevT
			}
			e.recvMu.Unlock()
			s.closeAge.Store(now - ref)
		}
		if !lost {
			s.earlyNil.Add(1)
		}
	} else {
		s.closeErr.Add(1)
	}
}

// ---- UDPConn

func (c *c07sConn) ReadFrom(b []byte) (int, string, error) {
	select {
	case <-c.closed:
		return 0, "", errC07sClosed
	case k := <-c.rd:
		if k == 1 {
			c.slot.readN.Add(1)
			return copy(b, c07sData(c.sid, 7)), "target.example:53", nil
		}
		return 0, "", errC07sRefused
	}
}

func (c *c07sConn) WriteTo(b []byte, addr string) (int, error) {
	select {
	case <-c.closed:
		c.slot.writeBad.Add(1)
		return 0, errC07sClosed
	default:
	}
	if sid, ok := c07sSid(b); !ok || sid != c.sid {
		c.slot.writeBad.Add(1) // a datagram of another session
		return len(b), nil
	}
	c.slot.writeN.Add(1)
	if c.first.CompareAndSwap(false, true) {
		switch c.slot.kind {
		case c07kRefuse:
			c.rd <- 2
		case c07kEcho:
			c.rd <- 1
			c.rd <- 2
		case c07kSendFail:
			c.rd <- 1
		}
	}
	return len(b), nil
}

func (c *c07sConn) Close() error {
	if c.closes.Add(1) == 1 {
		close(c.closed)
	}
	return nil
}

// ---- goroutine dumps

var c07sGorRe = regexp.MustCompile(`(?m)^goroutine (\d+) \[([^\]]*)\]:`)

var c07sDumpBuf []byte

func c07sDump() string {
	if c07sDumpBuf == nil {
		c07sDumpBuf = make([]byte, 16<<20)
	}
	return vCanonNames(string(c07sDumpBuf[:runtime.Stack(c07sDumpBuf, true)]))
}

// goroutines (other than the ones in `base`) that are inside the session manager / a session entry
func c07sManagerGoroutines(base map[string]bool) (n int, summary string, text string) {
	groups := map[string]int{}
	var keep []string
	for _, g := range strings.Split(c07sDump(), "\n\n") {
		m := c07sGorRe.FindStringSubmatch(g)
		if m == nil || base[m[1]] {
			continue
		}
		if !strings.Contains(g, "server.(*udpSessionManager)") && !strings.Contains(g, "server.(*udpSessionEntry)") {
			continue
		}
		n++
		// the frames of udp.go, innermost first, and what the goroutine is blocked in
		var fr []string
		lines := strings.Split(g, "\n")
		blocked := ""
		for i := 1; i+1 < len(lines); i += 2 {
			fn := lines[i]
			if p := strings.LastIndex(fn, "("); p > 0 {
				fn = fn[:p]
			}
			fn = strings.TrimPrefix(fn, "github.com/apernet/hysteria/core/v2/")
			loc := strings.TrimSpace(lines[i+1])
			if q := strings.Index(loc, " "); q > 0 {
				loc = loc[:q]
			}
			if p := strings.LastIndex(loc, "/"); p >= 0 {
				loc = loc[p+1:]
			}
			if strings.HasPrefix(fn, "sync.(*RWMutex)") || strings.HasPrefix(fn, "sync.(*Mutex)") {
				blocked = fn
			}
			if strings.HasPrefix(loc, "udp.go:") {
				fr = append(fr, strings.TrimPrefix(fn, "server.")+" "+loc)
			}
		}
		key := "[" + m[2] + "] " + blocked + " <- " + strings.Join(fr, " <- ")
		key = regexp.MustCompile(`, \d+ minutes`).ReplaceAllString(key, "")
		groups[key]++
		if len(keep) < 12 {
			keep = append(keep, g)
		}
	}
	var ks []string
	for k, c := range groups {
		ks = append(ks, fmt.Sprintf("%dx %s", c, k))
	}
	sort.Strings(ks)
	if len(ks) > 8 {
		ks = append(ks[:8], fmt.Sprintf("... %d more groups", len(ks)-8))
	}
	text = strings.Join(keep, "\n\n")
	if len(text) > 7000 {
		text = text[:7000] + "\n..."
	}
	return n, strings.Join(ks, " | "), text
}

func c07sBaseline() map[string]bool {
	base := map[string]bool{}
	for _, m := range c07sGorRe.FindAllStringSubmatch(c07sDump(), -1) {
		base[m[1]] = true
	}
	return base
}

// ---- watchdog

type c07sDog struct {
	hb   atomic.Int64
	stop chan struct{}
}

func newC07sDog() *c07sDog {
	d := &c07sDog{stop: make(chan struct{})}
	go func() {
		for {
			select {
			case <-d.stop:
				return
			default:
			}
			time.Sleep(time.Millisecond)
			d.hb.Add(1)
		}
	}()
	return d
}

// wait until done() holds.  progress() is any number that changes while the manager is getting somewhere.
// Returns "" (done), "stall" (no progress for c07sStall although the process was being scheduled) or "cap".
func (d *c07sDog) wait(done func() bool, progress func() int64, capT time.Duration) string {
	start := time.Now()
	last, lastT, lastHB := progress(), time.Now(), d.hb.Load()
	for {
		if done() {
			return ""
		}
		time.Sleep(20 * time.Millisecond)
		if p := progress(); p != last {
			last, lastT, lastHB = p, time.Now(), d.hb.Load()
			if capT > 0 && time.Since(start) > capT {
				return "cap"
			}
			continue
		}
		idle := time.Since(lastT)
		if (idle >= c07sStall && d.hb.Load()-lastHB >= c07sBeats) || idle >= c07sStallMax {
			if done() {
				return ""
			}
			return "stall"
		}
	}
}

// Count() through a helper goroutine: on a wedged manager it never returns
func c07sCount(sm *udpSessionManager, d time.Duration) int {
	ch := make(chan int, 1)
	go func() { ch <- sm.Count() }()
	select {
	case n := <-ch:
		return n
	case <-time.After(d):
		return -1
	}
}

// ---- one stress history

func c07sRun(c c07sCase, res map[string]any) {
	if c.N <= 0 || c.N > 1<<20 {
		c.N = 1000
	}
	if c.Sweepers < 0 || c.Sweepers > 8 {
		c.Sweepers = 1
	}
	if len(c.Mix) != c07kKinds {
		c.Mix = []int{6, 2, 1, 1, 1, 1, 1}
	}
	if c.CapMs <= 0 {
		c.CapMs = 45000
	}
	if c.Procs > 0 {
		defer runtime.GOMAXPROCS(runtime.GOMAXPROCS(c.Procs))
	}
	wsum := 0
	for _, w := range c.Mix {
		wsum += w
	}
	if wsum <= 0 {
		c.Mix, wsum = []int{1, 0, 0, 0, 0, 0, 0}, 1
	}
	env := &c07sEnv{c: c, t0: time.Now(), slots: make([]c07sSlot, c.N), kinds: make([]int, c.N), fragLeft: map[uint32]bool{}, lose: make(chan struct{})}
	for i := range env.kinds {
		r := int(c07sMix64(c.Seed+0xabcdef^uint64(i)*0x9e37) % uint64(wsum))
		for k, w := range c.Mix {
			if r < w {
				env.kinds[i] = k
				break
			}
			r -= w
		}
	}
	base := c07sBaseline()
	dog := newC07sDog()
	defer close(dog.stop)
	timeout := time.Duration(c.TimeoutMs) * time.Millisecond
	sm := newUDPSessionManager(env, c07sLogger{env}, timeout)
	startT := time.Now()

	ok, why, nfail := true, "", 0
	fail := func(s string) {
		nfail++
		if ok {
			ok, why = false, s
		} else if nfail <= 4 {
			why += "; " + s
		}
	}
	wedge := func(phase string) {
		n, sum, text := c07sManagerGoroutines(base)
		res["wedge"] = phase
		res["dump"] = text
		fail(fmt.Sprintf("WEDGE (%s): no progress for %v of real time while the process was being scheduled; %d of %d datagrams consumed, %d Close events; "+
			"%d goroutine(s) of the session manager are parked: %s", phase, c07sStall, env.consumed.Load(), c.N, env.closes.Load(), n, sum))
	}

	runDone := make(chan struct{})
	go func() {
		_ = sm.Run()
		close(runDone)
	}()
	stop := make(chan struct{})
	sweeps := make([]atomic.Int64, c.Sweepers+1)
	var swg sync.WaitGroup
	for k := 0; k < c.Sweepers; k++ {
		swg.Add(1)
		go func(k int) {
			defer swg.Done()
			for n := 1; ; n++ {
				select {
				case <-stop:
					return
				default:
				}
				sm.cleanup(true)
				sweeps[k].Add(1)
				if c.Yield > 0 && n%c.Yield == 0 {
					runtime.Gosched()
				}
			}
		}(k)
	}
	for k := 0; k < c.Counters; k++ {
		swg.Add(1)
		go func() {
			defer swg.Done()
			for {
				select {
				case <-stop:
					return
				default:
				}
				_ = sm.Count()
				runtime.Gosched()
			}
		}()
	}
	swDone := make(chan struct{})
	go func() { swg.Wait(); close(swDone) }()
	sweepTotal := func() int64 {
		t := int64(0)
		for k := range sweeps {
			t += sweeps[k].Load()
		}
		return t
	}
	isClosed := func(ch chan struct{}) bool {
		select {
		case <-ch:
			return true
		default:
			return false
		}
	}

	// phase 1: the receive loop consumes the datagrams; it and every sweeper must keep going
	wedged := false
	{
		lastS := make([]int64, c.Sweepers)
		lastST := make([]time.Time, c.Sweepers)
		lastSHB := make([]int64, c.Sweepers)
		for k := range lastST {
			lastST[k], lastSHB[k] = time.Now(), dog.hb.Load()
		}
		swStuck := -1
		r := dog.wait(func() bool {
			for k := 0; k < c.Sweepers; k++ {
				if v := sweeps[k].Load(); v != lastS[k] {
					lastS[k], lastST[k], lastSHB[k] = v, time.Now(), dog.hb.Load()
				} else if idle := time.Since(lastST[k]); (idle >= c07sStall && dog.hb.Load()-lastSHB[k] >= c07sBeats) || idle >= c07sStallMax {
					swStuck = k
					return true
				}
			}
			return env.total.Load() != 0
		}, func() int64 { return env.consumed.Load() }, time.Duration(c.CapMs)*time.Millisecond)
		switch {
		case swStuck >= 0 && env.total.Load() == 0:
			wedged = true
			wedge(fmt.Sprintf("sweeper %d stopped sweeping after %d sweeps while the receive loop was consuming datagrams", swStuck, lastS[swStuck]))
		case r == "stall":
			wedged = true
			wedge("the receive loop stopped consuming datagrams")
		case r == "cap":
			env.cut.Store(true)
			res["cut"] = true
			if dog.wait(func() bool { return env.total.Load() != 0 }, func() int64 { return env.consumed.Load() }, 0) != "" {
				wedged = true
				wedge("the receive loop did not come back for the next datagram")
			}
		}
	}
	feedMs := time.Since(startT).Milliseconds()
	// phase 2: the connection is lost while the sweeps go on
	close(env.lose)
	if !wedged {
		if dog.wait(func() bool { return isClosed(runDone) }, func() int64 { return env.closes.Load() }, 0) != "" {
			wedged = true
			wedge("Run did not return after the connection was lost")
		}
	}
	// phase 3: the sweepers stop
	close(stop)
	if !wedged {
		if dog.wait(func() bool { return isClosed(swDone) }, func() int64 { return sweepTotal() + env.closes.Load() }, 0) != "" {
			wedged = true
			wedge("a sweeper did not come back from cleanup(true) after the connection ended")
		}
	}
	// phase 4: reply loops that were exiting on their own finish; nothing may be left
	leftG, leftSum := 0, ""
	count := -1
	if !wedged {
		r := dog.wait(func() bool {
			leftG, leftSum, _ = c07sManagerGoroutines(base)
			return leftG == 0
		}, func() int64 { return env.closes.Load()*1000 + int64(leftG) }, 0)
		if r != "" {
			_, _, text := c07sManagerGoroutines(base)
			res["dump"] = text
			fail(fmt.Sprintf("%d goroutine(s) of the session manager still there %v after the connection ended: %s", leftG, c07sStall, leftSum))
		}
		count = c07sCount(sm, 20*time.Second)
		if count != 0 {
			fail(fmt.Sprintf("Count() = %d after the connection ended (-1: the call did not return)", count))
		}
	}
	res["k"] = "stress"
	res["feed_ms"] = feedMs
	res["wall_ms"] = time.Since(startT).Milliseconds()
	res["consumed"] = env.consumed.Load()
	res["sweeps"] = sweepTotal()
	res["left_goroutines"] = leftG
	res["count"] = count
	c07sVerdict(env, wedged, fail, res)
	res["ok"] = ok
	res["why"] = why
}

// Outcome of one session id, as a small number (the Coq side checks it against the outcomes of model/C07_Birth.v):
//   bit 0 hook called   1 New logged   2 dialed   3 dial ok   4 first datagram written
//   bit 5 Close(nil) BEFORE the connection was lost   6 Close(nil) only after   7 Close(err)
//   bits 8-9 number of Close events (3: three or more)   bits 10.. kind
func c07sCode(s *c07sSlot) int {
	b := func(x bool, k uint) int {
		if x {
			return 1 << k
		}
		return 0
	}
	early := s.earlyNil.Load() > 0
	nc := int(s.closeNil.Load() + s.closeErr.Load())
	if nc > 3 {
		nc = 3
	}
	return b(s.hookN.Load() > 0, 0) | b(s.newN.Load() > 0, 1) | b(s.dialN.Load() > 0, 2) | b(s.dialOk.Load() > 0, 3) | b(s.writeN.Load() > 0, 4) |
		b(early, 5) | b(s.closeNil.Load() > 0 && !early, 6) | b(s.closeErr.Load() > 0, 7) | nc<<8 | int(s.kind)<<10
}

func c07sVerdict(env *c07sEnv, wedged bool, fail func(string), res map[string]any) {
	timeoutNs := int64(env.c.TimeoutMs) * int64(time.Millisecond)
	hist := map[int]int{}
	minAge := int64(-1)
	var nEarly, nDropped, nMulti, nSock, nUsed int
	say := map[string]int{}
	note := func(class string, s string) {
		say[class]++
		if say[class] <= 2 {
			fail(s)
		}
	}
	for i := range env.slots {
		s := &env.slots[i]
		if !s.used.Load() {
			continue
		}
		nUsed++
		sid := env.c.Base + uint32(i)
		kind := c07kNames[s.kind]
		hist[c07sCode(s)]++
		desc := fmt.Sprintf("session %d (%s; %d datagram(s), %d complete; hook %d, New %d, dial %d/%d ok, written %d, Close(nil) %d, Close(err) %d, socket closed %d time(s))",
			sid, kind, s.recvN.Load(), s.complN.Load(), s.hookN.Load(), s.newN.Load(), s.dialOk.Load(), s.dialN.Load(), s.writeN.Load(),
			s.closeNil.Load(), s.closeErr.Load(), func() int32 {
				if c := s.conn.Load(); c != nil {
					return c.closes.Load()
				}
				return 0
			}())
		// (a) closed as idle although it had traffic within the timeout
		if s.earlyNil.Load() > 0 {
			age := s.closeAge.Load()
			if minAge < 0 || age < minAge {
				minAge = age
			}
			if age <= timeoutNs {
				nEarly++
				note("early", fmt.Sprintf("%s was reported closed with a nil error (idle) %d us after its latest datagram was handed to the receive loop, idle timeout %d ms, before the connection was lost",
					desc, age/1000, env.c.TimeoutMs))
			}
		}
		if wedged {
			continue // what follows presupposes that the history ran to its end
		}
		// (b) the first complete datagram of a fresh id starts the session
		if s.complN.Load() > 0 {
			wantNew := s.kind != c07kHookFail
			wantDial := wantNew
			wantWrite := wantDial && s.kind != c07kDialFail
			switch {
			case s.hookN.Load() == 0:
				nDropped++
				note("dropped", desc+": its complete datagram did not start a session (no hook call, no New event, no dial: it was dropped)")
			case wantNew && s.newN.Load() == 0:
				note("nonew", desc+": the hook passed but no New event was logged")
			case wantDial && s.dialN.Load() == 0:
				note("nodial", desc+": no socket was dialed")
			case wantWrite && int(s.writeN.Load()) != int(s.complN.Load()):
				note("nowrite", desc+fmt.Sprintf(": %d of its %d complete datagram(s) were written to its socket", s.writeN.Load(), s.complN.Load()))
			}
			if (s.hookN.Load() > 1 || s.newN.Load() > 1 || s.dialN.Load() > 1) && time.Since(env.t0).Nanoseconds() <= timeoutNs {
				nMulti++
				note("multi", desc+": more than one session was started for an id that was never reported closed in between")
			}
		}
		if s.writeBad.Load() > 0 {
			note("iso", desc+fmt.Sprintf(": %d write(s) of another session's datagram / on a closed socket", s.writeBad.Load()))
		}
		if s.sendBad.Load() > 0 {
			note("iso", desc+fmt.Sprintf(": %d reply datagram(s) went back tagged with the wrong session id", s.sendBad.Load()))
		}
		if int(s.sendN.Load()) != int(s.readN.Load()) {
			note("relay", desc+fmt.Sprintf(": %d datagram(s) read from its socket, %d handed to SendMessage", s.readN.Load(), s.sendN.Load()))
		}
		// (c) exactly one Close event; a session that stays ends with the connection
		if n := s.closeNil.Load() + s.closeErr.Load(); n != 1 {
			note("closes", desc+fmt.Sprintf(": %d Close events after the connection ended, want exactly 1", n))
		}
		if c := s.conn.Load(); c != nil {
			nSock++
			if c.closes.Load() != 1 {
				note("sock", desc+": its socket was not closed exactly once by the end")
			}
		}
	}
	if n := env.strays.Load(); n > 0 {
		fail(fmt.Sprintf("%d boundary call(s) named a session id that was never handed to the receive loop", n))
	}
	var hl [][2]int
	for k, v := range hist {
		hl = append(hl, [2]int{k, v})
	}
	sort.Slice(hl, func(i, j int) bool { return hl[i][0] < hl[j][0] })
	res["hist"] = hl
	res["sessions"] = nUsed
	res["sockets"] = nSock
	res["early_nil"] = nEarly
	res["dropped"] = nDropped
	res["min_nil_age_us"] = minAge / 1000
	if minAge < 0 {
		res["min_nil_age_us"] = -1
	}
	res["lost_ms"] = env.lostT.Load() / 1e6
}

// The creation stamp, observed on its own: newUDPSessionEntry's Last lies between the clock readings taken around
// the call (microseconds since one second before the first reading; a zero time.Time clamps to 0).  Compared with the
// model's creation action by the Coq side; the property verdict on it is the stress histories'.
func c07BirthProbe(res map[string]any) {
	var lo, last, hi []int64
	for i := 0; i < 4; i++ {
		t0 := time.Now()
		ep := t0.Add(-time.Second)
		e := newUDPSessionEntry(uint32(i+1), nil, nil, nil)
		l := e.Last.Get()
		t1 := time.Now()
		us := func(t time.Time) int64 {
			if t.Before(ep) {
				return 0
			}
			return int64(t.Sub(ep) / time.Microsecond)
		}
		lo, last, hi = append(lo, us(t0)), append(last, us(l)), append(hi, us(t1)+1)
		time.Sleep(time.Millisecond)
	}
	res["k"] = "birth"
	res["lo"], res["last"], res["hi"] = lo, last, hi
	res["ok"], res["why"] = true, ""
}
