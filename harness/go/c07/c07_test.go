//go:build verif

package server

// C07 harness: runs udpSessionManager.Run of /repo's working tree inside a testing/synctest bubble
// (fake clock: idle timeouts and the 1 s sweeper are exact and instant) against the fake udpIO /
// UDPConn / logger of udpenv_test.go, executes one scripted history (client datagrams over a few
// session ids, scripted socket reads, injected read/write/send/dial/hook errors, sleeps around the
// timeout and sweep boundaries, bursts without waiting, final connection loss) and writes the
// boundary log.  The log is replayed against the Coq LTS; the verdict on the implementation alone
// (isolation, close exactly once, idle expiry at the right sweep, nothing left at exit) is computed here.

import (
	"encoding/json"
	"errors"
	"fmt"
	"strconv"
	"strings"
	"testing"
	"testing/synctest"
	"time"

	"github.com/apernet/hysteria/core/v2/internal/protocol"
)

type c07Case struct {
	TimeoutMs int     `json:"timeout"`
	Ops       [][]int `json:"ops"`
	// [0,sid,complete] client message | [1,sid,ok] scripted read on sid's latest socket | [2,ms] sleep | [3] wait
	// [4,n] next n dials fail | [5,n] next n hooks fail | [6,n] next n sends fail | [7,sid,n] next n writes on sid's socket fail
	// [8] connection lost | [9,n] the next n logger.Close calls take 10 ms
	// [10,ms] the next UDP() call takes ms of the fake clock | [11,ms] the next Hook() call takes ms
	// [1,sid,1,n] scripted read of a datagram with an n-byte payload (n = 0: an empty UDP datagram; any n != 8 travels with its
	//             tag in the source address) | [12,n,ms] the first n socket Close() calls of the final cleanup take up to ms each
	//             (fake clock; see slowSockClose) so that sweeper ticks fall inside the final cleanup
}

func TestVerifC07(t *testing.T) {
	vParams(t, [][3]string{
		{"idleCleanupIntervalMs", "N", strconv.FormatInt(int64(idleCleanupInterval/time.Millisecond), 10)},
	})
	out := vOpenOut(t, "VERIF_OUT")
	defer out.Close()
	c07Pauser = newVFPauser(250 * time.Microsecond)
	defer c07Pauser.stop()
	hangs, wedges := 0, 0
	for i, raw := range vReadCases(t) {
		var c c07Case
		if err := json.Unmarshal(raw, &c); err != nil {
			t.Fatal(err)
		}
		res := map[string]any{"i": i}
		var hd struct {
			K string `json:"k"`
		}
		_ = json.Unmarshal(raw, &hd)
		if hd.K == "stress" || hd.K == "birth" {
			// real goroutines, real clock, no bubble (c07_stress_test.go)
			var sc c07sCase
			if err := json.Unmarshal(raw, &sc); err != nil {
				t.Fatal(err)
			}
			if hd.K == "stress" && wedges >= 2 {
				// every wedged history costs c07sStall of real time; two concrete ones are reported, the rest is not run
				res["k"], res["skipped"] = "stress", true
				out.Emit(res)
				continue
			}
			p, msg := vCatch(func() {
				if hd.K == "birth" {
					c07BirthProbe(res)
				} else {
					c07sRun(sc, res)
				}
			})
			if p {
				res["ok"], res["why"], res["panic"] = false, "panic: "+msg, true
			}
			if _, w := res["wedge"]; w {
				wedges++
			}
			out.Emit(res)
			continue
		}
		if hangs >= 2 {
			// every hung history costs c07HangLimit of real time; two concrete ones are reported, the rest is not run
			res["skipped"] = true
			out.Emit(res)
			continue
		}
		// the history runs in its own goroutine under a REAL-time limit: a goroutine that waits for a sync.Mutex whose
		// holder sleeps on the fake clock (or that spins) is not durably blocked, so synctest neither advances the
		// clock nor reports a deadlock, and the bubble would sit there until go test's own timeout
		type fin struct {
			p   bool
			msg string
		}
		ch := make(chan fin, 1)
		go func(c c07Case, res map[string]any) {
			p, msg := vCatch(func() {
				synctest.Test(t, func(t *testing.T) { c07Run(c, res) })
			})
			ch <- fin{p, msg}
		}(c, res)
		p, msg, hung := false, "", false
		lim := time.NewTimer(c07HangLimit)
		select {
		case f := <-ch:
			p, msg = f.p, f.msg
		case <-lim.C:
			hung = true
		}
		lim.Stop()
		if hung {
			hangs++
			// the bubble is abandoned (its goroutines stay parked); res may still be referenced by it
			res = map[string]any{"i": i, "ok": false, "hang": true,
				"why": fmt.Sprintf("the history did not finish within %v of real time: some goroutine of the session manager waits for a lock "+
					"that is never released, or for one whose holder cannot proceed (not a durable block, so synctest cannot call it a deadlock)", c07HangLimit)}
		}
		if p {
			prev, _ := res["why"].(string)
			res["ok"] = false
			if strings.Contains(msg, "deadlock") {
				res["why"] = "goroutine left behind after the connection ended (synctest: " + msg + ")"
				if prev != "" {
					res["why"] = prev + "; " + res["why"].(string)
				}
				res["leak"] = true
			} else {
				res["why"] = "panic: " + msg
				res["panic"] = true
			}
		}
		out.Emit(res)
	}
}

var c07Pauser *vfPauser // lives outside the bubbles

const c07HangLimit = 30 * time.Second

func c07Run(c c07Case, res map[string]any) {
	env := newVFEnv()
	env.timeoutMs = int64(c.TimeoutMs)
	env.pauser = c07Pauser
	timeout := time.Duration(c.TimeoutMs) * time.Millisecond
	sm := newUDPSessionManager(env, vfLogger{env}, timeout)
	runDone := make(chan struct{})
	go func() {
		_ = sm.Run()
		close(runDone)
	}()
	synctest.Wait()
	env.quietCount(sm.Count())

	latest := func(sid uint32) *vfConn {
		env.mu.Lock()
		defer env.mu.Unlock()
		for i := len(env.socks) - 1; i >= 0; i-- {
			if env.socks[i].owner == sid {
				return env.socks[i]
			}
		}
		return nil
	}
	seq := int64(0)
	lost := false
	for _, op := range c.Ops {
		switch op[0] {
		case 0:
			seq++
			sid := uint32(op[1])
			m := &protocol.UDPMessage{SessionID: sid, PacketID: 0, FragID: 0, FragCount: 1,
				Addr: fmt.Sprintf("dst%d.example:53", sid), Data: vfPayload(int64(sid)<<24 | seq)}
			if op[2] == 0 {
				m.PacketID = uint16(seq%60000) + 1
				m.FragCount = 2
			}
			env.recv <- vfRecv{msg: m}
		case 1:
			if cn := latest(uint32(op[1])); cn != nil {
				env.mu.Lock()
				closing := cn.closing
				env.mu.Unlock()
				if closing {
					break // nothing may wake the reply loop of a socket whose slow Close() is asleep (connLock is held)
				}
				seq++
				r := vfRead{from: "remote.example:53", tag: int64(cn.sock)<<24 | seq, err: op[2] == 0}
				if len(op) > 3 && op[3] != 8 && !r.err {
					r.short, r.n = true, op[3]
				}
				cn.rd <- r
			}
		case 2:
			time.Sleep(time.Duration(op[1]) * time.Millisecond)
		case 3:
			synctest.Wait()
			env.quietCount(sm.Count())
		case 4:
			env.mu.Lock()
			env.dialFail = op[1]
			env.mu.Unlock()
		case 5:
			env.mu.Lock()
			env.hookFail = op[1]
			env.mu.Unlock()
		case 6:
			env.mu.Lock()
			env.sendFail = op[1]
			env.mu.Unlock()
		case 7:
			if cn := latest(uint32(op[1])); cn != nil {
				env.mu.Lock()
				cn.writeErr = op[2]
				env.mu.Unlock()
			}
		case 9:
			env.mu.Lock()
			env.slowClose = op[1]
			env.mu.Unlock()
		case 10:
			env.mu.Lock()
			env.slowDial = int64(op[1])
			env.mu.Unlock()
		case 11:
			env.mu.Lock()
			env.slowHook = int64(op[1])
			env.mu.Unlock()
		case 12:
			env.mu.Lock()
			env.slowSock, env.slowSockMs = op[1], int64(op[2])
			env.mu.Unlock()
		case 8:
			if !lost {
				lost = true
				env.recv <- vfRecv{err: errors.New("connection lost")}
			}
		}
	}
	if !lost {
		env.recv <- vfRecv{err: errors.New("connection lost")}
	}
	synctest.Wait()
	env.quiet()
	// the receive loop may still be inside slow dials with datagrams queued behind them
	tm := time.NewTimer(300 * time.Second)
	select {
	case <-runDone:
	case <-tm.C:
	}
	tm.Stop()
	time.Sleep(2500 * time.Millisecond)
	synctest.Wait()
	env.quiet()

	ok, why, nfail := true, "", 0
	fail := func(s string) {
		nfail++
		if ok {
			ok, why = false, s
		} else if nfail <= 3 {
			why += "; " + s
		}
	}
	select {
	case <-runDone:
	default:
		fail("Run did not return after the connection was lost")
	}
	count := sm.Count()
	if count != 0 {
		fail(fmt.Sprintf("%d session(s) left in the table after the connection ended", count))
	}
	env.mu.Lock()
	log := append([]vfEv(nil), env.log...)
	closes := make([]int, len(env.socks))
	for i, s := range env.socks {
		closes[i] = s.closes
		if s.closes != 1 {
			fail(fmt.Sprintf("socket %d (session %d) was closed %d times", i, s.owner, s.closes))
		}
	}
	env.mu.Unlock()
	slack := int64(0)
	for _, op := range c.Ops {
		if op[0] == 9 {
			slack += 10 * int64(op[1])
		}
	}
	c07Verdict(log, int64(c.TimeoutMs), slack, fail)
	c07Fresh(log, slack, fail)
	res["log"] = log
	res["overlaps"] = env.overlaps
	res["sockslept"] = env.sockSlept
	res["sockticks"] = env.sockTicks
	res["count"] = count
	res["closes"] = closes
	res["ok"] = ok
	res["why"] = why
}

// the property evaluated on the boundary log of the implementation alone
// slack: how long slow logger.Close calls can delay the sweeper within one sweep
func c07Verdict(log []vfEv, timeout int64, slack int64, fail func(string)) {
	type sk struct {
		owner  uint32
		pend   *vfEv // datagram read from the socket (ReadFrom returned it with a nil error) and not yet handed to SendMessage
		dialT  int64
		arrT   int64 // arrival of the datagram the dial belongs to (= dialT unless the hook / dial was slow)
		closeT int64
		acts   []int64
	}
	socks := map[int]*sk{}
	cur := map[uint32]int{} // session id -> its open socket
	lostT := int64(-1)
	nilClose := map[string]bool{} // "sid@t" of logger.Close(sid, nil)
	// arrival time of the latest datagram of an id: the traffic a dial belongs to.  It equals the time of the dial
	// record unless the hook / dial was slow (the record is written when the call returns).  udp.go stamps Last at
	// the arrival only, so after a slow dial the session is swept relative to the arrival; the statement's "traffic"
	// can be read either way for that window (arrival / the first datagram leaving through the new socket), so there
	// the two clauses below are each evaluated with the reading that obliges less.
	arrived := map[uint32]int64{}
	for _, ev := range log {
		switch ev.K {
		case "dial":
			if ev.Ok {
				if _, dup := socks[ev.Sock]; dup {
					fail("socket dialed twice")
				}
				at, has := arrived[ev.Sid]
				if !has {
					at = ev.T
				}
				socks[ev.Sock] = &sk{owner: ev.Sid, dialT: ev.T, arrT: at, closeT: -1, acts: []int64{ev.T}}
				cur[ev.Sid] = ev.Sock
			}
		case "recv":
			arrived[ev.Sid] = ev.T
			if k, has := cur[ev.Sid]; has && socks[k].closeT < 0 {
				socks[k].acts = append(socks[k].acts, ev.T)
			}
		case "write":
			if ev.Tag >= 0 && ev.Sid != ev.Sid2 {
				fail(fmt.Sprintf("datagram of session %d written to the socket of session %d", ev.Sid2, ev.Sid))
			}
			if ev.Ok && socks[ev.Sock] != nil && socks[ev.Sock].closeT >= 0 {
				fail("write succeeded on a closed socket")
			}
		case "read":
			if s := socks[ev.Sock]; s != nil {
				// every datagram ReadFrom returned (whatever its length, 0 included) goes back to the client before the
				// reply loop reads again (or gives up: a read error is followed by the close)
				if s.pend != nil {
					fail(notRelayed(s.pend, s.owner, "the reply loop went on to the next ReadFrom"))
					s.pend = nil
				}
				if ev.Ok {
					s.acts = append(s.acts, ev.T)
					e2 := ev
					s.pend = &e2
				}
			}
		case "send":
			if s := socks[ev.Sock]; s == nil || s.owner != ev.Sid {
				fail(fmt.Sprintf("packet read from socket %d sent back tagged with session %d", ev.Sock, ev.Sid))
			}
			if s := socks[ev.Sock]; s != nil {
				switch {
				case s.pend == nil:
					fail(fmt.Sprintf("SendMessage (session %d, tag %d, %d bytes) for socket %d without a datagram read from it", ev.Sid, ev.Tag, ev.NB-1, ev.Sock))
				case s.pend.Tag != ev.Tag || s.pend.NB != ev.NB:
					fail(fmt.Sprintf("datagram read from socket %d (tag %d, %d bytes) was sent back as tag %d, %d bytes", ev.Sock, s.pend.Tag, s.pend.NB-1, ev.Tag, ev.NB-1))
				}
				s.pend = nil
			}
		case "close":
			if s := socks[ev.Sock]; s != nil {
				if s.closeT >= 0 {
					fail(fmt.Sprintf("socket %d closed twice", ev.Sock))
				}
				s.closeT = ev.T
				if cur[s.owner] == ev.Sock {
					delete(cur, s.owner)
				}
			}
		case "logclose":
			if ev.Ok {
				nilClose[fmt.Sprintf("%d@%d", ev.Sid, ev.T)] = true
			}
		case "recverr":
			lostT = ev.T
		}
	}
	for _, s := range socks {
		if s.pend != nil {
			fail(notRelayed(s.pend, s.owner, "nothing was sent by the end of the history"))
		}
	}
	if lostT < 0 {
		return
	}
	const interval = int64(idleCleanupInterval / time.Millisecond)
	for k, s := range socks {
		end := lostT
		if s.closeT >= 0 && s.closeT < end {
			end = s.closeT
		}
		for T := interval; T <= end; T += interval {
			if T == lostT || T <= s.dialT {
				continue
			}
			last, amb := int64(-1), false
			for _, a := range s.acts {
				if a == T {
					amb = true
				}
				if a < T && a > last {
					last = a
				}
			}
			if amb || last < 0 {
				continue
			}
			closedHere := s.closeT >= T && s.closeT <= T+slack && s.closeT < lostT && nilClose[fmt.Sprintf("%d@%d", s.owner, s.closeT)]
			if T-last > timeout && !(s.closeT >= 0 && s.closeT <= T+slack) {
				fail(fmt.Sprintf("socket %d (session %d) idle since %d ms was not closed by the sweep at %d ms (timeout %d)", k, s.owner, last, T, timeout))
			}
			if last == s.dialT {
				last = s.arrT
			}
			if closedHere && T-last <= timeout {
				fail(fmt.Sprintf("socket %d (session %d) active at %d ms was closed as idle by the sweep at %d ms (timeout %d)", k, s.owner, last, T, timeout))
			}
		}
	}
}

func notRelayed(rd *vfEv, owner uint32, how string) string {
	return fmt.Sprintf("datagram of %d byte(s) (tag %d) read from socket %d of session %d at %d ms was not sent back to the client tagged with the session id: %s",
		rd.NB-1, rd.Tag, rd.Sock, owner, rd.T, how)
}

// The clauses "a later datagram with the same id starts a fresh session on a new socket" and "no socket is
// created for a session after it exited", evaluated on the boundary log of the implementation alone, plus the
// table size sampled at every quiescent point.
//
// What is known about a session id from the log:
//   absent   no entry in the table: initially, and once a Close event of the id has settled, i.e. the table
//            delete that follows logger.Close on the same thread is known to be done: the fake clock has advanced
//            past the Close event (past +10 ms when that logger.Close call was a slow one), or synctest.Wait() has
//            returned since (every goroutine durably blocked; a mutex wait is not), or the closer was the receive
//            loop itself (Close with an error right after its failed hook / dial) and it has received again
//   frag     an entry without a socket (only never-completed fragments were fed to a fresh entry)
//   live     an entry whose socket was dialed; no Close event, no socket close since
//   closing  Close event or socket close seen, not settled
//   unknown  a datagram raced with closing (it went to the dead entry still in the table, or to a fresh one)
// A complete datagram received while the id is absent (or frag, outside any sweep) must, before the receive
// loop receives again: call the hook; if the hook passes, log New and dial; if the dial succeeds, be written to
// exactly that new socket; and the session must not be reported closed before the dial returns.
func c07Fresh(log []vfEv, slack int64, fail func(string)) {
	const (
		absent = iota
		frag
		dialing
		live
		closing
		unknown
	)
	const interval = int64(idleCleanupInterval / time.Millisecond)
	type st struct {
		k      int
		sock   int
		logT   int64 // closing: time of the Close event, -1 before it
		slow   bool
		byRL   bool
		inWin  bool  // closing: a complete datagram is being fed meanwhile; whether it started a fresh entry is not known before its hook record (written when a slow hook returns) or the end of the receive loop's turn
		endedT int64 // when the previous session of this id was reported closed (-1: never had one)
	}
	ids := map[uint32]*st{}
	get := func(sid uint32) *st {
		if ids[sid] == nil {
			ids[sid] = &st{k: absent, sock: -1, logT: -1, endedT: -1}
		}
		return ids[sid]
	}
	sockOwner := map[int]uint32{}
	seenSock := map[int]bool{}
	// expectation opened by a complete datagram for an id without a session
	type want struct {
		sid                     uint32
		tag, t, endedT          int64
		hook, hookOk, nw        bool
		dial, dialOk, wrote     bool
		sock                    int
		closedBeforeDial        bool
		was                     int
	}
	var w *want
	winSid, winErr := uint32(0), false // the id the receive loop is feeding; its hook / dial failed
	settle := func(x *st) {
		x.k, x.sock, x.logT, x.slow, x.byRL, x.inWin = absent, -1, -1, false, false, false
	}
	finish := func() {
		if w == nil {
			return
		}
		what := fmt.Sprintf("complete datagram (tag %d) for session id %d received at %d ms", w.tag, w.sid, w.t)
		if w.endedT >= 0 {
			what += fmt.Sprintf(", after the previous session of that id was reported closed at %d ms,", w.endedT)
		} else if w.was == frag {
			what += ", for an entry that never had a socket,"
		}
		switch {
		case !w.hook:
			fail(what + " did not start a fresh session: no hook call, no New event, no dial (it went to a dead entry or was dropped)")
		case w.hookOk && !w.nw:
			fail(what + " passed the hook but no New event was logged")
		case w.hookOk && !w.dial:
			fail(what + " passed the hook but no socket was dialed")
		case w.dialOk && !w.wrote:
			fail(what + fmt.Sprintf(" was not written to the new socket %d", w.sock))
		}
		w = nil
	}
	for _, ev := range log {
		// settle by the clock
		for _, x := range ids {
			if x.k == closing && x.logT >= 0 && !x.inWin {
				d := int64(0)
				if x.slow {
					d = 10
				}
				if ev.T > x.logT+d || (ev.K == "quiet" && !x.slow) {
					settle(x)
				}
			}
		}
		switch ev.K {
		case "recv", "recverr":
			finish()
			for _, x := range ids {
				x.inWin = false // no hook record during the receive loop's turn: the datagram went to the dead entry
				if x.k == closing && x.logT >= 0 && x.byRL {
					settle(x)
				}
			}
			if ev.K == "recverr" {
				return // cleanup(false) follows: covered by the exit checks
			}
			winSid, winErr = ev.Sid, false
			x := get(ev.Sid)
			switch x.k {
			case absent:
				if ev.Ok {
					w = &want{sid: ev.Sid, tag: ev.Tag, t: ev.T, endedT: x.endedT, sock: -1, was: absent}
					x.k = dialing
				} else {
					x.k = frag
				}
			case frag:
				// a sweep running at this very moment may have closed the entry without any record yet
				if ev.Ok && ev.T%interval > slack {
					w = &want{sid: ev.Sid, tag: ev.Tag, t: ev.T, endedT: -1, sock: -1, was: frag}
					x.k = dialing
				} else if ev.Ok {
					x.k = unknown
				}
			case closing:
				if !ev.Ok {
					x.k = unknown // a fresh fragment-only entry may exist now
				} else {
					x.inWin = true // either it is followed by hook/New/dial (fresh entry) or it went to the dead entry
				}
			}
		case "hook":
			if w != nil && ev.Sid == w.sid {
				w.hook, w.hookOk = true, ev.Ok
			}
			if ev.Sid == winSid && !ev.Ok {
				winErr = true
			}
			// only initConn on an open entry without a socket reaches the hook: whatever was known before, the
			// table now holds an entry of this id (a fresh one if the previous session was closing)
			if x := get(ev.Sid); x.k == closing || x.k == unknown || x.k == frag || x.k == absent {
				x.k, x.sock, x.logT, x.slow, x.byRL, x.inWin = dialing, -1, -1, false, false, false
			}
		case "new":
			if w != nil && ev.Sid == w.sid {
				w.nw = true
			}
		case "dial":
			x := get(ev.Sid)
			if ev.Sid == winSid && !ev.Ok {
				winErr = true
			}
			if w != nil && ev.Sid == w.sid {
				w.dial, w.dialOk, w.sock = true, ev.Ok, ev.Sock
				if w.closedBeforeDial && ev.Ok {
					fail(fmt.Sprintf("session %d was reported closed while its first dial was still in progress (datagram received at %d ms, dial returned at %d ms, ok=%v): a socket is created for a session that already exited", ev.Sid, w.t, ev.T, ev.Ok))
				}
			}
			if ev.Ok {
				if seenSock[ev.Sock] {
					fail(fmt.Sprintf("socket %d handed out twice", ev.Sock))
				}
				seenSock[ev.Sock] = true
				sockOwner[ev.Sock] = ev.Sid
				if x.k == dialing || x.k == unknown || x.k == frag || x.k == absent {
					x.k, x.sock = live, ev.Sock
				} else if x.k == closing {
					// fresh entry created by a datagram that arrived after the (unsettled) delete
					x.k, x.sock, x.logT, x.slow, x.byRL, x.inWin = live, ev.Sock, -1, false, false, false
				}
			}
		case "write":
			if w != nil && w.dialOk && ev.Sock == w.sock && ev.Tag == w.tag {
				w.wrote = true
			}
		case "close":
			if sid, has := sockOwner[ev.Sock]; has {
				x := get(sid)
				if x.k == live && x.sock == ev.Sock {
					x.k, x.logT = closing, -1
				}
			}
		case "logclose":
			x := get(ev.Sid)
			if w != nil && ev.Sid == w.sid && !w.dial && !winErr {
				w.closedBeforeDial = true
			}
			// Close with an error right after the receive loop's own failed hook / dial for this id: the closer
			// is the receive loop (an entry without a socket has no reply loop, the sweeper passes a nil error)
			x.byRL = ev.Sid == winSid && winErr && !ev.Ok
			x.k, x.logT, x.slow, x.endedT = closing, ev.T, ev.A == "slow", ev.T
		case "quiet":
			if ev.Sock < 0 {
				break
			}
			// the receive loop is in ReceiveMessage, or inside a slow Hook / UDP() (the hook record is written when
			// the call returns): an expectation without its hook record is judged when the receive loop receives again
			exp, definite := 0, w == nil || w.hook
			for _, x := range ids {
				switch x.k {
				case absent:
				case frag, dialing, live:
					exp++
				default:
					definite = false
				}
			}
			if definite && exp != ev.Sock {
				fail(fmt.Sprintf("Count() = %d at the quiescent point at %d ms, but %d session id(s) have a live session then", ev.Sock, ev.T, exp))
			}
		}
	}
	finish()
}
