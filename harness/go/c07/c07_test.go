//go:build verif

package server

// C07 harness: runs udpSessionManager.Run of /repo's working tree inside a testing/synctest bubble
// (fake clock: idle timeouts and the 1 s sweeper are exact and instant) against the fake udpIO /
// UDPConn / logger of udpenv_test.go, executes one scripted history (client datagrams over a few
// session ids, scripted socket reads, injected read/write/send/dial/hook errors, sleeps around the
// timeout and sweep boundaries, bursts without waiting, final connection loss) and writes the
// boundary log.  The log is replayed against the Coq LTS; the verdict on the implementation alone
// (isolation, close exactly once, idle expiry at the right sweep, nothing left at exit) is computed here.

import (
	"encoding/json"
	"errors"
	"fmt"
	"strconv"
	"strings"
	"testing"
	"testing/synctest"
	"time"

	"github.com/apernet/hysteria/core/v2/internal/protocol"
)

type c07Case struct {
	TimeoutMs int     `json:"timeout"`
	Ops       [][]int `json:"ops"`
	// [0,sid,complete] client message | [1,sid,ok] scripted read on sid's latest socket | [2,ms] sleep | [3] wait
	// [4,n] next n dials fail | [5,n] next n hooks fail | [6,n] next n sends fail | [7,sid,n] next n writes on sid's socket fail
	// [8] connection lost | [9,n] the next n logger.Close calls take 10 ms
}

func TestVerifC07(t *testing.T) {
	vParams(t, [][3]string{
		{"idleCleanupIntervalMs", "N", strconv.FormatInt(int64(idleCleanupInterval/time.Millisecond), 10)},
	})
	out := vOpenOut(t, "VERIF_OUT")
	defer out.Close()
	for i, raw := range vReadCases(t) {
		var c c07Case
		if err := json.Unmarshal(raw, &c); err != nil {
			t.Fatal(err)
		}
		res := map[string]any{"i": i}
		p, msg := vCatch(func() {
			synctest.Test(t, func(t *testing.T) { c07Run(c, res) })
		})
		if p {
			res["ok"] = false
			if strings.Contains(msg, "deadlock") {
				res["why"] = "goroutine left behind after the connection ended (synctest: " + msg + ")"
				res["leak"] = true
			} else {
				res["why"] = "panic: " + msg
				res["panic"] = true
			}
		}
		out.Emit(res)
	}
}

func c07Run(c c07Case, res map[string]any) {
	env := newVFEnv()
	timeout := time.Duration(c.TimeoutMs) * time.Millisecond
	sm := newUDPSessionManager(env, vfLogger{env}, timeout)
	runDone := make(chan struct{})
	go func() {
		_ = sm.Run()
		close(runDone)
	}()
	synctest.Wait()
	env.quiet()

	latest := func(sid uint32) *vfConn {
		env.mu.Lock()
		defer env.mu.Unlock()
		for i := len(env.socks) - 1; i >= 0; i-- {
			if env.socks[i].owner == sid {
				return env.socks[i]
			}
		}
		return nil
	}
	seq := int64(0)
	lost := false
	for _, op := range c.Ops {
		switch op[0] {
		case 0:
			seq++
			sid := uint32(op[1])
			m := &protocol.UDPMessage{SessionID: sid, PacketID: 0, FragID: 0, FragCount: 1,
				Addr: fmt.Sprintf("dst%d.example:53", sid), Data: vfPayload(int64(sid)<<24 | seq)}
			if op[2] == 0 {
				m.PacketID = uint16(seq%60000) + 1
				m.FragCount = 2
			}
			env.recv <- vfRecv{msg: m}
		case 1:
			if cn := latest(uint32(op[1])); cn != nil {
				seq++
				cn.rd <- vfRead{from: "remote.example:53", tag: int64(cn.sock)<<24 | seq, err: op[2] == 0}
			}
		case 2:
			time.Sleep(time.Duration(op[1]) * time.Millisecond)
		case 3:
			synctest.Wait()
			env.quiet()
		case 4:
			env.mu.Lock()
			env.dialFail = op[1]
			env.mu.Unlock()
		case 5:
			env.mu.Lock()
			env.hookFail = op[1]
			env.mu.Unlock()
		case 6:
			env.mu.Lock()
			env.sendFail = op[1]
			env.mu.Unlock()
		case 7:
			if cn := latest(uint32(op[1])); cn != nil {
				env.mu.Lock()
				cn.writeErr = op[2]
				env.mu.Unlock()
			}
		case 9:
			env.mu.Lock()
			env.slowClose = op[1]
			env.mu.Unlock()
		case 8:
			if !lost {
				lost = true
				env.recv <- vfRecv{err: errors.New("connection lost")}
			}
		}
	}
	if !lost {
		env.recv <- vfRecv{err: errors.New("connection lost")}
	}
	synctest.Wait()
	env.quiet()
	time.Sleep(2500 * time.Millisecond)
	synctest.Wait()
	env.quiet()

	ok, why := true, ""
	fail := func(s string) {
		if ok {
			ok, why = false, s
		}
	}
	select {
	case <-runDone:
	default:
		fail("Run did not return after the connection was lost")
	}
	count := sm.Count()
	if count != 0 {
		fail(fmt.Sprintf("%d session(s) left in the table after the connection ended", count))
	}
	env.mu.Lock()
	log := append([]vfEv(nil), env.log...)
	closes := make([]int, len(env.socks))
	for i, s := range env.socks {
		closes[i] = s.closes
		if s.closes != 1 {
			fail(fmt.Sprintf("socket %d (session %d) was closed %d times", i, s.owner, s.closes))
		}
	}
	env.mu.Unlock()
	slack := int64(0)
	for _, op := range c.Ops {
		if op[0] == 9 {
			slack += 10 * int64(op[1])
		}
	}
	c07Verdict(log, int64(c.TimeoutMs), slack, fail)
	res["log"] = log
	res["count"] = count
	res["closes"] = closes
	res["ok"] = ok
	res["why"] = why
}

// the property evaluated on the boundary log of the implementation alone
// slack: how long slow logger.Close calls can delay the sweeper within one sweep
func c07Verdict(log []vfEv, timeout int64, slack int64, fail func(string)) {
	type sk struct {
		owner  uint32
		dialT  int64
		closeT int64
		acts   []int64
	}
	socks := map[int]*sk{}
	cur := map[uint32]int{} // session id -> its open socket
	lostT := int64(-1)
	nilClose := map[string]bool{} // "sid@t" of logger.Close(sid, nil)
	for _, ev := range log {
		switch ev.K {
		case "dial":
			if ev.Ok {
				if _, dup := socks[ev.Sock]; dup {
					fail("socket dialed twice")
				}
				socks[ev.Sock] = &sk{owner: ev.Sid, dialT: ev.T, closeT: -1, acts: []int64{ev.T}}
				cur[ev.Sid] = ev.Sock
			}
		case "recv":
			if k, has := cur[ev.Sid]; has && socks[k].closeT < 0 {
				socks[k].acts = append(socks[k].acts, ev.T)
			}
		case "write":
			if ev.Tag >= 0 && ev.Sid != ev.Sid2 {
				fail(fmt.Sprintf("datagram of session %d written to the socket of session %d", ev.Sid2, ev.Sid))
			}
			if ev.Ok && socks[ev.Sock] != nil && socks[ev.Sock].closeT >= 0 {
				fail("write succeeded on a closed socket")
			}
		case "read":
			if ev.Ok && socks[ev.Sock] != nil {
				socks[ev.Sock].acts = append(socks[ev.Sock].acts, ev.T)
			}
		case "send":
			if s := socks[ev.Sock]; s == nil || s.owner != ev.Sid {
				fail(fmt.Sprintf("packet read from socket %d sent back tagged with session %d", ev.Sock, ev.Sid))
			}
		case "close":
			if s := socks[ev.Sock]; s != nil {
				if s.closeT >= 0 {
					fail(fmt.Sprintf("socket %d closed twice", ev.Sock))
				}
				s.closeT = ev.T
				if cur[s.owner] == ev.Sock {
					delete(cur, s.owner)
				}
			}
		case "logclose":
			if ev.Ok {
				nilClose[fmt.Sprintf("%d@%d", ev.Sid, ev.T)] = true
			}
		case "recverr":
			lostT = ev.T
		}
	}
	if lostT < 0 {
		return
	}
	const interval = int64(idleCleanupInterval / time.Millisecond)
	for k, s := range socks {
		end := lostT
		if s.closeT >= 0 && s.closeT < end {
			end = s.closeT
		}
		for T := interval; T <= end; T += interval {
			if T == lostT || T <= s.dialT {
				continue
			}
			last, amb := int64(-1), false
			for _, a := range s.acts {
				if a == T {
					amb = true
				}
				if a < T && a > last {
					last = a
				}
			}
			if amb || last < 0 {
				continue
			}
			closedHere := s.closeT >= T && s.closeT <= T+slack && s.closeT < lostT && nilClose[fmt.Sprintf("%d@%d", s.owner, s.closeT)]
			if T-last > timeout && !(s.closeT >= 0 && s.closeT <= T+slack) {
				fail(fmt.Sprintf("socket %d (session %d) idle since %d ms was not closed by the sweep at %d ms (timeout %d)", k, s.owner, last, T, timeout))
			}
			if closedHere && T-last <= timeout {
				fail(fmt.Sprintf("socket %d (session %d) active at %d ms was closed as idle by the sweep at %d ms (timeout %d)", k, s.owner, last, T, timeout))
			}
		}
	}
}
