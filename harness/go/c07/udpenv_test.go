//go:build verif

package server

// Shared fake environment of the C07 and C08 harnesses: an in-memory udpIO, UDPConn and
// udpEventLogger with one boundary log (one mutex, one sequence, fake-clock timestamps).
// Every fake decides its result and appends its log record inside the same critical section,
// so the order of the log is the order in which the boundary calls took effect.

import (
	"errors"
	"fmt"
	"runtime"
	"sync"
	"time"

	"github.com/apernet/hysteria/core/v2/internal/protocol"
)

var (
	errVFClosed = errors.New("vf: closed")
	errVFFault  = errors.New("vf: injected fault")
	errVFDenied = errors.New("vf: denied by policy")
)

// one boundary event
type vfEv struct {
	T    int64  `json:"t"` // fake-clock milliseconds since the environment was created
	K    string `json:"k"` // recv recverr hook new dial check write read send close logclose
	Sid  uint32 `json:"sid"`
	Sock int    `json:"sock"`
	Ok   bool   `json:"ok"`
	A    string `json:"a,omitempty"`   // address argument / result
	Tag  int64  `json:"tag,omitempty"` // payload tag (identifies the datagram / the scripted read)
	Sid2 uint32 `json:"sid2,omitempty"`
	NB   int    `json:"nb,omitempty"` // read / send records: payload length + 1 (an empty datagram is 1; 0 = not recorded)
}

type vfRecv struct {
	msg *protocol.UDPMessage
	err error
}

type vfRead struct {
	from string
	tag  int64
	err  bool
	// short: the datagram does not carry the 8-byte tag: its payload is n bytes (n may be 0: an empty UDP datagram is a
	// datagram) and the tag travels in the source address instead (vfTagAddr), which the reply loop copies into the message
	short bool
	n     int
}

// source address that carries the tag of a datagram whose payload cannot
func vfTagAddr(tag int64) string { return fmt.Sprintf("r%d.example:53", tag) }

func vfAddrTag(a string) int64 {
	var v int64
	if n, err := fmt.Sscanf(a, "r%d.example:53", &v); n == 1 && err == nil && vfTagAddr(v) == a {
		return v
	}
	return -1
}

type vfEnv struct {
	mu   sync.Mutex
	t0   time.Time
	log  []vfEv
	recv chan vfRecv

	pred     func(string) bool          // outbound policy
	hookFn   func(addr *string) error   // request hook (nil: leaves the address)
	dialFail int                        // the next n UDP() calls fail although the policy allows
	hookFail int                        // the next n Hook() calls fail
	sendFail int                        // the next n SendMessage() calls fail
	slowClose int                       // the next n logger.Close() calls take 10 ms (a slow event logger)
	slowDial  int64                     // the next UDP() call blocks this many ms of the fake clock (a slow outbound dial)
	slowHook  int64                     // the next Hook() call blocks this many ms of the fake clock (sniffing, DNS)
	timeoutMs int64                     // idle timeout of the manager under test; 0: unknown, slow dials are not simulated
	curRecvT  int64                     // fake-clock ms at which ReceiveMessage returned the message being fed
	pauser    *vfPauser                 // real-time pause (nil: none)
	overlaps  int                       // slow dials that were still in progress at the sweep that selects their entry
	slowCloseEnd int64                  // fake-clock ms at which the latest slow logger.Close() call returns
	curSid   uint32                     // session id of the message the receive loop is feeding
	slowSock   int                      // the next n socket Close() calls of the final cleanup (receive loop's goroutine, after the connection was lost) are slow
	slowSockMs int64                    // ... each takes up to this many ms of the fake clock before it takes effect
	lost       bool                     // ReceiveMessage has returned its error
	rlGid      uint64                   // goroutine of the receive loop (the caller of ReceiveMessage)
	sockSlept  int                      // slow socket closes that really slept
	sockTicks  int                      // sweep ticks that fell inside a slow socket close of the final cleanup
	lastNew  uint32                     // session id of the last logger.New (owner of the next socket)
	socks    []*vfConn
}

func newVFEnv() *vfEnv {
	return &vfEnv{t0: time.Now(), recv: make(chan vfRecv, 4096), pred: func(string) bool { return true }}
}

// caller holds e.mu
func (e *vfEnv) add(ev vfEv) {
	ev.T = int64(time.Since(e.t0) / time.Millisecond)
	e.log = append(e.log, ev)
}

func (e *vfEnv) mark() int {
	e.mu.Lock()
	defer e.mu.Unlock()
	return len(e.log)
}

func (e *vfEnv) since(m int) []vfEv {
	e.mu.Lock()
	defer e.mu.Unlock()
	return append([]vfEv(nil), e.log[m:]...)
}

// payload: 8 bytes big endian tag
func vfPayload(tag int64) []byte {
	b := make([]byte, 8)
	for i := 0; i < 8; i++ {
		b[7-i] = byte(tag >> (8 * i))
	}
	return b
}

func vfTag(b []byte) int64 {
	if len(b) != 8 {
		return -1
	}
	var v int64
	for i := 0; i < 8; i++ {
		v = v<<8 | int64(b[i])
	}
	return v
}

// ---- udpIO

func (e *vfEnv) ReceiveMessage() (*protocol.UDPMessage, error) {
	r := <-e.recv
	e.mu.Lock()
	defer e.mu.Unlock()
	e.rlGid = vfGid()
	if r.err != nil {
		e.lost = true
		e.add(vfEv{K: "recverr"})
		return nil, r.err
	}
	e.curSid = r.msg.SessionID
	e.curRecvT = int64(time.Since(e.t0) / time.Millisecond)
	e.add(vfEv{K: "recv", Sid: r.msg.SessionID, Ok: r.msg.FragCount <= 1, A: r.msg.Addr, Tag: vfTag(r.msg.Data)})
	return r.msg, nil
}

func (e *vfEnv) SendMessage(buf []byte, m *protocol.UDPMessage) error {
	e.mu.Lock()
	defer e.mu.Unlock()
	tag := vfTag(m.Data)
	if tag < 0 {
		tag = vfAddrTag(m.Addr) // a datagram too short for the tag: it came with a tagged source address
	}
	sock := -1
	if tag >= 0 {
		sock = int(tag >> 24)
	}
	if e.sendFail > 0 {
		e.sendFail--
		e.add(vfEv{K: "send", Sid: m.SessionID, Sock: sock, Ok: false, A: m.Addr, Tag: tag, NB: len(m.Data) + 1})
		return errVFFault
	}
	e.add(vfEv{K: "send", Sid: m.SessionID, Sock: sock, Ok: true, A: m.Addr, Tag: tag, NB: len(m.Data) + 1})
	return nil
}

func (e *vfEnv) Hook(data []byte, reqAddr *string) error {
	e.mu.Lock()
	ms := e.slowHook
	e.slowHook = 0
	e.mu.Unlock()
	e.slowBlock(ms)
	e.mu.Lock()
	defer e.mu.Unlock()
	if e.hookFail > 0 {
		e.hookFail--
		e.add(vfEv{K: "hook", Sid: e.curSid, Ok: false, A: *reqAddr})
		return errVFFault
	}
	if e.hookFn != nil {
		if err := e.hookFn(reqAddr); err != nil {
			e.add(vfEv{K: "hook", Sid: e.curSid, Ok: false, A: *reqAddr})
			return err
		}
	}
	e.add(vfEv{K: "hook", Sid: e.curSid, Ok: true, A: *reqAddr})
	return nil
}

func (e *vfEnv) UDP(reqAddr string) (UDPConn, error) {
	e.mu.Lock()
	ms := e.slowDial
	e.slowDial = 0
	e.mu.Unlock()
	e.slowBlock(ms)
	e.mu.Lock()
	defer e.mu.Unlock()
	if e.dialFail > 0 {
		e.dialFail--
		e.add(vfEv{K: "dial", Sid: e.lastNew, Sock: -1, Ok: false, A: reqAddr})
		return nil, errVFFault
	}
	if !e.pred(reqAddr) {
		e.add(vfEv{K: "dial", Sid: e.lastNew, Sock: -1, Ok: false, A: reqAddr})
		return nil, errVFDenied
	}
	c := &vfConn{env: e, sock: len(e.socks), owner: e.lastNew, rd: make(chan vfRead, 4096), closedCh: make(chan struct{}), busy: true}
	e.socks = append(e.socks, c)
	e.add(vfEv{K: "dial", Sid: e.lastNew, Sock: c.sock, Ok: true, A: reqAddr})
	return c, nil
}

func (e *vfEnv) CheckUDP(reqAddr string) error {
	e.mu.Lock()
	defer e.mu.Unlock()
	ok := e.pred(reqAddr)
	e.add(vfEv{K: "check", Sid: e.curSid, Ok: ok, A: reqAddr})
	if !ok {
		return errVFDenied
	}
	return nil
}

// ---- slow request hook / slow outbound dial
//
// slowBlock is called by the receive loop from inside DialFunc (Hook or UDP()): the call takes ms of the fake
// clock, so sweeps, reply loops and the driver run while the first dial of a session is still in progress; the
// "hook" / "dial" record is logged when the call returns.
//
// udp.go holds the entry's connLock across DialFunc, and a goroutine blocked on a sync.Mutex is NOT durably
// blocked for testing/synctest: while a sweep that selected the entry being dialed waits for its connLock, the
// bubble's clock cannot advance, so the dial must not be asleep on the fake clock then.
//  (1) Sweeps that start later.  The entry's Last was stored when its datagram was received (curRecvT; nothing
//      refreshes it during the dial), so the first sweep that can select it is the first tick T* with
//      T* - curRecvT > timeout.  The sleep is cut at T*; a dial that would last longer is then kept in progress
//      for a moment of REAL time (the sweeper woken at the same fake instant takes its snapshot and calls
//      CloseWithErr on the entry while the dial has not returned yet) and returns at fake time T*.
//  (2) A sweep already in progress whose snapshot holds the entry: only possible for an entry that existed before
//      this datagram (fragments only so far: some earlier datagram of the id with no Close event since), and only
//      at a tick instant or while / right after a slow logger.Close (the one way a sweep spends fake time).
//      Then the call does not sleep at all.
func (e *vfEnv) slowBlock(ms int64) {
	if ms <= 0 || e.timeoutMs <= 0 {
		return
	}
	iv := int64(idleCleanupInterval / time.Millisecond)
	e.mu.Lock()
	now := int64(time.Since(e.t0) / time.Millisecond)
	tstar := ((e.curRecvT+e.timeoutMs)/iv + 1) * iv
	sid := e.curSid
	m0 := len(e.log)
	fresh, cur := true, true
	for i := len(e.log) - 1; i >= 0; i-- {
		ev := e.log[i]
		if ev.Sid != sid {
			continue
		}
		if ev.K == "logclose" {
			break
		}
		if ev.K == "recv" {
			if cur {
				cur = false // the datagram being fed
				continue
			}
			fresh = false
			break
		}
	}
	sweeping := now%iv == 0 || now <= e.slowCloseEnd
	e.mu.Unlock()
	if !fresh && sweeping {
		return
	}
	end, overlap := now+ms, false
	if end >= tstar {
		end, overlap = tstar, true
	}
	if end > now {
		time.Sleep(time.Duration(end-now) * time.Millisecond)
	}
	if !overlap {
		return
	}
	e.mu.Lock()
	e.overlaps++
	e.mu.Unlock()
	for i := 0; i < 8; i++ {
		if e.pauser != nil {
			e.pauser.pause()
		} else {
			for j := 0; j < 200; j++ {
				runtime.Gosched()
			}
		}
		// the sweep's effect is already visible (possible only if connLock is not held across the dial)
		seen := false
		e.mu.Lock()
		for _, ev := range e.log[m0:] {
			if ev.K == "logclose" && ev.Sid == sid {
				seen = true
			}
		}
		e.mu.Unlock()
		if seen {
			return
		}
	}
}

// ---- slow socket Close() inside the final cleanup
//
// Close() on an outbound socket may take time (the OS, a wrapped conn flushing, a hooked outbound).  The final
// cleanup (cleanup(false), on the receive loop's goroutine once ReceiveMessage failed) walks its list of entries
// while the idle sweeper keeps ticking until Run has returned: with a slow Close() a tick lands INSIDE the final
// cleanup and the two cleanup() calls overlap.  The call sleeps on the fake clock first and takes effect (closed
// channel, "close" record) when the sleep is over, so the socket's reply loop stays parked in ReadFrom meanwhile.
//
// CloseWithErr holds the entry's connLock across conn.Close(), and a sync.Mutex wait is not a durable block for
// testing/synctest (see slowBlock): the call only sleeps while nobody else can want that lock:
//   - only calls made by the receive loop's goroutine after the connection was lost are slow (the sweeper's and the
//     reply loops' own closes are not: the final cleanup wants every entry);
//   - the socket's reply loop is parked in ReadFrom with nothing queued (it cannot reach CloseWithErr by itself);
//   - the sleep ends 1 ms before the first tick T* at which the entry can be selected as idle (its last traffic, from
//     the log: latest datagram of its id received / read from its socket); if T* is not in the future the sweep
//     that selects it may be in progress already and the call does not sleep.
func (e *vfEnv) slowSockClose(c *vfConn) {
	e.mu.Lock()
	if e.slowSock <= 0 || e.slowSockMs <= 0 || !e.lost || e.timeoutMs <= 0 || c.closes > 0 || c.busy || len(c.rd) > 0 || vfGid() != e.rlGid {
		e.mu.Unlock()
		return
	}
	iv := int64(idleCleanupInterval / time.Millisecond)
	now := int64(time.Since(e.t0) / time.Millisecond)
	last := int64(-1)
	for i := len(e.log) - 1; i >= 0; i-- {
		ev := e.log[i]
		if (ev.K == "recv" && ev.Sid == c.owner) || (ev.K == "read" && ev.Ok && ev.Sock == c.sock) {
			last = ev.T
			break
		}
	}
	tstar := ((last+e.timeoutMs)/iv + 1) * iv // first tick with tick - last > timeout
	end := now + e.slowSockMs
	if end > tstar-1 {
		end = tstar - 1
	}
	if last < 0 || end <= now || (end < now+e.slowSockMs && end/iv == now/iv) {
		// (the entry turns idle at the very next tick: a sleep cut short of it would use up the slow close without any
		// tick inside it; the next socket on the cleanup's list gets it instead)
		e.mu.Unlock()
		return
	}
	e.slowSock--
	e.sockSlept++
	e.sockTicks += int(end/iv - now/iv)
	c.closing = true
	e.mu.Unlock()
	time.Sleep(time.Duration(end-now) * time.Millisecond)
}

// goroutine id of the caller (only ever compared for equality)
func vfGid() uint64 {
	var buf [64]byte
	n := runtime.Stack(buf[:], false)
	var id uint64
	for _, ch := range buf[len("goroutine "):n] {
		if ch < '0' || ch > '9' {
			break
		}
		id = id*10 + uint64(ch-'0')
	}
	return id
}

// vfPauser blocks the caller for a short REAL time: the request is served by a goroutine outside the synctest
// bubble over channels made outside the bubble (blocking on those is not durable, so the fake clock stands still).
type vfPauser struct {
	req, ack chan struct{}
	d        time.Duration
}

// must be called outside any synctest bubble
func newVFPauser(d time.Duration) *vfPauser {
	p := &vfPauser{req: make(chan struct{}), ack: make(chan struct{}), d: d}
	go func() {
		for range p.req {
			time.Sleep(p.d)
			p.ack <- struct{}{}
		}
	}()
	return p
}

func (p *vfPauser) pause() {
	p.req <- struct{}{}
	<-p.ack
}

func (p *vfPauser) stop() { close(p.req) }

// ---- udpEventLogger

type vfLogger struct{ env *vfEnv }

func (l vfLogger) New(sessionID uint32, reqAddr string) {
	l.env.mu.Lock()
	defer l.env.mu.Unlock()
	l.env.lastNew = sessionID
	l.env.add(vfEv{K: "new", Sid: sessionID, Ok: true, A: reqAddr})
}

func (l vfLogger) Close(sessionID uint32, err error) {
	l.env.mu.Lock()
	slow := l.env.slowClose > 0
	a := ""
	if slow {
		l.env.slowClose--
		a = "slow"
		l.env.slowCloseEnd = int64(time.Since(l.env.t0)/time.Millisecond) + 10
	}
	l.env.add(vfEv{K: "logclose", Sid: sessionID, Ok: err == nil, A: a})
	l.env.mu.Unlock()
	if slow {
		// the caller is between part 1 of CloseWithErr (closed flag set, socket closed) and the table delete
		time.Sleep(10 * time.Millisecond)
	}
}

// ---- UDPConn

type vfConn struct {
	env      *vfEnv
	sock     int
	owner    uint32
	rd       chan vfRead
	closedCh chan struct{}
	closes   int // under env.mu
	writeErr int // the next n writes fail; under env.mu
	reads    int
	writes   int
	busy     bool // the reply loop is not inside ReadFrom (not spawned yet, relaying, or closing); under env.mu
	closing  bool // a slow Close() is in progress (sleeping before it takes effect); under env.mu
}

func (c *vfConn) ReadFrom(b []byte) (int, string, error) {
	var r vfRead
	got := false
	c.env.mu.Lock()
	c.busy = false
	c.env.mu.Unlock()
	select {
	case r = <-c.rd:
		got = true
	case <-c.closedCh:
	}
	c.env.mu.Lock()
	defer c.env.mu.Unlock()
	c.busy = true
	if c.closes > 0 || !got || r.err {
		c.env.add(vfEv{K: "read", Sid: c.owner, Sock: c.sock, Ok: false})
		if c.closes > 0 || !got {
			return 0, "", errVFClosed
		}
		return 0, "", errVFFault
	}
	c.reads++
	if r.short {
		// n bytes, none of them the tag (n == 0: ReadFrom returns 0, addr, nil - an empty datagram, not "nothing")
		pl := make([]byte, r.n)
		for i := range pl {
			pl[i] = byte(0xa0 + (int(r.tag)+i)%64)
		}
		n := copy(b, pl)
		from := vfTagAddr(r.tag)
		c.env.add(vfEv{K: "read", Sid: c.owner, Sock: c.sock, Ok: true, A: from, Tag: r.tag, NB: n + 1})
		return n, from, nil
	}
	n := copy(b, vfPayload(r.tag))
	c.env.add(vfEv{K: "read", Sid: c.owner, Sock: c.sock, Ok: true, A: r.from, Tag: r.tag, NB: n + 1})
	return n, r.from, nil
}

func (c *vfConn) WriteTo(b []byte, addr string) (int, error) {
	c.env.mu.Lock()
	defer c.env.mu.Unlock()
	tag := vfTag(b)
	sid2 := uint32(0)
	if tag >= 0 {
		sid2 = uint32(tag >> 24)
	}
	if c.closes > 0 {
		c.env.add(vfEv{K: "write", Sid: c.owner, Sock: c.sock, Ok: false, A: addr, Tag: tag, Sid2: sid2})
		return 0, errVFClosed
	}
	if c.writeErr > 0 {
		c.writeErr--
		c.env.add(vfEv{K: "write", Sid: c.owner, Sock: c.sock, Ok: false, A: addr, Tag: tag, Sid2: sid2})
		return 0, errVFFault
	}
	c.writes++
	c.env.add(vfEv{K: "write", Sid: c.owner, Sock: c.sock, Ok: true, A: addr, Tag: tag, Sid2: sid2})
	return len(b), nil
}

func (c *vfConn) Close() error {
	c.env.slowSockClose(c)
	c.env.mu.Lock()
	defer c.env.mu.Unlock()
	c.closing = false
	c.closes++
	if c.closes == 1 {
		close(c.closedCh)
	}
	c.env.add(vfEv{K: "close", Sid: c.owner, Sock: c.sock, Ok: c.closes == 1})
	return nil
}

// quiet records that synctest.Wait() returned: every other goroutine of the bubble is durably blocked
func (e *vfEnv) quiet() {
	e.mu.Lock()
	defer e.mu.Unlock()
	e.add(vfEv{K: "quiet", Sock: -1})
}

// quietCount: the same, with the size of the session table sampled at that moment
func (e *vfEnv) quietCount(n int) {
	e.mu.Lock()
	defer e.mu.Unlock()
	e.add(vfEv{K: "quiet", Sock: n})
}

func (e *vfEnv) String() string { return fmt.Sprintf("vfEnv(%d events)", len(e.log)) }
