//go:build verif

package server

// Shared fake environment of the C07 and C08 harnesses: an in-memory udpIO, UDPConn and
// udpEventLogger with one boundary log (one mutex, one sequence, fake-clock timestamps).
// Every fake decides its result and appends its log record inside the same critical section,
// so the order of the log is the order in which the boundary calls took effect.

import (
	"errors"
	"fmt"
	"sync"
	"time"

	"github.com/apernet/hysteria/core/v2/internal/protocol"
)

var (
	errVFClosed = errors.New("vf: closed")
	errVFFault  = errors.New("vf: injected fault")
	errVFDenied = errors.New("vf: denied by policy")
)

// one boundary event
type vfEv struct {
	T    int64  `json:"t"` // fake-clock milliseconds since the environment was created
	K    string `json:"k"` // recv recverr hook new dial check write read send close logclose
	Sid  uint32 `json:"sid"`
	Sock int    `json:"sock"`
	Ok   bool   `json:"ok"`
	A    string `json:"a,omitempty"`   // address argument / result
	Tag  int64  `json:"tag,omitempty"` // payload tag (identifies the datagram / the scripted read)
	Sid2 uint32 `json:"sid2,omitempty"`
}

type vfRecv struct {
	msg *protocol.UDPMessage
	err error
}

type vfRead struct {
	from string
	tag  int64
	err  bool
}

type vfEnv struct {
	mu   sync.Mutex
	t0   time.Time
	log  []vfEv
	recv chan vfRecv

	pred     func(string) bool          // outbound policy
	hookFn   func(addr *string) error   // request hook (nil: leaves the address)
	dialFail int                        // the next n UDP() calls fail although the policy allows
	hookFail int                        // the next n Hook() calls fail
	sendFail int                        // the next n SendMessage() calls fail
	slowClose int                       // the next n logger.Close() calls take 10 ms (a slow event logger)
	curSid   uint32                     // session id of the message the receive loop is feeding
	lastNew  uint32                     // session id of the last logger.New (owner of the next socket)
	socks    []*vfConn
}

func newVFEnv() *vfEnv {
	return &vfEnv{t0: time.Now(), recv: make(chan vfRecv, 4096), pred: func(string) bool { return true }}
}

// caller holds e.mu
func (e *vfEnv) add(ev vfEv) {
	ev.T = int64(time.Since(e.t0) / time.Millisecond)
	e.log = append(e.log, ev)
}

func (e *vfEnv) mark() int {
	e.mu.Lock()
	defer e.mu.Unlock()
	return len(e.log)
}

func (e *vfEnv) since(m int) []vfEv {
	e.mu.Lock()
	defer e.mu.Unlock()
	return append([]vfEv(nil), e.log[m:]...)
}

// payload: 8 bytes big endian tag
func vfPayload(tag int64) []byte {
	b := make([]byte, 8)
	for i := 0; i < 8; i++ {
		b[7-i] = byte(tag >> (8 * i))
	}
	return b
}

func vfTag(b []byte) int64 {
	if len(b) != 8 {
		return -1
	}
	var v int64
	for i := 0; i < 8; i++ {
		v = v<<8 | int64(b[i])
	}
	return v
}

// ---- udpIO

func (e *vfEnv) ReceiveMessage() (*protocol.UDPMessage, error) {
	r := <-e.recv
	e.mu.Lock()
	defer e.mu.Unlock()
	if r.err != nil {
		e.add(vfEv{K: "recverr"})
		return nil, r.err
	}
	e.curSid = r.msg.SessionID
	e.add(vfEv{K: "recv", Sid: r.msg.SessionID, Ok: r.msg.FragCount <= 1, A: r.msg.Addr, Tag: vfTag(r.msg.Data)})
	return r.msg, nil
}

func (e *vfEnv) SendMessage(buf []byte, m *protocol.UDPMessage) error {
	e.mu.Lock()
	defer e.mu.Unlock()
	tag := vfTag(m.Data)
	sock := -1
	if tag >= 0 {
		sock = int(tag >> 24)
	}
	if e.sendFail > 0 {
		e.sendFail--
		e.add(vfEv{K: "send", Sid: m.SessionID, Sock: sock, Ok: false, A: m.Addr, Tag: tag})
		return errVFFault
	}
	e.add(vfEv{K: "send", Sid: m.SessionID, Sock: sock, Ok: true, A: m.Addr, Tag: tag})
	return nil
}

func (e *vfEnv) Hook(data []byte, reqAddr *string) error {
	e.mu.Lock()
	defer e.mu.Unlock()
	if e.hookFail > 0 {
		e.hookFail--
		e.add(vfEv{K: "hook", Sid: e.curSid, Ok: false, A: *reqAddr})
		return errVFFault
	}
	if e.hookFn != nil {
		if err := e.hookFn(reqAddr); err != nil {
			e.add(vfEv{K: "hook", Sid: e.curSid, Ok: false, A: *reqAddr})
			return err
		}
	}
	e.add(vfEv{K: "hook", Sid: e.curSid, Ok: true, A: *reqAddr})
	return nil
}

func (e *vfEnv) UDP(reqAddr string) (UDPConn, error) {
	e.mu.Lock()
	defer e.mu.Unlock()
	if e.dialFail > 0 {
		e.dialFail--
		e.add(vfEv{K: "dial", Sid: e.lastNew, Sock: -1, Ok: false, A: reqAddr})
		return nil, errVFFault
	}
	if !e.pred(reqAddr) {
		e.add(vfEv{K: "dial", Sid: e.lastNew, Sock: -1, Ok: false, A: reqAddr})
		return nil, errVFDenied
	}
	c := &vfConn{env: e, sock: len(e.socks), owner: e.lastNew, rd: make(chan vfRead, 4096), closedCh: make(chan struct{})}
	e.socks = append(e.socks, c)
	e.add(vfEv{K: "dial", Sid: e.lastNew, Sock: c.sock, Ok: true, A: reqAddr})
	return c, nil
}

func (e *vfEnv) CheckUDP(reqAddr string) error {
	e.mu.Lock()
	defer e.mu.Unlock()
	ok := e.pred(reqAddr)
	e.add(vfEv{K: "check", Sid: e.curSid, Ok: ok, A: reqAddr})
	if !ok {
		return errVFDenied
	}
	return nil
}

// ---- udpEventLogger

type vfLogger struct{ env *vfEnv }

func (l vfLogger) New(sessionID uint32, reqAddr string) {
	l.env.mu.Lock()
	defer l.env.mu.Unlock()
	l.env.lastNew = sessionID
	l.env.add(vfEv{K: "new", Sid: sessionID, Ok: true, A: reqAddr})
}

func (l vfLogger) Close(sessionID uint32, err error) {
	l.env.mu.Lock()
	l.env.add(vfEv{K: "logclose", Sid: sessionID, Ok: err == nil})
	slow := l.env.slowClose > 0
	if slow {
		l.env.slowClose--
	}
	l.env.mu.Unlock()
	if slow {
		// the caller is between part 1 of CloseWithErr (closed flag set, socket closed) and the table delete
		time.Sleep(10 * time.Millisecond)
	}
}

// ---- UDPConn

type vfConn struct {
	env      *vfEnv
	sock     int
	owner    uint32
	rd       chan vfRead
	closedCh chan struct{}
	closes   int // under env.mu
	writeErr int // the next n writes fail; under env.mu
	reads    int
	writes   int
}

func (c *vfConn) ReadFrom(b []byte) (int, string, error) {
	var r vfRead
	got := false
	select {
	case r = <-c.rd:
		got = true
	case <-c.closedCh:
	}
	c.env.mu.Lock()
	defer c.env.mu.Unlock()
	if c.closes > 0 || !got || r.err {
		c.env.add(vfEv{K: "read", Sid: c.owner, Sock: c.sock, Ok: false})
		if c.closes > 0 || !got {
			return 0, "", errVFClosed
		}
		return 0, "", errVFFault
	}
	c.reads++
	n := copy(b, vfPayload(r.tag))
	c.env.add(vfEv{K: "read", Sid: c.owner, Sock: c.sock, Ok: true, A: r.from, Tag: r.tag})
	return n, r.from, nil
}

func (c *vfConn) WriteTo(b []byte, addr string) (int, error) {
	c.env.mu.Lock()
	defer c.env.mu.Unlock()
	tag := vfTag(b)
	sid2 := uint32(0)
	if tag >= 0 {
		sid2 = uint32(tag >> 24)
	}
	if c.closes > 0 {
		c.env.add(vfEv{K: "write", Sid: c.owner, Sock: c.sock, Ok: false, A: addr, Tag: tag, Sid2: sid2})
		return 0, errVFClosed
	}
	if c.writeErr > 0 {
		c.writeErr--
		c.env.add(vfEv{K: "write", Sid: c.owner, Sock: c.sock, Ok: false, A: addr, Tag: tag, Sid2: sid2})
		return 0, errVFFault
	}
	c.writes++
	c.env.add(vfEv{K: "write", Sid: c.owner, Sock: c.sock, Ok: true, A: addr, Tag: tag, Sid2: sid2})
	return len(b), nil
}

func (c *vfConn) Close() error {
	c.env.mu.Lock()
	defer c.env.mu.Unlock()
	c.closes++
	if c.closes == 1 {
		close(c.closedCh)
	}
	c.env.add(vfEv{K: "close", Sid: c.owner, Sock: c.sock, Ok: c.closes == 1})
	return nil
}

// quiet records that synctest.Wait() returned: every other goroutine of the bubble is durably blocked
func (e *vfEnv) quiet() {
	e.mu.Lock()
	defer e.mu.Unlock()
	e.add(vfEv{K: "quiet"})
}

func (e *vfEnv) String() string { return fmt.Sprintf("vfEnv(%d events)", len(e.log)) }
