//go:build verif

package server

// C08 harness: drives udpSessionManager.feed of /repo's working tree for ONE session id with a fake
// outbound whose UDP()/CheckUDP() implement a generated predicate over a pool of address strings.
// Per datagram it records (forwarded to X | dropped | dial failed), whether CheckUDP was consulted,
// which address was dialed and which cache key the implementation evicted (Go map order: recorded so
// that the model can be fed the same choice).  It also evaluates the property on the implementation alone.

import (
	"encoding/json"
	"fmt"
	"strconv"
	"testing"
	"testing/synctest"
	"time"

	"github.com/apernet/hysteria/core/v2/internal/protocol"
)

type c08Case struct {
	Pool    int     `json:"pool"`    // addresses are indices 0..pool-1; index 0 is the empty string
	Allowed []int   `json:"allowed"` // indices the policy allows
	Hook    []int   `json:"hook"`    // [0] off | [1,a'] rewrite everything to a' | [2,k,a'] rewrite a with a%k==0 to a' | [3] error
	Ops     [][]int `json:"ops"`     // [0,a,fault] datagram | [1,r] reply from r | [2] close (idle expiry)
}

func c08Addr(i int) string {
	if i == 0 {
		return ""
	}
	return fmt.Sprintf("h%d.example.net:%d", i, 1000+i%60000)
}

func TestVerifC08(t *testing.T) {
	vParams(t, [][3]string{
		{"maxSessionACLCache", "N", strconv.Itoa(maxSessionACLCache)},
	})
	out := vOpenOut(t, "VERIF_OUT")
	defer out.Close()
	for i, raw := range vReadCases(t) {
		var c c08Case
		if err := json.Unmarshal(raw, &c); err != nil {
			t.Fatal(err)
		}
		res := map[string]any{"i": i}
		p, msg := vCatch(func() {
			synctest.Test(t, func(t *testing.T) { c08Run(c, res) })
		})
		if p {
			res["ok"] = false
			res["why"] = "panic: " + msg
			res["panic"] = true
		}
		out.Emit(res)
	}
}

func c08Run(c c08Case, res map[string]any) {
	const sid = 7
	pool := make([]string, c.Pool)
	index := map[string]int{}
	for i := range pool {
		pool[i] = c08Addr(i)
		index[pool[i]] = i
	}
	idx := func(s string) int {
		if i, ok := index[s]; ok {
			return i
		}
		return 99999
	}
	allowed := make([]bool, c.Pool)
	for _, a := range c.Allowed {
		allowed[a] = true
	}
	pred := func(s string) bool {
		i, ok := index[s]
		return ok && allowed[i]
	}
	env := newVFEnv()
	env.pred = pred
	hookOf := func(a int) (int, bool) { // rewritten index, error
		switch c.Hook[0] {
		case 1:
			return c.Hook[1], false
		case 2:
			if a%c.Hook[1] == 0 {
				return c.Hook[2], false
			}
		case 3:
			return a, true
		}
		return a, false
	}
	env.hookFn = func(addr *string) error {
		n, bad := hookOf(idx(*addr))
		if bad {
			return errVFFault
		}
		*addr = pool[n]
		return nil
	}
	sm := newUDPSessionManager(env, vfLogger{env}, time.Hour)

	ok, why := true, ""
	fail := func(s string) {
		if ok {
			ok, why = false, s
		}
	}
	keysOf := func() map[string]bool {
		sm.mutex.RLock()
		e := sm.m[sid]
		sm.mutex.RUnlock()
		if e == nil {
			return nil
		}
		ks := make(map[string]bool, len(e.aclCache))
		for k := range e.aclCache {
			ks[k] = true
		}
		return ks
	}
	// reference bookkeeping for the verdict (independent of the Coq model)
	live, hooked, ovr, orig := false, false, "", ""
	steps := make([][]int, 0, len(c.Ops))
	seq := int64(0)
	maxCache := 0
	for _, op := range c.Ops {
		switch op[0] {
		case 0:
			a, fault := op[1], op[2] != 0
			if fault {
				env.mu.Lock()
				env.dialFail = 1
				env.mu.Unlock()
			}
			before := keysOf()
			m := env.mark()
			seq++
			env.mu.Lock()
			env.curSid = sid
			env.mu.Unlock()
			sm.feed(&protocol.UDPMessage{SessionID: sid, FragCount: 1, Addr: pool[a], Data: vfPayload(int64(sid)<<24 | seq)})
			evs := env.since(m)
			env.mu.Lock()
			env.dialFail = 0
			env.mu.Unlock()
			after := keysOf()
			if len(after) > maxCache {
				maxCache = len(after)
			}
			kind, x, consulted, dialed, hasDial, dialOK := 1, 0, false, 0, false, false
			nwrites := 0
			for _, ev := range evs {
				switch ev.K {
				case "dial":
					hasDial, dialed, dialOK = true, idx(ev.A), ev.Ok
				case "check":
					consulted = true
					if hooked {
						fail("CheckUDP consulted in a session whose destination was rewritten by the hook")
					}
				case "write":
					nwrites++
					kind, x = 0, idx(ev.A)
					if !pred(ev.A) {
						fail(fmt.Sprintf("datagram forwarded to %q which the outbound policy rejects", ev.A))
					}
				}
			}
			if nwrites > 1 {
				fail("one datagram written more than once")
			}
			sm.mutex.RLock()
			ent := sm.m[sid]
			sm.mutex.RUnlock()
			if nwrites == 0 && ent == nil {
				kind = 2
			}
			evicted, hasEv := 0, false
			for k := range before {
				if !after[k] {
					if hasEv {
						fail("more than one cache entry evicted by one datagram")
					}
					evicted, hasEv = idx(k), true
				}
			}
			// verdict on the implementation alone
			if !live {
				n, bad := hookOf(a)
				if !bad && pred(pool[n]) && !fault {
					live = true
					hooked = n != a
					if hooked {
						ovr, orig = pool[n], pool[a]
					} else {
						ovr, orig = "", ""
					}
				}
				if !live && nwrites > 0 {
					fail("datagram forwarded although the dial of the first destination was refused")
				}
				_ = dialOK
			}
			if live {
				if hooked {
					if nwrites != 1 || x >= len(pool) || pool[x] != ovr {
						fail("hooked session: datagram not forwarded to the rewritten destination")
					}
				} else {
					if pred(pool[a]) && (nwrites != 1 || x != a) {
						fail("destination allowed by the policy was not forwarded")
					}
					if !pred(pool[a]) && nwrites != 0 {
						fail("destination rejected by the policy received a datagram")
					}
				}
			}
			code := kind
			if consulted {
				code += 4
			}
			if fault {
				code += 8
			}
			if hasEv {
				code += 16
			}
			if hasDial {
				code += 32
			}
			steps = append(steps, []int{code, x, evicted, dialed})
		case 1:
			sm.mutex.RLock()
			ent := sm.m[sid]
			sm.mutex.RUnlock()
			if ent == nil || ent.conn == nil {
				steps = append(steps, []int{0, 0})
				continue
			}
			conn := ent.conn.(*vfConn)
			m := env.mark()
			seq++
			conn.rd <- vfRead{from: pool[op[1]], tag: int64(conn.sock)<<24 | seq}
			synctest.Wait()
			x, got := 0, false
			for _, ev := range env.since(m) {
				if ev.K == "send" {
					got, x = true, idx(ev.A)
					want := pool[op[1]]
					if hooked {
						want = orig
					}
					if ev.A != want {
						fail(fmt.Sprintf("reply reported from %q, expected %q", ev.A, want))
					}
					if ev.Sid != sid {
						fail("reply tagged with a foreign session id")
					}
				}
			}
			if !got {
				fail("reply read from the socket was not sent to the client")
				steps = append(steps, []int{0, 0})
			} else {
				steps = append(steps, []int{1, x})
			}
		case 2:
			sm.cleanup(false)
			synctest.Wait()
			live, hooked, ovr, orig = false, false, "", ""
			steps = append(steps, []int{})
		}
	}
	sm.cleanup(false)
	synctest.Wait()
	if sm.Count() != 0 {
		fail("session left in the table after cleanup")
	}
	if maxCache > maxSessionACLCache && maxSessionACLCache > 0 {
		fail("decision cache grew beyond maxSessionACLCache")
	}
	res["steps"] = steps
	res["maxcache"] = maxCache
	res["ok"] = ok
	res["why"] = why
}
