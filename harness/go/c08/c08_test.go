//go:build verif

package server

// C08 harness: drives udpSessionManager.feed of /repo's working tree for ONE session id with a fake
// outbound whose UDP()/CheckUDP() implement a generated predicate over a pool of address strings.
// Per datagram it records (forwarded to X | dropped | dial failed), whether CheckUDP was consulted and for
// which address, which address was dialed and which cache key the implementation evicted (Go map order:
// recorded so that the model can be fed the same choice).  It also evaluates the property on the implementation alone.
//
// Client messages are complete datagrams ([0,...]) or FRAGMENTS ([3,...]) with their own PacketID / FragID /
// FragCount / Addr: the fragments of one datagram may name different destinations, arrive in any order, be
// duplicated or abandoned.  Any message may have "the WriteTo of this Feed fails" injected (also the first
// message of a session, also in hooked sessions): every WriteTo the implementation attempts is logged by the
// fake socket with its address, successful or not, so a datagram re-sent elsewhere after a failed write is seen.

import (
	"encoding/json"
	"fmt"
	"strconv"
	"testing"
	"testing/synctest"
	"time"

	"github.com/apernet/hysteria/core/v2/internal/protocol"
)

type c08Case struct {
	Pool    int     `json:"pool"`    // addresses are indices 0..pool-1; index 0 is the empty string
	Allowed []int   `json:"allowed"` // indices the policy allows
	Hook    []int   `json:"hook"`    // [0] off | [1,a'] rewrite everything to a' | [2,k,a'] rewrite a with a%k==0 to a' | [3] error
	Ops     [][]int `json:"ops"`     // [0,a,fault(,werr)] datagram | [1,r] reply from r | [2] close (idle expiry)
	//                                   [3,a,fault,werr,pid,fid,cnt] message with PacketID pid, FragID fid, FragCount cnt
	// address strings of individual pool indices (default: c08Addr(i)).  The generator uses this for destinations that
	// are DISTINCT strings with different verdicts but equal under some digest / normalisation a cache might key on.
	Names map[int]string `json:"names"`
}

// c08IO is the fake environment with one addition: a socket handed out by UDP() while a write error is armed
// fails its first write (the first datagram of a session is written right after the dial, inside the same feed).
type c08IO struct {
	*vfEnv
	armWriteErr bool
}

func (io *c08IO) UDP(reqAddr string) (UDPConn, error) {
	c, err := io.vfEnv.UDP(reqAddr)
	if err == nil && io.armWriteErr {
		vc := c.(*vfConn)
		io.vfEnv.mu.Lock()
		vc.writeErr = 1
		io.vfEnv.mu.Unlock()
	}
	return c, err
}

func c08Addr(i int) string {
	if i == 0 {
		return ""
	}
	return fmt.Sprintf("h%d.example.net:%d", i, 1000+i%60000)
}

func TestVerifC08(t *testing.T) {
	vParams(t, [][3]string{
		{"maxSessionACLCache", "N", strconv.Itoa(maxSessionACLCache)},
	})
	out := vOpenOut(t, "VERIF_OUT")
	defer out.Close()
	for i, raw := range vReadCases(t) {
		var c c08Case
		if err := json.Unmarshal(raw, &c); err != nil {
			t.Fatal(err)
		}
		res := map[string]any{"i": i}
		p, msg := vCatch(func() {
			synctest.Test(t, func(t *testing.T) { c08Run(c, res) })
		})
		if p {
			res["ok"] = false
			res["why"] = "panic: " + msg
			res["panic"] = true
		}
		out.Emit(res)
	}
}

func c08Run(c c08Case, res map[string]any) {
	const sid = 7
	pool := make([]string, c.Pool)
	index := map[string]int{}
	dupName := ""
	for i := range pool {
		pool[i] = c08Addr(i)
		if nm, named := c.Names[i]; named && i != 0 {
			pool[i] = nm
		}
		if _, dup := index[pool[i]]; dup {
			dupName = pool[i]
		}
		index[pool[i]] = i
	}
	idx := func(s string) int {
		if i, ok := index[s]; ok {
			return i
		}
		return 99999
	}
	allowed := make([]bool, c.Pool)
	for _, a := range c.Allowed {
		allowed[a] = true
	}
	pred := func(s string) bool {
		i, ok := index[s]
		return ok && allowed[i]
	}
	env := newVFEnv()
	env.pred = pred
	hookOf := func(a int) (int, bool) { // rewritten index, error
		switch c.Hook[0] {
		case 1:
			return c.Hook[1], false
		case 2:
			if a%c.Hook[1] == 0 {
				return c.Hook[2], false
			}
		case 3:
			return a, true
		}
		return a, false
	}
	env.hookFn = func(addr *string) error {
		n, bad := hookOf(idx(*addr))
		if bad {
			return errVFFault
		}
		*addr = pool[n]
		return nil
	}
	cio := &c08IO{vfEnv: env}
	sm := newUDPSessionManager(cio, vfLogger{env}, time.Hour)

	ok, why := true, ""
	fail := func(s string) {
		if ok {
			ok, why = false, s
		}
	}
	if dupName != "" {
		fail(fmt.Sprintf("harness: the case names two pool indices %q", dupName))
	}
	// observations of unexported state go through reflection by name (c08obs_test.go): the decision cache's keys
	// (the model's eviction oracle) and size; "unavailable" / "len-only" is recorded, the verdict below runs regardless
	obs := c08NewObs(sm)
	keysOf := func() (map[string]bool, int) { return obs.cache(sid) }
	// the session's socket: there is one session id, so it is the one socket of the fake outbound that is open
	openSock := func() *vfConn {
		env.mu.Lock()
		defer env.mu.Unlock()
		for i := len(env.socks) - 1; i >= 0; i-- {
			if env.socks[i].closes == 0 {
				return env.socks[i]
			}
		}
		return nil
	}
	// reference bookkeeping for the verdict (independent of the Coq model)
	//   live: the session has its socket; hooked: 1 the hook rewrote the first destination, 0 it did not,
	//   2 undecidable (the fragments of the first datagram disagree and only some of them are rewritten)
	live, hooked, ovr := false, 0, ""
	origs := map[string]bool{}
	// destinations this (plain) session already has a verdict for: the one the dial vetted and every one CheckUDP
	// was consulted for since.  A datagram naming none of them cannot be decided without asking the policy.
	vetted := map[string]bool{}
	// reference defragmenter (own transcription of the protocol rule: one packet id at a time, a fragment of
	// another packet id or count discards what is there, duplicates ignored, complete when all ids 0..cnt-1 are in)
	rpid, rcnt := 0, 0
	rgot := map[int]int{} // FragID -> address index
	rreset := func() { rpid, rcnt, rgot = 0, 0, map[int]int{} }
	// returns (complete, the addresses named by the fragments of the completed datagram)
	rfeed := func(pid, fid, cnt, a int) (bool, []int) {
		if cnt <= 1 {
			return true, []int{a}
		}
		if fid >= cnt {
			return false, nil
		}
		if pid != rpid || cnt != rcnt {
			rpid, rcnt, rgot = pid, cnt, map[int]int{fid: a}
			return false, nil
		}
		if _, dup := rgot[fid]; dup {
			return false, nil
		}
		rgot[fid] = a
		if len(rgot) == rcnt {
			set := make([]int, 0, rcnt)
			for i := 0; i < rcnt; i++ {
				set = append(set, rgot[i])
			}
			// frag.go keeps the completed fragments until another packet id / count arrives; further
			// fragments of the same packet are duplicates, which the map already says
			return true, set
		}
		return false, nil
	}
	inSet := func(set []int, x int) bool {
		for _, v := range set {
			if v == x {
				return true
			}
		}
		return false
	}
	steps := make([][]int, 0, len(c.Ops))
	seq := int64(0)
	maxCache := 0
	for _, op := range c.Ops {
		switch op[0] {
		case 0, 3:
			a, fault := op[1], op[2] != 0
			werr := len(op) > 3 && op[3] != 0
			pid, fid, cnt := 0, 0, 1
			if op[0] == 3 {
				pid, fid, cnt = op[4], op[5], op[6]
			}
			if fault {
				env.mu.Lock()
				env.dialFail = 1
				env.mu.Unlock()
			}
			// arm the write error: on the session's socket if it has one, on the socket the dial of this feed creates otherwise
			var armed *vfConn
			if werr {
				if sk := openSock(); sk != nil {
					armed = sk
					env.mu.Lock()
					armed.writeErr = 1
					env.mu.Unlock()
				}
				cio.armWriteErr = true
			}
			before, _ := keysOf()
			wasLive, wasHooked := live, hooked
			m := env.mark()
			seq++
			env.mu.Lock()
			env.curSid = sid
			nsocks := len(env.socks)
			env.mu.Unlock()
			sm.feed(&protocol.UDPMessage{SessionID: sid, PacketID: uint16(pid), FragID: uint8(fid), FragCount: uint8(cnt),
				Addr: pool[a], Data: vfPayload(int64(sid)<<24 | seq)})
			evs := env.since(m)
			env.mu.Lock()
			env.dialFail = 0
			if armed != nil {
				armed.writeErr = 0
			}
			for _, sc := range env.socks[nsocks:] {
				sc.writeErr = 0
			}
			env.mu.Unlock()
			cio.armWriteErr = false
			after, nAfter := keysOf()
			if nAfter > maxCache {
				maxCache = nAfter
			}
			complete, set := rfeed(pid, fid, cnt, a)
			kind, x, consulted, dialed, hasDial, dialOK, chk := 1, 0, false, 0, false, false, 0
			nwrites, wfailed := 0, false
			checkedAddr, hasCheck := "", false
			for _, ev := range evs {
				switch ev.K {
				case "dial":
					hasDial, dialed, dialOK = true, idx(ev.A), ev.Ok
				case "check":
					consulted, chk = true, idx(ev.A)
					checkedAddr, hasCheck = ev.A, true
					if hooked == 1 {
						fail("CheckUDP consulted in a session whose destination was rewritten by the hook")
					}
				case "write":
					// every attempt counts, whether the socket accepted it or not
					nwrites++
					kind, x = 0, idx(ev.A)
					if !ev.Ok {
						wfailed = true
					}
					if !pred(ev.A) {
						fail(fmt.Sprintf("datagram handed to WriteTo for %q which the outbound policy rejects", ev.A))
					}
				}
			}
			if nwrites > 1 {
				fail("one datagram written more than once")
			}
			for _, ev := range evs {
				if ev.K == "write" && hasCheck && ev.A != checkedAddr {
					fail(fmt.Sprintf("CheckUDP was consulted for %q but the datagram was handed to WriteTo for %q", checkedAddr, ev.A))
				}
			}
			if nwrites == 0 && sm.Count() == 0 {
				kind = 2
			}
			evicted, hasEv := 0, false
			for k := range before {
				if !after[k] {
					if hasEv {
						fail("more than one cache entry evicted by one datagram")
					}
					evicted, hasEv = idx(k), true
				}
			}
			// verdict on the implementation alone
			if !complete {
				if nwrites != 0 || hasDial || consulted {
					fail("a fragment that completes no datagram caused a dial, a policy query or a write")
				}
			} else {
				if !live {
					// the first complete datagram of the session: the destination dialed must be what the hook makes of
					// an address named by the datagram's fragments; the fake outbound's own answer says whether it is up
					nRew, nKeep := 0, 0
					for _, c0 := range set {
						n, bad := hookOf(c0)
						if !bad && hasDial && n == dialed {
							if n != c0 {
								nRew++
							} else {
								nKeep++
							}
						}
					}
					if hasDial && nRew+nKeep == 0 {
						fail("the session dialed a destination that is not what the hook makes of any address in the datagram")
					}
					if hasDial && dialOK {
						if !pred(pool[dialed]) || fault {
							fail("harness: the fake outbound accepted a dial it must refuse")
						}
						live, ovr = true, pool[dialed]
						origs = map[string]bool{}
						vetted = map[string]bool{pool[dialed]: true}
						switch {
						case nKeep == 0:
							hooked = 1
							for _, c0 := range set {
								if n, bad := hookOf(c0); !bad && n == dialed {
									origs[pool[c0]] = true
								}
							}
						case nRew == 0:
							hooked = 0
						default:
							hooked = 2
							for _, c0 := range set {
								if n, bad := hookOf(c0); !bad && n == dialed && n != c0 {
									origs[pool[c0]] = true
								}
							}
						}
					}
					if !live && nwrites > 0 {
						fail("datagram forwarded although the dial of the first destination was refused")
					}
					if !live && len(set) == 1 {
						if n, bad := hookOf(a); !bad && pred(pool[n]) && !fault {
							fail("the session did not come up although hook and outbound accept its first destination")
						}
					}
				}
				if live {
					switch hooked {
					case 1:
						if nwrites != 1 || x >= len(pool) || pool[x] != ovr {
							fail("hooked session: datagram not handed to WriteTo for the rewritten destination (and only for it)")
						}
					case 0:
						if nwrites > 0 && !inSet(set, x) {
							fail("datagram written to a destination that none of its fragments names")
						}
						if len(set) == 1 {
							if pred(pool[a]) && (nwrites != 1 || x != a) {
								fail("destination allowed by the policy was not forwarded")
							}
							if !pred(pool[a]) && nwrites != 0 {
								fail("destination rejected by the policy received a datagram")
							}
						} else {
							allOK, noneOK := true, true
							for _, c0 := range set {
								if pred(pool[c0]) {
									noneOK = false
								} else {
									allOK = false
								}
							}
							if allOK && nwrites != 1 {
								fail("every destination named by the datagram's fragments is allowed, yet it was not forwarded")
							}
							if noneOK && nwrites != 0 {
								fail("no destination named by the datagram's fragments is allowed, yet it was written")
							}
						}
					default:
						if nwrites > 0 && !inSet(set, x) && pool[x] != ovr {
							fail("datagram written to a destination that is neither named by its fragments nor the rewritten one")
						}
					}
				}
				// a plain session that was already up meets a datagram none of whose addresses it has a verdict for:
				// the policy must be asked (whatever the cache is keyed on, two different strings are two questions)
				if wasLive && wasHooked == 0 && live {
					known := false
					for _, c0 := range set {
						if vetted[pool[c0]] {
							known = true
						}
					}
					if !known && !consulted {
						fail(fmt.Sprintf("datagram for %q decided without consulting CheckUDP although the session never had a verdict for that destination", pool[a]))
					}
				}
				if hasCheck {
					vetted[checkedAddr] = true
				}
				if werr && nwrites == 1 && !wfailed {
					fail("harness: the injected write error did not reach the socket")
				}
			}
			code := kind
			if consulted {
				code += 4
			}
			if fault {
				code += 8
			}
			if hasEv {
				code += 16
			}
			if hasDial {
				code += 32
			}
			if werr {
				code += 64
			}
			if wfailed {
				code += 128
			}
			if kind == 2 {
				// the entry is gone, and with it its Defragger
				rreset()
			}
			steps = append(steps, []int{code, x, evicted, dialed, chk})
		case 1:
			conn := openSock()
			if conn == nil {
				steps = append(steps, []int{0, 0})
				continue
			}
			m := env.mark()
			seq++
			conn.rd <- vfRead{from: pool[op[1]], tag: int64(conn.sock)<<24 | seq}
			synctest.Wait()
			x, got := 0, false
			for _, ev := range env.since(m) {
				if ev.K == "send" {
					got, x = true, idx(ev.A)
					switch {
					case hooked == 1 && !origs[ev.A]:
						fail(fmt.Sprintf("reply of a hooked session reported from %q, not from the destination the client asked for", ev.A))
					case hooked == 0 && ev.A != pool[op[1]]:
						fail(fmt.Sprintf("reply reported from %q, expected %q", ev.A, pool[op[1]]))
					case hooked == 2 && ev.A != pool[op[1]] && !origs[ev.A]:
						fail(fmt.Sprintf("reply reported from %q", ev.A))
					}
					if ev.Sid != sid {
						fail("reply tagged with a foreign session id")
					}
				}
			}
			if !got {
				fail("reply read from the socket was not sent to the client")
				steps = append(steps, []int{0, 0})
			} else {
				steps = append(steps, []int{1, x})
			}
		case 2:
			sm.cleanup(false)
			synctest.Wait()
			live, hooked, ovr = false, 0, ""
			origs = map[string]bool{}
			vetted = map[string]bool{}
			rreset()
			steps = append(steps, []int{})
		}
	}
	sm.cleanup(false)
	synctest.Wait()
	if sm.Count() != 0 {
		fail("session left in the table after cleanup")
	}
	if maxCache > maxSessionACLCache && maxSessionACLCache > 0 {
		fail("decision cache grew beyond maxSessionACLCache")
	}
	res["steps"] = steps
	res["maxcache"] = maxCache
	res["obs"] = map[string]string{"aclCache": obs.status}
	res["cap"] = maxSessionACLCache
	res["ok"] = ok
	res["why"] = why
}
