//go:build verif

package server

// C08 harness, pipeline sessions: ONE session id is driven through the real udpSessionManager.feed
// with, as the outbound, the deployed pipeline shape built from extras/outbounds by the external half
// of this harness (c08chainx_test.go, package server_test: static-table resolver -> real ACL engine ->
// recording outbounds, wrapped in PluggableOutboundAdapter).  The udpIO handed to the manager forwards
// UDP()/CheckUDP() to that pipeline exactly as udpIOImpl does.
//
// Verdict on the implementation alone: the policy of a destination is (a) the generator's own
// first-match evaluation of the rules on the resolved addresses and (b) what a dial (UDP()) of that
// destination on a second, untouched instance of the same pipeline answers; both must agree, a
// datagram may be written only to a destination they allow, and in a live session every allowed
// destination must be written exactly once, to that destination.

import (
	"encoding/json"
	"fmt"
	"strings"
	"testing"
	"time"

	"github.com/apernet/hysteria/core/v2/internal/protocol"
)

// VerifC08Pipeline is implemented by the external half.
type VerifC08Pipeline interface {
	Outbound
	Drain() []string // boundary records since the last Drain: "udp:<ob>:<addr>|..", "chk:<ob>:<addr>|..", "write:<ob>:<addr>", "close:<ob>"
}

// VerifC08PipelineFactory is set by the init() of the external half.
var VerifC08PipelineFactory func(spec json.RawMessage) (VerifC08Pipeline, error)

type c08ChainCase struct {
	Spec   json.RawMessage `json:"spec"`
	Dsts   []string        `json:"dsts"`
	Expect []int           `json:"expect"` // per destination: 1 allowed, 0 refused
	Ops    [][]int         `json:"ops"`    // [0,i] datagram to dsts[i] | [2] close (all sessions swept)
}

type c08ChainIO struct {
	*vfEnv
	p VerifC08Pipeline
}

func (io *c08ChainIO) UDP(reqAddr string) (UDPConn, error) { return io.p.UDP(reqAddr) }
func (io *c08ChainIO) CheckUDP(reqAddr string) error       { return io.p.CheckUDP(reqAddr) }

func TestVerifC08Chain(t *testing.T) {
	if VerifC08PipelineFactory == nil {
		t.Fatal("external half of the harness not linked")
	}
	out := vOpenOut(t, "VERIF_OUT")
	defer out.Close()
	for i, raw := range vReadCases(t) {
		var c c08ChainCase
		if err := json.Unmarshal(raw, &c); err != nil {
			t.Fatal(err)
		}
		res := map[string]any{"i": i}
		var kindOf struct {
			Impl bool `json:"impl"`
		}
		_ = json.Unmarshal(raw, &kindOf)
		p, msg := vCatch(func() {
			if kindOf.Impl {
				c08ImplRun(raw, res) // sessions through the real udpIOImpl with a policy that may fail (c08impl_test.go)
			} else {
				c08ChainRun(c, res)
			}
		})
		if p {
			res["ok"] = false
			res["why"] = "panic: " + msg
			res["panic"] = true
		}
		out.Emit(res)
	}
}

// the leaf outbound the last CheckUDP was routed to, for the message
func c08ChainRoute(recs []string) string {
	for i := len(recs) - 1; i >= 0; i-- {
		if strings.HasPrefix(recs[i], "chk:") {
			f := strings.SplitN(recs[i], ":", 3)
			return f[1]
		}
	}
	return ""
}

func c08ChainRun(c c08ChainCase, res map[string]any) {
	const sid = 11
	ok, why := true, ""
	fail := func(s string) {
		if ok {
			ok, why = false, s
		}
	}
	pl, err := VerifC08PipelineFactory(c.Spec)
	if err != nil {
		res["ok"], res["why"] = false, "pipeline of the generated grammar does not build: "+err.Error()
		return
	}
	ref, err := VerifC08PipelineFactory(c.Spec)
	if err != nil {
		res["ok"], res["why"] = false, "pipeline of the generated grammar does not build: "+err.Error()
		return
	}
	// the dial-time policy of every destination, on the untouched second instance
	allowed := make([]bool, len(c.Dsts))
	for j, d := range c.Dsts {
		conn, derr := ref.UDP(d)
		allowed[j] = derr == nil
		if conn != nil {
			_ = conn.Close()
		}
		if j < len(c.Expect) && (c.Expect[j] == 1) != allowed[j] {
			fail(fmt.Sprintf("dial-time policy: UDP(%q) says %v, first-match evaluation of the rules says allowed=%v", d, derr, c.Expect[j] == 1))
		}
	}
	env := newVFEnv()
	sm := newUDPSessionManager(&c08ChainIO{vfEnv: env, p: pl}, vfLogger{env}, time.Hour)
	live := false
	steps := make([][]int, 0, len(c.Ops))
	seq := int64(0)
	for _, op := range c.Ops {
		switch op[0] {
		case 0:
			j := op[1]
			d := c.Dsts[j]
			pl.Drain()
			seq++
			env.mu.Lock()
			env.curSid = sid
			env.mu.Unlock()
			sm.feed(&protocol.UDPMessage{SessionID: sid, FragCount: 1, Addr: d, Data: vfPayload(int64(sid)<<24 | seq)})
			nwrites, consulted, dialed := 0, 0, 0
			wrote := ""
			for _, r := range pl.Drain() {
				switch {
				case strings.HasPrefix(r, "write:"):
					nwrites++
					wrote = r[strings.Index(r[6:], ":")+7:]
					if wrote != d {
						fail(fmt.Sprintf("datagram for %q written to %q", d, wrote))
					}
				case strings.HasPrefix(r, "chk:"):
					consulted++
				case strings.HasPrefix(r, "udp:"):
					dialed++
				}
			}
			if nwrites > 0 && !allowed[j] {
				fail(fmt.Sprintf("datagram forwarded to %q which the outbound policy rejects (UDP(%q) is refused)", d, d))
			}
			if nwrites > 1 {
				fail("one datagram written more than once")
			}
			if !live {
				if allowed[j] {
					live = true
				} else if nwrites > 0 {
					fail("datagram forwarded although the dial of the first destination was refused")
				}
			}
			if live {
				if allowed[j] && nwrites != 1 {
					fail(fmt.Sprintf("destination %q allowed by the policy was not forwarded", d))
				}
				if !allowed[j] && nwrites != 0 {
					fail(fmt.Sprintf("destination %q rejected by the policy received a datagram", d))
				}
			}
			steps = append(steps, []int{nwrites, consulted, dialed})
		case 2:
			sm.cleanup(false)
			live = false
			steps = append(steps, []int{})
		}
	}
	sm.cleanup(false)
	if sm.Count() != 0 {
		fail("session left in the table after cleanup")
	}
	// the hypothesis of the session theorems, on a third untouched instance: the per-datagram query never allows what
	// the dial refuses (the policy oracle of a destination is what UDP() answers for a FRESH session), whichever leaf
	// outbound the rules select for it
	if fresh, ferr := VerifC08PipelineFactory(c.Spec); ferr == nil {
		chkAllows := make([]bool, len(c.Dsts))
		chkRoutes := make([]string, len(c.Dsts)) // the leaf outbound CheckUDP was routed to ("": none was reached)
		for j, d := range c.Dsts {
			fresh.Drain()
			cerr := fresh.CheckUDP(d)
			chkAllows[j] = cerr == nil
			route := c08ChainRoute(fresh.Drain())
			chkRoutes[j] = route
			if cerr == nil && !allowed[j] {
				where := "no outbound reached"
				if route != "" {
					where = "routed to outbound " + route
				}
				fail(fmt.Sprintf("CheckUDP(%q) allows a destination for which UDP(%q) is refused (%s): inside a session opened through another outbound a datagram for it passes the per-datagram check", d, d, where))
			}
		}
		res["check_routes"] = chkRoutes
		res["check_allows"] = chkAllows
	}
	res["steps"] = steps
	res["allowed"] = allowed
	res["ok"] = ok
	res["why"] = why
}
