//go:build verif

package server_test

// External half of the C08 pipeline-session harness (see c08chain_test.go): builds, from extras/outbounds,
//   PluggableOutboundAdapter{ static-table resolver -> NewACLEngineFromString(rules) -> recording outbounds }
// An external test package is needed because extras/outbounds imports core/server.

import (
	"encoding/json"
	"errors"
	"fmt"
	"io"
	"net"
	"strings"
	"sync"

	"github.com/apernet/hysteria/core/v2/server"
	"github.com/apernet/hysteria/extras/v2/outbounds"
)

type c08xSpec struct {
	Rules   string               `json:"rules"`
	Obs     []string             `json:"obs"`
	Allow   []bool               `json:"allow"`
	Resolve map[string][2]string `json:"resolve"` // host -> [v4 text or "", v6 text or ""], absent host = lookup error
	// per outbound, optional: "" the recording fake (allow flag) | the REAL leaf outbounds of extras/outbounds:
	// "http" / "https" (HTTP proxy: no UDP) | "socks5" / "socks5auth" (a SOCKS5 proxy on loopback that grants UDP ASSOCIATE) |
	// "direct:<mode 0..4>" (directOutbound, not bound).  A real leaf is wrapped: its own UDP() / CheckUDP() decide, the
	// socket it hands out is closed at once and replaced by a recording one (nothing ever leaves the process).
	Kinds []string `json:"kinds"`
}

var (
	errC08xRefused    = errors.New("refused")
	errC08xNoSuchHost = errors.New("no such host")
	errC08xClosed     = errors.New("closed")
)

type c08xLog struct {
	mu  sync.Mutex
	rec []string
}

func (l *c08xLog) add(s string) {
	l.mu.Lock()
	l.rec = append(l.rec, s)
	l.mu.Unlock()
}

func c08xShow(a *outbounds.AddrEx) string {
	s := a.String()
	if a.ResolveInfo == nil {
		return s + "|nil"
	}
	e := ""
	if a.ResolveInfo.Err != nil {
		e = "err"
	}
	return s + "|" + a.ResolveInfo.IPv4.String() + "|" + a.ResolveInfo.IPv6.String() + "|" + e
}

type c08xOb struct {
	name  string
	allow bool
	log   *c08xLog
}

type c08xConn struct {
	name   string
	log    *c08xLog
	once   sync.Once
	closed chan struct{}
}

func (c *c08xConn) ReadFrom(b []byte) (int, *outbounds.AddrEx, error) {
	<-c.closed
	return 0, nil, errC08xClosed
}

func (c *c08xConn) WriteTo(b []byte, a *outbounds.AddrEx) (int, error) {
	c.log.add("write:" + c.name + ":" + a.String())
	return len(b), nil
}

func (c *c08xConn) Close() error {
	c.once.Do(func() {
		close(c.closed)
		c.log.add("close:" + c.name)
	})
	return nil
}

func (o *c08xOb) TCP(reqAddr *outbounds.AddrEx) (net.Conn, error) { return nil, errC08xRefused }

func (o *c08xOb) UDP(reqAddr *outbounds.AddrEx) (outbounds.UDPConn, error) {
	o.log.add("udp:" + o.name + ":" + c08xShow(reqAddr))
	if o.allow {
		return &c08xConn{name: o.name, log: o.log, closed: make(chan struct{})}, nil
	}
	return nil, errC08xRefused
}

func (o *c08xOb) CheckUDP(reqAddr *outbounds.AddrEx) error {
	o.log.add("chk:" + o.name + ":" + c08xShow(reqAddr))
	if o.allow {
		return nil
	}
	return errC08xRefused
}


// ---- real leaf outbounds

// c08xLeaf wraps a real leaf outbound of extras/outbounds: the leaf's own UDP() and CheckUDP() answer; a socket it
// hands out is closed immediately and a recording one is returned in its place.
type c08xLeaf struct {
	name  string
	inner outbounds.PluggableOutbound
	log   *c08xLog
}

func (o *c08xLeaf) TCP(reqAddr *outbounds.AddrEx) (net.Conn, error) { return nil, errC08xRefused }

func (o *c08xLeaf) UDP(reqAddr *outbounds.AddrEx) (outbounds.UDPConn, error) {
	o.log.add("udp:" + o.name + ":" + c08xShow(reqAddr))
	c, err := o.inner.UDP(reqAddr)
	if err != nil {
		return nil, err
	}
	if c != nil {
		_ = c.Close()
	}
	return &c08xConn{name: o.name, log: o.log, closed: make(chan struct{})}, nil
}

func (o *c08xLeaf) CheckUDP(reqAddr *outbounds.AddrEx) error {
	o.log.add("chk:" + o.name + ":" + c08xShow(reqAddr))
	return o.inner.CheckUDP(reqAddr)
}

// a minimal SOCKS5 proxy on loopback (RFC 1928 negotiation, RFC 1929 user/password, UDP ASSOCIATE granted with a relay
// address nobody reads from); one per test process
var (
	c08xSocksOnce sync.Once
	c08xSocksAddr string
	c08xSocksErr  error
)

func c08xSocks() (string, error) {
	c08xSocksOnce.Do(func() {
		ln, err := net.Listen("tcp", "127.0.0.1:0")
		if err != nil {
			c08xSocksErr = err
			return
		}
		relay, err := net.ListenPacket("udp", "127.0.0.1:0")
		if err != nil {
			c08xSocksErr = err
			return
		}
		rport := relay.LocalAddr().(*net.UDPAddr).Port
		c08xSocksAddr = ln.Addr().String()
		go func() {
			for {
				c, err := ln.Accept()
				if err != nil {
					return
				}
				go c08xSocksServe(c, rport)
			}
		}()
	})
	return c08xSocksAddr, c08xSocksErr
}

func c08xSocksServe(c net.Conn, rport int) {
	defer c.Close()
	hd := make([]byte, 2)
	if _, err := io.ReadFull(c, hd); err != nil || hd[0] != 5 {
		return
	}
	ms := make([]byte, int(hd[1]))
	if _, err := io.ReadFull(c, ms); err != nil {
		return
	}
	method := byte(0)
	if strings.IndexByte(string(ms), 2) >= 0 {
		method = 2
	}
	if _, err := c.Write([]byte{5, method}); err != nil {
		return
	}
	if method == 2 {
		if _, err := io.ReadFull(c, hd); err != nil {
			return
		}
		u := make([]byte, int(hd[1])+1)
		if _, err := io.ReadFull(c, u); err != nil {
			return
		}
		pw := make([]byte, int(u[len(u)-1]))
		if _, err := io.ReadFull(c, pw); err != nil {
			return
		}
		if _, err := c.Write([]byte{1, 0}); err != nil {
			return
		}
	}
	rq := make([]byte, 4)
	if _, err := io.ReadFull(c, rq); err != nil {
		return
	}
	n := 0
	switch rq[3] {
	case 1:
		n = 4
	case 4:
		n = 16
	case 3:
		l := make([]byte, 1)
		if _, err := io.ReadFull(c, l); err != nil {
			return
		}
		n = int(l[0])
	}
	if _, err := io.ReadFull(c, make([]byte, n+2)); err != nil {
		return
	}
	rep := byte(0)
	if rq[1] != 3 { // only UDP ASSOCIATE
		rep = 7
	}
	if _, err := c.Write([]byte{5, rep, 0, 1, 127, 0, 0, 1, byte(rport >> 8), byte(rport)}); err != nil {
		return
	}
	_, _ = io.Copy(io.Discard, c) // the association lives as long as the TCP connection
}

func c08xRealLeaf(kind string) (outbounds.PluggableOutbound, error) {
	switch {
	case kind == "http":
		return outbounds.NewHTTPOutbound("http://user:pw@127.0.0.1:9", false)
	case kind == "https":
		return outbounds.NewHTTPOutbound("https://127.0.0.1:9", true)
	case kind == "socks5" || kind == "socks5auth":
		addr, err := c08xSocks()
		if err != nil {
			return nil, err
		}
		if kind == "socks5auth" {
			return outbounds.NewSOCKS5Outbound(addr, "user", "pw"), nil
		}
		return outbounds.NewSOCKS5Outbound(addr, "", ""), nil
	case strings.HasPrefix(kind, "direct:"):
		var m int
		if _, err := fmt.Sscanf(kind, "direct:%d", &m); err != nil {
			return nil, err
		}
		return outbounds.NewDirectOutboundSimple(outbounds.DirectOutboundMode(m)), nil
	}
	return nil, errors.New("unknown leaf kind " + kind)
}

// the resolver stage (shape of systemResolver / standardResolver) over a static table
type c08xResolver struct {
	table map[string][2]string
	Next  outbounds.PluggableOutbound
}

func (r *c08xResolver) resolve(reqAddr *outbounds.AddrEx) {
	if ip := net.ParseIP(reqAddr.Host); ip != nil { // = tryParseIP
		reqAddr.ResolveInfo = &outbounds.ResolveInfo{}
		if ip.To4() != nil {
			reqAddr.ResolveInfo.IPv4 = ip
		} else {
			reqAddr.ResolveInfo.IPv6 = ip
		}
		return
	}
	e, ok := r.table[reqAddr.Host]
	if !ok {
		reqAddr.ResolveInfo = &outbounds.ResolveInfo{Err: errC08xNoSuchHost}
		return
	}
	info := &outbounds.ResolveInfo{}
	if e[0] != "" {
		info.IPv4 = net.ParseIP(e[0])
	}
	if e[1] != "" {
		info.IPv6 = net.ParseIP(e[1])
	}
	reqAddr.ResolveInfo = info
}

func (r *c08xResolver) TCP(reqAddr *outbounds.AddrEx) (net.Conn, error) {
	r.resolve(reqAddr)
	return r.Next.TCP(reqAddr)
}

func (r *c08xResolver) UDP(reqAddr *outbounds.AddrEx) (outbounds.UDPConn, error) {
	r.resolve(reqAddr)
	return r.Next.UDP(reqAddr)
}

func (r *c08xResolver) CheckUDP(reqAddr *outbounds.AddrEx) error {
	r.resolve(reqAddr)
	return r.Next.CheckUDP(reqAddr)
}

type c08xPipeline struct {
	*outbounds.PluggableOutboundAdapter
	log *c08xLog
}

func (p *c08xPipeline) Drain() []string {
	p.log.mu.Lock()
	defer p.log.mu.Unlock()
	r := p.log.rec
	p.log.rec = nil
	return r
}

func init() {
	server.VerifC08PipelineFactory = func(raw json.RawMessage) (server.VerifC08Pipeline, error) {
		var s c08xSpec
		if err := json.Unmarshal(raw, &s); err != nil {
			return nil, err
		}
		log := &c08xLog{}
		obs := make([]outbounds.OutboundEntry, len(s.Obs))
		for j, n := range s.Obs {
			if j < len(s.Kinds) && s.Kinds[j] != "" {
				inner, err := c08xRealLeaf(s.Kinds[j])
				if err != nil {
					return nil, err
				}
				obs[j] = outbounds.OutboundEntry{Name: n, Outbound: &c08xLeaf{name: n, inner: inner, log: log}}
				continue
			}
			obs[j] = outbounds.OutboundEntry{Name: n, Outbound: &c08xOb{name: n, allow: s.Allow[j], log: log}}
		}
		eng, err := outbounds.NewACLEngineFromString(s.Rules, obs, nil)
		if err != nil {
			return nil, err
		}
		var next outbounds.PluggableOutbound = eng
		if s.Resolve != nil {
			next = &c08xResolver{table: s.Resolve, Next: eng}
		}
		return &c08xPipeline{PluggableOutboundAdapter: &outbounds.PluggableOutboundAdapter{PluggableOutbound: next}, log: log}, nil
	}
}
