//go:build verif

package server_test

// External half of the C08 pipeline-session harness (see c08chain_test.go): builds, from extras/outbounds,
//   PluggableOutboundAdapter{ static-table resolver -> NewACLEngineFromString(rules) -> recording outbounds }
// An external test package is needed because extras/outbounds imports core/server.

import (
	"encoding/json"
	"errors"
	"net"
	"sync"

	"github.com/apernet/hysteria/core/v2/server"
	"github.com/apernet/hysteria/extras/v2/outbounds"
)

type c08xSpec struct {
	Rules   string               `json:"rules"`
	Obs     []string             `json:"obs"`
	Allow   []bool               `json:"allow"`
	Resolve map[string][2]string `json:"resolve"` // host -> [v4 text or "", v6 text or ""], absent host = lookup error
}

var (
	errC08xRefused    = errors.New("refused")
	errC08xNoSuchHost = errors.New("no such host")
	errC08xClosed     = errors.New("closed")
)

type c08xLog struct {
	mu  sync.Mutex
	rec []string
}

func (l *c08xLog) add(s string) {
	l.mu.Lock()
	l.rec = append(l.rec, s)
	l.mu.Unlock()
}

func c08xShow(a *outbounds.AddrEx) string {
	s := a.String()
	if a.ResolveInfo == nil {
		return s + "|nil"
	}
	e := ""
	if a.ResolveInfo.Err != nil {
		e = "err"
	}
	return s + "|" + a.ResolveInfo.IPv4.String() + "|" + a.ResolveInfo.IPv6.String() + "|" + e
}

type c08xOb struct {
	name  string
	allow bool
	log   *c08xLog
}

type c08xConn struct {
	ob     *c08xOb
	once   sync.Once
	closed chan struct{}
}

func (c *c08xConn) ReadFrom(b []byte) (int, *outbounds.AddrEx, error) {
	<-c.closed
	return 0, nil, errC08xClosed
}

func (c *c08xConn) WriteTo(b []byte, a *outbounds.AddrEx) (int, error) {
	c.ob.log.add("write:" + c.ob.name + ":" + a.String())
	return len(b), nil
}

func (c *c08xConn) Close() error {
	c.once.Do(func() {
		close(c.closed)
		c.ob.log.add("close:" + c.ob.name)
	})
	return nil
}

func (o *c08xOb) TCP(reqAddr *outbounds.AddrEx) (net.Conn, error) { return nil, errC08xRefused }

func (o *c08xOb) UDP(reqAddr *outbounds.AddrEx) (outbounds.UDPConn, error) {
	o.log.add("udp:" + o.name + ":" + c08xShow(reqAddr))
	if o.allow {
		return &c08xConn{ob: o, closed: make(chan struct{})}, nil
	}
	return nil, errC08xRefused
}

func (o *c08xOb) CheckUDP(reqAddr *outbounds.AddrEx) error {
	o.log.add("chk:" + o.name + ":" + c08xShow(reqAddr))
	if o.allow {
		return nil
	}
	return errC08xRefused
}

// the resolver stage (shape of systemResolver / standardResolver) over a static table
type c08xResolver struct {
	table map[string][2]string
	Next  outbounds.PluggableOutbound
}

func (r *c08xResolver) resolve(reqAddr *outbounds.AddrEx) {
	if ip := net.ParseIP(reqAddr.Host); ip != nil { // = tryParseIP
		reqAddr.ResolveInfo = &outbounds.ResolveInfo{}
		if ip.To4() != nil {
			reqAddr.ResolveInfo.IPv4 = ip
		} else {
			reqAddr.ResolveInfo.IPv6 = ip
		}
		return
	}
	e, ok := r.table[reqAddr.Host]
	if !ok {
		reqAddr.ResolveInfo = &outbounds.ResolveInfo{Err: errC08xNoSuchHost}
		return
	}
	info := &outbounds.ResolveInfo{}
	if e[0] != "" {
		info.IPv4 = net.ParseIP(e[0])
	}
	if e[1] != "" {
		info.IPv6 = net.ParseIP(e[1])
	}
	reqAddr.ResolveInfo = info
}

func (r *c08xResolver) TCP(reqAddr *outbounds.AddrEx) (net.Conn, error) {
	r.resolve(reqAddr)
	return r.Next.TCP(reqAddr)
}

func (r *c08xResolver) UDP(reqAddr *outbounds.AddrEx) (outbounds.UDPConn, error) {
	r.resolve(reqAddr)
	return r.Next.UDP(reqAddr)
}

func (r *c08xResolver) CheckUDP(reqAddr *outbounds.AddrEx) error {
	r.resolve(reqAddr)
	return r.Next.CheckUDP(reqAddr)
}

type c08xPipeline struct {
	*outbounds.PluggableOutboundAdapter
	log *c08xLog
}

func (p *c08xPipeline) Drain() []string {
	p.log.mu.Lock()
	defer p.log.mu.Unlock()
	r := p.log.rec
	p.log.rec = nil
	return r
}

func init() {
	server.VerifC08PipelineFactory = func(raw json.RawMessage) (server.VerifC08Pipeline, error) {
		var s c08xSpec
		if err := json.Unmarshal(raw, &s); err != nil {
			return nil, err
		}
		log := &c08xLog{}
		obs := make([]outbounds.OutboundEntry, len(s.Obs))
		for j, n := range s.Obs {
			obs[j] = outbounds.OutboundEntry{Name: n, Outbound: &c08xOb{name: n, allow: s.Allow[j], log: log}}
		}
		eng, err := outbounds.NewACLEngineFromString(s.Rules, obs, nil)
		if err != nil {
			return nil, err
		}
		var next outbounds.PluggableOutbound = eng
		if s.Resolve != nil {
			next = &c08xResolver{table: s.Resolve, Next: eng}
		}
		return &c08xPipeline{PluggableOutboundAdapter: &outbounds.PluggableOutboundAdapter{PluggableOutbound: next}, log: log}, nil
	}
}
