//go:build verif

package server

// C08 harness, policies that FAIL: ONE session id is driven through the real udpSessionManager.feed whose udpIO is
// the server's own udpIOImpl (its Hook / UDP / CheckUDP are the code under test; only ReceiveMessage / SendMessage,
// which need a QUIC connection, are served by the fake environment).  Config.Outbound and Config.RequestHook are
// fakes whose answer for a destination is one of THREE outcomes: allowed, rejected, or "the policy fails while it
// evaluates the destination" (it panics - a string, an error value, a runtime error such as an index out of range
// on an address with an empty port, a nil-map write - or it returns an unusual error value: a typed-nil pointer, an
// error whose Error method panics; those two are rejections).
//
// Verdict on the implementation alone: a destination on which the policy did not say "allowed" is never handed to
// WriteTo - not by the Feed in which the policy failed, and not by any later one (the decision cache must not have
// learned "allowed" from a failure).  A panic that propagates out of feed is recovered HERE and counts as "not
// forwarded" (on the untouched tree nothing recovers it and the process dies: nothing is forwarded either); when it
// propagates out of the dial of a session's first datagram the entry is left wedged (udp.go holds connLock across
// DialFunc), the history ends there.  In a live un-hooked session an allowed destination must be written exactly once.

import (
	"encoding/json"
	"errors"
	"fmt"
	"net"
	"time"

	"github.com/apernet/hysteria/core/v2/internal/protocol"
)

type c08ImplCase struct {
	Impl  bool           `json:"impl"`
	Pool  int            `json:"pool"`
	Out   []int          `json:"out"`   // per pool index: 0 rejected, 1 allowed, 2.. the policy fails (see c08ImplBlow) / unusual errors
	DMode int            `json:"dmode"` // what UDP() does for a destination the policy fails on: 0 refuses with an error, 1 fails the same way
	Hook  []int          `json:"hook"`  // [0] no RequestHook | [4] a RequestHook whose Check says no | [1,a'] | [2,k,a'] Check says yes for a%k==0, rewrite to a'
	//                                     [3] error | [5,k] UDP hook panics for a%k==0, keeps otherwise | [6,k] Check panics for a%k==0, says no otherwise
	Names map[int]string `json:"names"`
	Ops   [][]int        `json:"ops"` // [0,a] datagram for a | [2] close (all sessions swept)
}

const (
	c08oDeny  = 0
	c08oAllow = 1
	// 2 panic(string)  3 panic(error)  4 index out of range (runtime.Error)  5 nil map write (runtime.Error)
	// 6 returns a typed-nil error (non-nil interface: a rejection)  7 returns an error whose Error() panics (a rejection)
	// 8 panic(nil)  9 panics after having evaluated half of the address (net.SplitHostPort + index into the port)
)

// does this outcome propagate a panic (true) or answer (false)
func c08ImplPanics(k int) bool { return k >= 2 && k != 6 && k != 7 }

type c08TypedNilErr struct{ s string }

func (e *c08TypedNilErr) Error() string {
	if e == nil {
		return "typed nil"
	}
	return e.s
}

type c08BadErr struct{}

func (c08BadErr) Error() string { panic("Error() of the policy's error value panics") }

// c08ImplBlow is the failing policy code; it never returns nil
func c08ImplBlow(k int, addr string) error {
	switch k {
	case 2:
		panic("policy: cannot evaluate " + addr)
	case 3:
		panic(errors.New("policy: lookup table unavailable"))
	case 4:
		var ports []string
		_ = ports[len(addr)] // index out of range
	case 5:
		var m map[string]int
		m[addr] = 1 // assignment to entry in nil map
	case 6:
		var e *c08TypedNilErr
		return e
	case 7:
		return c08BadErr{}
	case 8:
		panic(nil)
	case 9:
		_, port, err := net.SplitHostPort(addr)
		if err != nil {
			port = ""
		}
		if port[0] == '5' && port == "53" { // index out of range on an empty port
			panic("policy: port table unavailable")
		}
		panic("policy: port " + port + " not in the table")
	}
	return errVFDenied
}

type c08ImplOb struct {
	env   *vfEnv
	kind  func(string) int
	dmode int
}

func (o *c08ImplOb) TCP(reqAddr string) (net.Conn, error) { return nil, errVFDenied }

func (o *c08ImplOb) UDP(reqAddr string) (UDPConn, error) {
	k := o.kind(reqAddr)
	if k >= 2 && o.dmode == 1 {
		o.env.mu.Lock()
		o.env.add(vfEv{K: "dial", Sid: o.env.lastNew, Sock: -1, Ok: false, A: reqAddr})
		o.env.mu.Unlock()
		return nil, c08ImplBlow(k, reqAddr)
	}
	return o.env.UDP(reqAddr) // pred: allowed only
}

func (o *c08ImplOb) CheckUDP(reqAddr string) error {
	k := o.kind(reqAddr)
	if k >= 2 {
		o.env.mu.Lock()
		o.env.add(vfEv{K: "check", Sid: o.env.curSid, Ok: false, A: reqAddr})
		o.env.mu.Unlock()
		return c08ImplBlow(k, reqAddr)
	}
	return o.env.CheckUDP(reqAddr)
}

type c08ImplHook struct {
	mode []int
	idx  func(string) int
	pool []string
}

func (h *c08ImplHook) Check(isUDP bool, reqAddr string) bool {
	a := h.idx(reqAddr)
	switch h.mode[0] {
	case 1, 3:
		return true
	case 2, 5:
		return a%h.mode[1] == 0
	case 6:
		if a%h.mode[1] == 0 {
			panic("hook: Check cannot parse " + reqAddr)
		}
	}
	return false
}

func (h *c08ImplHook) TCP(stream HyStream, reqAddr *string) ([]byte, error) { return nil, nil }

func (h *c08ImplHook) UDP(data []byte, reqAddr *string) error {
	switch h.mode[0] {
	case 1:
		*reqAddr = h.pool[h.mode[1]]
	case 2:
		*reqAddr = h.pool[h.mode[2]]
	case 3:
		return errVFFault
	case 5:
		var sniff []byte
		_ = sniff[len(data)+3] // the sniffer indexes past its buffer
	}
	return nil
}

// c08ImplIO: the real udpIOImpl for Hook / UDP / CheckUDP, the fake environment for the two calls that need a QUIC connection
type c08ImplIO struct {
	*udpIOImpl
	env *vfEnv
}

func (io *c08ImplIO) ReceiveMessage() (*protocol.UDPMessage, error) { return io.env.ReceiveMessage() }
func (io *c08ImplIO) SendMessage(buf []byte, m *protocol.UDPMessage) error {
	return io.env.SendMessage(buf, m)
}

func c08ImplTry(f func()) (panicked bool, msg string) {
	defer func() {
		if r := recover(); r != nil {
			panicked = true
			func() {
				defer func() {
					if recover() != nil {
						msg = "(unprintable panic value)"
					}
				}()
				msg = fmt.Sprint(r)
			}()
		}
	}()
	f()
	return false, ""
}

func c08ImplAddr(i int) string {
	if i == 0 {
		return ""
	}
	return fmt.Sprintf("h%d.example.net:%d", i, 1000+i)
}

func c08ImplRun(raw json.RawMessage, res map[string]any) {
	var c c08ImplCase
	if err := json.Unmarshal(raw, &c); err != nil {
		res["ok"], res["why"] = false, "harness: "+err.Error()
		return
	}
	const sid = 13
	pool := make([]string, c.Pool)
	index := map[string]int{}
	for i := range pool {
		pool[i] = c08ImplAddr(i)
		if nm, named := c.Names[i]; named && i != 0 {
			pool[i] = nm
		}
		index[pool[i]] = i
	}
	idx := func(s string) int {
		if i, ok := index[s]; ok {
			return i
		}
		return 99999
	}
	kind := func(s string) int {
		if i, ok := index[s]; ok && i < len(c.Out) {
			return c.Out[i]
		}
		return c08oDeny
	}
	env := newVFEnv()
	env.pred = func(s string) bool { return kind(s) == c08oAllow }
	impl := &udpIOImpl{AuthID: "c08", Outbound: &c08ImplOb{env: env, kind: kind, dmode: c.DMode}}
	if c.Hook[0] != 0 {
		impl.RequestHook = &c08ImplHook{mode: c.Hook, idx: idx, pool: pool}
	}
	sm := newUDPSessionManager(&c08ImplIO{udpIOImpl: impl, env: env}, vfLogger{env}, time.Hour)

	ok, why := true, ""
	fail := func(s string) {
		if ok {
			ok, why = false, s
		}
	}
	// what the hook makes of a first destination: (rewritten index, 0 ok / 1 error / 2 panics)
	hookOf := func(a int) (int, int) {
		switch c.Hook[0] {
		case 1:
			return c.Hook[1], 0
		case 2:
			if a%c.Hook[1] == 0 {
				return c.Hook[2], 0
			}
		case 3:
			return a, 1
		case 5, 6:
			if a%c.Hook[1] == 0 {
				return a, 2
			}
		}
		return a, 0
	}
	live, hooked, ovr, dead := false, false, "", false
	steps := make([][]int, 0, len(c.Ops))
	seq := int64(0)
	for _, op := range c.Ops {
		if dead {
			break
		}
		switch op[0] {
		case 0:
			a := op[1]
			m := env.mark()
			seq++
			env.mu.Lock()
			env.curSid = sid
			env.mu.Unlock()
			panicked, pmsg := c08ImplTry(func() {
				sm.feed(&protocol.UDPMessage{SessionID: sid, FragCount: 1, Addr: pool[a], Data: vfPayload(int64(sid)<<24 | seq)})
			})
			nwrites, x, consulted, hasDial, dialed, dialOK := 0, 0, false, false, 0, false
			for _, ev := range env.since(m) {
				switch ev.K {
				case "dial":
					hasDial, dialed, dialOK = true, idx(ev.A), ev.Ok
				case "check":
					consulted = true
					if hooked {
						fail("CheckUDP consulted in a session whose destination was rewritten by the hook")
					}
					if ev.A != pool[a] {
						fail(fmt.Sprintf("CheckUDP consulted for %q while the datagram names %q", ev.A, pool[a]))
					}
				case "write":
					nwrites++
					x = idx(ev.A)
					if k := kind(ev.A); k != c08oAllow {
						what := "which the outbound policy rejects"
						if c08ImplPanics(k) {
							what = "although the outbound policy never allowed it: it FAILED while evaluating that destination (it panicked)"
						} else if k >= 2 {
							what = "although the outbound policy answered with an error value (an unusual one, still not nil)"
						}
						fail(fmt.Sprintf("datagram handed to WriteTo for %q %s", ev.A, what))
					}
				}
			}
			if nwrites > 1 {
				fail("one datagram written more than once")
			}
			if panicked && nwrites > 0 {
				fail("a datagram was written by a Feed out of which a panic propagated")
			}
			wasLive := live
			if !wasLive {
				n, hk := hookOf(a)
				if hasDial && dialOK {
					if kind(pool[dialed]) != c08oAllow {
						fail("harness: the fake outbound accepted a dial it must refuse")
					}
					if hk != 0 || dialed != n {
						fail("the session dialed a destination that is not what the hook makes of its first destination")
					}
					live, hooked, ovr = true, n != a, pool[dialed]
				} else if nwrites > 0 {
					fail("datagram forwarded although the session's first destination was not dialed successfully")
				} else if hk == 0 && kind(pool[n]) == c08oAllow && !panicked {
					fail("the session did not come up although hook and outbound accept its first destination")
				}
			}
			if live {
				switch {
				case hooked:
					if nwrites != 1 || pool[x] != ovr {
						fail("hooked session: datagram not handed to WriteTo for the rewritten destination (and only for it)")
					}
				case kind(pool[a]) == c08oAllow:
					if nwrites != 1 || x != a {
						fail(fmt.Sprintf("destination %q allowed by the policy was not forwarded", pool[a]))
					}
				default:
					if nwrites != 0 {
						fail(fmt.Sprintf("destination %q received a datagram although the policy did not allow it", pool[a]))
					}
				}
			}
			code := 1
			switch {
			case nwrites > 0:
				code = 0
			case panicked:
				code = 3
			case sm.Count() == 0:
				code = 2
			}
			if consulted {
				code += 4
			}
			if hasDial {
				code += 32
			}
			if panicked && !wasLive {
				// the panic left the dial of the first datagram: connLock is held for good, the entry is wedged
				dead = true
				code += 64
			}
			_ = pmsg
			steps = append(steps, []int{code, x, dialed})
		case 2:
			sm.cleanup(false)
			live, hooked, ovr = false, false, ""
			steps = append(steps, []int{})
		}
	}
	if !dead {
		sm.cleanup(false)
		if sm.Count() != 0 {
			fail("session left in the table after cleanup")
		}
	}
	res["steps"] = steps
	res["dead"] = dead
	res["ok"] = ok
	res["why"] = why
}
