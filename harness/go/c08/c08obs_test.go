//go:build verif

package server

// C08 harness, observations of unexported state.
//
// The behaviour surface the harness drives (newUDPSessionManager, feed, cleanup, Count, the udpIO / UDPConn /
// udpEventLogger interfaces) is used directly.  What the harness merely OBSERVES - the contents of the per-session
// decision cache, which the Coq model needs as its eviction oracle - is read through reflection, BY NAME, and degrades
// gracefully: a tree that keeps the behaviour but represents the cache differently (other key type, other container,
// other field name) still compiles; the observation is then reported as unavailable (or "len-only") in the output
// record, the python side restricts the model comparison to the part of the history in which no eviction can have
// happened, and the verdict on the implementation alone runs on the whole history as before.

import (
	"fmt"
	"reflect"
	"sync"
	"unsafe"
)

const (
	c08ObsNone = 0 // nothing observable
	c08ObsLen  = 1 // the cache is a map of another key type: only its size is observable
	c08ObsKeys = 2 // the cache is a map keyed by the destination string: keys observable (exact eviction oracle)
)

type c08Obs struct {
	level  int
	status string // "ok" | "len-only: <type>" | "unavailable: <why>"
	sm     reflect.Value
	table  reflect.Value // the session table (map[uint32]*entry), addressable through sm
	lock   func()
	unlock func()
}

// c08NewObs inspects the TYPES only (so that the answer does not depend on whether a session exists yet).
func c08NewObs(sm any) *c08Obs {
	o := &c08Obs{lock: func() {}, unlock: func() {}}
	un := func(f string, a ...any) *c08Obs {
		o.level, o.status = c08ObsNone, "unavailable: "+fmt.Sprintf(f, a...)
		return o
	}
	v := reflect.ValueOf(sm)
	if v.Kind() != reflect.Pointer || v.IsNil() || v.Elem().Kind() != reflect.Struct {
		return un("session manager is a %s", v.Kind())
	}
	o.sm = v.Elem()
	// the lock guarding the table, if it is where it used to be (the harness is sequential; taken for fidelity)
	if mf := o.sm.FieldByName("mutex"); mf.IsValid() && mf.CanAddr() {
		switch mf.Type() {
		case reflect.TypeOf(sync.RWMutex{}):
			mu := (*sync.RWMutex)(unsafe.Pointer(mf.UnsafeAddr()))
			o.lock, o.unlock = mu.RLock, mu.RUnlock
		case reflect.TypeOf(sync.Mutex{}):
			mu := (*sync.Mutex)(unsafe.Pointer(mf.UnsafeAddr()))
			o.lock, o.unlock = mu.Lock, mu.Unlock
		}
	}
	tf := o.sm.FieldByName("m")
	if !tf.IsValid() {
		return un("session manager has no field m")
	}
	tt := tf.Type()
	if tt.Kind() != reflect.Map || tt.Key().Kind() != reflect.Uint32 || tt.Elem().Kind() != reflect.Pointer ||
		tt.Elem().Elem().Kind() != reflect.Struct {
		return un("session table is a %s", tt)
	}
	o.table = tf
	cf, ok := tt.Elem().Elem().FieldByName("aclCache")
	if !ok {
		return un("session entry has no field aclCache")
	}
	if cf.Type.Kind() != reflect.Map {
		return un("aclCache is a %s", cf.Type)
	}
	if cf.Type.Key().Kind() != reflect.String {
		o.level, o.status = c08ObsLen, "len-only: aclCache is a "+cf.Type.String()
		return o
	}
	o.level, o.status = c08ObsKeys, "ok"
	return o
}

// cache returns the decision cache of session sid: its keys (level c08ObsKeys only) and its size (levels >= c08ObsLen).
// No entry, or nothing observable: nil, 0.
func (o *c08Obs) cache(sid uint32) (keys map[string]bool, n int) {
	if o.level == c08ObsNone {
		return nil, 0
	}
	o.lock()
	defer o.unlock()
	ev := o.table.MapIndex(reflect.ValueOf(sid).Convert(o.table.Type().Key()))
	if !ev.IsValid() || ev.IsNil() {
		return nil, 0
	}
	f := ev.Elem().FieldByName("aclCache")
	if !f.IsValid() || f.Kind() != reflect.Map {
		return nil, 0
	}
	n = f.Len()
	if o.level < c08ObsKeys {
		return nil, n
	}
	// read the keys through a fresh, exported view of the same memory when the field is addressable
	if f.CanAddr() {
		f = reflect.NewAt(f.Type(), unsafe.Pointer(f.UnsafeAddr())).Elem()
	}
	keys = make(map[string]bool, n)
	for _, k := range f.MapKeys() {
		keys[k.String()] = true
	}
	return keys, n
}
