//go:build verif

package outbounds

// C08, second stream: the policy adapter.  An ACL engine built from generated text rules over fake
// outbounds (each allows or refuses everything, consistently in UDP() and CheckUDP()) is wrapped in
// PluggableOutboundAdapter; for every address string CheckUDP(addr)==nil must hold exactly when
// UDP(addr) succeeds, and both must have been routed to the same outbound with the same rewritten
// address (hijack) AND the same resolve info.  This ties the hypothesis of the C08 theorems - the dial
// vets the first destination with the policy CheckUDP applies to the later ones - to the real ACL engine.
//
// Pipeline class "resolve" (the deployed shape: resolver -> ACL -> outbound): a static-table resolver
// stage (same shape as systemResolver/standardResolver: fills AddrEx.ResolveInfo, IP literals through
// tryParseIP) sits in front of the engine, destinations are host NAMES that resolve (v4, v6, both,
// neither) into or next to the CIDR / IP rules.  The case may carry the generator's own first-match
// evaluation of every address (expect: 1 allowed, 0 refused, -1 not evaluated): both CheckUDP and UDP
// must agree with it, so a change that breaks both entry points alike is seen too.

import (
	"encoding/json"
	"errors"
	"fmt"
	"net"
	"strings"
	"testing"
)

type c08aclCase struct {
	Rules   string               `json:"rules"`
	Obs     []string             `json:"obs"`     // outbound names, in order (first = default)
	Allow   []bool               `json:"allow"`   // does outbound i accept
	Addrs   []string             `json:"addrs"`
	Resolve map[string][2]string `json:"resolve"` // nil: no resolver stage; host -> [v4 text or "", v6 text or ""], absent host = lookup error
	Expect  []int                `json:"expect"`  // per address, optional
	Order   []int                `json:"order"`   // per address, optional: 0 CheckUDP,UDP  1 UDP,CheckUDP  2 CheckUDP,CheckUDP,UDP  3 UDP,CheckUDP,CheckUDP
}

type c08aclOb struct {
	name  string
	allow bool
	log   *[]string
}

var (
	errC08Refused  = errors.New("refused")
	errC08NoSuchHost = errors.New("no such host")
)

func c08aclShow(a *AddrEx) string {
	s := a.String()
	if a.ResolveInfo == nil {
		return s + "|nil"
	}
	e := ""
	if a.ResolveInfo.Err != nil {
		e = "err"
	}
	return s + "|" + a.ResolveInfo.IPv4.String() + "|" + a.ResolveInfo.IPv6.String() + "|" + e
}

type c08aclConn struct{}

func (c08aclConn) ReadFrom(b []byte) (int, *AddrEx, error)  { return 0, nil, errC08Refused }
func (c08aclConn) WriteTo(b []byte, a *AddrEx) (int, error) { return len(b), nil }
func (c08aclConn) Close() error                             { return nil }
func (o *c08aclOb) TCP(reqAddr *AddrEx) (net.Conn, error)   { return nil, errC08Refused }
func (o *c08aclOb) UDP(reqAddr *AddrEx) (UDPConn, error) {
	*o.log = append(*o.log, "udp:"+o.name+":"+c08aclShow(reqAddr))
	if o.allow {
		return c08aclConn{}, nil
	}
	return nil, errC08Refused
}

func (o *c08aclOb) CheckUDP(reqAddr *AddrEx) error {
	*o.log = append(*o.log, "chk:"+o.name+":"+c08aclShow(reqAddr))
	if o.allow {
		return nil
	}
	return errC08Refused
}

// c08aclResolver: the resolver stage with a static table
type c08aclResolver struct {
	table map[string][2]string
	Next  PluggableOutbound
}

func (r *c08aclResolver) resolve(reqAddr *AddrEx) {
	if tryParseIP(reqAddr) {
		return
	}
	e, ok := r.table[reqAddr.Host]
	if !ok {
		reqAddr.ResolveInfo = &ResolveInfo{Err: errC08NoSuchHost}
		return
	}
	info := &ResolveInfo{}
	if e[0] != "" {
		info.IPv4 = net.ParseIP(e[0])
	}
	if e[1] != "" {
		info.IPv6 = net.ParseIP(e[1])
	}
	reqAddr.ResolveInfo = info
}

func (r *c08aclResolver) TCP(reqAddr *AddrEx) (net.Conn, error) {
	r.resolve(reqAddr)
	return r.Next.TCP(reqAddr)
}

func (r *c08aclResolver) UDP(reqAddr *AddrEx) (UDPConn, error) {
	r.resolve(reqAddr)
	return r.Next.UDP(reqAddr)
}

func (r *c08aclResolver) CheckUDP(reqAddr *AddrEx) error {
	r.resolve(reqAddr)
	return r.Next.CheckUDP(reqAddr)
}

func TestVerifC08ACL(t *testing.T) {
	out := vOpenOut(t, "VERIF_OUT")
	defer out.Close()
	for i, raw := range vReadCases(t) {
		var c c08aclCase
		if err := json.Unmarshal(raw, &c); err != nil {
			t.Fatal(err)
		}
		res := map[string]any{"i": i}
		var log []string
		obs := make([]OutboundEntry, len(c.Obs))
		for j, n := range c.Obs {
			obs[j] = OutboundEntry{Name: n, Outbound: &c08aclOb{name: n, allow: c.Allow[j], log: &log}}
		}
		eng, err := NewACLEngineFromString(c.Rules, obs, nil)
		if err != nil {
			res["ok"] = true
			res["why"] = ""
			res["compile_error"] = err.Error()
			if c.Resolve != nil {
				// the resolver class is generated from a grammar every rule of which compiles
				res["ok"] = false
				res["why"] = "generated rule set does not compile: " + err.Error()
			}
			out.Emit(res)
			continue
		}
		var pipeline PluggableOutbound = eng
		if c.Resolve != nil {
			pipeline = &c08aclResolver{table: c.Resolve, Next: eng}
		}
		ad := &PluggableOutboundAdapter{PluggableOutbound: pipeline}
		ok, why := true, ""
		verd := make([]int, 0, len(c.Addrs))
		routes := make([][2]int, 0, len(c.Addrs)) // outbound (1-based index into obs) reached by CheckUDP / by UDP; 0: none of the fakes
		obIdx := map[string]int{}
		for j, n := range c.Obs {
			obIdx[n] = j + 1
		}
		for k, a := range c.Addrs {
			log = log[:0]
			order := 0
			if k < len(c.Order) {
				order = c.Order[k]
			}
			var cerr, uerr error
			nchk := 1
			p, msg := vCatch(func() {
				switch order {
				case 1:
					_, uerr = ad.UDP(a)
					cerr = ad.CheckUDP(a)
				case 2:
					cerr = ad.CheckUDP(a)
					c2 := ad.CheckUDP(a)
					nchk = 2
					if (cerr == nil) != (c2 == nil) && ok {
						ok, why = false, fmt.Sprintf("CheckUDP(%q) says %v, asked again it says %v", a, cerr, c2)
					}
					_, uerr = ad.UDP(a)
				case 3:
					_, uerr = ad.UDP(a)
					cerr = ad.CheckUDP(a)
					c2 := ad.CheckUDP(a)
					nchk = 2
					if (cerr == nil) != (c2 == nil) && ok {
						ok, why = false, fmt.Sprintf("CheckUDP(%q) says %v, asked again it says %v", a, cerr, c2)
					}
				default:
					cerr = ad.CheckUDP(a)
					_, uerr = ad.UDP(a)
				}
			})
			if p {
				ok, why = false, "panic: "+msg
				break
			}
			v := 0
			if cerr == nil {
				v |= 1
			}
			if uerr == nil {
				v |= 2
			}
			verd = append(verd, v)
			rt := [2]int{}
			for _, l := range log {
				f := strings.SplitN(l, ":", 3)
				if f[0] == "chk" && rt[0] == 0 {
					rt[0] = obIdx[f[1]]
				}
				if f[0] == "udp" && rt[1] == 0 {
					rt[1] = obIdx[f[1]]
				}
			}
			routes = append(routes, rt)
			if (cerr == nil) != (uerr == nil) && ok {
				ok, why = false, fmt.Sprintf("CheckUDP(%q) says %v but UDP(%q) says %v (the dial-time policy and the per-datagram policy differ)", a, cerr, a, uerr)
			}
			if k < len(c.Expect) && c.Expect[k] >= 0 && ok {
				want := c.Expect[k] == 1
				if (uerr == nil) != want {
					ok, why = false, fmt.Sprintf("UDP(%q) says %v, first-match evaluation of the rules says allowed=%v", a, uerr, want)
				} else if (cerr == nil) != want {
					ok, why = false, fmt.Sprintf("CheckUDP(%q) says %v, first-match evaluation of the rules says allowed=%v", a, cerr, want)
				}
			}
			if len(log) == 1+nchk && ok {
				for _, l := range log[1:] {
					if l[4:] != log[0][4:] {
						ok, why = false, fmt.Sprintf("CheckUDP and UDP of %q were routed differently: %s", a, strings.Join(log, " vs "))
						break
					}
				}
			} else if len(log) != 0 && ok {
				ok, why = false, fmt.Sprintf("only some of the CheckUDP/UDP calls reached an outbound for %q: %v", a, log)
			}
		}
		res["verdicts"] = verd
		res["routes"] = routes
		res["ok"] = ok
		res["why"] = why
		out.Emit(res)
	}
}
