//go:build verif

package outbounds

// C08, second stream: the policy adapter.  An ACL engine built from generated text rules over fake
// outbounds (each allows or refuses everything, consistently in UDP() and CheckUDP()) is wrapped in
// PluggableOutboundAdapter; for every address string CheckUDP(addr)==nil must hold exactly when
// UDP(addr) succeeds, and both must have been routed to the same outbound with the same rewritten
// address (hijack).  This ties the hypothesis of the C08 theorems - the dial vets the first
// destination with the policy CheckUDP applies to the later ones - to the real ACL engine.

import (
	"encoding/json"
	"errors"
	"fmt"
	"net"
	"testing"
)

type c08aclCase struct {
	Rules string   `json:"rules"`
	Obs   []string `json:"obs"`   // outbound names, in order (first = default)
	Allow []bool   `json:"allow"` // does outbound i accept
	Addrs []string `json:"addrs"`
}

type c08aclOb struct {
	name  string
	allow bool
	log   *[]string
}

var errC08Refused = errors.New("refused")

type c08aclConn struct{}

func (c08aclConn) ReadFrom(b []byte) (int, *AddrEx, error)     { return 0, nil, errC08Refused }
func (c08aclConn) WriteTo(b []byte, a *AddrEx) (int, error)    { return len(b), nil }
func (c08aclConn) Close() error                                { return nil }
func (o *c08aclOb) TCP(reqAddr *AddrEx) (net.Conn, error)      { return nil, errC08Refused }
func (o *c08aclOb) UDP(reqAddr *AddrEx) (UDPConn, error) {
	*o.log = append(*o.log, "udp:"+o.name+":"+reqAddr.String())
	if o.allow {
		return c08aclConn{}, nil
	}
	return nil, errC08Refused
}

func (o *c08aclOb) CheckUDP(reqAddr *AddrEx) error {
	*o.log = append(*o.log, "chk:"+o.name+":"+reqAddr.String())
	if o.allow {
		return nil
	}
	return errC08Refused
}

func TestVerifC08ACL(t *testing.T) {
	out := vOpenOut(t, "VERIF_OUT")
	defer out.Close()
	for i, raw := range vReadCases(t) {
		var c c08aclCase
		if err := json.Unmarshal(raw, &c); err != nil {
			t.Fatal(err)
		}
		res := map[string]any{"i": i}
		var log []string
		obs := make([]OutboundEntry, len(c.Obs))
		for j, n := range c.Obs {
			obs[j] = OutboundEntry{Name: n, Outbound: &c08aclOb{name: n, allow: c.Allow[j], log: &log}}
		}
		eng, err := NewACLEngineFromString(c.Rules, obs, nil)
		if err != nil {
			res["ok"] = true
			res["why"] = ""
			res["compile_error"] = err.Error()
			out.Emit(res)
			continue
		}
		ad := &PluggableOutboundAdapter{PluggableOutbound: eng}
		ok, why := true, ""
		verd := make([]int, 0, len(c.Addrs))
		for _, a := range c.Addrs {
			log = log[:0]
			var cerr, uerr error
			p, msg := vCatch(func() {
				cerr = ad.CheckUDP(a)
				_, uerr = ad.UDP(a)
			})
			if p {
				ok, why = false, "panic: "+msg
				break
			}
			v := 0
			if cerr == nil {
				v |= 1
			}
			if uerr == nil {
				v |= 2
			}
			verd = append(verd, v)
			if (cerr == nil) != (uerr == nil) && ok {
				ok, why = false, fmt.Sprintf("CheckUDP(%q) says %v but UDP(%q) says %v", a, cerr, a, uerr)
			}
			if len(log) == 2 && ok {
				if log[0][4:] != log[1][4:] {
					ok, why = false, fmt.Sprintf("CheckUDP and UDP of %q were routed differently: %s vs %s", a, log[0], log[1])
				}
			} else if len(log) == 1 && ok {
				ok, why = false, fmt.Sprintf("only one of CheckUDP/UDP reached an outbound for %q: %v", a, log)
			}
		}
		res["verdicts"] = verd
		res["ok"] = ok
		res["why"] = why
		out.Emit(res)
	}
}
