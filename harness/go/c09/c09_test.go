//go:build verif

package outbounds

// C09 harness: compiles generated rule lists with the real acl.Compile (several cache sizes) or the
// real NewACLEngineFromString, replays query histories (repeats, more distinct queries than the cache
// holds) through CompiledRuleSet.Match / aclEngine.handle of /repo's working tree and writes
//   - the raw answers (outbound id, hijack IP) for the comparison with the Coq model, and
//   - the property verdict computed on the implementation alone: every answer must equal (a) the
//     answer of an independent reference evaluator written here from the ACL documentation and
//     (b) the answer of a freshly compiled rule set that has never been asked anything.

import (
	"encoding/json"
	"fmt"
	"net"
	"strconv"
	"strings"
	"testing"

	"github.com/apernet/hysteria/extras/v2/outbounds/acl"
	"golang.org/x/net/idna"
)

type c09Case struct {
	K     string     `json:"k"`
	Obs   []string   `json:"obs"`
	Rules []c09Rule  `json:"rules"`
	Cache int        `json:"cache"`
	Hosts []c09Host  `json:"hosts"`
	Qs    [][3]int   `json:"qs"` // host index, protocol, port (engx: host index, entry point 1 TCP / 2 UDP / 3 CheckUDP, port)
	Valid bool       `json:"valid"`
	// eng: the rule file as written by the generator (hex), and the line number of every rule in it
	Text  string     `json:"text"`
	Lines []int      `json:"lines"`
	// file: a rule file (hex) and what an independent reading of the line grammar says ParseTextRules must return:
	// Want = rules [line, outbound, address, protoPort, hijack] (hex fields) or WantErr = [line] of the first bad line
	Want    [][5]any `json:"want"`
	WantErr []int    `json:"wanterr"`
	// ipstr: addresses (hex, "" = nil)
	Addrs []string   `json:"addrs"`
}

func TestVerifC09(t *testing.T) {
	vParams(t, [][3]string{
		{"ProtocolBoth", "N", strconv.Itoa(int(acl.ProtocolBoth))},
		{"ProtocolTCP", "N", strconv.Itoa(int(acl.ProtocolTCP))},
		{"ProtocolUDP", "N", strconv.Itoa(int(acl.ProtocolUDP))},
		{"AclCacheSize", "N", strconv.Itoa(aclCacheSize)},
	})
	out := vOpenOut(t, "VERIF_OUT")
	defer out.Close()
	for i, raw := range vReadCases(t) {
		var c c09Case
		if err := json.Unmarshal(raw, &c); err != nil {
			t.Fatal(err)
		}
		res := map[string]any{"i": i, "k": c.K}
		switch c.K {
		case "acl":
			c09Acl(c, res)
		case "eng":
			c09Eng(c, res)
		case "engx":
			c09EngX(c, res)
		case "file":
			c09File(c, res)
		case "ipstr":
			c09IPStr(c, res)
		default:
			t.Fatalf("unknown case kind %q", c.K)
		}
		out.Emit(res)
	}
}

// ---------------------------------------------------------------- cases

func c09TextRules(c c09Case) []acl.TextRule {
	trs := make([]acl.TextRule, len(c.Rules))
	for i, r := range c.Rules {
		trs[i] = acl.TextRule{Outbound: r.Ob, Address: r.Addr, ProtoPort: r.PP, HijackAddress: r.Hj, LineNum: i + 1}
	}
	return trs
}

func c09Canon(ip net.IP) string {
	if len(ip) == 0 {
		return ""
	}
	if x := ip.To4(); x != nil {
		return vHex(x)
	}
	return vHex(ip)
}

// what the model assumes of net.IP.String(): no '|' in the rendering, and equal renderings only for
// addresses that are the same after To4 normalisation
func c09CheckStringAssumption(hosts []c09Host) string {
	seen := map[string]string{}
	for _, h := range hosts {
		for _, x := range []string{h.V4, h.V6} {
			ip := c09IP(x)
			s := ip.String()
			if strings.Contains(s, "|") {
				return "net.IP.String() contains '|': " + s
			}
			cn := c09Canon(ip)
			if old, ok := seen[s]; ok && old != cn {
				return "net.IP.String() renders two different addresses as " + s
			}
			seen[s] = cn
		}
	}
	return ""
}

// The model's standing assumption on names (property text: "ASCII host patterns"): rule addresses and queried names
// are ASCII, no label of a queried name starts with "xn--", and idna.ToUnicode (called by domainMatcher.Match on
// the lower-cased name) then leaves the name as it is.  Enforced here on every case: a generator that leaves the
// grammar is reported instead of being silently compared against a model that does not cover it.
func c09CheckNameAssumption(c c09Case) string {
	ascii := func(s string) bool {
		for i := 0; i < len(s); i++ {
			if s[i] >= 0x80 {
				return false
			}
		}
		return true
	}
	for _, r := range c.Rules {
		if !ascii(r.Addr) || !ascii(r.Ob) || !ascii(r.PP) || !ascii(r.Hj) {
			return fmt.Sprintf("generated rule field is not ASCII: %q", r)
		}
	}
	for _, h := range c.Hosts {
		if !ascii(h.N) {
			return fmt.Sprintf("generated host name is not ASCII: %q", h.N)
		}
		low := strings.TrimRight(strings.ToLower(h.N), ".")
		for _, lab := range strings.Split(low, ".") {
			if strings.HasPrefix(lab, "xn--") {
				return fmt.Sprintf("generated host name has a punycode label: %q", h.N)
			}
		}
		if u, err := idna.ToUnicode(low); err == nil && u != low {
			return fmt.Sprintf("idna.ToUnicode(%q) = %q: not the identity on a name of the grammar", low, u)
		}
	}
	return ""
}

func c09Acl(c c09Case, res map[string]any) {
	if s := c09CheckNameAssumption(c); s != "" {
		res["ok"] = false
		res["why"] = "assumption: " + s
		return
	}
	obs := map[string]int{}
	for i, n := range c.Obs {
		obs[n] = i + 1
	}
	trs := c09TextRules(c)
	var rs acl.CompiledRuleSet[int]
	var err error
	p, msg := vCatch(func() { rs, err = acl.Compile[int](trs, obs, c.Cache, nil) })
	if p {
		res["panic"] = true
		res["ok"] = false
		res["why"] = "panic in Compile: " + msg
		return
	}
	if err != nil {
		res["cerr"] = true
		res["ok"] = true
		res["why"] = ""
		if c.Valid && c.Cache > 0 {
			res["ok"] = false
			res["why"] = "a rule list written in the documented grammar was rejected: " + err.Error()
		}
		return
	}
	res["cerr"] = false
	// reference
	ref := make([]c09RefRule, 0, len(c.Rules))
	understood := true
	for _, r := range c.Rules {
		rr, u := c09RefCompile(r, obs)
		if !u {
			understood = false
			break
		}
		ref = append(ref, rr)
	}
	res["ref"] = understood
	ok, why := true, ""
	fail := func(s string) {
		if ok {
			ok, why = false, s
		}
	}
	if s := c09CheckStringAssumption(c.Hosts); s != "" {
		fail("assumption: " + s)
	}
	ans := make([][2]any, 0, len(c.Qs))
	first := map[[3]int][2]any{}
	p, msg = vCatch(func() {
		for qi, q := range c.Qs {
			h := c.Hosts[q[0]]
			hi := acl.HostInfo{Name: h.N, IPv4: c09IP(h.V4), IPv6: c09IP(h.V6)}
			ob, hij := rs.Match(hi, acl.Protocol(q[1]), uint16(q[2]))
			a := [2]any{ob, vHex(hij)}
			ans = append(ans, a)
			desc := fmt.Sprintf("query #%d (name %q v4 %s v6 %s proto %d port %d)", qi, h.N, h.V4, h.V6, q[1], q[2])
			if old, seen := first[q]; seen && old != a {
				fail(desc + ": answer differs from the answer to the same query earlier in the history")
			}
			first[q] = a
			// a rule set that has never been asked anything
			fr, ferr := acl.Compile[int](trs, obs, c.Cache, nil)
			if ferr != nil {
				fail("recompiling the same rules failed")
			} else {
				fob, fhij := fr.Match(hi, acl.Protocol(q[1]), uint16(q[2]))
				if fob != ob || vHex(fhij) != vHex(hij) {
					fail(fmt.Sprintf("%s: answer (ob %d hijack %s) differs from a fresh rule set's answer (ob %d hijack %s): caching is visible",
						desc, ob, vHex(hij), fob, vHex(fhij)))
				}
			}
			if understood {
				rob, rhij := c09RefEval(ref, h, q[1], q[2])
				if rob != ob || vHex(rhij) != vHex(hij) {
					fail(fmt.Sprintf("%s: got outbound %d hijack %s, first matching rule by the documentation gives outbound %d hijack %s",
						desc, ob, vHex(hij), rob, vHex(rhij)))
				}
			}
		}
	})
	if p {
		res["panic"] = true
		fail("panic in Match: " + msg)
	}
	res["ans"] = ans
	res["ok"] = ok
	res["why"] = why
}

type c09Ob struct{ id int }

func (o *c09Ob) TCP(reqAddr *AddrEx) (net.Conn, error) { return nil, nil }
func (o *c09Ob) UDP(reqAddr *AddrEx) (UDPConn, error)  { return nil, nil }
func (o *c09Ob) CheckUDP(reqAddr *AddrEx) error        { return nil }

func c09ObID(o PluggableOutbound) int {
	switch x := o.(type) {
	case *c09Ob:
		return x.id
	case *aclRejectOutbound:
		return 1001
	case *directOutbound:
		return 1000
	case nil:
		return 0
	}
	return -1
}

func c09Eng(c c09Case, res map[string]any) {
	entries := make([]OutboundEntry, len(c.Obs))
	for i, n := range c.Obs {
		entries[i] = OutboundEntry{Name: n, Outbound: &c09Ob{i + 1}}
	}
	if s := c09CheckNameAssumption(c); s != "" {
		res["ok"] = false
		res["why"] = "assumption: " + s
		return
	}
	var text string
	if c.Text != "" {
		// the rule file as the generator wrote it (odd white space, comments, blank lines, CRLF)
		text = string(vUnhex(c.Text))
	} else {
		var sb strings.Builder
		sb.WriteString("# generated\n\n")
		for _, r := range c.Rules {
			sb.WriteString("  " + r.Ob + "(" + r.Addr)
			if r.PP != "" || r.Hj != "" {
				sb.WriteString(", " + r.PP)
			}
			if r.Hj != "" {
				sb.WriteString(" ," + r.Hj)
			}
			sb.WriteString(")  # c\n")
		}
		text = sb.String()
	}
	res["text"] = vHex([]byte(text))
	// the text parser must hand Compile the intended fields, in order, with the line numbers of the file
	ptrs, perr := acl.ParseTextRules(text)
	parseOK := perr == nil && len(ptrs) == len(c.Rules)
	if parseOK {
		for i, r := range c.Rules {
			pr := ptrs[i]
			if pr.Outbound != r.Ob || pr.Address != r.Addr || pr.ProtoPort != r.PP || pr.HijackAddress != r.Hj {
				parseOK = false
			}
			if c.Lines != nil && pr.LineNum != c.Lines[i] {
				parseOK = false
			}
		}
	}
	res["parse"] = parseOK
	if !parseOK {
		res["ok"] = false
		res["why"] = "ParseTextRules does not return the fields of the generated lines: " + text
		return
	}
	var po PluggableOutbound
	var err error
	p, msg := vCatch(func() { po, err = NewACLEngineFromString(text, entries, nil) })
	if p {
		res["panic"] = true
		res["ok"] = false
		res["why"] = "panic in NewACLEngineFromString: " + msg
		return
	}
	if err != nil {
		res["cerr"] = true
		res["ok"] = !c.Valid
		res["why"] = ""
		if c.Valid {
			res["why"] = "a rule list written in the documented grammar was rejected: " + err.Error()
		}
		return
	}
	res["cerr"] = false
	eng := po.(*aclEngine)
	// reference: name -> id as the documentation describes the built-ins
	obs := map[string]int{}
	for i, n := range c.Obs {
		obs[strings.ToLower(n)] = i + 1
	}
	if _, ok := obs["direct"]; !ok {
		obs["direct"] = 1000
	}
	if _, ok := obs["reject"]; !ok {
		obs["reject"] = 1001
	}
	if _, ok := obs["default"]; !ok {
		if len(c.Obs) > 0 {
			obs["default"] = 1
		} else {
			obs["default"] = obs["direct"]
		}
	}
	ref := make([]c09RefRule, 0, len(c.Rules))
	understood := true
	for _, r := range c.Rules {
		rr, u := c09RefCompile(r, obs)
		if !u {
			understood = false
			break
		}
		ref = append(ref, rr)
	}
	res["ref"] = understood
	ok, why := true, ""
	fail := func(s string) {
		if ok {
			ok, why = false, s
		}
	}
	ans := make([][5]any, 0, len(c.Qs))
	p, msg = vCatch(func() {
		for qi, q := range c.Qs {
			h := c.Hosts[q[0]]
			ra := &AddrEx{Host: h.N, Port: uint16(q[2])}
			var ri *ResolveInfo
			if h.V4 != "" || h.V6 != "" || qi%3 == 0 {
				ri = &ResolveInfo{IPv4: c09IP(h.V4), IPv6: c09IP(h.V6)}
				ra.ResolveInfo = ri
			}
			ob := eng.handle(ra, acl.Protocol(q[1]))
			id := c09ObID(ob)
			rw := 0
			hostok := 1
			n4, n6 := "", ""
			if ra.ResolveInfo != ri || ra.Host != h.N {
				rw = 1
				if ra.ResolveInfo == nil || ra.ResolveInfo == ri {
					hostok = 0
				} else {
					n4, n6 = vHex(ra.ResolveInfo.IPv4), vHex(ra.ResolveInfo.IPv6)
					var hip net.IP = ra.ResolveInfo.IPv4
					if hip == nil {
						hip = ra.ResolveInfo.IPv6
					}
					if ra.Host != hip.String() || (n4 != "" && n6 != "") || ra.ResolveInfo.Err != nil {
						hostok = 0
					}
				}
			}
			if ra.Port != uint16(q[2]) {
				hostok = 0
			}
			ans = append(ans, [5]any{id, rw, hostok, n4, n6})
			desc := fmt.Sprintf("engine query #%d (name %q v4 %s v6 %s proto %d port %d)", qi, h.N, h.V4, h.V6, q[1], q[2])
			if hostok == 0 {
				fail(desc + ": request address rewritten inconsistently")
			}
			if understood {
				rob, rhij := c09RefEval(ref, h, q[1], q[2])
				want4, want6 := "", ""
				wantrw := 0
				if rob == 0 {
					rob = obs["default"]
				} else if rhij != nil {
					wantrw = 1
					if x := rhij.To4(); x != nil {
						want4 = vHex(x)
					} else {
						want6 = vHex(rhij)
					}
				}
				if rob != id || wantrw != rw || want4 != n4 || want6 != n6 {
					fail(fmt.Sprintf("%s: got outbound %d rewrite %d (%s %s), the documentation gives outbound %d rewrite %d (%s %s)",
						desc, id, rw, n4, n6, rob, wantrw, want4, want6))
				}
			}
		}
	})
	if p {
		res["panic"] = true
		fail("panic in handle: " + msg)
	}
	res["ans"] = ans
	res["ok"] = ok
	res["why"] = why
}

// ---------------------------------------------------------------- rule files (ParseTextRules alone)

func c09File(c c09Case, res map[string]any) {
	text := string(vUnhex(c.Text))
	var trs []acl.TextRule
	var err error
	p, msg := vCatch(func() { trs, err = acl.ParseTextRules(text) })
	if p {
		res["panic"] = true
		res["ok"] = false
		res["why"] = "panic in ParseTextRules: " + msg
		return
	}
	ok, why := true, ""
	fail := func(s string) {
		if ok {
			ok, why = false, s
		}
	}
	if err != nil {
		se, is := err.(*acl.InvalidSyntaxError)
		if !is {
			res["ok"] = false
			res["why"] = "ParseTextRules returned an error that is not an InvalidSyntaxError: " + err.Error()
			return
		}
		res["perr"] = []any{se.LineNum, vHex([]byte(se.Line))}
		if c.WantErr == nil {
			fail(fmt.Sprintf("ParseTextRules rejects line %d (%q) of a file every line of which is blank, a comment or in the line grammar", se.LineNum, se.Line))
		} else if c.WantErr[0] != se.LineNum {
			fail(fmt.Sprintf("ParseTextRules reports line %d, the first line outside the grammar is line %d", se.LineNum, c.WantErr[0]))
		}
	} else {
		out := make([][5]any, len(trs))
		for i, r := range trs {
			out[i] = [5]any{r.LineNum, vHex([]byte(r.Outbound)), vHex([]byte(r.Address)), vHex([]byte(r.ProtoPort)), vHex([]byte(r.HijackAddress))}
		}
		res["rules"] = out
		if c.WantErr != nil {
			fail(fmt.Sprintf("ParseTextRules accepts a file whose line %d is outside the line grammar", c.WantErr[0]))
		} else if len(c.Want) != len(trs) {
			fail(fmt.Sprintf("ParseTextRules returns %d rules, the file has %d rule lines", len(trs), len(c.Want)))
		} else {
			for i, w := range c.Want {
				ln, _ := w[0].(float64)
				for k := 1; k < 5; k++ {
					if ws, _ := w[k].(string); ws != out[i][k].(string) {
						fail(fmt.Sprintf("rule %d (line %d): field %d is %q, the line grammar gives %q", i, int(ln), k, vUnhex(out[i][k].(string)), vUnhex(ws)))
					}
				}
				if int(ln) != trs[i].LineNum {
					fail(fmt.Sprintf("rule %d: line number %d, expected %d (rules out of file order?)", i, trs[i].LineNum, int(ln)))
				}
			}
		}
	}
	res["ok"] = ok
	res["why"] = why
}

// ---------------------------------------------------------------- net.IP.String / HostInfo.String

func c09IPStr(c c09Case, res map[string]any) {
	ok, why := true, ""
	fail := func(s string) {
		if ok {
			ok, why = false, s
		}
	}
	strs := make([]string, len(c.Addrs))
	seen := map[string]string{}
	p, msg := vCatch(func() {
		for i, a := range c.Addrs {
			ip := c09IP(a)
			s := ip.String()
			strs[i] = vHex([]byte(s))
			// the two facts the cache-key argument rests on, on the implementation alone
			if strings.Contains(s, "|") {
				fail("assumption: net.IP.String() contains '|': " + s)
			}
			cn := c09Canon(ip)
			if old, dup := seen[s]; dup && old != cn {
				fail("assumption: net.IP.String() renders two different addresses as " + s)
			}
			seen[s] = cn
			if f := fmt.Sprintf("%s", ip); f != s {
				fail(fmt.Sprintf("assumption: fmt %%s of a net.IP prints %q, String() %q", f, s))
			}
			if len(ip) == 4 || len(ip) == 16 {
				// the rendering determines the address: Go's own parser reads it back
				if back := net.ParseIP(s); back == nil || !back.Equal(ip) {
					fail(fmt.Sprintf("assumption: net.ParseIP(%q) does not give back %s", s, a))
				}
			}
		}
	})
	if p {
		res["panic"] = true
		fail("panic in net.IP.String: " + msg)
	}
	res["strs"] = strs
	hs := make([]string, len(c.Hosts))
	for i, h := range c.Hosts {
		hs[i] = vHex([]byte(acl.HostInfo{Name: h.N, IPv4: c09IP(h.V4), IPv6: c09IP(h.V6)}.String()))
	}
	res["hstrs"] = hs
	res["ok"] = ok
	res["why"] = why
}
