//go:build verif

package acl

// C09 harness, concurrency class (in-package: the compiled rule set's rule slice is reachable).
//
// "The answer is the same whether or not this or any other lookup was made before" has to hold for lookups that
// OVERLAP as well: the engine calls CompiledRuleSet.Match from one goroutine per connection.  Two kinds of case:
//
//   gate    deterministic interleavings.  Every rule's hostMatcher is wrapped in a gate.  A schedule step either
//           starts a lookup in its own goroutine with one gate armed (the lookup is suspended INSIDE its rule scan
//           when it reaches that rule's matcher, i.e. after its Cache.Get and before its Cache.Add) or resumes a
//           suspended lookup (optionally with another gate armed further down).  At any time exactly one lookup is
//           running, all others are suspended, so the interleaving is exactly the schedule - no timing involved.
//           The harness writes the observed schedule (start / returned events) and every lookup's answer.
//   stress  many goroutines x many rounds asking the same keys of a COLD rule set with a few hundred rules at the
//           same instant (spin barrier per key, staggered by a few hundred nanoseconds so that arrivals fall inside
//           each other's scans), GOMAXPROCS > 1; run under -race in the thorough tier.
//
// Property verdict (implementation alone): every answer of every lookup equals the reference evaluator's first-match
// answer (c09ref, written from the documentation) and the answer of a freshly compiled rule set that has never been
// asked anything before.

import (
	"encoding/json"
	"fmt"
	"net"
	"runtime"
	"sort"
	"sync"
	"sync/atomic"
	"testing"
	"time"
)

type c09ConcCase struct {
	K     string    `json:"k"`
	Obs   []string  `json:"obs"`
	Rules []c09Rule `json:"rules"`
	Cache int       `json:"cache"`
	Hosts []c09Host `json:"hosts"`
	// gate: [0, host, proto, port, gate] start a lookup; [1, slot, gate] resume lookup number slot.
	// gate: rule index whose matcher suspends the lookup, -2 = the first matcher it evaluates, -1 = none
	Steps [][]int `json:"steps"`
	// stress
	Keys [][3]int `json:"keys"`
	G    int      `json:"g"`
	Reps int      `json:"reps"`
	Seed int      `json:"seed"`
}

func TestVerifC09Conc(t *testing.T) {
	out := vOpenOut(t, "VERIF_OUT")
	defer out.Close()
	for i, raw := range vReadCases(t) {
		var c c09ConcCase
		if err := json.Unmarshal(raw, &c); err != nil {
			t.Fatal(err)
		}
		res := map[string]any{"i": i, "k": c.K}
		switch c.K {
		case "gate":
			c09Gate(c, res)
		case "stress":
			c09Stress(c, res)
		default:
			t.Fatalf("unknown case kind %q", c.K)
		}
		out.Emit(res)
	}
}

func c09ConcTextRules(c c09ConcCase) []TextRule {
	trs := make([]TextRule, len(c.Rules))
	for i, r := range c.Rules {
		trs[i] = TextRule{Outbound: r.Ob, Address: r.Addr, ProtoPort: r.PP, HijackAddress: r.Hj, LineNum: i + 1}
	}
	return trs
}

// ---------------------------------------------------------------- expected answers (implementation alone)

type c09Expect struct {
	trs        []TextRule
	obs        map[string]int
	cache      int
	ref        []c09RefRule
	understood bool
	memo       map[[3]int][2]any
	hosts      []c09Host
}

func c09NewExpect(c c09ConcCase, trs []TextRule, obs map[string]int) *c09Expect {
	e := &c09Expect{trs: trs, obs: obs, cache: c.Cache, understood: true, memo: map[[3]int][2]any{}, hosts: c.Hosts}
	for _, r := range c.Rules {
		rr, u := c09RefCompile(r, obs)
		if !u {
			e.understood = false
			break
		}
		e.ref = append(e.ref, rr)
	}
	return e
}

func c09HostInfo(h c09Host) HostInfo {
	return HostInfo{Name: h.N, IPv4: c09IP(h.V4), IPv6: c09IP(h.V6)}
}

// check returns "" when (ob, hij) is the first-match answer to q, else a description of the difference
func (e *c09Expect) check(q [3]int, ob int, hij net.IP) string {
	h := e.hosts[q[0]]
	if e.understood {
		rob, rhij := c09RefEval(e.ref, h, q[1], q[2])
		if rob != ob || vHex(rhij) != vHex(hij) {
			return fmt.Sprintf("got outbound %d hijack %s, the first matching rule by the documentation gives outbound %d hijack %s",
				ob, vHex(hij), rob, vHex(rhij))
		}
	}
	want, ok := e.memo[q]
	if !ok {
		fr, err := Compile[int](e.trs, e.obs, e.cache, nil)
		if err != nil {
			return "recompiling the same rules failed"
		}
		fob, fhij := fr.Match(c09HostInfo(h), Protocol(q[1]), uint16(q[2]))
		want = [2]any{fob, vHex(fhij)}
		e.memo[q] = want
	}
	if want != [2]any{ob, vHex(hij)} {
		return fmt.Sprintf("got outbound %d hijack %s, a rule set that was never asked anything answers outbound %v hijack %v: the answer depends on other lookups",
			ob, vHex(hij), want[0], want[1])
	}
	return ""
}

// ---------------------------------------------------------------- gate cases

type c09Ev struct {
	parked bool
	rel    chan struct{}
	ob     int
	hij    net.IP
	pmsg   string
}

type c09Ctl struct {
	mu    sync.Mutex
	armed int // rule index that suspends the next evaluation reaching it; -2 any; -1 none
	ev    chan c09Ev
}

func (c *c09Ctl) arm(j int) {
	c.mu.Lock()
	c.armed = j
	c.mu.Unlock()
}

type c09GateM struct {
	inner hostMatcher
	idx   int
	ctl   *c09Ctl
}

func (g *c09GateM) Match(h HostInfo) bool {
	c := g.ctl
	c.mu.Lock()
	if c.armed == g.idx || c.armed == -2 {
		c.armed = -1
		c.mu.Unlock()
		rel := make(chan struct{})
		c.ev <- c09Ev{parked: true, rel: rel}
		<-rel
	} else {
		c.mu.Unlock()
	}
	return g.inner.Match(h)
}

func c09Gate(c c09ConcCase, res map[string]any) {
	obs := map[string]int{}
	for i, n := range c.Obs {
		obs[n] = i + 1
	}
	trs := c09ConcTextRules(c)
	var comp CompiledRuleSet[int]
	var err error
	p, msg := vCatch(func() { comp, err = Compile[int](trs, obs, c.Cache, nil) })
	if p {
		res["panic"] = true
		res["ok"] = false
		res["why"] = "panic in Compile: " + msg
		return
	}
	if err != nil {
		res["cerr"] = true
		res["ok"] = true
		res["why"] = ""
		return
	}
	res["cerr"] = false
	rs := comp.(*compiledRuleSetImpl[int])
	ctl := &c09Ctl{armed: -1, ev: make(chan c09Ev)}
	for i := range rs.Rules {
		rs.Rules[i].HostMatcher = &c09GateM{inner: rs.Rules[i].HostMatcher, idx: i, ctl: ctl}
	}
	exp := c09NewExpect(c, trs, obs)
	res["ref"] = exp.understood

	ok, why := true, ""
	fail := func(s string) {
		if ok {
			ok, why = false, s
		}
	}
	type slotT struct {
		q      [3]int
		rel    chan struct{} // non-nil while suspended
		done   bool
		parks  int
		during []int // lookups started while this one was suspended
	}
	var slots []*slotT
	evlog := [][]int{}
	ans := [][2]any{}
	stuck := false
	desc := func(si int) string {
		s := slots[si]
		h := c.Hosts[s.q[0]]
		d := fmt.Sprintf("lookup #%d (name %q v4 %s v6 %s proto %d port %d)", si, h.N, h.V4, h.V6, s.q[1], s.q[2])
		var susp []int
		for j, o := range slots {
			if j != si && o.rel != nil {
				susp = append(susp, j)
			}
		}
		if len(susp) > 0 {
			d += fmt.Sprintf(" returning while lookup(s) %v were suspended inside their rule scan", susp)
		}
		return d
	}
	// wait until the lookup that is running now is suspended at a gate or has returned
	wait := func(si int) {
		select {
		case e := <-ctl.ev:
			s := slots[si]
			if e.parked {
				s.rel = e.rel
				s.parks++
				return
			}
			s.done = true
			evlog = append(evlog, []int{1, si})
			ans[si] = [2]any{e.ob, vHex(e.hij)}
			if e.pmsg != "" {
				res["panic"] = true
				fail(desc(si) + ": panic in Match: " + e.pmsg)
				return
			}
			if d := exp.check(s.q, e.ob, e.hij); d != "" {
				fail(desc(si) + ": " + d)
			}
		case <-time.After(30 * time.Second):
			stuck = true
			fail(fmt.Sprintf("lookup #%d neither returned nor reached a rule within 30 s (blocked by a suspended lookup?)", si))
		}
	}
	resume := func(si, gate int) {
		s := slots[si]
		if s.rel == nil || stuck {
			return
		}
		ctl.arm(gate)
		rel := s.rel
		s.rel = nil
		close(rel)
		wait(si)
		ctl.arm(-1)
	}
	for _, st := range c.Steps {
		if stuck {
			break
		}
		switch st[0] {
		case 0:
			q := [3]int{st[1], st[2], st[3]}
			si := len(slots)
			slots = append(slots, &slotT{q: q})
			ans = append(ans, [2]any{-1, ""})
			evlog = append(evlog, []int{0, q[0], q[1], q[2]})
			hi := c09HostInfo(c.Hosts[q[0]])
			ctl.arm(st[4])
			go func() {
				var ob int
				var hij net.IP
				p, msg := vCatch(func() { ob, hij = comp.Match(hi, Protocol(q[1]), uint16(q[2])) })
				e := c09Ev{ob: ob, hij: hij}
				if p {
					e.pmsg = "panic: " + msg
				}
				ctl.ev <- e
			}()
			wait(si)
			ctl.arm(-1)
		case 1:
			if st[1] < len(slots) {
				resume(st[1], st[2])
			}
		}
	}
	for si := range slots {
		for slots[si].rel != nil && !stuck {
			resume(si, -1)
		}
	}
	parks := make([]int, len(slots))
	for i, s := range slots {
		parks[i] = s.parks
	}
	res["ev"] = evlog
	res["ans"] = ans
	res["parks"] = parks
	res["stuck"] = stuck
	res["ok"] = ok
	res["why"] = why
}

// ---------------------------------------------------------------- stress cases

type c09Barrier struct {
	n     int64
	count atomic.Int64
	gen   atomic.Int64
}

func (b *c09Barrier) wait() {
	g := b.gen.Load()
	if b.count.Add(1) == b.n {
		b.count.Store(0)
		b.gen.Add(1)
		return
	}
	for i := 0; b.gen.Load() == g; i++ {
		if i > 2000 {
			runtime.Gosched()
		}
	}
}

var c09Sink atomic.Uint64

func c09Stress(c c09ConcCase, res map[string]any) {
	obs := map[string]int{}
	for i, n := range c.Obs {
		obs[n] = i + 1
	}
	trs := c09ConcTextRules(c)
	if _, err := Compile[int](trs, obs, c.Cache, nil); err != nil {
		res["cerr"] = true
		res["ok"] = false
		res["why"] = "stress rule list rejected: " + err.Error()
		return
	}
	res["cerr"] = false
	exp := c09NewExpect(c, trs, obs)
	res["ref"] = exp.understood
	if runtime.GOMAXPROCS(0) < 4 {
		defer runtime.GOMAXPROCS(runtime.GOMAXPROCS(4))
	}
	res["procs"] = runtime.GOMAXPROCS(0)
	type obsT struct {
		k   int
		ob  int
		hij string
	}
	counts := map[obsT]int{}
	var cmu sync.Mutex
	panicMsg := ""
	his := make([]HostInfo, len(c.Keys))
	for ki, q := range c.Keys {
		his[ki] = c09HostInfo(c.Hosts[q[0]])
	}
	for rep := 0; rep < c.Reps; rep++ {
		comp, err := Compile[int](trs, obs, c.Cache, nil) // cold cache
		if err != nil {
			break
		}
		bar := &c09Barrier{n: int64(c.G)}
		var wg sync.WaitGroup
		for gi := 0; gi < c.G; gi++ {
			wg.Add(1)
			go func(gi int) {
				defer wg.Done()
				local := map[obsT]int{}
				x := uint64(c.Seed)*2654435761 + uint64(rep)*40503 + uint64(gi)*9973 + 1
				for ki, q := range c.Keys {
					// stagger: 0 .. ~1500 iterations of a trivial loop, so that arrivals spread over a scan's duration
					x = x*6364136223846793005 + 1442695040888963407
					spin := int((x >> 33) % 6)
					spin = []int{0, 30, 100, 300, 700, 1500}[spin]
					bar.wait()
					var acc uint64
					for i := 0; i < spin; i++ {
						acc += uint64(i) ^ x
					}
					c09Sink.Add(acc & 1)
					var ob int
					var hij net.IP
					p, msg := vCatch(func() { ob, hij = comp.Match(his[ki], Protocol(q[1]), uint16(q[2])) })
					if p {
						cmu.Lock()
						panicMsg = msg
						cmu.Unlock()
						ob = -1
					}
					local[obsT{ki, ob, vHex(hij)}]++
				}
				cmu.Lock()
				for k, v := range local {
					counts[k] += v
				}
				cmu.Unlock()
			}(gi)
		}
		wg.Wait()
	}
	ok, why := true, ""
	pairs := [][4]any{}
	keysSorted := make([]obsT, 0, len(counts))
	for o := range counts {
		keysSorted = append(keysSorted, o)
	}
	sort.Slice(keysSorted, func(a, b int) bool {
		x, y := keysSorted[a], keysSorted[b]
		if x.k != y.k {
			return x.k < y.k
		}
		if x.ob != y.ob {
			return x.ob < y.ob
		}
		return x.hij < y.hij
	})
	for ki, q := range c.Keys {
		for _, o := range keysSorted {
			if o.k != ki {
				continue
			}
			n := counts[o]
			pairs = append(pairs, [4]any{ki, o.ob, o.hij, n})
			if d := exp.check(q, o.ob, net.IP(vUnhex(o.hij))); d != "" && ok {
				h := c.Hosts[q[0]]
				ok = false
				why = fmt.Sprintf("%d of %d simultaneous lookups (%d goroutines x %d rounds, each round on a cold rule set of %d rules) of key #%d (name %q v4 %s v6 %s proto %d port %d): %s",
					n, c.G*c.Reps, c.G, c.Reps, len(c.Rules), ki, h.N, h.V4, h.V6, q[1], q[2], d)
			}
		}
	}
	if panicMsg != "" {
		res["panic"] = true
		if ok {
			ok, why = false, "panic in a concurrent Match: "+panicMsg
		}
	}
	res["pairs"] = pairs
	res["ok"] = ok
	res["why"] = why
}
