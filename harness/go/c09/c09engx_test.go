//go:build verif

package outbounds

// C09 harness, engine entry points: an engine built by the real NewACLEngineFromString is driven through the
// PluggableOutbound interface (TCP / UDP / CheckUDP, not handle) with requests as a resolver hands them over:
// AddrEx{Host, Port, ResolveInfo} where ResolveInfo is nil, {IPv4, IPv6} or {IPv4, IPv6, Err != nil} - "there
// could be an error but also some resolved IP addresses" (a partial failure: one family answered, the other
// lookup failed).  Every outbound of the case records which of its methods ran and with which request.
//   - raw observation per call (for the Coq model): outbound, method, rewritten?, the ResolveInfo and Host the
//     outbound saw;
//   - verdict on the implementation alone: the call goes to the outbound of the first rule that matches
//     (Host, ResolveInfo.IPv4, ResolveInfo.IPv6, protocol of the entry point, port) by the reference evaluator
//     (default when none), through the method of the entry point, with the caller's own request - or with Host and
//     ResolveInfo replaced by the rule's hijack address -, and the SAME happens when only ResolveInfo.Err differs.

import (
	"errors"
	"fmt"
	"net"
	"net/netip"
	"strings"

	"github.com/apernet/hysteria/extras/v2/outbounds/acl"
)

type c09Seen struct {
	id, op int
	host   string
	port   uint16
	ri     *ResolveInfo
	v4, v6 string
	err    error
}

type c09RecOb struct {
	id  int
	log *[]c09Seen
}

func (o *c09RecOb) rec(op int, r *AddrEx) {
	s := c09Seen{id: o.id, op: op, host: r.Host, port: r.Port, ri: r.ResolveInfo}
	if r.ResolveInfo != nil {
		s.v4, s.v6, s.err = vHex(r.ResolveInfo.IPv4), vHex(r.ResolveInfo.IPv6), r.ResolveInfo.Err
	}
	*o.log = append(*o.log, s)
}

func (o *c09RecOb) TCP(r *AddrEx) (net.Conn, error) { o.rec(1, r); return nil, nil }
func (o *c09RecOb) UDP(r *AddrEx) (UDPConn, error)  { o.rec(2, r); return nil, nil }
func (o *c09RecOb) CheckUDP(r *AddrEx) error        { o.rec(3, r); return nil }

// one observed call: [outbound id, method seen (0 = none, errRejected), rewritten, v4, v6, error flag, host hex]
type c09Obs [7]any

func c09EngX(c c09Case, res map[string]any) {
	var log []c09Seen
	entries := make([]OutboundEntry, len(c.Obs))
	for i, n := range c.Obs {
		entries[i] = OutboundEntry{Name: n, Outbound: &c09RecOb{i + 1, &log}}
	}
	if s := c09CheckNameAssumption(c); s != "" {
		res["ok"] = false
		res["why"] = "assumption: " + s
		return
	}
	// the built-in direct outbound would really dial: the generator names an entry "direct" in every case of this class
	if _, isRec := outboundsToMap(entries)["direct"].(*c09RecOb); !isRec {
		res["ok"] = false
		res["why"] = "assumption: generated engine-call case without an outbound entry named direct"
		return
	}
	text := string(vUnhex(c.Text))
	res["text"] = c.Text
	ptrs, perr := acl.ParseTextRules(text)
	parseOK := perr == nil && len(ptrs) == len(c.Rules)
	if parseOK {
		for i, r := range c.Rules {
			pr := ptrs[i]
			if pr.Outbound != r.Ob || pr.Address != r.Addr || pr.ProtoPort != r.PP || pr.HijackAddress != r.Hj ||
				(c.Lines != nil && pr.LineNum != c.Lines[i]) {
				parseOK = false
			}
		}
	}
	if !parseOK {
		res["ok"] = false
		res["why"] = "ParseTextRules does not return the fields of the generated lines: " + text
		return
	}
	var po PluggableOutbound
	var err error
	p, msg := vCatch(func() { po, err = NewACLEngineFromString(text, entries, nil) })
	if p {
		res["panic"] = true
		res["ok"] = false
		res["why"] = "panic in NewACLEngineFromString: " + msg
		return
	}
	if err != nil {
		res["cerr"] = true
		res["ok"] = !c.Valid
		res["why"] = ""
		if c.Valid {
			res["why"] = "a rule list written in the documented grammar was rejected: " + err.Error()
		}
		return
	}
	res["cerr"] = false
	// reference: name -> id as the documentation describes the built-ins
	obs := map[string]int{}
	for i, n := range c.Obs {
		obs[strings.ToLower(n)] = i + 1
	}
	if _, ok := obs["reject"]; !ok {
		obs["reject"] = 1001
	}
	if _, ok := obs["default"]; !ok {
		obs["default"] = 1 // entries is never empty here (direct)
	}
	ref := make([]c09RefRule, 0, len(c.Rules))
	understood := true
	for _, r := range c.Rules {
		rr, u := c09RefCompile(r, obs)
		if !u {
			understood = false
			break
		}
		ref = append(ref, rr)
	}
	res["ref"] = understood
	ok, why := true, ""
	fail := func(s string) {
		if ok {
			ok, why = false, s
		}
	}
	// one call through the interface; mode as c09Host.E
	call := func(h c09Host, mode, op int, port uint16) (o c09Obs, bad string) {
		var ri *ResolveInfo
		var rerr error
		switch mode {
		case 1:
			ri = &ResolveInfo{IPv4: c09IP(h.V4), IPv6: c09IP(h.V6)}
		case 2:
			rerr = errors.New("lookup " + h.N + ": i/o timeout")
			ri = &ResolveInfo{IPv4: c09IP(h.V4), IPv6: c09IP(h.V6), Err: rerr}
		}
		ra := &AddrEx{Host: h.N, Port: port, ResolveInfo: ri}
		log = log[:0]
		var cerr error
		switch op {
		case 1:
			_, cerr = po.TCP(ra)
		case 2:
			_, cerr = po.UDP(ra)
		default:
			cerr = po.CheckUDP(ra)
		}
		var seen c09Seen
		switch {
		case len(log) == 1 && cerr == nil:
			seen = log[0]
		case len(log) == 0 && cerr == errRejected:
			seen = c09Seen{id: 1001, op: 0, host: ra.Host, port: ra.Port, ri: ra.ResolveInfo}
			if ra.ResolveInfo != nil {
				seen.v4, seen.v6, seen.err = vHex(ra.ResolveInfo.IPv4), vHex(ra.ResolveInfo.IPv6), ra.ResolveInfo.Err
			}
		default:
			return o, fmt.Sprintf("%d outbound methods ran and the engine returned error %v", len(log), cerr)
		}
		if ra.Host != seen.host || ra.Port != seen.port || ra.ResolveInfo != seen.ri {
			bad = "the request was changed after the outbound was called"
		}
		if seen.port != port {
			bad = "the outbound saw another port"
		}
		rw, ef := 0, 0
		if seen.ri != ri || seen.host != h.N {
			rw = 1
		} else if ri != nil && (vHex(ri.IPv4) != h.V4 || vHex(ri.IPv6) != h.V6 || ri.Err != rerr) {
			bad = "the caller's ResolveInfo was modified in place"
		}
		if seen.err != nil {
			ef = 1
		}
		return c09Obs{seen.id, seen.op, rw, seen.v4, seen.v6, ef, vHex([]byte(seen.host))}, bad
	}
	ans := make([]c09Obs, 0, len(c.Qs))
	p, msg = vCatch(func() {
		for qi, q := range c.Qs {
			h := c.Hosts[q[0]]
			if h.E == 0 {
				h.V4, h.V6 = "", "" // no ResolveInfo, no addresses
			}
			op, port := q[1], uint16(q[2])
			proto := 2
			if op == 1 {
				proto = 1
			}
			desc := fmt.Sprintf("engine call #%d (entry point %d, name %q v4 %s v6 %s resolve-info mode %d, proto %d port %d)",
				qi, op, h.N, h.V4, h.V6, h.E, proto, q[2])
			o, bad := call(h, h.E, op, port)
			ans = append(ans, o)
			if bad != "" {
				fail(desc + ": " + bad + ": request address rewritten inconsistently")
				continue
			}
			// the same request with only the error changed (set <-> nil): same outbound, method, rewrite, host, addresses
			if h.E != 0 {
				o2, bad2 := call(h, 3-h.E, op, port)
				same := bad2 == ""
				for k := 0; k < 7 && same; k++ {
					if k == 5 {
						continue
					}
					same = o[k] == o2[k]
				}
				if !same {
					fail(fmt.Sprintf("%s: got %v, the same request %s got %v: the decision depends on ResolveInfo.Err %s",
						desc, o, map[int]string{1: "with an error next to the addresses", 2: "without the error"}[h.E], o2, bad2))
				}
			}
			if understood {
				rob, rhij := c09RefEval(ref, h, proto, q[2])
				want := c09Obs{rob, op, 0, h.V4, h.V6, 0, vHex([]byte(h.N))}
				if h.E == 2 {
					want[5] = 1
				}
				if rob == 0 {
					want[0] = obs["default"]
				} else if rhij != nil {
					ad, _ := netip.AddrFromSlice(rhij)
					ad = ad.Unmap()
					want[2], want[3], want[4], want[5], want[6] = 1, "", "", 0, vHex([]byte(ad.String()))
					if ad.Is4() {
						want[3] = vHex(ad.AsSlice())
					} else {
						want[4] = vHex(ad.AsSlice())
					}
				}
				if want[0] == 1001 {
					want[1] = 0 // the built-in reject: no outbound runs
				}
				if o != want {
					fail(fmt.Sprintf("%s: got outbound %v method %v rewrite %v (%v %v err %v host %s), first matching rule by the documentation gives outbound %v method %v rewrite %v (%v %v err %v host %s)",
						desc, o[0], o[1], o[2], o[3], o[4], o[5], vUnhex(o[6].(string)), want[0], want[1], want[2], want[3], want[4], want[5], vUnhex(want[6].(string))))
				}
			}
		}
	})
	if p {
		res["panic"] = true
		fail("panic in an engine entry point: " + msg)
	}
	res["ans"] = ans
	res["ok"] = ok
	res["why"] = why
}
