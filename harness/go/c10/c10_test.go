//go:build verif

package server

// C10 harness (in-package, core/server): bandwidth negotiation of the Hysteria handshake.
//
// Runs, on the cases in $VERIF_IN, the real code of /repo's working tree:
//   - the header codec of core/internal/protocol/http.go on arbitrary header values,
//   - Config.fill() (the 65536 floor),
//   - brutal.NewBrutalSender (uint64 -> congestion.ByteCount),
//   - complete handshakes over loopback QUIC: client.NewClient against a server built by NewServer
//     whose connections are accepted by a 3-line copy of serverImpl.Serve (so that the harness can
//     keep the *quic.Conn) and served by the real serverImpl.handleClient / h3sHandler.ServeHTTP,
//   - a raw HTTP/3 client sending an arbitrary Hysteria-CC-RX request header to the real server,
//   - the real client against a fake HTTP/3 server answering 233 with an arbitrary Hysteria-CC-RX.
// Observed: Authenticator tx, EventLogger.Connect tx, HandshakeInfo.Tx and, by reflection on the
// quic connection, which congestion controller got installed on each side and with which rate.
// Every result carries the raw outputs (compared with the Coq model) and ok/why = the property
// predicate evaluated on the implementation alone.

import (
	"context"
	"crypto/ecdsa"
	"crypto/elliptic"
	crand "crypto/rand"
	"crypto/tls"
	"crypto/x509"
	"crypto/x509/pkix"
	"encoding/hex"
	"encoding/json"
	"fmt"
	"math"
	"math/big"
	"math/bits"
	"math/rand"
	"net"
	"net/http"
	"net/url"
	"reflect"
	"strconv"
	"strings"
	"sync"
	"testing"
	"time"

	"github.com/apernet/quic-go"
	"github.com/apernet/quic-go/congestion"
	"github.com/apernet/quic-go/http3"
	"github.com/apernet/quic-go/monotime"

	"github.com/apernet/hysteria/core/v2/client"
	"github.com/apernet/hysteria/core/v2/internal/congestion/brutal"
	"github.com/apernet/hysteria/core/v2/internal/congestion/common"
	"github.com/apernet/hysteria/core/v2/internal/protocol"
)

type c10Case struct {
	K      string   `json:"k"`
	Vals   []string `json:"vals"` // header values, hex; empty list = header missing
	N      uint64   `json:"n"`
	Auto   bool     `json:"auto"`
	CRx    uint64   `json:"crx"`
	CTx    uint64   `json:"ctx"`
	STx    uint64   `json:"stx"`
	SRx    uint64   `json:"srx"`
	Ignore bool     `json:"ignore"`
	SType  string   `json:"stype"`
	CType  string   `json:"ctype"`
	Hdr    *string  `json:"hdr"` // raw header value (plain ASCII), null = header not sent
	Reqs   []c10Req `json:"reqs"` // k=reauth: the POST /auth requests sent one after the other on ONE connection
	Steps  []c10Step `json:"steps"` // k=seq: the handshakes made, one after the other, from ONE *client.Config
	SDis   bool      `json:"sdis"`  // k=wire: BandwidthConfig.DisableLossCompensation of the server / of the client
	CDis   bool      `json:"cdis"`
	Loop   c10WLoop  `json:"loop"`  // k=wire: the send loop driven on a sender constructed like the installed one
}

// c10Step: one client.NewClient call on the shared Config object of a k=seq case
type c10Step struct {
	Hdr   *string `json:"hdr"`   // the Hysteria-CC-RX this handshake is answered with (null: header missing)
	CTx   *uint64 `json:"ctx"`   // the caller writes this into config.BandwidthConfig.MaxTx before the handshake (null: leaves it alone)
	CRx   *uint64 `json:"crx"`   // the same for MaxRx
	Close bool    `json:"close"` // the client is closed before the next handshake (else all stay open to the end)
}

type c10Req struct {
	Hdr *string `json:"hdr"` // Hysteria-CC-RX, null = header not sent
	Acc bool    `json:"acc"` // does the Authenticator accept the credentials of this request
}

const c10BadAuth = "no" // the one credential the recording Authenticator refuses

const c10MaxU64 = ^uint64(0)

// ---------------------------------------------------------------- observation of the installed controller

// c10Installed reports which congestion controller a connection currently uses:
// "brutal" (with the rate it was constructed with, as the signed ByteCount it is stored in),
// "bbr", or "default" (quic-go's own controller: nothing was installed).
func c10Installed(conn *quic.Conn) (kind string, bps int64) {
	defer func() {
		if r := recover(); r != nil {
			kind = "reflect-failed: " + fmt.Sprint(r)
		}
	}()
	sph := reflect.ValueOf(conn).Elem().FieldByName("sentPacketHandler").Elem() // *sentPacketHandler
	cg := sph.Elem().FieldByName("congestion").Elem()                           // pointer to the controller/adapter
	tn := cg.Type().String()
	if !strings.Contains(tn, "ccAdapter") {
		if strings.Contains(tn, "cubicSender") {
			return "default", 0
		}
		return "other:" + tn, 0
	}
	cc := cg.Elem().FieldByName("CC").Elem() // pointer to the concrete controller
	switch cc.Type().String() {
	case "*brutal.BrutalSender":
		return "brutal", cc.Elem().FieldByName("bps").Int()
	case "*bbr.bbrSender":
		return "bbr", 0
	}
	return "other:" + cc.Type().String(), 0
}

func c10ClientConn(c client.Client) *quic.Conn {
	f := reflect.ValueOf(c).Elem().FieldByName("conn")
	return (*quic.Conn)(f.UnsafePointer())
}

// ---------------------------------------------------------------- recording authenticator / event logger

type c10Rec struct {
	mu        sync.Mutex
	authTx    []uint64
	connectTx []uint64
	connected chan struct{}
}

func (r *c10Rec) Authenticate(addr net.Addr, auth string, tx uint64) (bool, string) {
	r.mu.Lock()
	r.authTx = append(r.authTx, tx)
	r.mu.Unlock()
	return auth != c10BadAuth, "nobody"
}

func (r *c10Rec) Connect(addr net.Addr, id string, tx uint64) {
	r.mu.Lock()
	r.connectTx = append(r.connectTx, tx)
	r.mu.Unlock()
	select {
	case r.connected <- struct{}{}:
	default:
	}
}
func (r *c10Rec) Disconnect(addr net.Addr, id string, err error)                        {}
func (r *c10Rec) TCPRequest(addr net.Addr, id, reqAddr string)                          {}
func (r *c10Rec) TCPError(addr net.Addr, id, reqAddr string, err error)                 {}
func (r *c10Rec) UDPRequest(addr net.Addr, id string, sessionID uint32, reqAddr string) {}
func (r *c10Rec) UDPError(addr net.Addr, id string, sessionID uint32, err error)        {}

var (
	c10CertOnce sync.Once
	c10Cert     tls.Certificate
)

func c10TLS() tls.Certificate {
	c10CertOnce.Do(func() {
		key, err := ecdsa.GenerateKey(elliptic.P256(), crand.Reader)
		if err != nil {
			panic(err)
		}
		tmpl := &x509.Certificate{
			SerialNumber: big.NewInt(1), Subject: pkix.Name{CommonName: "c10"},
			NotBefore: time.Now().Add(-time.Hour), NotAfter: time.Now().Add(24 * time.Hour),
			KeyUsage: x509.KeyUsageDigitalSignature, ExtKeyUsage: []x509.ExtKeyUsage{x509.ExtKeyUsageServerAuth},
			DNSNames: []string{"localhost", "hysteria"},
		}
		der, err := x509.CreateCertificate(crand.Reader, tmpl, tmpl, &key.PublicKey, key)
		if err != nil {
			panic(err)
		}
		c10Cert = tls.Certificate{Certificate: [][]byte{der}, PrivateKey: key}
	})
	return c10Cert
}

// c10Server: a real server (NewServer + handleClient); the accept loop is the harness's so that the
// server-side *quic.Conn can be inspected.
type c10Server struct {
	s     *serverImpl
	addr  net.Addr
	rec   *c10Rec
	mu    sync.Mutex
	conns []*quic.Conn
}

func c10StartServer(c c10Case) (*c10Server, error) {
	pc, err := net.ListenUDP("udp", &net.UDPAddr{IP: net.IPv4(127, 0, 0, 1), Port: 0})
	if err != nil {
		return nil, err
	}
	rec := &c10Rec{connected: make(chan struct{}, 4)}
	srv, err := NewServer(&Config{
		TLSConfig:             TLSConfig{Certificates: []tls.Certificate{c10TLS()}},
		Conn:                  pc,
		CongestionConfig:      CongestionConfig{Type: c.SType},
		BandwidthConfig:       BandwidthConfig{MaxTx: c.STx, MaxRx: c.SRx, DisableLossCompensation: c.SDis},
		IgnoreClientBandwidth: c.Ignore,
		Authenticator:         rec,
		EventLogger:           rec,
	})
	if err != nil {
		_ = pc.Close()
		return nil, err
	}
	cs := &c10Server{s: srv.(*serverImpl), addr: pc.LocalAddr(), rec: rec}
	go func() { // = serverImpl.Serve, keeping the connection
		for {
			conn, err := cs.s.listener.Accept(context.Background())
			if err != nil {
				return
			}
			cs.mu.Lock()
			cs.conns = append(cs.conns, conn)
			cs.mu.Unlock()
			go cs.s.handleClient(conn)
		}
	}()
	return cs, nil
}

func (cs *c10Server) observe(res map[string]any) error {
	select {
	case <-cs.rec.connected:
	case <-time.After(10 * time.Second):
		return fmt.Errorf("server never logged Connect")
	}
	cs.rec.mu.Lock()
	defer cs.rec.mu.Unlock()
	cs.mu.Lock()
	defer cs.mu.Unlock()
	if len(cs.rec.authTx) != 1 || len(cs.rec.connectTx) != 1 || len(cs.conns) != 1 {
		return fmt.Errorf("expected exactly one Authenticate/Connect/connection, got %d/%d/%d",
			len(cs.rec.authTx), len(cs.rec.connectTx), len(cs.conns))
	}
	res["auth_tx"] = cs.rec.authTx[0]
	res["connect_tx"] = cs.rec.connectTx[0]
	k, b := c10Installed(cs.conns[0])
	res["s_kind"] = k
	res["s_bps"] = b
	return nil
}

// ---------------------------------------------------------------- the property predicate (implementation alone)

type c10Verdict struct {
	ok    bool
	whys  []string
	codes []string // one short class per failed clause; "rate>=2^63" is the known uint64->int64 finding
}

func (v *c10Verdict) failc(code, format string, a ...any) {
	v.ok = false
	v.whys = append(v.whys, fmt.Sprintf(format, a...))
	v.codes = append(v.codes, code)
}

func (v *c10Verdict) fail(format string, a ...any) { v.failc("other", format, a...) }

func (v *c10Verdict) store(res map[string]any) {
	res["ok"], res["why"] = v.ok, strings.Join(v.whys, "; ")
	if !v.ok {
		res["codes"] = v.codes
	}
}

func c10ConfiguredKind(t string) string {
	if strings.ToLower(t) == "reno" {
		return "default"
	}
	return "bbr"
}

// c10Side checks one sender. own: its configured send limit; ownZeroUnlimited: how its 0 reads
// (server: unlimited, client: unknown); peer: the peer's declared receive limit with peerKnown=false
// for "unknown"(client sent 0)/"auto"; peerUnlimited for the server's 0.
// wantFixed/rate are what the statement prescribes; reported/kind/bps are what was observed.
func c10Side(v *c10Verdict, who string, wantFixed bool, rate uint64, cfgKind string, reported uint64, kind string, bps int64) {
	if !wantFixed {
		if kind != cfgKind {
			v.fail("%s: must run the configured congestion controller (%s) but installed %s", who, cfgKind, kind)
		}
		if reported != 0 {
			v.fail("%s: reports tx=%d although no fixed rate applies", who, reported)
		}
		return
	}
	if kind != "brutal" {
		v.fail("%s: must send at the fixed rate %d but installed %s", who, rate, kind)
		return
	}
	if reported != rate {
		v.fail("%s: reported rate %d, negotiated rate must be %d", who, reported, rate)
	}
	if bps < 0 || uint64(bps) != reported {
		code := "enforced!=reported"
		if reported >= 1<<63 && bps == int64(reported) {
			code = "rate>=2^63" // the uint64 rate reinterpreted as a negative int64 ByteCount
		}
		v.failc(code, "%s: reported rate %d but the installed Brutal sender runs at %d B/s", who, reported, bps)
	}
}

func c10Min(a, b uint64) uint64 {
	if a < b {
		return a
	}
	return b
}

// server as sender: own 0 = unlimited, client's 0 = unknown
func c10ServerWant(ignore bool, stx, crx uint64) (bool, uint64) {
	if ignore || crx == 0 {
		return false, 0
	}
	if stx == 0 {
		return true, crx
	}
	return true, c10Min(stx, crx)
}

// client as sender: own 0 = unknown, server's 0 = unlimited, auto = no fixed rate
func c10ClientWant(auto bool, ctx, srx uint64) (bool, uint64) {
	if auto || ctx == 0 {
		return false, 0
	}
	if srx == 0 {
		return true, ctx
	}
	return true, c10Min(ctx, srx)
}

// ---------------------------------------------------------------- case kinds

func c10Header(vals []string) http.Header {
	h := http.Header{}
	for _, x := range vals {
		b, err := hex.DecodeString(x)
		if err != nil {
			panic(err)
		}
		h.Add(protocol.CommonHeaderCCRX, string(b))
	}
	return h
}

func c10Codec(c c10Case, res map[string]any) {
	v := &c10Verdict{ok: true}
	switch c.K {
	case "preq":
		r := protocol.AuthRequestFromHeader(c10Header(c.Vals))
		res["rx"] = r.Rx
	case "presp":
		r := protocol.AuthResponseFromHeader(c10Header(c.Vals))
		res["rx"] = r.Rx
		res["auto"] = r.RxAuto
	case "freq":
		h := http.Header{}
		protocol.AuthRequestToHeader(h, protocol.AuthRequest{Auth: "a", Rx: c.N})
		res["hdr"] = hex.EncodeToString([]byte(h.Get(protocol.CommonHeaderCCRX)))
		res["nvals"] = len(h.Values(protocol.CommonHeaderCCRX))
		back := protocol.AuthRequestFromHeader(h)
		if back.Rx != c.N || back.Auth != "a" {
			v.fail("request header round trip: sent rx=%d, decoded rx=%d", c.N, back.Rx)
		}
	case "fresp":
		h := http.Header{}
		protocol.AuthResponseToHeader(h, protocol.AuthResponse{UDPEnabled: true, Rx: c.N, RxAuto: c.Auto})
		res["hdr"] = hex.EncodeToString([]byte(h.Get(protocol.CommonHeaderCCRX)))
		res["nvals"] = len(h.Values(protocol.CommonHeaderCCRX))
		back := protocol.AuthResponseFromHeader(h)
		if back.RxAuto != c.Auto || (!c.Auto && back.Rx != c.N) || (c.Auto && back.Rx != 0) || !back.UDPEnabled {
			v.fail("response header round trip: sent rx=%d auto=%v, decoded rx=%d auto=%v", c.N, c.Auto, back.Rx, back.RxAuto)
		}
	}
	v.store(res)
}

func c10Cfg(c c10Case, res map[string]any) {
	cfg := &Config{
		TLSConfig:       TLSConfig{Certificates: []tls.Certificate{c10TLS()}},
		Conn:            &net.UDPConn{},
		BandwidthConfig: BandwidthConfig{MaxTx: c.STx, MaxRx: c.SRx},
		Authenticator:   &c10Rec{},
	}
	err := cfg.fill()
	res["accepted"] = err == nil
	res["tx_after"] = cfg.BandwidthConfig.MaxTx
	res["rx_after"] = cfg.BandwidthConfig.MaxRx
	v := &c10Verdict{ok: true}
	if err == nil && (cfg.BandwidthConfig.MaxTx != c.STx || cfg.BandwidthConfig.MaxRx != c.SRx) {
		v.fail("fill() changed the bandwidth limits")
	}
	v.store(res)
}

func c10Brutal(c c10Case, res map[string]any) {
	bs := brutal.NewBrutalSender(c.N, false)
	res["bps"] = reflect.ValueOf(bs).Elem().FieldByName("bps").Int()
	res["ok"], res["why"] = true, ""
}

func c10Handshake(c c10Case, res map[string]any) {
	v := &c10Verdict{ok: true}
	defer v.store(res)
	cs, err := c10StartServer(c)
	if err != nil {
		res["err"] = "server"
		v.fail("server did not start: %v", err)
		return
	}
	defer cs.s.Close()
	cl, info, err := client.NewClient(&client.Config{
		ServerAddr:       cs.addr,
		TLSConfig:        client.TLSConfig{InsecureSkipVerify: true},
		CongestionConfig: client.CongestionConfig{Type: c.CType},
		BandwidthConfig:  client.BandwidthConfig{MaxTx: c.CTx, MaxRx: c.CRx},
	})
	if err != nil {
		res["err"] = "client"
		v.fail("handshake failed: %v", err)
		return
	}
	defer cl.Close()
	res["info_tx"] = info.Tx
	ck, cb := c10Installed(c10ClientConn(cl))
	res["c_kind"], res["c_bps"] = ck, cb
	if err := cs.observe(res); err != nil {
		res["err"] = "observe"
		v.fail("%v", err)
		return
	}
	if res["auth_tx"].(uint64) != c.CRx {
		v.fail("authenticator saw tx=%d, client declared %d", res["auth_tx"], c.CRx)
	}
	sf, sr := c10ServerWant(c.Ignore, c.STx, c.CRx)
	c10Side(v, "server", sf, sr, c10ConfiguredKind(c.SType), res["connect_tx"].(uint64), res["s_kind"].(string), res["s_bps"].(int64))
	cf, cr := c10ClientWant(c.Ignore, c.CTx, c.SRx)
	c10Side(v, "client", cf, cr, c10ConfiguredKind(c.CType), info.Tx, ck, cb)
}

// ---------------------------------------------------------------- k=wire: the negotiated rate on the wire (C10 o C11)
//
// A complete real handshake (as k=hs, with DisableLossCompensation configured on both sides); the controller installed on
// each side is read by reflection (type, bps, disableLossCompensation).  For every side that got a Brutal sender, a sender
// constructed exactly as UseBrutal constructs it - brutal.NewBrutalSender(bps, dis) with the values READ FROM THE INSTALLED
// OBJECT - is driven by a simulated QUIC send loop on a virtual clock (send when CanSend && HasPacingBudget, otherwise
// sleep until TimeUntilSend; ack/loss batches and idle gaps in between).  After every call the same queries as in the C11
// harness are recorded (same digest), so that the Coq side can replay the history on C11's model of the sender that C10's
// model says was installed.  The verdict is the composed clause evaluated on the implementation alone: over every window
// of sends, bytes <= burst + (REPORTED rate / 0.8) x interval, and a sleep until the announced time yields pacing budget.

type c10WLoop struct {
	Seed   int64   `json:"seed"`
	N      int     `json:"n"`
	Mds    int64   `json:"mds"`
	RTT    int64   `json:"rtt"`
	T0     int64   `json:"t0"`
	LossP  float64 `json:"lossp"`
	EvP    float64 `json:"evp"`
	IdleP  float64 `json:"idlep"`
	MaxGap int64   `json:"maxgap"`
	Slack  int64   `json:"slack"`
	Small  bool    `json:"small"`
	Drain  bool    `json:"drain"`
}

type c10WStep struct {
	Op    string `json:"op"` // sent | ev | mds | nop | rtt  (same shape as the C11 harness's steps)
	T     int64  `json:"t"`
	Size  int64  `json:"size"`
	A     int    `json:"a"`
	L     int    `json:"l"`
	S     int64  `json:"s"`
	Now   int64  `json:"now"`
	RTT   int64  `json:"rtt"`
	Hpb   bool   `json:"hpb"`
	Pre   int64  `json:"pre"`   // sent: Budget(t) just before OnPacketSent
	Waked bool   `json:"waked"` // this nop is "slept exactly until the announced time"
}

type c10WRTT struct{ srtt time.Duration }

func (r *c10WRTT) MinRTT() time.Duration        { return r.srtt }
func (r *c10WRTT) LatestRTT() time.Duration     { return r.srtt }
func (r *c10WRTT) SmoothedRTT() time.Duration   { return r.srtt }
func (r *c10WRTT) MeanDeviation() time.Duration { return 0 }
func (r *c10WRTT) MaxAckDelay() time.Duration   { return 0 }
func (r *c10WRTT) PTO(bool) time.Duration       { return 0 }
func (r *c10WRTT) UpdateRTT(_, _ time.Duration) {}
func (r *c10WRTT) SetMaxAckDelay(time.Duration) {}
func (r *c10WRTT) SetInitialRTT(time.Duration)  {}

const c10WP = 1<<61 - 1

type c10WRun struct {
	b     *brutal.BrutalSender
	pacer *common.Pacer
	rtt   *c10WRTT
	out   []c10WStep
	now   int64
	nobs  int64
	dig   uint64
}

func c10WNew(bps uint64, dis bool) *c10WRun {
	r := &c10WRun{rtt: &c10WRTT{}}
	r.b = brutal.NewBrutalSender(bps, dis)
	r.b.SetRTTStatsProvider(r.rtt)
	r.pacer = (*common.Pacer)(reflect.ValueOf(r.b).Elem().FieldByName("pacer").UnsafePointer())
	return r
}

func (r *c10WRun) mds() int64 { return reflect.ValueOf(r.b).Elem().FieldByName("maxDatagramSize").Int() }

// the digest of coq/corr/C11_Corr.v: dig := (dig*1000003 + v + 2^63) mod (2^61-1)
func (r *c10WRun) digAdd128(vhi, vlo uint64) {
	hi, lo := bits.Mul64(r.dig, 1000003)
	lo, c := bits.Add64(lo, vlo, 0)
	hi, _ = bits.Add64(hi, vhi, c)
	_, r.dig = bits.Div64(hi, lo, c10WP)
}
func (r *c10WRun) digU(v uint64) {
	lo, c := bits.Add64(v, 1<<63, 0)
	r.digAdd128(c, lo)
}
func (r *c10WRun) digI(v int64) { r.digAdd128(0, uint64(v)^(1<<63)) }
func (r *c10WRun) digB(v bool) {
	if v {
		r.digU(1)
	} else {
		r.digU(0)
	}
}

func (r *c10WRun) apply(st c10WStep) c10WStep {
	b := r.b
	pan := false
	switch st.Op {
	case "rtt":
		r.rtt.srtt = time.Duration(st.RTT)
		r.out = append(r.out, st)
		return st
	case "sent":
		st.Pre = int64(r.pacer.Budget(monotime.Time(st.T)))
		b.OnPacketSent(monotime.Time(st.T), 0, 0, congestion.ByteCount(st.Size), true)
		r.now = st.T
	case "ev":
		pan, _ = vCatch(func() {
			b.OnCongestionEventEx(0, monotime.Time(st.T), make([]congestion.AckedPacketInfo, st.A), make([]congestion.LostPacketInfo, st.L))
		})
		r.now = st.T
	case "mds":
		b.SetMaxDatagramSize(congestion.ByteCount(st.S))
	case "nop":
		r.now = st.Now
	}
	st.Now = r.now
	st.RTT = int64(r.rtt.srtt)
	bud := int64(r.pacer.Budget(monotime.Time(st.Now)))
	var tus, wake int64
	tusp, _ := vCatch(func() { tus = int64(b.TimeUntilSend(0)) })
	if tusp {
		tus = 0
	} else if tus != 0 {
		wake = int64(r.pacer.Budget(monotime.Time(tus)))
	}
	st.Hpb = b.HasPacingBudget(monotime.Time(st.Now))
	cwnd := int64(b.GetCongestionWindow())
	r.nobs++
	r.digB(pan)
	r.digI(bud)
	r.digB(tusp)
	r.digI(tus)
	r.digI(wake)
	r.digB(st.Hpb)
	r.digI(cwnd)
	r.digB(b.CanSend(congestion.ByteCount(r.mds())))
	r.digB(b.CanSend(congestion.ByteCount(cwnd)))
	r.digB(b.CanSend(congestion.ByteCount(cwnd + 1)))
	r.digU(math.Float64bits(reflect.ValueOf(b).Elem().FieldByName("ackRate").Float()))
	r.out = append(r.out, st)
	return st
}

func c10WLoopRun(bps uint64, dis bool, lp c10WLoop) *c10WRun {
	rng := rand.New(rand.NewSource(lp.Seed))
	r := c10WNew(bps, dis)
	now, rtt := lp.T0, lp.RTT
	mds := int64(congestion.InitialPacketSize)
	var infl int64
	var pending []int64
	r.apply(c10WStep{Op: "rtt", RTT: rtt})
	r.apply(c10WStep{Op: "nop", Now: now})
	if lp.Mds != mds {
		mds = lp.Mds
		r.apply(c10WStep{Op: "mds", S: mds})
	}
	ackBatch := func() {
		n := 1 + rng.Intn(40)
		if rng.Float64() < 0.1 {
			n = 1 + rng.Intn(400)
		}
		a, l := 0, 0
		for k := 0; k < n; k++ {
			if len(pending) > 0 {
				infl -= pending[0]
				pending = pending[1:]
			}
			if rng.Float64() < lp.LossP {
				l++
			} else {
				a++
			}
		}
		r.apply(c10WStep{Op: "ev", T: now, A: a, L: l})
	}
	if lp.Drain {
		size := int64(r.pacer.Budget(monotime.Time(now))) - rng.Int63n(2*mds)
		if size < 0 {
			size = 0
		}
		r.apply(c10WStep{Op: "sent", T: now, Size: size})
	}
	for it := 0; it < lp.N; it++ {
		x := rng.Float64()
		switch {
		case x < lp.EvP:
			ackBatch()
		case x < lp.EvP+lp.IdleP:
			gap := int64(1e6) + rng.Int63n(lp.MaxGap)
			if rng.Float64() < 0.5 {
				gap = rng.Int63n(3e6)
			}
			now += gap
			r.apply(c10WStep{Op: "nop", Now: now})
		default:
			can := r.b.CanSend(congestion.ByteCount(infl))
			hpb := r.b.HasPacingBudget(monotime.Time(now))
			switch {
			case can && hpb:
				size := mds
				if lp.Small && rng.Float64() < 0.3 {
					size = 1 + rng.Int63n(mds)
				}
				infl += size
				pending = append(pending, size)
				r.apply(c10WStep{Op: "sent", T: now, Size: size})
				now += rng.Int63n(20000)
			case !hpb:
				var tus int64
				p, _ := vCatch(func() { tus = int64(r.b.TimeUntilSend(congestion.ByteCount(infl))) })
				if p || tus == 0 {
					now += 1e6
					r.apply(c10WStep{Op: "nop", Now: now})
					break
				}
				exact := true
				if tus > now {
					now = tus
				} else {
					exact = false
				}
				if lp.Slack > 0 && rng.Float64() < 0.5 {
					now += rng.Int63n(lp.Slack)
					exact = false
				}
				r.apply(c10WStep{Op: "nop", Now: now, Waked: exact})
			default:
				now += 1 + rng.Int63n(max(rtt, 1000))
				ackBatch()
			}
		}
	}
	return r
}

// (B*dt)/1e9, saturating
func c10WAccrual(B, dt uint64) uint64 {
	hi, lo := bits.Mul64(B, dt)
	if hi >= 1000000000 {
		return math.MaxInt64
	}
	q, _ := bits.Div64(hi, lo, 1000000000)
	if q > math.MaxInt64 {
		return math.MaxInt64
	}
	return q
}

// the composed clause on one recorded history: reported = what the application was told
func c10WVerdict(v *c10Verdict, who string, reported uint64, steps []c10WStep) (windows int) {
	if reported < 65536 || reported > 1<<40 {
		return 0 // outside the range of rates the clause is stated for
	}
	B := reported + reported/4 // reported / 0.8
	type snd struct{ t, size int64 }
	var sends []snd
	maxMds := int64(congestion.InitialPacketSize)
	for i, st := range steps {
		switch st.Op {
		case "mds":
			if st.S > maxMds {
				maxMds = st.S
			}
		case "sent":
			if st.Size > st.Pre {
				v.fail("%s: harness sent %d bytes with a budget of %d (step %d)", who, st.Size, st.Pre, i)
				return 0
			}
			sends = append(sends, snd{st.T, st.Size})
		case "nop":
			if st.Waked && !st.Hpb {
				v.failc("wire-stalled", "%s: slept until the time TimeUntilSend announced (%d) but HasPacingBudget is still false (step %d)", who, st.Now, i)
				return 0
			}
		}
	}
	burst := int64(c10WAccrual(B, 4000000))
	if 10*maxMds > burst {
		burst = 10 * maxMds
	}
	for i := range sends {
		var sum int64
		for j := i; j < len(sends); j++ {
			sum += sends[j].size
			dt := uint64(sends[j].t - sends[i].t)
			if hi, lo := bits.Mul64(B, dt); hi != 0 || lo >= 1<<63 {
				break
			}
			windows++
			if bound := burst + int64(c10WAccrual(B, dt)); sum > bound {
				v.failc("wire-rate", "%s: reported rate %d B/s, but the sender as installed releases %d bytes in %d ns (sends %d..%d); burst %d + reported/0.8 x interval = %d",
					who, reported, sum, dt, i, j, burst, bound)
				return windows
			}
		}
	}
	return windows
}

func c10InstalledDis(conn *quic.Conn) (dis bool) {
	defer func() { _ = recover() }()
	sph := reflect.ValueOf(conn).Elem().FieldByName("sentPacketHandler").Elem()
	cc := sph.Elem().FieldByName("congestion").Elem().Elem().FieldByName("CC").Elem()
	if cc.Type().String() == "*brutal.BrutalSender" {
		return cc.Elem().FieldByName("disableLossCompensation").Bool()
	}
	return false
}

func c10Wire(c c10Case, res map[string]any) {
	v := &c10Verdict{ok: true}
	defer v.store(res)
	cs, err := c10StartServer(c)
	if err != nil {
		res["err"] = "server"
		v.fail("server did not start: %v", err)
		return
	}
	defer cs.s.Close()
	cl, info, err := client.NewClient(&client.Config{
		ServerAddr:       cs.addr,
		TLSConfig:        client.TLSConfig{InsecureSkipVerify: true},
		CongestionConfig: client.CongestionConfig{Type: c.CType},
		BandwidthConfig:  client.BandwidthConfig{MaxTx: c.CTx, MaxRx: c.CRx, DisableLossCompensation: c.CDis},
	})
	if err != nil {
		res["err"] = "client"
		v.fail("handshake failed: %v", err)
		return
	}
	defer cl.Close()
	res["info_tx"] = info.Tx
	cconn := c10ClientConn(cl)
	ck, cb := c10Installed(cconn)
	res["c_kind"], res["c_bps"], res["c_dis"] = ck, cb, c10InstalledDis(cconn)
	if err := cs.observe(res); err != nil {
		res["err"] = "observe"
		v.fail("%v", err)
		return
	}
	cs.mu.Lock()
	res["s_dis"] = c10InstalledDis(cs.conns[0])
	cs.mu.Unlock()
	sf, sr := c10ServerWant(c.Ignore, c.STx, c.CRx)
	c10Side(v, "server", sf, sr, c10ConfiguredKind(c.SType), res["connect_tx"].(uint64), res["s_kind"].(string), res["s_bps"].(int64))
	cf, cr := c10ClientWant(c.Ignore, c.CTx, c.SRx)
	c10Side(v, "client", cf, cr, c10ConfiguredKind(c.CType), info.Tx, ck, cb)
	// the sender as installed, on the wire
	windows := 0
	side := func(who string, kind string, bps int64, dis bool, reported uint64, seedOff int64) {
		if kind != "brutal" || bps <= 0 {
			return
		}
		lp := c.Loop
		lp.Seed += seedOff
		r := c10WLoopRun(uint64(bps), dis, lp)
		res[who+"_steps"], res[who+"_nobs"], res[who+"_dig"] = r.out, r.nobs, r.dig
		windows += c10WVerdict(v, who, reported, r.out)
	}
	side("s", res["s_kind"].(string), res["s_bps"].(int64), res["s_dis"].(bool), res["connect_tx"].(uint64), 0)
	side("c", ck, cb, res["c_dis"].(bool), info.Tx, 1)
	res["windows"] = windows
}

// c10Declared reads a header value the way the protocol text does: a decimal uint64 (wellFormed), or
// not a number.  overflow = the leading run of decimal digits already exceeds 2^64-1 (a numeral
// too large for a uint, with or without trailing junk): the protocol text does not say how such a
// declaration reads, so the verdict accepts "unknown" as well as "saturated" for it, and nothing else.
func c10Declared(hdr *string) (val uint64, wellFormed bool, overflow bool) {
	if hdr == nil || *hdr == "" {
		return 0, false, false
	}
	k := 0
	for k < len(*hdr) && (*hdr)[k] >= '0' && (*hdr)[k] <= '9' {
		k++
	}
	if k == 0 {
		return 0, false, false
	}
	n, ok := new(big.Int).SetString((*hdr)[:k], 10)
	if !ok {
		return 0, false, false
	}
	if n.BitLen() > 64 {
		return 0, false, true
	}
	if k < len(*hdr) {
		return 0, false, false
	}
	return n.Uint64(), true, false
}

// raw HTTP/3 client -> real server
func c10RawReq(c c10Case, res map[string]any) {
	v := &c10Verdict{ok: true}
	defer v.store(res)
	cs, err := c10StartServer(c)
	if err != nil {
		res["err"] = "server"
		v.fail("server did not start: %v", err)
		return
	}
	defer cs.s.Close()
	rt := &http3.Transport{
		TLSClientConfig: &tls.Config{InsecureSkipVerify: true},
		QUICConfig:      &quic.Config{EnableDatagrams: true, MaxDatagramFrameSize: protocol.MaxDatagramFrameSize},
		Dial: func(ctx context.Context, _ string, tlsCfg *tls.Config, cfg *quic.Config) (*quic.Conn, error) {
			return quic.DialAddrEarly(ctx, cs.addr.String(), tlsCfg, cfg)
		},
	}
	defer rt.Close()
	req := &http.Request{
		Method: http.MethodPost,
		URL:    &url.URL{Scheme: "https", Host: protocol.URLHost, Path: protocol.URLPath},
		Header: make(http.Header),
	}
	req.Header.Set(protocol.RequestHeaderAuth, "x")
	if c.Hdr != nil {
		req.Header.Set(protocol.CommonHeaderCCRX, *c.Hdr)
	}
	ctx, cancel := context.WithTimeout(context.Background(), 10*time.Second)
	defer cancel()
	resp, err := rt.RoundTrip(req.WithContext(ctx))
	if err != nil {
		res["err"] = "roundtrip"
		v.fail("request failed: %v", err)
		return
	}
	defer resp.Body.Close()
	res["status"] = resp.StatusCode
	res["resp_hdr"] = hex.EncodeToString([]byte(resp.Header.Get(protocol.CommonHeaderCCRX)))
	if resp.StatusCode != protocol.StatusAuthOK {
		v.fail("status %d", resp.StatusCode)
		return
	}
	if err := cs.observe(res); err != nil {
		res["err"] = "observe"
		v.fail("%v", err)
		return
	}
	wantHdr := "auto"
	if !c.Ignore {
		wantHdr = strconv.FormatUint(c.SRx, 10)
	}
	if got := resp.Header.Get(protocol.CommonHeaderCCRX); got != wantHdr {
		v.fail("server declared rx %q, configured %q", got, wantHdr)
	}
	connectTx, kind, bps := res["connect_tx"].(uint64), res["s_kind"].(string), res["s_bps"].(int64)
	c10RawServerVerdict(v, c, c.Hdr, connectTx, kind, bps)
}

// c10RawServerVerdict: what a server configured as c must report (connectTx) and enforce (kind, bps) for a client
// whose accepted auth request carried the raw Hysteria-CC-RX value hdr
func c10RawServerVerdict(v *c10Verdict, c c10Case, hdr *string, connectTx uint64, kind string, bps int64) {
	decl, wf, ovf := c10Declared(hdr)
	switch {
	case wf:
		sf, sr := c10ServerWant(c.Ignore, c.STx, decl)
		c10Side(v, "server", sf, sr, c10ConfiguredKind(c.SType), connectTx, kind, bps)
	case ovf && !c.Ignore:
		// a numeral beyond uint64: either "unknown" or a saturated declaration is acceptable,
		// but never above the server's own limit and reported == enforced
		if kind == "brutal" {
			if c.STx > 0 && connectTx > c.STx {
				v.fail("server: rate %d exceeds its own limit %d", connectTx, c.STx)
			}
			c10Side(v, "server", true, connectTx, "", connectTx, kind, bps)
		} else {
			c10Side(v, "server", false, 0, c10ConfiguredKind(c.SType), connectTx, kind, bps)
		}
	default:
		// missing / empty / not a decimal number: the client's rate is unknown
		c10Side(v, "server", false, 0, c10ConfiguredKind(c.SType), connectTx, kind, bps)
	}
}

// c10Reauth: a raw HTTP/3 client sends c.Reqs, one after the other, as POST /auth on ONE QUIC connection to the
// real server.  After every response the controller on the server side of the connection is read; at the end the
// Authenticate and Connect calls.  Verdict (implementation alone): requests the Authenticator refuses are not
// answered 233 and leave the connection's controller alone; the FIRST accepted request negotiates exactly like a
// single request with its header; every later request is answered 233 with the same declaration and changes
// nothing: the controller on the connection stays the one of the first accepted request, there is exactly one
// Connect event (that request's rate) and the Authenticator is not consulted again.
func c10Reauth(c c10Case, res map[string]any) {
	v := &c10Verdict{ok: true}
	defer v.store(res)
	cs, err := c10StartServer(c)
	if err != nil {
		res["err"] = "server"
		v.fail("server did not start: %v", err)
		return
	}
	defer cs.s.Close()
	rt := &http3.Transport{
		TLSClientConfig: &tls.Config{InsecureSkipVerify: true},
		QUICConfig:      &quic.Config{EnableDatagrams: true, MaxDatagramFrameSize: protocol.MaxDatagramFrameSize},
		Dial: func(ctx context.Context, _ string, tlsCfg *tls.Config, cfg *quic.Config) (*quic.Conn, error) {
			return quic.DialAddrEarly(ctx, cs.addr.String(), tlsCfg, cfg)
		},
	}
	defer rt.Close()
	serverConn := func() *quic.Conn {
		for i := 0; i < 500; i++ {
			cs.mu.Lock()
			n := len(cs.conns)
			var q *quic.Conn
			if n > 0 {
				q = cs.conns[0]
			}
			cs.mu.Unlock()
			if q != nil {
				return q
			}
			time.Sleep(10 * time.Millisecond)
		}
		return nil
	}
	wantHdr := "auto"
	if !c.Ignore {
		wantHdr = strconv.FormatUint(c.SRx, 10)
	}
	type obs struct {
		status int
		hdr    string
		kind   string
		bps    int64
	}
	seen := make([]obs, 0, len(c.Reqs))
	first := -1 // index of the first accepted request
	for i, rq := range c.Reqs {
		req := &http.Request{
			Method: http.MethodPost,
			URL:    &url.URL{Scheme: "https", Host: protocol.URLHost, Path: protocol.URLPath},
			Header: make(http.Header),
		}
		if rq.Acc {
			req.Header.Set(protocol.RequestHeaderAuth, "x")
		} else {
			req.Header.Set(protocol.RequestHeaderAuth, c10BadAuth)
		}
		if rq.Hdr != nil {
			req.Header.Set(protocol.CommonHeaderCCRX, *rq.Hdr)
		}
		ctx, cancel := context.WithTimeout(context.Background(), 10*time.Second)
		resp, err := rt.RoundTrip(req.WithContext(ctx))
		if err != nil {
			cancel()
			res["err"] = "roundtrip"
			v.fail("request %d failed: %v", i, err)
			return
		}
		_ = resp.Body.Close()
		cancel()
		sc := serverConn()
		if sc == nil {
			res["err"] = "observe"
			v.fail("server did not accept the connection")
			return
		}
		o := obs{status: resp.StatusCode, hdr: resp.Header.Get(protocol.CommonHeaderCCRX)}
		if rq.Acc && first < 0 {
			first = i
			// the Connect event of the request that authenticates follows its response
			select {
			case <-cs.rec.connected:
			case <-time.After(10 * time.Second):
				res["err"] = "observe"
				v.fail("server never logged Connect")
				return
			}
		}
		o.kind, o.bps = c10Installed(sc)
		seen = append(seen, o)
	}
	time.Sleep(60 * time.Millisecond) // room for a (wrong) further Connect event, which follows the response
	cs.rec.mu.Lock()
	authTx := append([]uint64(nil), cs.rec.authTx...)
	connectTx := append([]uint64(nil), cs.rec.connectTx...)
	cs.rec.mu.Unlock()
	cs.mu.Lock()
	nconn := len(cs.conns)
	cs.mu.Unlock()
	steps := make([]map[string]any, len(seen))
	for i, o := range seen {
		steps[i] = map[string]any{"status": o.status, "resp_hdr": hex.EncodeToString([]byte(o.hdr)), "s_kind": o.kind, "s_bps": o.bps}
	}
	res["steps"], res["auth_txs"], res["connect_txs"] = steps, authTx, connectTx
	if nconn != 1 {
		res["err"] = "observe"
		v.fail("the requests were spread over %d connections", nconn)
		return
	}
	for i, o := range seen {
		switch {
		case first < 0 || i < first:
			if o.status == protocol.StatusAuthOK {
				v.fail("request %d: refused by the Authenticator but answered %d", i, o.status)
			}
			if o.kind != "default" {
				v.fail("request %d: a congestion controller (%s) was installed on an unauthenticated connection", i, o.kind)
			}
		default:
			if o.status != protocol.StatusAuthOK {
				v.fail("request %d: status %d on an authenticated connection", i, o.status)
			}
			if o.hdr != wantHdr {
				v.fail("request %d: server declared rx %q, configured %q", i, o.hdr, wantHdr)
			}
			if i > first && (o.kind != seen[first].kind || o.bps != seen[first].bps) {
				v.failc("reauth-renegotiated", "request %d (Hysteria-CC-RX %s) on the already authenticated connection changed the enforced rate: "+
					"%s@%d was negotiated and reported by request %d, now %s@%d is installed", i, c10ShowHdr(c.Reqs[i].Hdr),
					seen[first].kind, seen[first].bps, first, o.kind, o.bps)
			}
		}
	}
	if first < 0 {
		if len(connectTx) != 0 {
			v.fail("Connect logged %v although no request was accepted", connectTx)
		}
		return
	}
	if len(connectTx) != 1 {
		v.failc("reauth-connect-events", "%d Connect events %v for one connection (accepted request %d, %d requests after it)",
			len(connectTx), connectTx, first, len(c.Reqs)-1-first)
		if len(connectTx) == 0 {
			return
		}
	}
	if len(authTx) != first+1 {
		v.failc("reauth-authenticator", "Authenticator consulted %d times %v, expected %d (the refused requests and the first accepted one)",
			len(authTx), authTx, first+1)
	}
	// the first accepted request negotiates like a single request; reported (the one Connect event) = enforced NOW
	last := seen[len(seen)-1]
	c10RawServerVerdict(v, c, c.Reqs[first].Hdr, connectTx[0], last.kind, last.bps)
}

func c10ShowHdr(h *string) string {
	if h == nil {
		return "<missing>"
	}
	return strconv.Quote(*h)
}

// real client -> fake HTTP/3 server answering 233 with an arbitrary Hysteria-CC-RX
func c10RawResp(c c10Case, res map[string]any) {
	v := &c10Verdict{ok: true}
	defer v.store(res)
	pc, err := net.ListenUDP("udp", &net.UDPAddr{IP: net.IPv4(127, 0, 0, 1), Port: 0})
	if err != nil {
		v.fail("listen: %v", err)
		return
	}
	defer pc.Close()
	tr := &quic.Transport{Conn: pc}
	defer tr.Close()
	ln, err := tr.Listen(http3.ConfigureTLSConfig(&tls.Config{Certificates: []tls.Certificate{c10TLS()}}),
		&quic.Config{EnableDatagrams: true, MaxDatagramFrameSize: protocol.MaxDatagramFrameSize,
			AssumePeerMaxDatagramFrameSize: protocol.MaxDatagramFrameSize})
	if err != nil {
		v.fail("quic listen: %v", err)
		return
	}
	defer ln.Close()
	var gotReq sync.Map
	h3 := &http3.Server{Handler: http.HandlerFunc(func(w http.ResponseWriter, r *http.Request) {
		gotReq.Store("rx", r.Header.Get(protocol.CommonHeaderCCRX))
		w.Header().Set(protocol.ResponseHeaderUDPEnabled, "true")
		if c.Hdr != nil {
			w.Header().Set(protocol.CommonHeaderCCRX, *c.Hdr)
		}
		w.WriteHeader(protocol.StatusAuthOK)
	})}
	go func() {
		for {
			conn, err := ln.Accept(context.Background())
			if err != nil {
				return
			}
			go func() { _ = h3.ServeQUICConn(conn) }()
		}
	}()
	cl, info, err := client.NewClient(&client.Config{
		ServerAddr:       pc.LocalAddr(),
		TLSConfig:        client.TLSConfig{InsecureSkipVerify: true},
		CongestionConfig: client.CongestionConfig{Type: c.CType},
		BandwidthConfig:  client.BandwidthConfig{MaxTx: c.CTx, MaxRx: c.CRx},
	})
	if err != nil {
		res["err"] = "client"
		v.fail("handshake failed: %v", err)
		return
	}
	defer cl.Close()
	res["info_tx"] = info.Tx
	ck, cb := c10Installed(c10ClientConn(cl))
	res["c_kind"], res["c_bps"] = ck, cb
	if s, ok := gotReq.Load("rx"); ok {
		res["req_hdr"] = hex.EncodeToString([]byte(s.(string)))
		if s.(string) != strconv.FormatUint(c.CRx, 10) {
			v.fail("client declared rx %q, configured %d", s, c.CRx)
		}
	}
	auto := c.Hdr != nil && *c.Hdr == "auto"
	decl, wf, ovf := c10Declared(c.Hdr)
	switch {
	case auto || wf:
		cf, cr := c10ClientWant(auto, c.CTx, decl)
		c10Side(v, "client", cf, cr, c10ConfiguredKind(c.CType), info.Tx, ck, cb)
	default:
		// missing / malformed declaration reads as 0 = unlimited (parse failure -> 0); a numeral
		// beyond uint64 reads as 0 or saturates: for the client all of these give min = own limit
		_ = ovf
		cf, cr := c10ClientWant(false, c.CTx, 0)
		c10Side(v, "client", cf, cr, c10ConfiguredKind(c.CType), info.Tx, ck, cb)
	}
}

// c10Seq: SEVERAL handshakes made from ONE *client.Config object (client.NewClient keeps the pointer; a reconnecting
// client may be handed the same object by its configFunc every time, Config carries the `filled` flag for it), each
// answered 233 by a bare HTTP/3 server with its own Hysteria-CC-RX: auto / numbers / 0 / missing / junk in any order.
// Between two handshakes the caller may write new limits into the object (its own writes are the only ones that count).
// Verdict (implementation alone), per handshake: the reported and the installed rate are what c10ClientWant prescribes
// for (the limits the CALLER put into the object, THIS answer) - what a fresh Config would give; the receive rate the
// client declares is the caller's; after NewClient returns the object's bandwidth fields are what the caller had
// written; and at the end the controllers of the connections still open are the ones read after their handshakes.
func c10Seq(c c10Case, res map[string]any) {
	v := &c10Verdict{ok: true}
	defer v.store(res)
	pc, err := net.ListenUDP("udp", &net.UDPAddr{IP: net.IPv4(127, 0, 0, 1), Port: 0})
	if err != nil {
		v.fail("listen: %v", err)
		return
	}
	defer pc.Close()
	tr := &quic.Transport{Conn: pc}
	defer tr.Close()
	ln, err := tr.Listen(http3.ConfigureTLSConfig(&tls.Config{Certificates: []tls.Certificate{c10TLS()}}),
		&quic.Config{EnableDatagrams: true, MaxDatagramFrameSize: protocol.MaxDatagramFrameSize,
			AssumePeerMaxDatagramFrameSize: protocol.MaxDatagramFrameSize})
	if err != nil {
		v.fail("quic listen: %v", err)
		return
	}
	defer ln.Close()
	var mu sync.Mutex
	gotReq := map[int]string{} // connection number (accept order = handshake order: they are made one after the other) -> declared rx
	go func() {
		for idx := 0; ; idx++ {
			conn, err := ln.Accept(context.Background())
			if err != nil {
				return
			}
			i := idx
			h3 := &http3.Server{Handler: http.HandlerFunc(func(w http.ResponseWriter, r *http.Request) {
				mu.Lock()
				gotReq[i] = r.Header.Get(protocol.CommonHeaderCCRX)
				mu.Unlock()
				w.Header().Set(protocol.ResponseHeaderUDPEnabled, "true")
				if i < len(c.Steps) && c.Steps[i].Hdr != nil {
					w.Header().Set(protocol.CommonHeaderCCRX, *c.Steps[i].Hdr)
				}
				w.WriteHeader(protocol.StatusAuthOK)
			})}
			go func() { _ = h3.ServeQUICConn(conn) }()
		}
	}()
	// THE Config object, created once
	cfg := &client.Config{
		ServerAddr:       pc.LocalAddr(),
		TLSConfig:        client.TLSConfig{InsecureSkipVerify: true},
		CongestionConfig: client.CongestionConfig{Type: c.CType},
		BandwidthConfig:  client.BandwidthConfig{MaxTx: c.CTx, MaxRx: c.CRx},
	}
	curTx, curRx := c.CTx, c.CRx // what the caller has written
	type openConn struct {
		i    int
		cl   client.Client
		kind string
		bps  int64
	}
	var open []openConn
	defer func() {
		for _, o := range open {
			_ = o.cl.Close()
		}
	}()
	steps := make([]map[string]any, 0, len(c.Steps))
	res["steps"] = steps
	for i, st := range c.Steps {
		if st.CTx != nil {
			cfg.BandwidthConfig.MaxTx = *st.CTx
			curTx = *st.CTx
		}
		if st.CRx != nil {
			cfg.BandwidthConfig.MaxRx = *st.CRx
			curRx = *st.CRx
		}
		who := fmt.Sprintf("handshake %d (config up=%d, answered %s): client", i, curTx, c10ShowHdr(st.Hdr))
		before := cfg.BandwidthConfig
		cl, info, err := client.NewClient(cfg)
		if err != nil {
			res["err"] = "client"
			v.fail("%s: handshake failed: %v", who, err)
			return
		}
		ck, cb := c10Installed(c10ClientConn(cl))
		after := cfg.BandwidthConfig
		mu.Lock()
		rq, haveRq := gotReq[i]
		mu.Unlock()
		so := map[string]any{"info_tx": info.Tx, "c_kind": ck, "c_bps": cb, "tx_after": after.MaxTx, "rx_after": after.MaxRx}
		if haveRq {
			so["req_hdr"] = hex.EncodeToString([]byte(rq))
		}
		steps = append(steps, so)
		res["steps"] = steps
		if !haveRq {
			res["err"] = "observe"
			v.fail("%s: the server never saw the auth request", who)
			_ = cl.Close()
			return
		}
		if rq != strconv.FormatUint(curRx, 10) {
			v.failc("seq-declared", "%s: declared rx %q, the caller's Config says %d", who, rq, curRx)
		}
		if after != before {
			// (reported at the handshake that did it; the rate verdicts below keep using what the CALLER wrote)
			v.failc("seq-config-modified", "%s: NewClient modified the caller's Config: BandwidthConfig was {MaxTx:%d MaxRx:%d DisableLossCompensation:%v} when it was called, is {MaxTx:%d MaxRx:%d DisableLossCompensation:%v} now (the caller wrote MaxTx:%d MaxRx:%d)",
				who, before.MaxTx, before.MaxRx, before.DisableLossCompensation, after.MaxTx, after.MaxRx, after.DisableLossCompensation, curTx, curRx)
		}
		auto := st.Hdr != nil && *st.Hdr == "auto"
		decl, wf, _ := c10Declared(st.Hdr)
		if !(auto || wf) {
			decl = 0 // missing / malformed / beyond uint64: for the client all of these give min = own limit (see c10RawResp)
		}
		cf, cr := c10ClientWant(auto, curTx, decl)
		c10Side(v, who, cf, cr, c10ConfiguredKind(c.CType), info.Tx, ck, cb)
		if st.Close {
			_ = cl.Close()
		} else {
			open = append(open, openConn{i, cl, ck, cb})
		}
	}
	for _, o := range open {
		k, b := c10Installed(c10ClientConn(o.cl))
		if k != o.kind || b != o.bps {
			v.failc("seq-earlier-connection", "connection of handshake %d: controller was %s@%d after its handshake, is %s@%d after the later handshakes on the same Config",
				o.i, o.kind, o.bps, k, b)
		}
	}
}

// ---------------------------------------------------------------- driver

func c10Floor() uint64 {
	// smallest non-zero MaxTx accepted by fill(), found by bisection on the real validation
	acc := func(x uint64) bool {
		cfg := &Config{TLSConfig: TLSConfig{Certificates: []tls.Certificate{c10TLS()}}, Conn: &net.UDPConn{},
			BandwidthConfig: BandwidthConfig{MaxTx: x}, Authenticator: &c10Rec{}}
		return cfg.fill() == nil
	}
	lo, hi := uint64(1), uint64(1)<<40
	if acc(lo) {
		return 1
	}
	for lo+1 < hi { // invariant: !acc(lo), acc(hi)
		mid := lo + (hi-lo)/2
		if acc(mid) {
			hi = mid
		} else {
			lo = mid
		}
	}
	return hi
}

func TestVerifC10(t *testing.T) {
	vParams(t, [][3]string{
		{"ServerMinBandwidth", "N", strconv.FormatUint(c10Floor(), 10)},
		{"StatusAuthOK", "N", strconv.Itoa(protocol.StatusAuthOK)},
	})
	raws := vReadCases(t)
	results := make([]map[string]any, len(raws))
	sem := make(chan struct{}, 12)
	var wg sync.WaitGroup
	for i, raw := range raws {
		var c c10Case
		if err := json.Unmarshal(raw, &c); err != nil {
			t.Fatal(err)
		}
		res := map[string]any{"i": i, "k": c.K}
		results[i] = res
		run := func(f func(c10Case, map[string]any)) {
			wg.Add(1)
			sem <- struct{}{}
			go func() {
				defer wg.Done()
				defer func() { <-sem }()
				p, msg := vCatch(func() { f(c, res) })
				if p {
					res["panic"] = true
					res["ok"] = false
					res["why"] = "panic: " + msg
				}
			}()
		}
		switch c.K {
		case "preq", "presp", "freq", "fresp":
			c10Codec(c, res)
		case "cfg":
			c10Cfg(c, res)
		case "brutal":
			c10Brutal(c, res)
		case "hs":
			run(c10Handshake)
		case "rawreq":
			run(c10RawReq)
		case "rawresp":
			run(c10RawResp)
		case "reauth":
			run(c10Reauth)
		case "seq":
			run(c10Seq)
		case "wire":
			run(c10Wire)
		default:
			t.Fatalf("unknown case kind %q", c.K)
		}
	}
	wg.Wait()
	out := vOpenOut(t, "VERIF_OUT")
	defer out.Close()
	for _, r := range results {
		out.Emit(r)
	}
}
