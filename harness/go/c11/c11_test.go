//go:build verif

package brutal

// C11 harness: drives the real BrutalSender (and through it the real common.Pacer) of /repo's
// working tree with explicit monotime values and a fake RTT provider.
//   kind "script": the operation sequence comes from the case (boundary and out-of-range inputs);
//   kind "loop"  : a simulated QUIC send loop on a virtual clock generated here from the case's seed
//                  (send when CanSend && HasPacingBudget, otherwise sleep until TimeUntilSend;
//                  ack/loss batches, idle gaps, datagram-size and RTT changes in between).
// Every released packet carries OnPacketSent's isRetransmittable flag (step field "nr" = not
// ack-eliciting); the loop mixes such packets in any proportion.  They pass the same pacing gate,
// do not count as bytes in flight, and the rate verdict counts every released byte.
// After every call it records Budget / TimeUntilSend / HasPacingBudget / GetCongestionWindow /
// CanSend and math.Float64bits(ackRate) for the comparison with the Coq model, and evaluates the
// property's own predicate on the implementation alone ("ok"/"why").

import (
	"encoding/json"
	"fmt"
	"math"
	"math/bits"
	"math/rand"
	"strconv"
	"testing"
	"time"

	"github.com/apernet/hysteria/core/v2/internal/congestion/common"

	"github.com/apernet/quic-go/congestion"
	"github.com/apernet/quic-go/monotime"
)

type c11RTT struct{ srtt time.Duration }

func (r *c11RTT) MinRTT() time.Duration                { return r.srtt }
func (r *c11RTT) LatestRTT() time.Duration             { return r.srtt }
func (r *c11RTT) SmoothedRTT() time.Duration           { return r.srtt }
func (r *c11RTT) MeanDeviation() time.Duration         { return 0 }
func (r *c11RTT) MaxAckDelay() time.Duration           { return 0 }
func (r *c11RTT) PTO(bool) time.Duration               { return 0 }
func (r *c11RTT) UpdateRTT(_, _ time.Duration)         {}
func (r *c11RTT) SetMaxAckDelay(time.Duration)         {}
func (r *c11RTT) SetInitialRTT(time.Duration)          {}

type c11Step struct {
	Op   string `json:"op"` // sent | ev | mds | nop | rtt
	T    int64  `json:"t"`
	Size int64  `json:"size"`
	A    int    `json:"a"`
	L    int    `json:"l"`
	S    int64  `json:"s"`
	Nr   bool   `json:"nr"`  // sent: the packet is NOT ack-eliciting (OnPacketSent's isRetransmittable = false)
	Now  int64  `json:"now"` // nop: the new virtual time; otherwise filled in (time of the queries)
	RTT  int64  `json:"rtt"` // rtt: the new SmoothedRTT; otherwise filled in
	// observations
	Pan   bool   `json:"pan"`
	Bud   int64  `json:"bud"`
	Tus   int64  `json:"tus"`
	TusP  bool   `json:"tusp"`
	Wake  int64  `json:"wake"` // Budget(TimeUntilSend()) when a wake-up time is announced
	Hpb   bool   `json:"hpb"`
	Cwnd  int64  `json:"cwnd"`
	Can1  bool   `json:"can1"` // CanSend(maxDatagramSize)
	Can2  bool   `json:"can2"` // CanSend(cwnd)
	Can3  bool   `json:"can3"` // CanSend(cwnd+1)
	Bits  uint64 `json:"bits"`
	Pre   int64  `json:"pre"`   // sent: Budget(t) just before OnPacketSent (harness bookkeeping, not compared)
	Waked bool   `json:"waked"` // loop: this nop is "slept exactly until the announced time"
}

type c11Loop struct {
	Seed   int64   `json:"seed"`
	N      int     `json:"n"`
	Mds    int64   `json:"mds"`
	RTT    int64   `json:"rtt"`
	T0     int64   `json:"t0"`
	LossP  float64 `json:"lossp"`
	EvP    float64 `json:"evp"`
	IdleP  float64 `json:"idlep"`
	MdsP   float64 `json:"mdsp"`
	Slack  int64   `json:"slack"`  // max timer slack added to a wake-up (ns); 0 = exact
	Small  bool    `json:"small"`  // also send packets smaller than a full datagram
	MaxGap int64   `json:"maxgap"` // longest idle gap (ns)
	Drain  bool    `json:"drain"`  // start with one send of (almost) the whole initial burst
	Batch  int64   `json:"batch"`  // >1: a send may aggregate up to Batch datagrams (never more than the budget)
	NrP    float64 `json:"nrp"`    // share of released packets that are not ack-eliciting (isRetransmittable=false), 0 .. 1
	NrSz   int     `json:"nrsz"`   // their sizes: 0 like the others, 1 uniform 1..datagram size, 2 half of them ACK-sized (20..80 bytes)
}

type c11Case struct {
	K     string    `json:"k"`
	Bps   uint64    `json:"bps"`
	Dis   bool      `json:"dis"`
	Steps []c11Step `json:"steps"`
	Loop  c11Loop   `json:"loop"`
}

var c11MdsSet = []int64{1200, 1252, 1280, 1452, 1500}

const c11P = 1<<61 - 1

// the property's own numbers (not the package constants, which a change under test may alter)
const (
	c11MinRate    = 0.8
	c11MinSamples = 50
)

type c11Run struct {
	b    *BrutalSender
	rtt  *c11RTT
	out  []c11Step
	now  int64  // virtual time of the queries
	nobs int64  // number of observed steps
	dig  uint64 // running digest of all observed values (same function in coq/corr/C11_Corr.v)
}

func c11New(bps uint64, dis bool) *c11Run {
	r := &c11Run{rtt: &c11RTT{}}
	r.b = NewBrutalSender(bps, dis)
	r.b.SetRTTStatsProvider(r.rtt)
	return r
}

// dig := (dig*1000003 + v + 2^63) mod (2^61-1), v given as a 64-bit pattern plus one extra high bit
func (r *c11Run) digAdd128(vhi, vlo uint64) {
	hi, lo := bits.Mul64(r.dig, 1000003)
	lo, c := bits.Add64(lo, vlo, 0)
	hi, _ = bits.Add64(hi, vhi, c)
	_, r.dig = bits.Div64(hi, lo, c11P)
}

// an unsigned 64-bit value (offset by 2^63 like everything else)
func (r *c11Run) digAdd(v uint64) {
	lo, c := bits.Add64(v, 1<<63, 0)
	r.digAdd128(c, lo)
}

// a signed 64-bit value: v + 2^63 is its bit pattern with the sign bit flipped
func (r *c11Run) digInt(v int64) {
	r.digAdd128(0, uint64(v)^(1<<63))
}

func (r *c11Run) digBool(v bool) {
	if v {
		r.digAdd(1)
	} else {
		r.digAdd(0)
	}
}

// apply performs the operation of st, then the queries, and appends the filled-in record.
func (r *c11Run) apply(st c11Step) c11Step {
	b := r.b
	switch st.Op {
	case "rtt":
		r.rtt.srtt = time.Duration(st.RTT)
		r.out = append(r.out, st)
		return st
	case "sent":
		st.Pre = int64(b.pacer.Budget(monotime.Time(st.T)))
		b.OnPacketSent(monotime.Time(st.T), 0, 0, congestion.ByteCount(st.Size), !st.Nr)
		r.now = st.T
	case "ev":
		st.Pan, _ = vCatch(func() {
			b.OnCongestionEventEx(0, monotime.Time(st.T), make([]congestion.AckedPacketInfo, st.A), make([]congestion.LostPacketInfo, st.L))
		})
		r.now = st.T
	case "mds":
		b.SetMaxDatagramSize(congestion.ByteCount(st.S))
	case "nop":
		r.now = st.Now
	default:
		panic("unknown op " + st.Op)
	}
	st.Now = r.now
	st.RTT = int64(r.rtt.srtt)
	st.Bud = int64(b.pacer.Budget(monotime.Time(st.Now)))
	st.TusP, _ = vCatch(func() { st.Tus = int64(b.TimeUntilSend(0)) })
	st.Wake = 0
	if st.TusP {
		st.Tus = 0
	} else if st.Tus != 0 {
		st.Wake = int64(b.pacer.Budget(monotime.Time(st.Tus)))
	}
	st.Hpb = b.HasPacingBudget(monotime.Time(st.Now))
	st.Cwnd = int64(b.GetCongestionWindow())
	st.Can1 = b.CanSend(b.maxDatagramSize)
	st.Can2 = b.CanSend(congestion.ByteCount(st.Cwnd))
	st.Can3 = b.CanSend(congestion.ByteCount(st.Cwnd + 1))
	st.Bits = math.Float64bits(b.ackRate)
	r.nobs++
	r.digBool(st.Pan)
	r.digInt(st.Bud)
	r.digBool(st.TusP)
	r.digInt(st.Tus)
	r.digInt(st.Wake)
	r.digBool(st.Hpb)
	r.digInt(st.Cwnd)
	r.digBool(st.Can1)
	r.digBool(st.Can2)
	r.digBool(st.Can3)
	r.digAdd(st.Bits)
	r.out = append(r.out, st)
	return st
}

// ---- the property's own predicate, on the recorded history of the implementation ----

type c11Ev struct {
	sec  int64
	a, l uint64
}

// (B*dt)/1e9 saturating at MaxInt64, B,dt >= 0
func c11Accrual(B, dt uint64) uint64 {
	hi, lo := bits.Mul64(B, dt)
	if hi >= 1000000000 {
		return math.MaxInt64
	}
	q, _ := bits.Div64(hi, lo, 1000000000)
	if q > math.MaxInt64 {
		return math.MaxInt64
	}
	return q
}

func c11Verdict(c c11Case, steps []c11Step) (bool, string, map[string]int) {
	stats := map[string]int{}
	bps := c.Bps
	inRange := bps >= 65536 && bps <= 1<<50 // the property's range of rates (64 KB/s .. far above tens of Gbit/s)
	B := bps + bps/4                        // floor(1.25*bps) = rate/0.8
	if !inRange {
		stats["out-of-range-rate"]++
	}
	ok, why := true, ""
	fail := func(i int, s string) {
		if ok {
			ok, why = false, fmt.Sprintf("step %d: %s", i, s)
		}
	}
	mds := int64(congestion.InitialPacketSize)
	maxMds := mds
	var evs []c11Ev
	evMono := true // event times non-negative and non-decreasing (monotime)
	var lastEvT int64 = -1
	var last int64 // last send time, 0 = none
	timeOK := true // send/query times positive and non-decreasing
	var clock int64
	disciplined := true
	type snd struct {
		t, size int64
		nr      bool
	}
	var sends []snd
	for i, st := range steps {
		if st.Op == "rtt" {
			continue
		}
		if !st.Can2 || (st.Can3 && st.Cwnd != math.MaxInt64) {
			fail(i, "CanSend is not `bytesInFlight <= window`")
		}
		switch st.Op {
		case "mds":
			mds = st.S
			if mds > maxMds {
				maxMds = mds
			}
		case "sent":
			if st.T <= 0 || st.T < clock || st.Size < 0 {
				timeOK = false
			}
			clock = st.T
			if st.Size > st.Pre {
				disciplined = false
				stats["undisciplined-send"]++
			}
			sends = append(sends, snd{st.T, st.Size, st.Nr})
			last = st.T
			stats["sends"]++
			if st.Nr {
				stats["nr-sends"]++
			}
		case "ev":
			if st.Pan {
				stats["event-panic"]++
				if st.T >= 0 {
					fail(i, "OnCongestionEventEx panicked on a non-negative time")
				}
				break
			}
			if st.T < 0 || st.T < lastEvT {
				evMono = false
			}
			lastEvT = st.T
			evs = append(evs, c11Ev{st.T / 1e9, uint64(st.A), uint64(st.L)})
			stats["events"]++
		}
		if st.Now <= 0 || st.Now < clock {
			timeOK = false
		}
		if st.Now > clock {
			clock = st.Now
		}
		mdsOK := mds >= 1200 && mds <= 10240
		// --- loss-compensation factor
		rate := math.Float64frombits(st.Bits)
		if !(rate >= c11MinRate && rate <= 1) {
			fail(i, fmt.Sprintf("ackRate %v outside [0.8, 1]", rate))
		}
		if c.Dis && rate != 1 {
			fail(i, "compensation disabled but ackRate != 1")
		}
		if evMono && !c.Dis {
			var A, L uint64
			if len(evs) > 0 {
				cur := evs[len(evs)-1].sec
				for _, e := range evs {
					if e.sec >= cur-4 && e.sec <= cur {
						A += e.a
						L += e.l
					}
				}
			}
			want := 1.0
			if A+L >= c11MinSamples {
				want = float64(A) / float64(A+L)
				if want < c11MinRate {
					want = c11MinRate
					stats["rate-clamped"]++
				} else if want < 1 {
					stats["rate-compensated"]++
				}
			}
			if rate != want {
				fail(i, fmt.Sprintf("ackRate %v, but acked/(acked+lost) over the last five seconds gives %v (acked=%d lost=%d)", rate, want, A, L))
			}
		}
		// --- the window never blocks a first datagram
		if mdsOK {
			if st.Cwnd < mds {
				fail(i, fmt.Sprintf("congestion window %d below one datagram %d", st.Cwnd, mds))
			}
			if !st.Can1 {
				fail(i, "CanSend refuses although only one datagram is in flight")
			}
		}
		// --- the announced wake-up time is sufficient
		if inRange && st.TusP {
			fail(i, "TimeUntilSend panicked")
		}
		if inRange && mdsOK && timeOK && !st.TusP && st.Tus != 0 && last > 0 {
			dt := st.Tus - last
			if dt <= 0 {
				fail(i, "announced wake-up time is not after the last send")
			} else if hi, lo := bits.Mul64(B, uint64(dt)); hi == 0 && lo < 1<<63 { // rate x gap fits 63 bits
				stats["wakeups-checked"]++
				if st.Wake < mds {
					fail(i, fmt.Sprintf("budget %d at the announced wake-up time %d is below one datagram %d", st.Wake, st.Tus, mds))
				}
				if dt > 1e6 && c11Accrual(bps, uint64(dt-1)) >= uint64(2*maxMds) {
					// not a property clause, only a sanity bound on over-sleeping: one ns earlier the
					// configured rate alone would already have accrued two datagrams
					fail(i, "announced wake-up is later than two datagrams' worth of the configured rate")
				}
			}
		}
		if st.Waked && inRange && mdsOK && timeOK && !st.Hpb {
			fail(i, "slept until the announced time but HasPacingBudget is still false")
		}
	}
	// --- rate conformance: bytes released in [t_i, t_j] <= burst + (rate/0.8) * (t_j - t_i)
	// Every byte the sender let through its pacing gate counts, ack-eliciting or not.  The clause is
	// evaluated whatever the per-step clauses found; when it fails it leads the verdict.
	stepOK, stepWhy := ok, why
	ok, why = true, ""
	if inRange && timeOK && disciplined && maxMds <= 10240 && len(sends) > 0 {
		burst := int64(c11Accrual(B, 4000000))
		if 10*maxMds > burst {
			burst = 10 * maxMds
		}
		stats["rate-windows"] = len(sends) * (len(sends) + 1) / 2
		for i := range sends {
			var sum, nrSum int64
			nrCnt := 0
			for j := i; j < len(sends); j++ {
				sum += sends[j].size
				if sends[j].nr {
					nrSum += sends[j].size
					nrCnt++
				}
				dt := uint64(sends[j].t - sends[i].t)
				if hi, lo := bits.Mul64(B, dt); hi != 0 || lo >= 1<<63 {
					break // outside the property's range
				}
				bound := burst + int64(c11Accrual(B, dt))
				if sum > bound {
					fail(-1, fmt.Sprintf("sends %d..%d release %d bytes in %d ns (%d packets / %d bytes of them not ack-eliciting); bound burst %d + rate/0.8 x interval = %d",
						i, j, sum, dt, nrCnt, nrSum, burst, bound))
					break
				}
			}
			if !ok {
				break
			}
		}
	}
	switch {
	case ok:
		ok, why = stepOK, stepWhy
	case !stepOK:
		why += " | earlier: " + stepWhy
	}
	return ok, why, stats
}

// ---- the simulated send loop ----

func c11LoopRun(c c11Case) *c11Run {
	lp := c.Loop
	rng := rand.New(rand.NewSource(lp.Seed))
	r := c11New(c.Bps, c.Dis)
	now := lp.T0
	rtt := lp.RTT
	mds := int64(congestion.InitialPacketSize)
	var infl int64
	var pending []int64 // sizes in flight, oldest first
	r.apply(c11Step{Op: "rtt", RTT: rtt})
	r.apply(c11Step{Op: "nop", Now: now})
	if lp.Mds != mds {
		mds = lp.Mds
		r.apply(c11Step{Op: "mds", S: mds})
	}
	ackBatch := func() {
		n := 1 + rng.Intn(40)
		if rng.Float64() < 0.1 {
			n = 1 + rng.Intn(400)
		}
		a, l := 0, 0
		for k := 0; k < n; k++ {
			if len(pending) > 0 {
				infl -= pending[0]
				pending = pending[1:]
			}
			if rng.Float64() < lp.LossP {
				l++
			} else {
				a++
			}
		}
		r.apply(c11Step{Op: "ev", T: now, A: a, L: l})
	}
	// is the next released packet not ack-eliciting?  (no draw when the class is off: older cases replay unchanged)
	nextNr := func() bool { return lp.NrP > 0 && rng.Float64() < lp.NrP }
	if lp.Drain {
		size := int64(r.b.pacer.Budget(monotime.Time(now))) - rng.Int63n(2*mds)
		if size < 0 {
			size = 0
		}
		r.apply(c11Step{Op: "sent", T: now, Size: size, Nr: nextNr()})
	}
	for it := 0; it < lp.N; it++ {
		x := rng.Float64()
		switch {
		case x < lp.EvP:
			ackBatch()
		case x < lp.EvP+lp.IdleP:
			gap := int64(1e6) + rng.Int63n(lp.MaxGap)
			if rng.Float64() < 0.5 {
				gap = rng.Int63n(3e6)
			}
			now += gap
			r.apply(c11Step{Op: "nop", Now: now})
		case x < lp.EvP+lp.IdleP+lp.MdsP:
			if rng.Float64() < 0.5 {
				mds = c11MdsSet[rng.Intn(len(c11MdsSet))]
				r.apply(c11Step{Op: "mds", S: mds})
			} else {
				rtt = []int64{0, 1e6, 5e6, 20e6, 80e6, 300e6, 2e9, 1 + rng.Int63n(2e9)}[rng.Intn(8)]
				r.apply(c11Step{Op: "rtt", RTT: rtt})
			}
		default:
			can := r.b.CanSend(congestion.ByteCount(infl))
			hpb := r.b.HasPacingBudget(monotime.Time(now))
			switch {
			case can && hpb:
				size := mds
				if lp.Small && rng.Float64() < 0.3 {
					size = 1 + rng.Int63n(mds)
				}
				if lp.Batch > 1 {
					size = mds * (1 + rng.Int63n(lp.Batch))
					if bud := int64(r.b.pacer.Budget(monotime.Time(now))); size > bud {
						size = bud
					}
				}
				nr := nextNr()
				if nr {
					switch lp.NrSz {
					case 1:
						size = 1 + rng.Int63n(mds)
					case 2:
						if rng.Float64() < 0.5 {
							size = 20 + rng.Int63n(61)
						}
					}
				} else { // only ack-eliciting packets are bytes in flight
					infl += size
					pending = append(pending, size)
				}
				r.apply(c11Step{Op: "sent", T: now, Size: size, Nr: nr})
				now += rng.Int63n(20000)
			case !hpb:
				var tus int64
				p, _ := vCatch(func() { tus = int64(r.b.TimeUntilSend(congestion.ByteCount(infl))) })
				if p || tus == 0 {
					now += 1e6
					r.apply(c11Step{Op: "nop", Now: now})
					break
				}
				exact := true
				if tus > now {
					now = tus
				} else {
					exact = false
				}
				if lp.Slack > 0 && rng.Float64() < 0.5 {
					now += rng.Int63n(lp.Slack)
				}
				r.apply(c11Step{Op: "nop", Now: now, Waked: exact})
			default: // window-limited: wait for acknowledgements
				now += 1 + rng.Int63n(max(rtt, 1000))
				ackBatch()
			}
		}
	}
	return r
}

func TestVerifC11(t *testing.T) {
	// constants of the pacer are not reachable from this package; read them through its exported API
	bw := congestion.ByteCount(0)
	p := common.NewPacer(func() congestion.ByteCount { return bw })
	burst0 := int64(p.Budget(1)) // nothing sent yet => maxBurstSize() = maxBurstPackets * InitialPacketSize at bandwidth 0
	bw = 1000000000 * 1000
	burst1 := int64(p.Budget(1)) // = multiplier * MinPacingDelay(ns) * 10^3
	r0 := c11New(1<<20, false)
	r0.rtt.srtt = 0
	ratNum, ratDen := "0", "1"
	if minAckRate*5 == 4 { // exact (untyped constant arithmetic)
		ratNum, ratDen = "4", "5"
	}
	var mar float64 = minAckRate
	vParams(t, [][3]string{
		{"InitialPacketSize", "Z", strconv.Itoa(congestion.InitialPacketSize)},
		{"MinPacingDelay_ns", "Z", strconv.FormatInt(congestion.MinPacingDelay.Nanoseconds(), 10)},
		{"MaxPacketBufferSize", "Z", strconv.Itoa(congestion.MaxPacketBufferSize)},
		{"maxBurstPackets", "Z", strconv.FormatInt(burst0/congestion.InitialPacketSize, 10)},
		{"maxBurstPacingDelayMultiplier", "Z", strconv.FormatInt(burst1/1000/congestion.MinPacingDelay.Nanoseconds(), 10)},
		{"pktInfoSlotCount", "Z", strconv.Itoa(pktInfoSlotCount)},
		{"minSampleCount", "Z", strconv.Itoa(minSampleCount)},
		{"minAckRate_bits", "Z", strconv.FormatUint(math.Float64bits(mar), 10)},
		{"minAckRate_num", "Z", ratNum},
		{"minAckRate_den", "Z", ratDen},
		{"congestionWindowMultiplier", "Z", strconv.Itoa(congestionWindowMultiplier)},
		{"cwndNoRTT", "Z", strconv.FormatInt(int64(r0.b.GetCongestionWindow()), 10)},
	})
	out := vOpenOut(t, "VERIF_OUT")
	defer out.Close()
	for i, raw := range vReadCases(t) {
		var c c11Case
		if err := json.Unmarshal(raw, &c); err != nil {
			t.Fatal(err)
		}
		var r *c11Run
		// a panic of the sender on a generated history is a violation of its own (it would take the QUIC connection's
		// send loop down: "never stalled"), reported with this case as the failing input - not a harness failure
		panicked, pmsg := vCatch(func() {
			switch c.K {
			case "script":
				r = c11New(c.Bps, c.Dis)
				for _, st := range c.Steps {
					r.apply(st)
				}
			case "loop":
				r = c11LoopRun(c)
			default:
				t.Fatalf("unknown case kind %q", c.K)
			}
		})
		if panicked {
			out.Emit(map[string]any{"i": i, "k": c.K, "steps": []any{}, "nobs": 0, "dig": "", "ok": false,
				"why": "the sender panicked on this history: " + pmsg, "stats": map[string]any{}, "panic": true})
			continue
		}
		ok, why, stats := c11Verdict(c, r.out)
		out.Emit(map[string]any{"i": i, "k": c.K, "steps": r.out, "nobs": r.nobs, "dig": r.dig, "ok": ok, "why": why, "stats": stats})
	}
}
