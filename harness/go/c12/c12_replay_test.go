//go:build verif

package bbr

// C12 harness, layer 3: whole-trace replay.  For the first ReplayMax events of a simulated history the harness records
// every call made on the real bbrSender (arguments packed into one number per call, plus one per acked / lost packet)
// together with a digest of the FULL state of the sender after the call: every field of bbrSender, of its bandwidthSampler
// and maxAckHeightTracker, of the pacer, the layout of both ring buffers, the entry of the last packet sent, and the
// values of the read-only interface (GetCongestionWindow, PacingRate, bandwidthForPacer, pacer budget, TimeUntilSend).
// The Coq model (coq/model/C12_Full.v) replays the calls from newBbrSender's initial state and has to reproduce every
// digest (coq/corr/C12_Corr.v: replay).  The raw contents of the two ring buffers enter the digest every 50th event.
// The only values read back from the implementation are the inputs that are not state of the sender: rttStats.MinRTT()
// at the time of the call and the random gain-cycle offset drawn by enterProbeBandwidthMode.

import (
	"fmt"
	"math"
	"math/big"
	"math/rand"
	"os"
	"reflect"
	"sort"
	"time"

	"github.com/apernet/quic-go/congestion"
	"github.com/apernet/quic-go/monotime"
)

const c12ReplayRingEvery = 50

type c12Replay struct {
	max   int
	n     int      // events recorded so far (index of the next event; index 0 is the initial state)
	lits  []string // packed events
	full  [][]string // debug: full observation vectors (VERIF_C12_DEBUG)
	debug bool
	over  string // a field did not fit its slot
}

func c12NewReplay(max int) *c12Replay {
	return &c12Replay{max: max, debug: os.Getenv("VERIF_C12_DEBUG") != ""}
}

func (r *c12Replay) active() bool { return r != nil && r.n <= r.max && r.over == "" }

func c12U(b bool) uint64 {
	if b {
		return 1
	}
	return 0
}

// the full observation vector (int64 fields as their two's complement uint64)
func c12FullObs(b *bbrSender, now int64, idx int) []uint64 {
	var o []uint64
	i := func(vs ...int64) {
		for _, v := range vs {
			o = append(o, uint64(v))
		}
	}
	u := func(vs ...uint64) { o = append(o, vs...) }
	// layer 2 fields
	i(int64(b.maxDatagramSize), int64(b.minCongestionWindow), int64(b.maxCongestionWindow), int64(b.initialCongestionWindow),
		int64(b.cwndToCalculateMinPacingRate), int64(b.maxCongestionWindowWithNetworkParametersAdjusted),
		int64(b.congestionWindow), int64(b.recoveryWindow), int64(b.mode), int64(b.recoveryState))
	u(c12U(b.isAtFullBandwidth))
	i(int64(b.endRecoveryAt), int64(b.lastSentPacket), int64(b.currentRoundTripEnd))
	u(uint64(b.roundTripCount))
	i(int64(b.bytesInFlight))
	// state machine
	u(b.numLossEventsInRound)
	i(int64(b.bytesLostInRound))
	for k := 0; k < 3; k++ {
		u(uint64(b.maxBandwidth.estimates[k].sample), uint64(b.maxBandwidth.estimates[k].time))
	}
	u(uint64(b.maxBandwidth.windowLength))
	i(int64(b.minRtt), int64(b.minRttTimestamp))
	u(uint64(b.pacingRate), math.Float64bits(b.pacingGain), math.Float64bits(b.congestionWindowGain))
	i(int64(b.cycleCurrentOffset), int64(b.lastCycleStart), b.roundsWithoutBandwidthGain)
	u(uint64(b.bandwidthAtLastRound), c12U(b.exitingQuiescence))
	i(int64(b.exitProbeRttAt))
	u(c12U(b.probeRttRoundPassed), c12U(b.lastSampleIsAppLimited), c12U(b.hasNoAppLimitedSample), c12U(b.detectOvershooting))
	i(int64(b.bytesLostWhileDetectingOvershooting))
	// immutable configuration (a write to it would be a disagreement)
	u(math.Float64bits(b.highGain), math.Float64bits(b.highCwndGain), math.Float64bits(b.drainGain),
		math.Float64bits(b.congestionWindowGainConstant))
	i(b.numStartupRtts)
	u(c12U(b.drainToTarget), uint64(b.bytesLostMultiplierWhileDetectingOvershooting), c12U(b.enableAckAggregationDuringStartup),
		c12U(b.expireAckAggregationInStartup))
	// pacer
	p := b.pacer
	pv := reflect.ValueOf(p).Elem() // the pacer lives in package common: its fields are read through reflection
	i(pv.FieldByName("budgetAtLastSent").Int(), pv.FieldByName("maxDatagramSize").Int(), pv.FieldByName("lastSentTime").Int())
	// sampler
	s := b.sampler
	i(int64(s.totalBytesSent), int64(s.totalBytesAcked), int64(s.totalBytesLost), int64(s.totalBytesNeutered),
		int64(s.totalBytesSentAtLastAckedPacket), int64(s.lastAckedPacketSentTime), int64(s.lastAckedPacketAckTime),
		int64(s.lastSentPacket), int64(s.lastAckedPacket))
	u(c12U(s.isAppLimited))
	i(int64(s.endOfAppLimitedPhase), int64(s.recentAckPoints.ackPoints[0].ackTime), int64(s.recentAckPoints.ackPoints[0].totalBytesAcked),
		int64(s.recentAckPoints.ackPoints[1].ackTime), int64(s.recentAckPoints.ackPoints[1].totalBytesAcked),
		int64(s.totalBytesAckedAfterLastAckEvent))
	u(c12U(s.overestimateAvoidance), c12U(s.limitMaxAckHeightTrackerBySendRate))
	// tracker
	t := s.maxAckHeightTracker
	i(int64(t.aggregationEpochStartTime), int64(t.aggregationEpochBytes), int64(t.lastSentPacketNumberBeforeEpoch))
	u(t.numAckAggregationEpochs, math.Float64bits(t.ackAggregationBandwidthThreshold), c12U(t.startNewAggregationEpochAfterFullRound),
		c12U(t.reduceExtraAckedOnBandwidthIncrease))
	for k := 0; k < 3; k++ {
		e := t.maxAckHeightFilter.estimates[k]
		i(int64(e.sample.extraAcked), int64(e.sample.bytesAcked), int64(e.sample.timeDelta))
		u(uint64(e.sample.round), uint64(e.time))
	}
	u(uint64(t.maxAckHeightFilter.windowLength))
	// the two ring buffers: layout
	q := s.connectionStateMap
	i(int64(q.numberOfPresentEntries), int64(q.firstPacket), int64(q.entries.Len()), int64(len(q.entries.ring)),
		int64(q.entries.headPos), int64(q.entries.tailPos))
	u(c12U(q.entries.full))
	a := &s.a0Candidates
	i(int64(a.Len()), int64(len(a.ring)), int64(a.headPos), int64(a.tailPos))
	u(c12U(a.full))
	// the entry of the last packet handed to the sampler
	if e := q.GetEntry(s.lastSentPacket); e != nil {
		u(1)
		o = c12AppendEntry(o, e)
	} else {
		u(0, 0, 0, 0, 0, 0, 0, 0, 0, 0, 0, 0)
	}
	// read-only interface
	i(int64(b.GetCongestionWindow()))
	u(uint64(b.PacingRate()))
	i(int64(b.bandwidthForPacer()), int64(p.Budget(monotime.Time(now))), int64(b.TimeUntilSend(0)))
	u(c12U(b.HasPacingBudget(monotime.Time(now))), c12U(b.CanSend(b.bytesInFlight)))
	// raw ring contents, every 50th event
	if idx%c12ReplayRingEvery == 0 {
		var raw []uint64
		for k := range q.entries.ring {
			w := &q.entries.ring[k]
			raw = append(raw, c12U(w.present))
			raw = c12AppendEntry(raw, &w.entry)
		}
		u(c12DigestU(raw))
		raw = raw[:0]
		for k := range a.ring {
			raw = append(raw, uint64(a.ring[k].ackTime), uint64(a.ring[k].totalBytesAcked))
		}
		u(c12DigestU(raw))
	} else {
		u(0, 0)
	}
	return o
}

func c12AppendEntry(o []uint64, e *connectionStateOnSentPacket) []uint64 {
	st := &e.sendTimeState
	return append(o, uint64(e.sentTime), uint64(e.size), uint64(e.totalBytesSentAtLastAckedPacket), uint64(e.lastAckedPacketSentTime),
		uint64(e.lastAckedPacketAckTime), c12U(st.isValid), c12U(st.isAppLimited), uint64(st.totalBytesSent), uint64(st.totalBytesAcked),
		uint64(st.totalBytesLost), uint64(st.bytesInFlight))
}

func c12DigestU(vs []uint64) uint64 {
	var h uint64
	for _, v := range vs {
		h = (h*131 + v + 1) & 0xffffffff
	}
	return h
}

type c12Packer struct {
	v     *big.Int
	shift uint
	over  string
}

func (p *c12Packer) put(name string, x int64, bits uint) {
	if x < 0 || (bits < 63 && x >= int64(1)<<bits) {
		p.over = name
		x = 0
	}
	t := new(big.Int).SetInt64(x)
	p.v.Or(p.v, t.Lsh(t, p.shift))
	p.shift += bits
}

// one recorded call.  kind 0: OnPacketSent(args = bif, pn, bytes, retx); 1: OnCongestionEventEx(args = prior, rnd,
// len(acked), len(lost); pkts = acked then lost as pn, bytes); 2: SetMaxDatagramSize(args = s); 3: initial state.
func (r *c12Replay) record(b *bbrSender, kind int64, now, rttMin int64, args []int64, pkts [][2]int64) {
	if !r.active() {
		return
	}
	obs := c12FullObs(b, now, r.n)
	p := &c12Packer{v: new(big.Int)}
	p.put("kind", kind, 2)
	p.put("digest", int64(c12DigestU(obs)), 32)
	p.put("now", now, 48)
	p.put("rttMin", rttMin, 40)
	switch kind {
	case 0:
		p.put("bif", args[0], 44)
		p.put("pn", args[1], 40)
		p.put("bytes", args[2], 20)
		p.put("retx", args[3], 1)
	case 1:
		p.put("prior", args[0], 44)
		p.put("rnd", args[1], 14)
		p.put("nacked", args[2], 16)
		p.put("nlost", args[3], 16)
	case 2:
		p.put("size", args[0], 20)
	}
	if p.over != "" {
		r.over = p.over
		return
	}
	r.lits = append(r.lits, p.v.String())
	for _, pk := range pkts {
		q := &c12Packer{v: new(big.Int)}
		q.put("pkt.pn", pk[0], 40)
		q.put("pkt.bytes", pk[1], 20)
		if q.over != "" {
			r.over = q.over
			return
		}
		r.lits = append(r.lits, q.v.String())
	}
	if r.debug {
		row := make([]string, len(obs))
		for k, v := range obs {
			row[k] = new(big.Int).SetUint64(v).String()
		}
		r.full = append(r.full, row)
	}
	r.n++
}

// the random input of enterProbeBandwidthMode, read back: cycleCurrentOffset = r if r = 0, r+1 otherwise
func c12RndOf(b *bbrSender) int64 {
	if b.cycleCurrentOffset == 0 {
		return 0
	}
	return int64(b.cycleCurrentOffset) - 1
}


// ---------------------------------------------------------------- kind "api": calls limited only by the theorems' precondition
// Random call sequences that satisfy `fevs_ok` (coq/proof/C12_Full.v) and nothing more: packet numbers may repeat or go
// back, acked / lost packets may never have been sent, times may stand still or go back, OnPacketSent may report zero
// bytes in flight for a retransmittable packet (quic-go never does: it adds the packet first), MinRTT changes freely.
// The real sender must not panic and must keep the window / pacing clauses; the full model replays every call.
type c12ApiIn struct {
	Seed    int64  `json:"seed"`
	Profile string `json:"profile"`
	Mds     int64  `json:"mds"`
	N       int    `json:"n"`
	MaxPkts int64  `json:"maxPkts"`
	IcwPkts int64  `json:"icwPkts"`
}

func c12Api(in *c12ApiIn, res map[string]any) {
	rng := rand.New(rand.NewSource(in.Seed))
	var now int64 = int64(time.Millisecond)
	rtt := &c12RTT{}
	var b *bbrSender
	if in.MaxPkts > 0 {
		b = newBbrSender(c12Clock{&now}, congestion.ByteCount(in.Mds), congestion.ByteCount(in.IcwPkts*in.Mds),
			congestion.ByteCount(in.MaxPkts*in.Mds), Profile(in.Profile))
	} else {
		b = NewBbrSender(c12Clock{&now}, congestion.ByteCount(in.Mds), Profile(in.Profile))
	}
	b.SetRTTStatsProvider(rtt)
	rec := c12NewReplay(in.N + 1)
	rec.record(b, 3, now, 0, nil, nil)
	ok, why := true, ""
	fail := func(s string) {
		if ok {
			ok, why = false, s
		}
	}
	mds := in.Mds
	nextPn := int64(0)
	var sent []([2]int64) // pn, bytes of retransmittable packets not yet reported
	var bif int64
	modes := map[int]bool{}
	nCong, nSent := 0, 0
	drain := 0
	for i := 0; i < in.N && ok; i++ {
		// time
		switch r := rng.Intn(20); {
		case r == 0:
			now -= rng.Int63n(1 + now/2)
			if now <= 0 {
				now = 1
			}
		case r == 1:
		case r < 5:
			now += rng.Int63n(400) * int64(time.Millisecond)
		default:
			now += rng.Int63n(3000) * int64(time.Microsecond)
		}
		if rng.Intn(6) == 0 || rtt.min == 0 {
			rtt.min = time.Duration(1+rng.Int63n(200)) * time.Millisecond / time.Duration(1+rng.Intn(4))
		}
		k := rng.Intn(100)
		// drain phases: no sends, one congestion event per outstanding packet (oldest first, a few ms apart); the packets
		// sent right after such a phase are acked against A0 candidates that are all older than they are (the trailing
		// loop of chooseA0Point with several candidates left)
		if drain > 0 {
			drain--
			k = 60
			now += (1 + rng.Int63n(8)) * int64(time.Millisecond)
		} else if rng.Intn(25) == 0 && len(sent) > 2 {
			drain = 3 + rng.Intn(12)
		}
		switch {
		case k < 55: // OnPacketSent
			pn := nextPn
			switch r := rng.Intn(30); {
			case r == 0 && nextPn > 0:
				pn = rng.Int63n(nextPn) // out of order / duplicate
			case r < 3:
				nextPn += 1 + rng.Int63n(4)
				pn = nextPn
				nextPn++
			default:
				nextPn++
			}
			size := mds
			if rng.Intn(8) == 0 {
				size = rng.Int63n(mds + 1)
			}
			retx := rng.Intn(12) != 0
			if retx {
				bif += size
				sent = append(sent, [2]int64{pn, size})
			}
			rep := bif
			switch r := rng.Intn(25); {
			case r == 0:
				rep = 0 // a retransmittable packet reported with nothing in flight (Chromium's convention)
			case r == 1:
				rep = rng.Int63n(1 + 2*bif)
			}
			minRtt := int64(rtt.min)
			if nCong == 0 && rng.Intn(2) == 0 {
				rtt.min, minRtt = 0, 0 // MinRTT() = 0 before the first sample
			}
			p, msg := vCatch(func() {
				b.OnPacketSent(monotime.Time(now), congestion.ByteCount(rep), congestion.PacketNumber(pn), congestion.ByteCount(size), retx)
			})
			if p {
				fail("panic in OnPacketSent: " + msg)
				break
			}
			nSent++
			rec.record(b, 0, now, minRtt, []int64{rep, pn, size, c12B(retx)}, nil)
		case k < 97: // OnCongestionEventEx
			if rtt.min == 0 {
				rtt.min = time.Duration(1+rng.Int63n(100)) * time.Millisecond
			}
			var acked, lost [][2]int64
			pick := func(p int) [][2]int64 {
				var out [][2]int64
				keep := sent[:0]
				for _, s := range sent {
					if rng.Intn(100) < p && len(out) < 40 {
						out = append(out, s)
					} else {
						keep = append(keep, s)
					}
				}
				sent = keep
				return out
			}
			if drain > 0 && len(sent) > 0 {
				acked, sent = [][2]int64{sent[0]}, sent[1:]
			} else {
				acked = pick(20 + rng.Intn(60))
				if rng.Intn(5) == 0 {
					lost = pick(rng.Intn(40))
				}
			}
			if rng.Intn(15) == 0 { // a packet the sender never saw (or saw long ago)
				acked = append(acked, [2]int64{nextPn + rng.Int63n(5), 1 + rng.Int63n(mds)})
			}
			if rng.Intn(25) == 0 {
				lost = append([][2]int64{{rng.Int63n(1 + nextPn), 1 + rng.Int63n(mds)}}, lost...)
			}
			if len(acked)+len(lost) == 0 {
				lost = [][2]int64{{nextPn + 7, mds}}
			}
			prior := bif
			if rng.Intn(20) == 0 {
				prior = rng.Int63n(1 + 2*bif)
			}
			var ai []congestion.AckedPacketInfo
			var li []congestion.LostPacketInfo
			var pk [][2]int64
			for _, a := range acked {
				ai = append(ai, congestion.AckedPacketInfo{PacketNumber: congestion.PacketNumber(a[0]), BytesAcked: congestion.ByteCount(a[1])})
				bif -= a[1]
				pk = append(pk, a)
			}
			for _, l := range lost {
				li = append(li, congestion.LostPacketInfo{PacketNumber: congestion.PacketNumber(l[0]), BytesLost: congestion.ByteCount(l[1])})
				bif -= l[1]
				pk = append(pk, l)
			}
			if bif < 0 {
				bif = 0
			}
			p, msg := vCatch(func() {
				b.OnCongestionEventEx(congestion.ByteCount(prior), monotime.Time(now), ai, li)
			})
			if p {
				fail("panic in OnCongestionEventEx: " + msg)
				break
			}
			nCong++
			rec.record(b, 1, now, int64(rtt.min), []int64{prior, c12RndOf(b), int64(len(ai)), int64(len(li))}, pk)
		default: // SetMaxDatagramSize
			s := mds + rng.Int63n(int64(congestion.MaxPacketBufferSize)-mds+1)
			p, msg := vCatch(func() { b.SetMaxDatagramSize(congestion.ByteCount(s)) })
			if p {
				fail("panic in SetMaxDatagramSize: " + msg)
				break
			}
			mds = s
			rec.record(b, 2, now, int64(rtt.min), []int64{s}, nil)
		}
		if !ok {
			break
		}
		cw, m := int64(b.GetCongestionWindow()), int64(b.maxDatagramSize)
		if cw < 4*m || cw > int64(b.maxCongestionWindow) {
			fail(fmt.Sprintf("call %d: GetCongestionWindow=%d outside [4*mds=%d, max=%d]", i, cw, 4*m, b.maxCongestionWindow))
		}
		if bw := int64(b.bandwidthForPacer()); bw < 65536 {
			fail(fmt.Sprintf("call %d: bandwidthForPacer=%d < 65536", i, bw))
		}
		if !b.CanSend(congestion.ByteCount(4*m - 1)) {
			fail(fmt.Sprintf("call %d: CanSend(4*mds-1) is false", i))
		}
		modes[int(b.mode)] = true
	}
	res["ok"], res["why"] = ok, why
	res["replay"] = rec.lits
	res["replayEvents"] = rec.n
	if rec.over != "" {
		res["replayOver"] = rec.over
	}
	if rec.debug {
		res["replayObs"] = rec.full
	}
	ms := []int{}
	for m := range modes {
		ms = append(ms, m)
	}
	sort.Ints(ms)
	res["stats"] = map[string]any{"sent": nSent, "cong": nCong, "modes": ms, "events": nSent + nCong}
}
