//go:build verif

package bbr

// C12 harness, layer 3: whole-trace replay.  For the first ReplayMax events of a simulated history the harness records
// every call made on the real bbrSender (arguments packed into one number per call, plus one per acked / lost packet)
// together with a digest of the FULL state of the sender after the call: every field of bbrSender, of its bandwidthSampler
// and maxAckHeightTracker, of the pacer, the layout of both ring buffers, the entry of the last packet sent, and the
// values of the read-only interface (GetCongestionWindow, PacingRate, bandwidthForPacer, pacer budget, TimeUntilSend).
// The Coq model (coq/model/C12_Full.v) replays the calls from newBbrSender's initial state and has to reproduce every
// digest (coq/corr/C12_Corr.v: replay).  The raw contents of the two ring buffers enter the digest every 50th event.
// The only values read back from the implementation are the inputs that are not state of the sender: rttStats.MinRTT()
// at the time of the call and the random gain-cycle offset drawn by enterProbeBandwidthMode.

import (
	"math"
	"math/big"
	"os"
	"reflect"

	"github.com/apernet/quic-go/congestion"
	"github.com/apernet/quic-go/monotime"
)

const c12ReplayRingEvery = 50

type c12Replay struct {
	max   int
	n     int      // events recorded so far (index of the next event; index 0 is the initial state)
	lits  []string // packed events
	full  [][]string // debug: full observation vectors (VERIF_C12_DEBUG)
	debug bool
	over  string // a field did not fit its slot
}

func c12NewReplay(max int) *c12Replay {
	return &c12Replay{max: max, debug: os.Getenv("VERIF_C12_DEBUG") != ""}
}

func (r *c12Replay) active() bool { return r != nil && r.n <= r.max && r.over == "" }

func c12U(b bool) uint64 {
	if b {
		return 1
	}
	return 0
}

// the full observation vector (int64 fields as their two's complement uint64)
func c12FullObs(b *bbrSender, now int64, idx int) []uint64 {
	var o []uint64
	i := func(vs ...int64) {
		for _, v := range vs {
			o = append(o, uint64(v))
		}
	}
	u := func(vs ...uint64) { o = append(o, vs...) }
	// layer 2 fields
	i(int64(b.maxDatagramSize), int64(b.minCongestionWindow), int64(b.maxCongestionWindow), int64(b.initialCongestionWindow),
		int64(b.cwndToCalculateMinPacingRate), int64(b.maxCongestionWindowWithNetworkParametersAdjusted),
		int64(b.congestionWindow), int64(b.recoveryWindow), int64(b.mode), int64(b.recoveryState))
	u(c12U(b.isAtFullBandwidth))
	i(int64(b.endRecoveryAt), int64(b.lastSentPacket), int64(b.currentRoundTripEnd))
	u(uint64(b.roundTripCount))
	i(int64(b.bytesInFlight))
	// state machine
	u(b.numLossEventsInRound)
	i(int64(b.bytesLostInRound))
	for k := 0; k < 3; k++ {
		u(uint64(b.maxBandwidth.estimates[k].sample), uint64(b.maxBandwidth.estimates[k].time))
	}
	u(uint64(b.maxBandwidth.windowLength))
	i(int64(b.minRtt), int64(b.minRttTimestamp))
	u(uint64(b.pacingRate), math.Float64bits(b.pacingGain), math.Float64bits(b.congestionWindowGain))
	i(int64(b.cycleCurrentOffset), int64(b.lastCycleStart), b.roundsWithoutBandwidthGain)
	u(uint64(b.bandwidthAtLastRound), c12U(b.exitingQuiescence))
	i(int64(b.exitProbeRttAt))
	u(c12U(b.probeRttRoundPassed), c12U(b.lastSampleIsAppLimited), c12U(b.hasNoAppLimitedSample), c12U(b.detectOvershooting))
	i(int64(b.bytesLostWhileDetectingOvershooting))
	// immutable configuration (a write to it would be a disagreement)
	u(math.Float64bits(b.highGain), math.Float64bits(b.highCwndGain), math.Float64bits(b.drainGain),
		math.Float64bits(b.congestionWindowGainConstant))
	i(b.numStartupRtts)
	u(c12U(b.drainToTarget), uint64(b.bytesLostMultiplierWhileDetectingOvershooting), c12U(b.enableAckAggregationDuringStartup),
		c12U(b.expireAckAggregationInStartup))
	// pacer
	p := b.pacer
	pv := reflect.ValueOf(p).Elem() // the pacer lives in package common: its fields are read through reflection
	i(pv.FieldByName("budgetAtLastSent").Int(), pv.FieldByName("maxDatagramSize").Int(), pv.FieldByName("lastSentTime").Int())
	// sampler
	s := b.sampler
	i(int64(s.totalBytesSent), int64(s.totalBytesAcked), int64(s.totalBytesLost), int64(s.totalBytesNeutered),
		int64(s.totalBytesSentAtLastAckedPacket), int64(s.lastAckedPacketSentTime), int64(s.lastAckedPacketAckTime),
		int64(s.lastSentPacket), int64(s.lastAckedPacket))
	u(c12U(s.isAppLimited))
	i(int64(s.endOfAppLimitedPhase), int64(s.recentAckPoints.ackPoints[0].ackTime), int64(s.recentAckPoints.ackPoints[0].totalBytesAcked),
		int64(s.recentAckPoints.ackPoints[1].ackTime), int64(s.recentAckPoints.ackPoints[1].totalBytesAcked),
		int64(s.totalBytesAckedAfterLastAckEvent))
	u(c12U(s.overestimateAvoidance), c12U(s.limitMaxAckHeightTrackerBySendRate))
	// tracker
	t := s.maxAckHeightTracker
	i(int64(t.aggregationEpochStartTime), int64(t.aggregationEpochBytes), int64(t.lastSentPacketNumberBeforeEpoch))
	u(t.numAckAggregationEpochs, math.Float64bits(t.ackAggregationBandwidthThreshold), c12U(t.startNewAggregationEpochAfterFullRound),
		c12U(t.reduceExtraAckedOnBandwidthIncrease))
	for k := 0; k < 3; k++ {
		e := t.maxAckHeightFilter.estimates[k]
		i(int64(e.sample.extraAcked), int64(e.sample.bytesAcked), int64(e.sample.timeDelta))
		u(uint64(e.sample.round), uint64(e.time))
	}
	u(uint64(t.maxAckHeightFilter.windowLength))
	// the two ring buffers: layout
	q := s.connectionStateMap
	i(int64(q.numberOfPresentEntries), int64(q.firstPacket), int64(q.entries.Len()), int64(len(q.entries.ring)),
		int64(q.entries.headPos), int64(q.entries.tailPos))
	u(c12U(q.entries.full))
	a := &s.a0Candidates
	i(int64(a.Len()), int64(len(a.ring)), int64(a.headPos), int64(a.tailPos))
	u(c12U(a.full))
	// the entry of the last packet handed to the sampler
	if e := q.GetEntry(s.lastSentPacket); e != nil {
		u(1)
		o = c12AppendEntry(o, e)
	} else {
		u(0, 0, 0, 0, 0, 0, 0, 0, 0, 0, 0, 0)
	}
	// read-only interface
	i(int64(b.GetCongestionWindow()))
	u(uint64(b.PacingRate()))
	i(int64(b.bandwidthForPacer()), int64(p.Budget(monotime.Time(now))), int64(b.TimeUntilSend(0)))
	u(c12U(b.HasPacingBudget(monotime.Time(now))), c12U(b.CanSend(b.bytesInFlight)))
	// raw ring contents, every 50th event
	if idx%c12ReplayRingEvery == 0 {
		var raw []uint64
		for k := range q.entries.ring {
			w := &q.entries.ring[k]
			raw = append(raw, c12U(w.present))
			raw = c12AppendEntry(raw, &w.entry)
		}
		u(c12DigestU(raw))
		raw = raw[:0]
		for k := range a.ring {
			raw = append(raw, uint64(a.ring[k].ackTime), uint64(a.ring[k].totalBytesAcked))
		}
		u(c12DigestU(raw))
	} else {
		u(0, 0)
	}
	return o
}

func c12AppendEntry(o []uint64, e *connectionStateOnSentPacket) []uint64 {
	st := &e.sendTimeState
	return append(o, uint64(e.sentTime), uint64(e.size), uint64(e.totalBytesSentAtLastAckedPacket), uint64(e.lastAckedPacketSentTime),
		uint64(e.lastAckedPacketAckTime), c12U(st.isValid), c12U(st.isAppLimited), uint64(st.totalBytesSent), uint64(st.totalBytesAcked),
		uint64(st.totalBytesLost), uint64(st.bytesInFlight))
}

func c12DigestU(vs []uint64) uint64 {
	var h uint64
	for _, v := range vs {
		h = (h*131 + v + 1) & 0xffffffff
	}
	return h
}

type c12Packer struct {
	v     *big.Int
	shift uint
	over  string
}

func (p *c12Packer) put(name string, x int64, bits uint) {
	if x < 0 || (bits < 63 && x >= int64(1)<<bits) {
		p.over = name
		x = 0
	}
	t := new(big.Int).SetInt64(x)
	p.v.Or(p.v, t.Lsh(t, p.shift))
	p.shift += bits
}

// one recorded call.  kind 0: OnPacketSent(args = bif, pn, bytes, retx); 1: OnCongestionEventEx(args = prior, rnd,
// len(acked), len(lost); pkts = acked then lost as pn, bytes); 2: SetMaxDatagramSize(args = s); 3: initial state.
func (r *c12Replay) record(b *bbrSender, kind int64, now, rttMin int64, args []int64, pkts [][2]int64) {
	if !r.active() {
		return
	}
	obs := c12FullObs(b, now, r.n)
	p := &c12Packer{v: new(big.Int)}
	p.put("kind", kind, 2)
	p.put("digest", int64(c12DigestU(obs)), 32)
	p.put("now", now, 48)
	p.put("rttMin", rttMin, 40)
	switch kind {
	case 0:
		p.put("bif", args[0], 44)
		p.put("pn", args[1], 40)
		p.put("bytes", args[2], 20)
		p.put("retx", args[3], 1)
	case 1:
		p.put("prior", args[0], 44)
		p.put("rnd", args[1], 14)
		p.put("nacked", args[2], 16)
		p.put("nlost", args[3], 16)
	case 2:
		p.put("size", args[0], 20)
	}
	if p.over != "" {
		r.over = p.over
		return
	}
	r.lits = append(r.lits, p.v.String())
	for _, pk := range pkts {
		q := &c12Packer{v: new(big.Int)}
		q.put("pkt.pn", pk[0], 40)
		q.put("pkt.bytes", pk[1], 20)
		if q.over != "" {
			r.over = q.over
			return
		}
		r.lits = append(r.lits, q.v.String())
	}
	if r.debug {
		row := make([]string, len(obs))
		for k, v := range obs {
			row[k] = new(big.Int).SetUint64(v).String()
		}
		r.full = append(r.full, row)
	}
	r.n++
}

// the random input of enterProbeBandwidthMode, read back: cycleCurrentOffset = r if r = 0, r+1 otherwise
func c12RndOf(b *bbrSender) int64 {
	if b.cycleCurrentOffset == 0 {
		return 0
	}
	return int64(b.cycleCurrentOffset) - 1
}

var _ = congestion.ByteCount(0)
