//go:build verif

package congestion

// C12 harness for seedPacketSize (core/internal/congestion/utils.go): cases [quicSize, byAddr].

import (
	"encoding/json"
	"testing"

	"github.com/apernet/quic-go/congestion"
)

func TestVerifC12Seed(t *testing.T) {
	out := vOpenOut(t, "VERIF_OUT")
	defer out.Close()
	for i, raw := range vReadCases(t) {
		var c struct {
			Q int64 `json:"q"`
			A int64 `json:"a"`
		}
		if err := json.Unmarshal(raw, &c); err != nil {
			t.Fatal(err)
		}
		var r congestion.ByteCount
		p, msg := vCatch(func() { r = seedPacketSize(congestion.ByteCount(c.Q), congestion.ByteCount(c.A)) })
		res := map[string]any{"i": i, "seed": int64(r), "panic": p}
		ok, why := !p, msg
		if !p && c.Q > 0 && int64(r) > c.Q {
			ok, why = false, "seed above QUIC's initial packet size"
		}
		res["ok"], res["why"] = ok, why
		out.Emit(res)
	}
}
