//go:build verif

package bbr

type c12SimIn struct {
	Seed int64 `json:"seed"`
}

func c12Sim(in *c12SimIn, res map[string]any) {
	res["ok"], res["why"] = true, ""
}
