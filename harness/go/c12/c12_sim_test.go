//go:build verif

package bbr

// C12 harness, layers 2-3: a discrete-event bottleneck simulator (capacity, RTT, queue, random and
// burst loss, ack aggregation, app-limited phases, packet-number gaps, non-ack-eliciting packets,
// MTU raises) generates QUIC-consistent traces following quic-go's call discipline and drives the
// REAL bbrSender (fake clock, fake RTT stats).  After every event the harness evaluates the
// property's own verdict on the real sender; for a sample of events it dumps the integer fields
// before/after plus the oracle values the Coq model needs to recompute the update (window update, calculateCongestionWindow,
// GetCongestionWindow, bandwidthForPacer from the pacing rate in bits/s - the harness does no arithmetic of its own there).
// Scenario classes (vlib/props/C12.py): clean / lossy / probertt / applimited at 0.6..2.5 MB/s; slow-* = 20..200 KB/s
// bottlenecks (pacing rate below the 64 KB/s floor once STARTUP is left); smallmax* = newBbrSender with a small configured
// maximum / initial window and fat = NewBbrSender on 150..400 MB/s x 80..150 ms (gain x BDP above the maximum window).
// The throughput verdict ("does not settle far below capacity on a loss-free path", windows of delivered / capacity) runs over
// capacity (clean, clean-fast-*), ack aggregation (clean-agg) and the RTT extremes: clean-lan = 0.1..0.9 ms (rttUs) at
// 3..40 Gbit/s with a bandwidth-delay product of 300..1000 datagrams, clean-far = 0.5..2 s at moderate capacity.

import (
	"fmt"
	"math"
	"math/rand"
	"sort"
	"strconv"
	"time"

	"github.com/apernet/quic-go/congestion"
	"github.com/apernet/quic-go/monotime"
)

type c12SimIn struct {
	Seed     int64    `json:"seed"`
	Profile  string   `json:"profile"`
	Mds      int64    `json:"mds"`      // seed datagram size
	CapBps   int64    `json:"cap"`      // bottleneck capacity, bytes/s
	RttMs    int64    `json:"rtt"`      // base round-trip time
	QueueB   int64    `json:"queue"`    // bottleneck queue, bytes
	LossPm   int64    `json:"loss"`     // random loss, per mille
	BurstEv  int64    `json:"burstEv"`  // every burstEv ms ...
	BurstLen int64    `json:"burstLen"` // ... drop everything for burstLen ms (0: none)
	AggMs    int64    `json:"agg"`      // acks released on a grid of agg ms (0: immediately)
	Idle     [][2]int64 `json:"idle"`   // app-limited intervals [from,to) ms
	GapPm    int64    `json:"gap"`      // packet-number skip probability, per mille
	NonRtxPm int64    `json:"nonrtx"`   // non-ack-eliciting packet probability, per mille
	Mtu      [][2]int64 `json:"mtu"`    // [time ms, new size]
	DurMs    int64    `json:"dur"`
	DumpMax  int      `json:"dumpMax"`  // max events dumped for the model comparison
	TraceMax int      `json:"traceMax"` // length of the trace prefix dumped for quic_consistent / bookkeeping
	Clean    bool     `json:"clean"`    // loss-free, never app-limited: throughput is reported
	MaxPkts  int64    `json:"maxPkts"`  // > 0: built with newBbrSender and this maximum window (datagrams) instead of NewBbrSender's
	IcwPkts  int64    `json:"icwPkts"`  // > 0 (with maxPkts): initial window in datagrams (default initialCongestionWindowPackets)
	ReplayMax int     `json:"replayMax"` // > 0: the first replayMax calls are recorded for the whole-trace replay (c12_replay_test.go)
	AggUs    int64    `json:"aggUs"`    // > 0: acks released on a grid of aggUs microseconds (very fast paths; overrides agg)
	// loss-free fixed-capacity runs (clean): from thrFrom ms on - i.e. after the first min_rtt expiry (10 s without a new
	// minimum) and the PROBE_RTT episode it causes - every complete window of thrWin ms must deliver at least thrMinPm
	// per mille of capacity * thrWin
	ThrFrom  int64 `json:"thrFrom"`
	ThrWin   int64 `json:"thrWin"`
	ThrMinPm int64 `json:"thrMinPm"`
	// the RTT extremes: rttUs > 0 gives the base round trip in microseconds (overrides rtt; LAN / same-metro paths of
	// 0.1..0.9 ms, where a round trip is less than one unit of any millisecond arithmetic); warmMs > 0 replaces the 2 s
	// after which throughputRatio starts counting (runs of a few hundred round trips last well under 2 s there, and
	// STARTUP alone takes tens of seconds on a 1-2 s path)
	RttUs  int64 `json:"rttUs"`
	WarmMs int64 `json:"warmMs"`
}

type c12Clock struct{ now *int64 }

func (c c12Clock) Now() monotime.Time { return monotime.Time(*c.now) }

type c12RTT struct{ min, latest, smoothed, dev time.Duration }

func (r *c12RTT) MinRTT() time.Duration        { return r.min }
func (r *c12RTT) LatestRTT() time.Duration     { return r.latest }
func (r *c12RTT) SmoothedRTT() time.Duration   { return r.smoothed }
func (r *c12RTT) MeanDeviation() time.Duration { return r.dev }
func (r *c12RTT) MaxAckDelay() time.Duration   { return 25 * time.Millisecond }
func (r *c12RTT) PTO(bool) time.Duration {
	if r.smoothed == 0 {
		return 200 * time.Millisecond
	}
	return r.smoothed + max(4*r.dev, time.Millisecond) + 25*time.Millisecond
}
func (r *c12RTT) UpdateRTT(s, _ time.Duration) {
	r.latest = s
	if r.min == 0 || s < r.min {
		r.min = s
	}
	if r.smoothed == 0 {
		r.smoothed, r.dev = s, s/2
	} else {
		d := r.smoothed - s
		if d < 0 {
			d = -d
		}
		r.dev = (3*r.dev + d) / 4
		r.smoothed = (7*r.smoothed + s) / 8
	}
}
func (r *c12RTT) SetMaxAckDelay(time.Duration) {}
func (r *c12RTT) SetInitialRTT(time.Duration)  {}

type c12Pkt struct {
	pn       int64
	size     int64
	sent     int64
	ackAt    int64 // arrival time of its ack at the sender; -1: dropped by the network
	idx      int64 // ordinal among sent packets (quic-go counts reordering distance on sent packets)
}

func c12Fields(b *bbrSender) []int64 {
	return []int64{
		int64(b.maxDatagramSize), int64(b.minCongestionWindow), int64(b.maxCongestionWindow), int64(b.initialCongestionWindow),
		int64(b.cwndToCalculateMinPacingRate), int64(b.maxCongestionWindowWithNetworkParametersAdjusted),
		int64(b.congestionWindow), int64(b.recoveryWindow), int64(b.mode), int64(b.recoveryState), c12B(b.isAtFullBandwidth),
		int64(b.endRecoveryAt), int64(b.lastSentPacket), int64(b.currentRoundTripEnd), int64(b.roundTripCount & 0x7fffffffffffffff),
		int64(b.bytesInFlight),
	}
}

func c12CloneSampler(s *bandwidthSampler) *bandwidthSampler {
	c := *s
	q := *s.connectionStateMap
	q.entries.ring = append([]entryWrapper[connectionStateOnSentPacket](nil), s.connectionStateMap.entries.ring...)
	c.connectionStateMap = &q
	c.a0Candidates.ring = append([]ackPoint(nil), s.a0Candidates.ring...)
	t := *s.maxAckHeightTracker
	f := *s.maxAckHeightTracker.maxAckHeightFilter
	f.estimates = append([]entry[extraAckedEvent, roundTripCount](nil), f.estimates...)
	t.maxAckHeightFilter = &f
	c.maxAckHeightTracker = &t
	return &c
}

// the inputs and the output of bandwidthForPacer as the model needs them: the pacingRate field (bits/s), what
// PacingRate() returns instead while that field is still 0 (a float-derived value: oracle; 0 otherwise), and the
// value the pacer is given.  The division by BytesPerSecond and the floor are recomputed by the Coq model.
func c12PacerTail(b *bbrSender) []int64 {
	pr := uint64(b.pacingRate)
	fb := uint64(0)
	if pr == 0 {
		fb = uint64(b.PacingRate())
	}
	return []int64{int64(b.GetCongestionWindow()), int64(pr), int64(fb), int64(b.bandwidthForPacer())}
}

func c12Ms(ts []int64) []int64 {
	out := make([]int64, len(ts))
	for i, t := range ts {
		out[i] = t / int64(time.Millisecond)
	}
	return out
}

func c12Sim(in *c12SimIn, res map[string]any) {
	rng := rand.New(rand.NewSource(in.Seed))
	var now int64 = int64(time.Millisecond) // monotime zero is "unset": start at 1 ms
	rtt := &c12RTT{}
	var b *bbrSender
	if in.MaxPkts > 0 {
		icw := int64(initialCongestionWindowPackets)
		if in.IcwPkts > 0 {
			icw = in.IcwPkts
		}
		b = newBbrSender(c12Clock{&now}, congestion.ByteCount(in.Mds), congestion.ByteCount(icw*in.Mds),
			congestion.ByteCount(in.MaxPkts*in.Mds), Profile(in.Profile))
	} else {
		b = NewBbrSender(c12Clock{&now}, congestion.ByteCount(in.Mds), Profile(in.Profile))
	}
	b.SetRTTStatsProvider(rtt)
	agg := b.enableAckAggregationDuringStartup
	var rec *c12Replay
	if in.ReplayMax > 0 {
		rec = c12NewReplay(in.ReplayMax)
		rec.record(b, 3, now, int64(rtt.min), nil, nil)
	}

	ok, why := true, ""
	evNo := 0
	stop := false // a failed clause ends the run ...
	fail := func(s string) {
		if ok {
			ok, why = false, fmt.Sprintf("event %d at %.3f ms: %s", evNo, float64(now)/1e6, s)
		}
		stop = true
	}
	// ... except the clauses about the long-run behaviour (PROBE_RTT spacing, throughput windows): the run goes on, so that one
	// replay shows every such clause the history violates (the first occurrence of each)
	var fails []string
	softSeen := map[string]bool{}
	failSoft := func(clause, s string) {
		msg := fmt.Sprintf("event %d at %.3f ms: %s", evNo, float64(now)/1e6, s)
		if ok {
			ok, why = false, msg
		}
		if !softSeen[clause] {
			softSeen[clause] = true
			fails = append(fails, msg)
		}
	}

	ms := int64(time.Millisecond)
	mds := in.Mds
	var outstanding []*c12Pkt // ascending pn
	var bytesInFlight int64
	nextPn := int64(0)
	sentIdx := int64(0)
	largestAcked := int64(-1)
	largestAckedIdx := int64(-1)
	var linkFree int64
	var delivered, deliveredAfterWarm int64
	warm := int64(2000) * ms
	if in.WarmMs > 0 {
		warm = in.WarmMs * ms
	}
	baseRtt := in.RttMs * ms // propagation round trip, ns
	if in.RttUs > 0 {
		baseRtt = in.RttUs * 1000
	}
	lastLeast := int64(-1 << 62)
	firstSent := int64(-1)
	lastSentPn := int64(-1)
	lastAckEliciting := now
	ptoCount := 0
	mtuI := 0
	modesSeen := map[int]bool{}
	recSeen := map[int]bool{}
	nSent, nCong, nLossOnly, nSetMds, nGaps, nNonRtx, nLost := 0, 0, 0, 0, 0, 0, 0
	// fast paths with application idle gaps: the pacer's rate (bytes/s) x the time since the last packet (ns) is an int64
	// product in Pacer.Budget; idleResumes = [gap ms, rate, floor(rate*gap / 2^63)] at every resume after an idle interval
	// (odd third component = the product has wrapped to a negative value)
	nMidSeen := 0
	crng := rand.New(rand.NewSource(in.Seed ^ 0x0c10e5))
	nBigClones := 0 // copies of a sampler whose ring has grown beyond 4096 slots (very fast paths): bounded
	lastAnySent := int64(-1)
	wasIdle := false
	var pacerBwMax int64
	var idleResumes [][3]int64
	consistent := true
	var dumps [][]int64
	var trace [][]int64
	maxSlots := 0

	inIdle := func(t int64) bool {
		for _, iv := range in.Idle {
			if t >= iv[0]*ms && t < iv[1]*ms {
				return true
			}
		}
		return false
	}
	nextIdleEnd := func(t int64) int64 {
		for _, iv := range in.Idle {
			if t >= iv[0]*ms && t < iv[1]*ms {
				return iv[1] * ms
			}
		}
		return -1
	}
	// Which events are dumped for the model (at most DumpMax): bind = a clamp of the property is binding or close to
	// binding after the event (pacing rate below twice the floor; window at the maximum, or the full-bandwidth target above
	// it), trans = mode / recovery / full-bandwidth change or a loss, otherwise the first events + a thinning random sample.  Every class has a share of the budget so that a long STARTUP on a fat path or a lossy phase cannot
	// use it up before the sender reaches DRAIN / PROBE_BW / PROBE_RTT.  Sampling has its own generator: it never changes
	// the simulated history.
	drng := rand.New(rand.NewSource(in.Seed ^ 0x5eed5eed))
	nPlain, nBind, nBindSeen, nFloorEv, nCapEv := 0, 0, 0, 0, 0
	bindingNow := func() bool {
		floor := uint64(b.PacingRate())/uint64(BytesPerSecond) < 2*minBps
		capb := b.congestionWindow >= b.maxCongestionWindow ||
			(b.isAtFullBandwidth && b.getTargetCongestionWindow(b.congestionWindowGain)+b.sampler.MaxAckHeight() > b.maxCongestionWindow)
		if floor {
			nFloorEv++
		}
		if capb {
			nCapEv++
		}
		return floor || capb
	}
	wantDump := func(trans, bind bool, thin int) bool {
		if len(dumps) >= in.DumpMax {
			return false
		}
		if bind {
			nBindSeen++
			if nBind < in.DumpMax/2 && (nBindSeen <= 16 || drng.Intn(8+nBindSeen/16) == 0) {
				nBind++
				return true
			}
		}
		if trans {
			return len(dumps) < in.DumpMax-max(0, in.DumpMax/4-nBind)
		}
		if nPlain >= in.DumpMax/3 {
			return false
		}
		if (evNo < in.DumpMax/3 || drng.Intn(40+evNo/50) == 0) && drng.Intn(thin) == 0 {
			nPlain++
			return true
		}
		return false
	}

	// property verdict on the real sender, after every event
	verdict := func() {
		cw := int64(b.GetCongestionWindow())
		m := int64(b.maxDatagramSize)
		if cw < 4*m || cw > int64(b.maxCongestionWindow) {
			fail(fmt.Sprintf("GetCongestionWindow=%d outside [4*mds=%d, max=%d] (mode %d, recovery %d)", cw, 4*m, b.maxCongestionWindow, b.mode, b.recoveryState))
		}
		if bw := int64(b.bandwidthForPacer()); bw < 65536 {
			fail(fmt.Sprintf("bandwidthForPacer=%d < 65536", bw))
		}
		slots := b.sampler.connectionStateMap.EntrySlotsUsed()
		if slots > maxSlots {
			maxSlots = slots
		}
		// leastUnacked = the estimate of the last congestion event (lastAcked-2 / lastLost+1), or the first
		// packet ever sent before any event; the constant is 0: RemoveUpTo leaves first >= leastUnacked and the
		// queue's last entry is the last retransmittable packet sent (theorem C12_bookkeeping_bounded)
		least := max(lastLeast, firstSent)
		if bound := max(0, lastSentPn-least+1); int64(slots) > bound {
			fail(fmt.Sprintf("EntrySlotsUsed=%d > lastSent-leastUnacked+1=%d (lastSent %d, leastUnacked %d)", slots, bound, lastSentPn, least))
		}
		for _, f := range []int64{0, 1, 4*m - 1, bytesInFlight} {
			if f < 4*m && !b.CanSend(congestion.ByteCount(f)) {
				fail(fmt.Sprintf("CanSend(%d) is false although bytesInFlight < 4*mds=%d", f, 4*m))
			}
		}
		modesSeen[int(b.mode)] = true
		recSeen[int(b.recoveryState)] = true
	}
	traceObs := func() []int64 {
		q := b.sampler.connectionStateMap
		return []int64{int64(q.NumberOfPresentEntries()), int64(q.FirstPacket()), int64(q.EntrySlotsUsed())}
	}

	sendPacket := func(size int64, retx bool) {
		if rng.Int63n(1000) < in.GapPm {
			nextPn += 1 + rng.Int63n(3) // quic-go skips packet numbers deliberately
			nGaps++
		}
		pn := nextPn
		nextPn++
		if pn <= lastSentPn || size <= 0 {
			consistent = false
		}
		if retx {
			bytesInFlight += size
		}
		before := c12Fields(b)
		p, msg := vCatch(func() {
			b.OnPacketSent(monotime.Time(now), congestion.ByteCount(bytesInFlight), congestion.PacketNumber(pn), congestion.ByteCount(size), retx)
		})
		evNo++
		nSent++
		lastSentPn = pn
		lastAnySent = now
		if firstSent < 0 {
			firstSent = pn
		}
		if p {
			fail("panic in OnPacketSent: " + msg)
			return
		}
		rec.record(b, 0, now, int64(rtt.min), []int64{bytesInFlight, pn, size, c12B(retx)}, nil)
		verdict()
		if wantDump(false, bindingNow(), 4) || (!ok && len(dumps) < in.DumpMax+8) { // the event that fails the verdict is always dumped
			d := append([]int64{0}, before...)
			d = append(d, pn, bytesInFlight)
			d = append(d, c12Fields(b)...)
			d = append(d, c12PacerTail(b)...)
			dumps = append(dumps, d)
		}
		if len(trace) < in.TraceMax {
			trace = append(trace, append([]int64{0, pn, size, c12B(retx)}, traceObs()...))
		}
		if !retx {
			nNonRtx++
			return
		}
		lastAckEliciting = now
		pkt := &c12Pkt{pn: pn, size: size, sent: now, ackAt: -1, idx: sentIdx}
		sentIdx++
		outstanding = append(outstanding, pkt)
		// the network
		drop := rng.Int63n(1000) < in.LossPm
		if in.BurstLen > 0 && in.BurstEv > 0 && (now/ms)%in.BurstEv < in.BurstLen && now > 500*ms {
			drop = true
		}
		backlog := max(0, linkFree-now) * in.CapBps / 1e9
		if backlog+size > in.QueueB+size { // tail drop
			drop = true
		}
		if drop {
			return
		}
		depart := max(now, linkFree) + size*1e9/in.CapBps
		linkFree = depart
		at := depart + baseRtt
		if in.AggUs > 0 {
			g := in.AggUs * 1000
			at = (at/g + 1) * g
		} else if in.AggMs > 0 {
			g := in.AggMs * ms
			at = (at/g + 1) * g
		}
		pkt.ackAt = at
	}

	// structural clause on PROBE_RTT (from theorem C12_mode_transitions: PROBE_RTT is entered only when min_rtt has expired, i.e. its
	// time stamp is more than minRttExpiry old; it is left refreshing that stamp; the stamp is only ever set to the time of the
	// event at hand): with a clock that does not go back, PROBE_RTT is not re-entered within minRttExpiry of leaving it - hence at
	// most 2 entries in any 10 s.  Holds for every event sequence, checked on every sim.
	var probeRttEntries []int64
	lastProbeRttExit := int64(-1)
	modeEdge := func(before, after int) {
		if before != bbrModeProbeRtt && after == bbrModeProbeRtt {
			probeRttEntries = append(probeRttEntries, now)
			if lastProbeRttExit >= 0 && now-lastProbeRttExit <= int64(minRttExpiry) {
				failSoft("probe-rtt-spacing", fmt.Sprintf("PROBE_RTT re-entered %.1f ms after it was left (entry no. %d of the connection): min_rtt expires only %d ms after it was last refreshed, and leaving PROBE_RTT refreshes it",
					float64(now-lastProbeRttExit)/1e6, len(probeRttEntries), minRttExpiry.Milliseconds()))
			}
			if n := len(probeRttEntries); n >= 3 && now-probeRttEntries[n-3] < 10*int64(time.Second) {
				failSoft("probe-rtt-count", fmt.Sprintf("PROBE_RTT entered %d times within %.1f ms (at most 2 entries per 10 s)", 3, float64(now-probeRttEntries[n-3])/1e6))
			}
		}
		if before == bbrModeProbeRtt && after != bbrModeProbeRtt {
			lastProbeRttExit = now
		}
	}
	// throughput windows of a loss-free fixed-capacity run
	var winBytes []int64
	var winRatio []float64
	judged := int64(0)
	judgeWindows := func(upTo int64) {
		for in.Clean && in.ThrWin > 0 && !stop && upTo >= (in.ThrFrom+(judged+1)*in.ThrWin)*ms {
			var got int64
			if judged < int64(len(winBytes)) {
				got = winBytes[judged]
			}
			r := float64(got) / (float64(in.CapBps) * float64(in.ThrWin) / 1000)
			winRatio = append(winRatio, math.Round(r*10000)/10000)
			if r*1000 < float64(in.ThrMinPm) {
				failSoft("throughput-window", fmt.Sprintf("loss-free path of fixed capacity %d B/s, RTT %s ms, profile %s: the window [%d ms, %d ms) delivered %.1f%% of capacity (required %.1f%%); mode %d, GetCongestionWindow %d = %d datagrams, %d PROBE_RTT entries so far; sender's min RTT %d ns, bandwidth estimate %d B/s, i.e. a bandwidth-delay product of %d datagrams",
					in.CapBps, strconv.FormatFloat(float64(baseRtt)/1e6, 'f', -1, 64), in.Profile, in.ThrFrom+judged*in.ThrWin, in.ThrFrom+(judged+1)*in.ThrWin, 100*r, float64(in.ThrMinPm)/10,
					b.mode, b.GetCongestionWindow(), int64(b.GetCongestionWindow())/int64(b.maxDatagramSize), len(probeRttEntries),
					int64(b.getMinRtt()), int64(b.bandwidthEstimate()/BytesPerSecond),
					int64(float64(b.getMinRtt())/1e9*float64(b.bandwidthEstimate()/BytesPerSecond)/float64(b.maxDatagramSize))))
			}
			judged++
		}
	}

	congEvent := func(acked, lost []*c12Pkt) {
		prior := bytesInFlight
		var ai []congestion.AckedPacketInfo
		var li []congestion.LostPacketInfo
		var sumA, sumL int64
		gone := map[int64]bool{}
		for _, p := range acked {
			ai = append(ai, congestion.AckedPacketInfo{PacketNumber: congestion.PacketNumber(p.pn), BytesAcked: congestion.ByteCount(p.size)})
			sumA += p.size
			gone[p.pn] = true
		}
		for _, p := range lost {
			li = append(li, congestion.LostPacketInfo{PacketNumber: congestion.PacketNumber(p.pn), BytesLost: congestion.ByteCount(p.size)})
			sumL += p.size
			if gone[p.pn] {
				consistent = false
			}
			gone[p.pn] = true
		}
		if len(ai)+len(li) == 0 {
			consistent = false
		}
		for i := 1; i < len(ai); i++ {
			if ai[i].PacketNumber <= ai[i-1].PacketNumber {
				consistent = false
			}
		}
		for i := 1; i < len(li); i++ {
			if li[i].PacketNumber <= li[i-1].PacketNumber {
				consistent = false
			}
		}
		maxGone := int64(-1)
		for pn := range gone {
			maxGone = max(maxGone, pn)
		}
		keep := outstanding[:0]
		found := 0
		for _, p := range outstanding {
			if p.pn <= maxGone && gone[p.pn] {
				found++
			} else {
				keep = append(keep, p)
			}
		}
		if found != len(gone) {
			consistent = false // acked / lost a packet that is not outstanding
		}
		outstanding = keep
		bytesInFlight -= sumA + sumL
		nLost += len(li)

		before := c12Fields(b)
		bestBefore := b.maxBandwidth.GetBest()
		totA0, totL0 := b.sampler.TotalBytesAcked(), b.sampler.TotalBytesLost()
		var clone *bandwidthSampler // (only needed for a dumped event; copying the rings on every event is what a fast path cannot afford)
		ringLen := len(b.sampler.connectionStateMap.entries.ring)
		bigRing := ringLen > 4096
		// rings of 512..4096 slots (10^2..10^3 packets in flight: 10..250 MB/s paths run for tens of seconds): the first 400
		// events are cloned, then every 128th on average (own generator: the history and the other samplers are unaffected)
		midRing := ringLen > 512 && !bigRing
		if midRing {
			nMidSeen++
		}
		if len(dumps) < in.DumpMax+8 && (!bigRing || nBigClones < 48) && (!midRing || nMidSeen <= 400 || crng.Intn(128) == 0) {
			if bigRing {
				nBigClones++
			}
			clone = c12CloneSampler(b.sampler)
			if congestion.ByteCount(prior) < b.getTargetCongestionWindow(1) {
				clone.OnAppLimited()
			}
		}
		p, msg := vCatch(func() {
			b.OnCongestionEventEx(congestion.ByteCount(prior), monotime.Time(now), ai, li)
		})
		evNo++
		nCong++
		if len(ai) == 0 {
			nLossOnly++
		}
		if p {
			fail("panic in OnCongestionEventEx: " + msg)
			return
		}
		if rec.active() {
			var pk [][2]int64
			for _, a := range ai {
				pk = append(pk, [2]int64{int64(a.PacketNumber), int64(a.BytesAcked)})
			}
			for _, l := range li {
				pk = append(pk, [2]int64{int64(l.PacketNumber), int64(l.BytesLost)})
			}
			rec.record(b, 1, now, int64(rtt.min), []int64{prior, c12RndOf(b), int64(len(ai)), int64(len(li))}, pk)
		}
		if len(ai) != 0 {
			lastLeast = int64(ai[len(ai)-1].PacketNumber) - 2
		} else {
			lastLeast = int64(li[len(li)-1].PacketNumber) + 1
		}
		after := c12Fields(b)
		interesting := before[8] != after[8] || before[9] != after[9] || before[10] != after[10] || len(li) > 0
		verdict()
		modeEdge(int(before[8]), int(after[8]))
		if clone != nil && (wantDump(interesting, bindingNow(), 1) || (!ok && len(dumps) < in.DumpMax+8)) {
			sample := clone.OnCongestionEvent(monotime.Time(now), ai, li, bestBefore, infBandwidth, b.roundTripCount)
			la := int64(-1)
			if len(ai) != 0 {
				la = int64(ai[len(ai)-1].PacketNumber)
			}
			d := append([]int64{1}, before...)
			d = append(d, prior, sumA, sumL, c12B(len(ai) != 0), la, c12B(len(li) != 0),
				after[8], after[10], int64(b.getTargetCongestionWindow(b.congestionWindowGain)), int64(b.sampler.MaxAckHeight()),
				int64(sample.extraAcked), int64(b.sampler.TotalBytesAcked()-totA0), int64(b.sampler.TotalBytesLost()-totL0),
				int64(b.sampler.TotalBytesAcked()))
			d = append(d, after...)
			d = append(d, c12PacerTail(b)...)
			dumps = append(dumps, d)
		}
		if len(trace) < in.TraceMax {
			t := []int64{1, int64(len(ai)), int64(len(li))}
			for _, a := range ai {
				t = append(t, int64(a.PacketNumber), int64(a.BytesAcked))
			}
			for _, l := range li {
				t = append(t, int64(l.PacketNumber), int64(l.BytesLost))
			}
			trace = append(trace, append(t, traceObs()...))
		}
	}

	end := in.DurMs * ms
	stalledSince := int64(-1)
	for now < end && !stop {
		judgeWindows(now)
		// 1. MTU raise
		if mtuI < len(in.Mtu) && now >= in.Mtu[mtuI][0]*ms {
			s := in.Mtu[mtuI][1]
			mtuI++
			if s >= mds && s <= int64(congestion.MaxPacketBufferSize) {
				before := c12Fields(b)
				p, msg := vCatch(func() { b.SetMaxDatagramSize(congestion.ByteCount(s)) })
				evNo++
				nSetMds++
				mds = s
				if p {
					fail("panic in SetMaxDatagramSize: " + msg)
					break
				}
				rec.record(b, 2, now, int64(rtt.min), []int64{s}, nil)
				if len(dumps) < in.DumpMax+8 {
					d := append([]int64{2}, before...)
					d = append(d, s)
					d = append(d, c12Fields(b)...)
					d = append(d, c12PacerTail(b)...)
					dumps = append(dumps, d)
				}
				if len(trace) < in.TraceMax {
					trace = append(trace, append([]int64{2, s}, traceObs()...))
				}
				verdict()
			}
		}
		// 2. acks that have arrived: one congestion event per arrival instant
		var acked []*c12Pkt
		for _, p := range outstanding {
			if p.ackAt >= 0 && p.ackAt <= now {
				acked = append(acked, p)
			}
		}
		if len(acked) > 0 {
			sort.Slice(acked, func(i, j int) bool { return acked[i].pn < acked[j].pn })
			top := acked[len(acked)-1]
			for _, p := range acked {
				delivered += p.size
				if now >= warm {
					deliveredAfterWarm += p.size
				}
				if in.ThrWin > 0 && now >= in.ThrFrom*ms {
					k := (now - in.ThrFrom*ms) / (in.ThrWin * ms)
					for int64(len(winBytes)) <= k {
						winBytes = append(winBytes, 0)
					}
					winBytes[k] += p.size
				}
			}
			if top.pn > largestAcked {
				largestAcked, largestAckedIdx = top.pn, top.idx
				rtt.UpdateRTT(time.Duration(now-top.sent), 0)
			}
			ptoCount = 0
			// quic-go loss detection: reordering threshold 3 (counted on sent packets) or time threshold 9/8 RTT
			lossDelay := int64(max(rtt.latest, rtt.smoothed)) * 9 / 8
			isAcked := map[int64]bool{}
			for _, p := range acked {
				isAcked[p.pn] = true
			}
			var lost []*c12Pkt
			for _, p := range outstanding {
				if p.pn > largestAcked || isAcked[p.pn] {
					continue
				}
				if largestAckedIdx-p.idx >= 3 || p.sent <= now-lossDelay {
					lost = append(lost, p)
				}
			}
			congEvent(acked, lost)
			continue
		}
		// 3. loss timer: packets below the largest acked that have waited 9/8 RTT (loss-only event)
		if largestAcked >= 0 && len(outstanding) > 0 {
			lossDelay := int64(max(rtt.latest, rtt.smoothed)) * 9 / 8
			var lost []*c12Pkt
			for _, p := range outstanding {
				if p.pn < largestAcked && p.sent <= now-lossDelay {
					lost = append(lost, p)
				}
			}
			if len(lost) > 0 {
				congEvent(nil, lost)
				continue
			}
		}
		// 4. send
		idle := inIdle(now)
		sentNow := false
		if !idle {
			bw := int64(b.bandwidthForPacer())
			pacerBwMax = max(pacerBwMax, bw)
			if wasIdle && lastAnySent >= 0 {
				idleResumes = append(idleResumes, [3]int64{(now - lastAnySent) / ms, bw,
					int64(math.Floor(float64(bw) * float64(now-lastAnySent) / 9.223372036854775808e18))})
			}
		}
		wasIdle = idle
		if !idle {
			for n := 0; n < 64 && b.CanSend(congestion.ByteCount(bytesInFlight)) && b.HasPacingBudget(monotime.Time(now)); n++ {
				if rng.Int63n(1000) < in.NonRtxPm {
					sendPacket(40+rng.Int63n(40), false)
				}
				size := mds
				if rng.Intn(50) == 0 {
					size = 100 + rng.Int63n(mds-100)
				}
				sendPacket(size, true)
				sentNow = true
			}
		}
		// PTO probe: quic-go sends probe packets regardless of the window when nothing came back
		pto := int64(rtt.PTO(true)) << min(ptoCount, 6)
		if len(outstanding) > 0 && now-lastAckEliciting >= pto {
			ptoCount++
			sendPacket(mds, true)
			sentNow = true
		}
		// 5. next wake-up
		next := end
		for _, p := range outstanding {
			if p.ackAt > now && p.ackAt < next {
				next = p.ackAt
			}
		}
		if mtuI < len(in.Mtu) && in.Mtu[mtuI][0]*ms > now {
			next = min(next, in.Mtu[mtuI][0]*ms)
		}
		if idle {
			if e := nextIdleEnd(now); e > now {
				next = min(next, e)
			}
		} else if b.CanSend(congestion.ByteCount(bytesInFlight)) {
			t := int64(b.TimeUntilSend(congestion.ByteCount(bytesInFlight)))
			if t <= now {
				if !sentNow && !b.HasPacingBudget(monotime.Time(now)) {
					when := fmt.Sprintf("names an instant %d ns in the past", now-t)
					if t == 0 {
						when = "says a packet can be sent at once"
					}
					fail(fmt.Sprintf("pacer deadlock: the window is open (%d bytes in flight, GetCongestionWindow %d), TimeUntilSend %s, yet HasPacingBudget(now) is false: "+
						"the send loop re-arms at once and never sends; pacer rate %d B/s, %d ns since the last packet (rate x elapsed = %.3f x 2^63)",
						bytesInFlight, b.GetCongestionWindow(), when, b.bandwidthForPacer(), now-lastAnySent,
						float64(b.bandwidthForPacer())*float64(now-lastAnySent)/9.223372036854775808e18))
				}
				t = now + 1
			} else if !b.HasPacingBudget(monotime.Time(t)) {
				fail(fmt.Sprintf("pacer announces wake-up %d ns ahead but has no budget for a datagram then", t-now))
			}
			next = min(next, t)
		}
		for _, iv := range in.Idle {
			if iv[0]*ms > now {
				next = min(next, iv[0]*ms)
			}
		}
		if len(outstanding) > 0 {
			next = min(next, max(now+1, lastAckEliciting+pto))
			if largestAcked >= 0 {
				lossDelay := int64(max(rtt.latest, rtt.smoothed)) * 9 / 8
				for _, p := range outstanding {
					if p.pn < largestAcked {
						next = min(next, max(now+1, p.sent+lossDelay))
						break
					}
				}
			}
		}
		if next <= now {
			next = now + 1
		}
		if !idle && !sentNow && len(outstanding) == 0 && !b.CanSend(congestion.ByteCount(bytesInFlight)) {
			if stalledSince < 0 {
				stalledSince = now
			}
			fail("deadlock: nothing in flight, application has data, CanSend is false")
		}
		now = next
	}

	if !stop {
		judgeWindows(min(now, end))
	}
	if !consistent {
		ok, why = false, "harness bug: generated trace is not QUIC-consistent ("+why+")"
	}
	res["ok"], res["why"] = ok, why
	if len(fails) > 0 {
		res["fails"] = fails
	}
	res["agg"] = agg
	res["dumps"] = dumps
	res["trace"] = trace
	res["consistent"] = consistent
	if rec != nil {
		res["replay"] = rec.lits
		res["replayEvents"] = rec.n
		if rec.over != "" {
			res["replayOver"] = rec.over
		}
		if rec.debug {
			res["replayObs"] = rec.full
		}
	}
	modes := []int{}
	for m := range modesSeen {
		modes = append(modes, m)
	}
	sort.Ints(modes)
	recs := []int{}
	for m := range recSeen {
		recs = append(recs, m)
	}
	sort.Ints(recs)
	thr := 0.0
	if end > warm {
		thr = float64(deliveredAfterWarm) / (float64(end-warm) / 1e9) / float64(in.CapBps)
	}
	if math.IsNaN(thr) {
		thr = 0
	}
	res["stats"] = map[string]any{
		"sent": nSent, "cong": nCong, "lossOnly": nLossOnly, "setMds": nSetMds, "gaps": nGaps, "nonRtx": nNonRtx, "lost": nLost,
		"modes": modes, "recovery": recs, "delivered": delivered, "throughputRatio": thr, "maxSlots": maxSlots,
		"finalCwnd": int64(b.GetCongestionWindow()), "events": evNo,
		"floorEvents": nFloorEv, "capEvents": nCapEv, "bindDumps": nBind,
		"probeRttEntriesMs": c12Ms(probeRttEntries[:min(len(probeRttEntries), 12)]), "probeRttEntries": len(probeRttEntries),
		"windowRatios": winRatio, "simulatedMs": now / ms,
		"pacerBwMax": pacerBwMax, "idleResumes": idleResumes,
	}
}
