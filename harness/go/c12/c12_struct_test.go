//go:build verif

package bbr

// C12 harness, layer 1: drives the real RingBuffer, packetNumberIndexedQueue and WindowedFilter of
// /repo's working tree with the operation sequences of $VERIF_IN and records every return value and
// the observable state after every step (for the step-by-step comparison with coq/model/C12_Queue.v),
// plus the property's own verdict on the implementation alone (ok / why).

import (
	"fmt"

	"github.com/apernet/quic-go/congestion"
)

// cheap digest (mask instead of a modulus: Z.land is much cheaper than Z.modulo inside Coq's VM)
func c12DigestInts(vs []int64) int64 {
	var h uint64
	for _, v := range vs {
		h = (h*131 + uint64(v) + 1) & 0xffffffff
	}
	return int64(h)
}

func c12B(b bool) int64 {
	if b {
		return 1
	}
	return 0
}

// ---------------------------------------------------------------- RingBuffer[int64]

func c12RingObs(r *RingBuffer[int64]) []int64 {
	empty := r.Empty()
	return []int64{int64(r.Len()), int64(len(r.ring)), int64(r.headPos), int64(r.tailPos), c12B(r.full), c12B(empty), c12DigestInts(r.ring)}
}

// ops: [code, arg]; 0 push v, 1 pop, 2 offset i, 3 front, 4 back, 5 clear
func c12Ring(init int, ops [][]int64, res map[string]any) {
	var r RingBuffer[int64]
	if init >= 0 {
		r.Init(init)
	}
	ok, why := true, ""
	fail := func(s string) {
		if ok {
			ok, why = false, s
		}
	}
	// reference queue (the spec the ring has to behave as), maintained by the harness itself
	var ref []int64
	steps := make([][]int64, 0, len(ops))
	for si, op := range ops {
		var ret int64
		code, arg := op[0], op[1]
		expectPanic := false
		switch code {
		case 1, 3, 4:
			expectPanic = len(ref) == 0
		case 2:
			expectPanic = len(ref) == 0 || arg >= int64(len(ref))
		}
		// a negative index is outside Offset's contract (no caller passes one): compared with the model only
		outside := code == 2 && arg < 0
		p, msg := vCatch(func() {
			switch code {
			case 0:
				r.PushBack(arg)
			case 1:
				ret = r.PopFront()
			case 2:
				ret = *r.Offset(int(arg))
			case 3:
				ret = *r.Front()
			case 4:
				ret = *r.Back()
			case 5:
				r.Clear()
			}
		})
		if p != expectPanic && !outside {
			fail(fmt.Sprintf("step %d op %v: panic=%v (%s) but a queue of %d elements expects panic=%v", si, op, p, msg, len(ref), expectPanic))
		}
		if !p && !outside {
			switch code {
			case 0:
				ref = append(ref, arg)
			case 1:
				if ret != ref[0] {
					fail(fmt.Sprintf("step %d: PopFront returned %d, queue front is %d", si, ret, ref[0]))
				}
				ref = ref[1:]
			case 2:
				if ret != ref[arg] {
					fail(fmt.Sprintf("step %d: Offset(%d) returned %d, queue has %d", si, arg, ret, ref[arg]))
				}
			case 3:
				if ret != ref[0] {
					fail(fmt.Sprintf("step %d: Front returned %d, queue front is %d", si, ret, ref[0]))
				}
			case 4:
				if ret != ref[len(ref)-1] {
					fail(fmt.Sprintf("step %d: Back returned %d, queue back is %d", si, ret, ref[len(ref)-1]))
				}
			case 5:
				ref = ref[:0]
			}
		}
		if r.Len() != len(ref) || r.Empty() != (len(ref) == 0) {
			fail(fmt.Sprintf("step %d: Len=%d Empty=%v, queue has %d elements", si, r.Len(), r.Empty(), len(ref)))
		}
		st := append([]int64{c12B(p), ret}, c12RingObs(&r)...)
		steps = append(steps, st)
	}
	res["steps"] = steps
	res["ok"], res["why"] = ok, why
}

// ---------------------------------------------------------------- packetNumberIndexedQueue[int64]

func c12PQObs(q *packetNumberIndexedQueue[int64]) []int64 {
	raw := make([]int64, 0, 2*len(q.entries.ring))
	for _, e := range q.entries.ring {
		raw = append(raw, c12B(e.present), e.entry)
	}
	return []int64{
		int64(q.NumberOfPresentEntries()), int64(q.FirstPacket()), int64(q.LastPacket()), int64(q.EntrySlotsUsed()),
		int64(len(q.entries.ring)), int64(q.entries.headPos), int64(q.entries.tailPos), c12B(q.entries.full),
		c12B(q.IsEmpty()), c12DigestInts(raw),
	}
}

// ops: [code, pn, val]; 0 emplace(pn, &val) (val < 0: nil entry), 1 GetEntry, 2 Remove, 3 RemoveUpTo
func c12PQ(size int, ops [][]int64, res map[string]any) {
	q := newPacketNumberIndexedQueue[int64](size)
	ok, why := true, ""
	fail := func(s string) {
		if ok {
			ok, why = false, s
		}
	}
	ref := map[int64]int64{} // the spec: finite map packet number -> entry
	lastEmplaced := int64(-1)
	steps := make([][]int64, 0, len(ops))
	for si, op := range ops {
		code, pn, val := op[0], op[1], op[2]
		var flag, ret int64
		p, msg := vCatch(func() {
			switch code {
			case 0:
				var e *int64
				if val >= 0 {
					v := val
					e = &v
				}
				flag = c12B(q.Emplace(congestion.PacketNumber(pn), e))
			case 1:
				if e := q.GetEntry(congestion.PacketNumber(pn)); e != nil {
					flag, ret = 1, *e
				}
			case 2:
				called := false
				r := q.Remove(congestion.PacketNumber(pn), func(v int64) { called = true; ret = v })
				flag = c12B(r)
				if r != called {
					fail(fmt.Sprintf("step %d: Remove returned %v but callback called=%v", si, r, called))
				}
			case 3:
				q.RemoveUpTo(congestion.PacketNumber(pn))
			}
		})
		if p {
			fail(fmt.Sprintf("step %d op %v: panic: %s", si, op, msg))
		} else {
			switch code {
			case 0:
				want := val >= 0 && pn != -1 && (len(ref) == 0 || pn > lastEmplaced)
				if want != (flag == 1) {
					fail(fmt.Sprintf("step %d: Emplace(%d) returned %v, spec says %v", si, pn, flag == 1, want))
				}
				if flag == 1 {
					ref[pn] = val
					lastEmplaced = pn
				}
			case 1:
				v, present := ref[pn]
				if present != (flag == 1) || (present && v != ret) {
					fail(fmt.Sprintf("step %d: GetEntry(%d) = (%v,%d), spec map has (%v,%d)", si, pn, flag == 1, ret, present, v))
				}
			case 2:
				v, present := ref[pn]
				if present != (flag == 1) || (present && v != ret) {
					fail(fmt.Sprintf("step %d: Remove(%d) = (%v,%d), spec map has (%v,%d)", si, pn, flag == 1, ret, present, v))
				}
				delete(ref, pn)
			case 3:
				for k := range ref {
					if k < pn {
						delete(ref, k)
					}
				}
			}
			if q.NumberOfPresentEntries() != len(ref) {
				fail(fmt.Sprintf("step %d: NumberOfPresentEntries=%d, spec map has %d", si, q.NumberOfPresentEntries(), len(ref)))
			}
			// bookkeeping proportional to the packet-number span that is still live
			if len(ref) == 0 {
				if q.EntrySlotsUsed() != 0 || q.FirstPacket() != invalidPacketNumber {
					fail(fmt.Sprintf("step %d: empty queue keeps %d slots / first=%d", si, q.EntrySlotsUsed(), q.FirstPacket()))
				}
			} else {
				lo := int64(1) << 62
				for k := range ref {
					if k < lo {
						lo = k
					}
				}
				if int64(q.FirstPacket()) != lo {
					fail(fmt.Sprintf("step %d: FirstPacket=%d, smallest live number is %d", si, q.FirstPacket(), lo))
				}
				if int64(q.EntrySlotsUsed()) > lastEmplaced-lo+1 {
					fail(fmt.Sprintf("step %d: EntrySlotsUsed=%d > last-first+1=%d", si, q.EntrySlotsUsed(), lastEmplaced-lo+1))
				}
			}
			if code == 3 && len(ref) > 0 && int64(q.FirstPacket()) < pn {
				fail(fmt.Sprintf("step %d: entry %d below %d survived RemoveUpTo", si, q.FirstPacket(), pn))
			}
		}
		st := append([]int64{c12B(p), flag, ret}, c12PQObs(q)...)
		steps = append(steps, st)
	}
	res["steps"] = steps
	res["ok"], res["why"] = ok, why
}

// ---------------------------------------------------------------- WindowedFilter

// ops: [code, sample, time, a, b, c]; 0 Update, 1 Reset, 2 Clear, 3 SetWindowLength(time)
// inst: "max" (Bandwidth/MaxFilter), "min" (int64/MinFilter), "xev" (extraAckedEvent)
func c12WF(inst string, win uint64, ops [][]int64, res map[string]any) {
	ok, why := true, ""
	steps := make([][]int64, 0, len(ops))
	var panicked bool
	var pmsg string
	switch inst {
	case "max":
		f := NewWindowedFilter(roundTripCount(win), MaxFilter[Bandwidth])
		for _, op := range ops {
			panicked, pmsg = vCatch(func() {
				switch op[0] {
				case 0:
					f.Update(Bandwidth(op[1]), roundTripCount(op[2]))
				case 1:
					f.Reset(Bandwidth(op[1]), roundTripCount(op[2]))
				case 2:
					f.Clear()
				case 3:
					f.SetWindowLength(roundTripCount(op[2]))
				}
			})
			if panicked {
				break
			}
			if op[0] == 0 && f.GetBest() < Bandwidth(op[1]) {
				ok, why = false, fmt.Sprintf("max filter: GetBest %d below the sample %d just inserted", f.GetBest(), op[1])
			}
			steps = append(steps, []int64{
				int64(f.GetBest()), int64(f.estimates[0].time), int64(f.GetSecondBest()), int64(f.estimates[1].time),
				int64(f.GetThirdBest()), int64(f.estimates[2].time), int64(f.windowLength),
			})
		}
	case "min":
		f := NewWindowedFilter(roundTripCount(win), MinFilter[int64])
		for _, op := range ops {
			panicked, pmsg = vCatch(func() {
				switch op[0] {
				case 0:
					f.Update(op[1], roundTripCount(op[2]))
				case 1:
					f.Reset(op[1], roundTripCount(op[2]))
				case 2:
					f.Clear()
				case 3:
					f.SetWindowLength(roundTripCount(op[2]))
				}
			})
			if panicked {
				break
			}
			steps = append(steps, []int64{
				f.GetBest(), int64(f.estimates[0].time), f.GetSecondBest(), int64(f.estimates[1].time),
				f.GetThirdBest(), int64(f.estimates[2].time), int64(f.windowLength),
			})
		}
	case "xev":
		f := NewWindowedFilter(roundTripCount(win), maxExtraAckedEventFunc)
		mk := func(op []int64) extraAckedEvent {
			return extraAckedEvent{extraAcked: congestion.ByteCount(op[1]), bytesAcked: congestion.ByteCount(op[3]), timeDelta: 0, round: roundTripCount(op[4])}
		}
		for _, op := range ops {
			panicked, pmsg = vCatch(func() {
				switch op[0] {
				case 0:
					f.Update(mk(op), roundTripCount(op[2]))
				case 1:
					f.Reset(mk(op), roundTripCount(op[2]))
				case 2:
					f.Clear()
				case 3:
					f.SetWindowLength(roundTripCount(op[2]))
				}
			})
			if panicked {
				break
			}
			row := []int64{}
			for i := 0; i < 3; i++ {
				e := f.estimates[i]
				row = append(row, int64(e.sample.extraAcked), int64(e.sample.bytesAcked), int64(e.sample.round), int64(e.time))
			}
			row = append(row, int64(f.windowLength))
			steps = append(steps, row)
		}
	}
	if panicked {
		ok, why = false, "panic: "+pmsg
	}
	res["steps"] = steps
	res["panic"] = panicked
	res["ok"], res["why"] = ok, why
}
