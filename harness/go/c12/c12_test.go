//go:build verif

package bbr

// C12 harness entry point (package bbr, injected by -overlay).  Case kinds:
//   ring / pq / wf : layer 1, see c12_struct_test.go
//   sim            : layers 2-3, the bottleneck simulator driving the real bbrSender, see c12_sim_test.go

import (
	"encoding/json"
	"math"
	"strconv"
	"testing"

	"github.com/apernet/quic-go/congestion"
)

type c12Case struct {
	K    string    `json:"k"`
	Init int       `json:"init"`
	Size int       `json:"size"`
	Inst string    `json:"inst"`
	Win  uint64    `json:"win"`
	Ops  [][]int64 `json:"ops"`
	Sim  *c12SimIn `json:"sim"`
	Api  *c12ApiIn `json:"api"`
}

func c12ProfileParams(name string, p Profile) [][3]string {
	c := configForProfile(p)
	b := func(x bool) string {
		if x {
			return "true"
		}
		return "false"
	}
	f := func(x float64) string { return strconv.FormatUint(math.Float64bits(x), 10) }
	return [][3]string{
		{"c12_" + name + "_highGain_bits", "Z", f(c.highGain)},
		{"c12_" + name + "_highCwndGain_bits", "Z", f(c.highCwndGain)},
		{"c12_" + name + "_cwndGainConstant_bits", "Z", f(c.congestionWindowGainConstant)},
		{"c12_" + name + "_numStartupRtts", "Z", strconv.FormatInt(c.numStartupRtts, 10)},
		{"c12_" + name + "_bytesLostMultiplier", "Z", strconv.Itoa(int(c.bytesLostMultiplier))},
		{"c12_" + name + "_drainToTarget", "bool", b(c.drainToTarget)},
		{"c12_" + name + "_detectOvershooting", "bool", b(c.detectOvershooting)},
		{"c12_" + name + "_enableAckAggregationStartup", "bool", b(c.enableAckAggregationStartup)},
		{"c12_" + name + "_expireAckAggregationStartup", "bool", b(c.expireAckAggregationStartup)},
		{"c12_" + name + "_enableOverestimateAvoidance", "bool", b(c.enableOverestimateAvoidance)},
		{"c12_" + name + "_reduceExtraAckedOnBandwidthIncrease", "bool", b(c.reduceExtraAckedOnBandwidthIncrease)},
	}
}

func c12BitsList(fs []float64) string {
	s := "(["
	for i, f := range fs {
		if i > 0 {
			s += "; "
		}
		s += strconv.FormatUint(math.Float64bits(f), 10)
	}
	return s + "]%Z : list Z)"
}

func TestVerifC12(t *testing.T) {
	params := [][3]string{
		{"c12_minBps", "Z", strconv.Itoa(minBps)},
		{"c12_BytesPerSecond", "Z", strconv.FormatUint(uint64(BytesPerSecond), 10)}, // Bandwidth units (bits/s) per byte/s
		{"c12_invalidPacketNumber", "Z", strconv.Itoa(invalidPacketNumber)},
		{"c12_initialCongestionWindowPackets", "Z", strconv.Itoa(initialCongestionWindowPackets)},
		{"c12_minCongestionWindowPackets", "Z", strconv.Itoa(minCongestionWindowPackets)},
		{"c12_MaxCongestionWindowPackets", "Z", strconv.Itoa(congestion.MaxCongestionWindowPackets)},
		{"c12_MaxPacketBufferSize", "Z", strconv.Itoa(congestion.MaxPacketBufferSize)},
		{"c12_InitialPacketSize", "Z", strconv.Itoa(congestion.InitialPacketSize)},
		{"c12_MinInitialPacketSize", "Z", strconv.Itoa(congestion.MinInitialPacketSize)},
		{"c12_MinPacingDelayNs", "Z", strconv.FormatInt(congestion.MinPacingDelay.Nanoseconds(), 10)},
		{"c12_connectionStateMapQueueSize", "nat", strconv.Itoa(defaultConnectionStateMapQueueSize)},
		{"c12_candidatesBufferSize", "nat", strconv.Itoa(defaultCandidatesBufferSize)},
		{"c12_bandwidthWindowSize", "Z", strconv.Itoa(bandwidthWindowSize)},
		{"c12_gainCycleLength", "Z", strconv.Itoa(gainCycleLength)},
		{"c12_startupFullLossCount", "Z", strconv.Itoa(defaultStartupFullLossCount)},
		{"c12_minRttExpiryNs", "Z", strconv.FormatInt(minRttExpiry.Nanoseconds(), 10)},
		{"c12_probeRttTimeNs", "Z", strconv.FormatInt(probeRttTime.Nanoseconds(), 10)},
		{"c12_modeStartup", "Z", strconv.Itoa(bbrModeStartup)},
		{"c12_modeDrain", "Z", strconv.Itoa(bbrModeDrain)},
		{"c12_modeProbeBw", "Z", strconv.Itoa(bbrModeProbeBw)},
		{"c12_modeProbeRtt", "Z", strconv.Itoa(bbrModeProbeRtt)},
		{"c12_recNotInRecovery", "Z", strconv.Itoa(bbrRecoveryStateNotInRecovery)},
		{"c12_recConservation", "Z", strconv.Itoa(bbrRecoveryStateConservation)},
		{"c12_recGrowth", "Z", strconv.Itoa(bbrRecoveryStateGrowth)},
		// layer 3 (full state machine): float constants as IEEE bit patterns
		{"c12_pacingGain_bits", "raw", c12BitsList(pacingGain[:])},
		{"c12_startupGrowthTarget_bits", "Z", strconv.FormatUint(math.Float64bits(startupGrowthTarget), 10)},
		{"c12_lossThreshold_bits", "Z", strconv.FormatUint(math.Float64bits(quicBbr2DefaultLossThreshold), 10)},
		{"c12_PacketsPerConnectionID", "Z", strconv.Itoa(congestion.PacketsPerConnectionID)},
	}
	params = append(params, c12ProfileParams("standard", ProfileStandard)...)
	params = append(params, c12ProfileParams("conservative", ProfileConservative)...)
	params = append(params, c12ProfileParams("aggressive", ProfileAggressive)...)
	vParams(t, params)

	out := vOpenOut(t, "VERIF_OUT")
	defer out.Close()
	for i, raw := range vReadCases(t) {
		var c c12Case
		if err := json.Unmarshal(raw, &c); err != nil {
			t.Fatal(err)
		}
		res := map[string]any{"i": i, "k": c.K}
		switch c.K {
		case "ring":
			c12Ring(c.Init, c.Ops, res)
		case "pq":
			c12PQ(c.Size, c.Ops, res)
		case "wf":
			c12WF(c.Inst, c.Win, c.Ops, res)
		case "sim":
			c12Sim(c.Sim, res)
		case "api":
			c12Api(c.Api, res)
		default:
			t.Fatalf("unknown case kind %q", c.K)
		}
		out.Emit(res)
	}
}
