//go:build verif

package obfs

// C13 harness: drives WrapPacketConnSalamander / newSalamanderObfuscator of /repo's working tree over
// in-memory net.PacketConn fakes on the cases in $VERIF_IN.  For every case it writes the raw
// observations (wire bytes captured below the wrapper, counts, surfaced reads) for the comparison
// with the Coq model and with the python hashlib oracle, and the property verdict evaluated on the
// implementation alone ("ok"/"why"; the keystream oracle here is x/crypto's blake2b called
// directly, the python side repeats it with hashlib).

import (
	"bytes"
	"encoding/json"
	"errors"
	"fmt"
	"math/rand"
	"net"
	"os"
	"reflect"
	"sort"
	"strconv"
	"sync"
	"sync/atomic"
	"syscall"
	"testing"
	"time"
	"unicode/utf8"
	"unsafe"

	"golang.org/x/crypto/blake2b"
)

const c13Drained = -1

type c13Err struct{ code int }

func (e *c13Err) Error() string { return "c13 underlying error " + strconv.Itoa(e.code) }

func c13Code(err error) int {
	if err == nil {
		return 0
	}
	var e *c13Err
	if errors.As(err, &e) {
		return e.code
	}
	if errors.Is(err, net.ErrClosed) {
		return -2
	}
	return 999
}

func c13Addr(port int) net.Addr {
	if port == 0 {
		return nil
	}
	return &net.UDPAddr{IP: net.IPv4(127, 0, 0, 1), Port: port}
}

func c13Port(a net.Addr) int {
	if a == nil {
		return 0
	}
	if u, ok := a.(*net.UDPAddr); ok {
		if u == nil {
			return 0
		}
		return u.Port
	}
	return -1
}

type c13Pkt struct {
	data []byte
	addr int
	err  int
}

type c13Write struct {
	wire []byte
	addr int
}

// c13Conn: sequential in-memory PacketConn.  Reads pop the incoming queue (a datagram longer than
// the buffer is cut, as on a UDP socket); an empty queue returns the "drained" error.  Writes are
// captured and, unless an error is scripted for them, delivered to the peer's queue with the
// destination port as the source tag.
type c13Conn struct {
	mu       sync.Mutex
	in       []c13Pkt
	consumed int
	bufLens  map[int]int
	peer     *c13Conn
	wlog     []c13Write
	nextWErr int
}

func (c *c13Conn) ReadFrom(p []byte) (int, net.Addr, error) {
	c.mu.Lock()
	defer c.mu.Unlock()
	if c.bufLens == nil {
		c.bufLens = map[int]int{}
	}
	c.bufLens[len(p)]++
	if c.consumed >= len(c.in) {
		return 0, nil, &c13Err{c13Drained}
	}
	k := c.in[c.consumed]
	c.consumed++
	n := copy(p, k.data)
	var err error
	if k.err != 0 {
		err = &c13Err{k.err}
	}
	return n, c13Addr(k.addr), err
}

func (c *c13Conn) WriteTo(p []byte, a net.Addr) (int, error) {
	c.mu.Lock()
	defer c.mu.Unlock()
	w := c13Write{wire: append([]byte{}, p...), addr: c13Port(a)}
	c.wlog = append(c.wlog, w)
	if c.nextWErr != 0 {
		e := c.nextWErr
		c.nextWErr = 0
		return 0, &c13Err{e}
	}
	if c.peer != nil {
		c.peer.mu.Lock()
		c.peer.in = append(c.peer.in, c13Pkt{data: w.wire, addr: w.addr})
		c.peer.mu.Unlock()
	}
	return len(p), nil
}

func (c *c13Conn) setWErr(e int) {
	c.mu.Lock()
	c.nextWErr = e
	c.mu.Unlock()
}

func (c *c13Conn) nWrites() int {
	c.mu.Lock()
	defer c.mu.Unlock()
	return len(c.wlog)
}

func (c *c13Conn) write(i int) c13Write {
	c.mu.Lock()
	defer c.mu.Unlock()
	return c.wlog[i]
}

func (c *c13Conn) nConsumed() int {
	c.mu.Lock()
	defer c.mu.Unlock()
	return c.consumed
}

func (c *c13Conn) Close() error                     { return nil }
func (c *c13Conn) LocalAddr() net.Addr              { return c13Addr(9) }
func (c *c13Conn) SetDeadline(time.Time) error      { return nil }
func (c *c13Conn) SetReadDeadline(time.Time) error  { return nil }
func (c *c13Conn) SetWriteDeadline(time.Time) error { return nil }

// c13ConnUDP additionally satisfies udpLikePacketConn, so wrapPacketConn returns *obfsPacketConnUDP.
type c13ConnUDP struct{ *c13Conn }

func (c c13ConnUDP) SyscallConn() (syscall.RawConn, error) { return nil, errors.New("none") }
func (c c13ConnUDP) SetReadBuffer(int) error               { return nil }
func (c c13ConnUDP) SetWriteBuffer(int) error              { return nil }

type c13Bs struct {
	Hex *string `json:"hex"`
	A   uint64  `json:"a"`
	B   uint64  `json:"b"`
	N   int     `json:"n"`
}

func (b c13Bs) bytes() []byte {
	if b.Hex != nil {
		return vUnhex(*b.Hex)
	}
	return vGenData(b.A, b.B, b.N)
}

type c13Item struct {
	T    string  `json:"t"` // "w": write through the wrapper; "raw": datagram injected below the reading wrapper
	D    c13Bs   `json:"d"`
	Addr int     `json:"addr"`
	Err  int     `json:"err"`
	Exp  *string `json:"exp"` // raw only: payload that must surface (packet built by the python reference)
}

type c13Case struct {
	K     string    `json:"k"`
	Psk   c13Bs     `json:"psk"`
	Plen  int       `json:"plen"`
	UDP   bool      `json:"udp"`
	Items []c13Item `json:"items"`
	D     c13Bs     `json:"d"`
	Cap   int       `json:"cap"`
	Exp   *string   `json:"exp"`
	W     int       `json:"w"`
	R     int       `json:"r"`
	Per   int       `json:"per"`
	Junk  int       `json:"junk"`
	Lens  []int     `json:"lens"`
	Rseed int64     `json:"rseed"`
	G     int       `json:"g"`
	Iters int       `json:"iters"`
	Rbuf  int       `json:"rbuf"` // conc: length of every reader's buffer (0 = 2048)
	Werr  int       `json:"werr"` // conc: every Werr-th underlying write fails (0 = none); the writer retries the packet
}

// the specification's keystream, computed without the code under test
func c13Xor(psk, salt, p []byte) []byte {
	k := blake2b.Sum256(append(append([]byte{}, psk...), salt...))
	out := make([]byte, len(p))
	for i := range p {
		out[i] = p[i] ^ k[i%32]
	}
	return out
}

// ---- white-box access by NAME.  The wrapper's struct (conn.go) is reached through reflection only: its
// type names and its unexported fields (readMutex, writeMutex, the buffers) are a representation, not
// the behaviour under test.  A field that is missing, or has another type, makes the observation
// built on it "unavailable" (recorded in the case's output, see lockobs / c13LockNA); the behavioural
// verdict runs all the same, so the harness builds against any tree that keeps the constructor and
// the net.PacketConn surface.

// c13Struct: the addressable struct behind the pointer returned by the constructor (invalid Value if
// the wrapper is not a pointer to a struct)
func c13Struct(w net.PacketConn) reflect.Value {
	v := reflect.ValueOf(w)
	if !v.IsValid() || v.Kind() != reflect.Pointer || v.IsNil() {
		return reflect.Value{}
	}
	v = v.Elem()
	if v.Kind() != reflect.Struct {
		return reflect.Value{}
	}
	return v
}

// c13Field: the field of that name in the wrapper's struct or in a struct embedded in it (by value or
// by pointer, as *obfsPacketConn is in obfsPacketConnUDP), as an addressable Value freed of reflect's
// read-only mark; why = "" when found, else the reason it is not available
func c13Field(w net.PacketConn, name string) (f reflect.Value, why string) {
	defer func() {
		if r := recover(); r != nil { // FieldByName through a nil embedded pointer
			f, why = reflect.Value{}, "missing"
		}
	}()
	st := c13Struct(w)
	if !st.IsValid() {
		return reflect.Value{}, "missing"
	}
	x := st.FieldByName(name)
	if !x.IsValid() || !x.CanAddr() {
		return reflect.Value{}, "missing"
	}
	return reflect.NewAt(x.Type(), unsafe.Pointer(x.UnsafeAddr())).Elem(), ""
}

var c13MutexType = reflect.TypeOf(sync.Mutex{})

// c13Mutex: the sync.Mutex field of that name, or nil and why it cannot be observed
func c13Mutex(w net.PacketConn, name string) (*sync.Mutex, string) {
	f, why := c13Field(w, name)
	if why != "" {
		return nil, why
	}
	if f.Type() != c13MutexType {
		return nil, "type " + f.Type().String()
	}
	return (*sync.Mutex)(unsafe.Pointer(f.UnsafeAddr())), ""
}

// lock observation after a returned call (no call in progress on the wrapper): compared with the lock
// state of the model (model/C13_Lock.v) when it is available
const (
	c13LockFree = 0
	c13LockHeld = 1
	c13LockNA   = 2 // the field does not exist in this tree (or is not a sync.Mutex): not observed
)

func c13LockObs(w net.PacketConn, name string) int {
	m, _ := c13Mutex(w, name)
	if m == nil {
		return c13LockNA
	}
	if m.TryLock() {
		m.Unlock()
		return c13LockFree
	}
	return c13LockHeld
}

// which of the white-box observations exist in this tree ("ok", "missing", "type T")
func c13LockAvail(w net.PacketConn) map[string]string {
	av := map[string]string{}
	for _, name := range []string{"readMutex", "writeMutex"} {
		if _, why := c13Mutex(w, name); why != "" {
			av[name] = why
		} else {
			av[name] = "ok"
		}
	}
	return av
}

// what quic-go needs from a UDP-flavoured conn (the method set of conn.go's udpLikePacketConn beyond
// net.PacketConn), stated here so that the verdict does not depend on the wrapper's type names
type c13UDPLike interface {
	SyscallConn() (syscall.RawConn, error)
	SetReadBuffer(int) error
	SetWriteBuffer(int) error
}

// wrap a conn, then scramble the caller's key slice (the constructor must have copied it) and make
// the salt source reproducible (an instrument, not an observation: the salt is read back from the
// wire in any case)
func c13Wrap(conn net.PacketConn, psk []byte, seed int64) (net.PacketConn, error) {
	k := append([]byte{}, psk...)
	w, err := WrapPacketConnSalamander(conn, k)
	for i := range k {
		k[i] ^= 0xa5
	}
	if err != nil {
		return nil, err
	}
	if seed != 0 {
		if f, why := c13Field(w, "Obfs"); why == "" && f.Kind() == reflect.Interface && !f.IsNil() {
			if s, ok := f.Interface().(*salamanderObfuscator); ok {
				s.RandSrc = rand.New(rand.NewSource(seed))
			}
		}
	}
	return w, nil
}

type c13Fail struct{ why []string }

func (f *c13Fail) add(format string, a ...any) {
	if len(f.why) < 5 {
		f.why = append(f.why, fmt.Sprintf(format, a...))
	}
}

func (f *c13Fail) put(res map[string]any) {
	res["ok"] = len(f.why) == 0
	if len(f.why) > 0 {
		s := f.why[0]
		for _, w := range f.why[1:] {
			s += "; " + w
		}
		res["why"] = s
	}
}

// c13Refused: the constructor / the wrapper refused the key of a case.  The key rule is over BYTES: a key is
// refused iff it has fewer than 4 bytes, whatever the bytes spell (multi-byte UTF-8 sequences, bytes that are
// not UTF-8 at all, NULs, white space).  A refused key of 4 or more bytes is a verdict of its own, with the
// key bytes in the record (the case cannot go on: no wrapped socket exists for that key).
func c13Refused(res map[string]any, f *c13Fail, psk []byte, err error, who string) {
	res["refused"] = true
	res["key"] = vHex(psk)
	res["errIsTooShort"] = errors.Is(err, ErrPSKTooShort)
	shown := psk
	more := ""
	if len(shown) > 24 {
		shown, more = shown[:24], " ..."
	}
	if len(psk) >= 4 {
		f.add("%s refused a key of %d bytes [% x%s] (%d code points if read as UTF-8, valid UTF-8: %v): %v; every key of 4 or more bytes must be accepted",
			who, len(psk), shown, more, utf8.RuneCount(psk), utf8.Valid(psk), err)
	} else {
		f.add("%s refused the %d-byte key [% x] of a case that needs a wrapped socket: %v", who, len(psk), shown, err)
	}
}


// ---- watchdog: a call into the code under test that never returns (a mutex left locked on some
// return path, a lost wake-up) must become a verdict with the case as the replay, not a hang of the
// whole test binary.  Every call of the wrapper in the sequential cases and every whole case runs in
// its own goroutine with a real-time bound; on expiry the goroutine is abandoned (it owns nothing the
// harness touches afterwards) and the harness goes on with a fresh wrapped conn.  The first expiries
// wait the full bound; once several calls have been seen stuck in this run the bound shrinks (the
// remaining expiries only add witnesses of a defect that is already established).

var c13Expired atomic.Int64

func c13Bound(full time.Duration) time.Duration {
	if v := os.Getenv("VERIF_C13_WATCHDOG_MS"); v != "" {
		if ms, err := strconv.Atoi(v); err == nil && ms > 0 {
			full = time.Duration(ms) * time.Millisecond
		}
	}
	if c13Expired.Load() >= 3 {
		return max(full/50, 50*time.Millisecond)
	}
	return full
}

const c13CallBound = 5 * time.Second
const c13CaseBound = 90 * time.Second

// c13Timed runs fn in a goroutine; false = fn did not return within the bound (fn is abandoned).
// A panic inside fn is re-raised in the caller's goroutine (so vCatch sees it).
func c13Timed(bound time.Duration, fn func()) (returned bool, waited time.Duration) {
	type fin struct {
		panicked bool
		val      any
	}
	done := make(chan fin, 1)
	go func() {
		defer func() {
			if r := recover(); r != nil {
				done <- fin{true, r}
			}
		}()
		fn()
		done <- fin{}
	}()
	tm := time.NewTimer(bound)
	defer tm.Stop()
	select {
	case x := <-done:
		if x.panicked {
			panic(x.val)
		}
		return true, 0
	case <-tm.C:
		c13Expired.Add(1)
		return false, bound
	}
}

func TestVerifC13(t *testing.T) {
	vParams(t, [][3]string{
		{"smPSKMinLen", "nat", strconv.Itoa(smPSKMinLen)},
		{"smSaltLen", "nat", strconv.Itoa(smSaltLen)},
		{"smKeyLen", "nat", strconv.Itoa(smKeyLen)},
		{"udpBufferSize", "nat", strconv.Itoa(udpBufferSize)},
	})
	seed, _ := strconv.ParseInt(os.Getenv("VERIF_SEED"), 10, 64)
	out := vOpenOut(t, "VERIF_OUT")
	defer out.Close()
	for i, raw := range vReadCases(t) {
		var c c13Case
		if err := json.Unmarshal(raw, &c); err != nil {
			t.Fatal(err)
		}
		res := map[string]any{"i": i, "k": c.K}
		f := &c13Fail{}
		rs := seed*1000003 + int64(i) + 1
		var panicked bool
		var msg string
		returned, waited := c13Timed(c13Bound(c13CaseBound), func() {
			panicked, msg = vCatch(func() {
				switch c.K {
				case "key":
					c13Key(c, res, f)
				case "obf":
					c13Obf(c, res, f, rs)
				case "deobf":
					c13Deobf(c, res, f)
				case "st":
					c13Stream(c, res, f, rs)
				case "conc":
					c13Conc(c, res, f, rs)
				case "hammer":
					c13Hammer(c, res, f, rs)
				default:
					panic(fmt.Sprintf("unknown case kind %q", c.K))
				}
			})
		})
		if !returned {
			// the abandoned goroutine still owns res and f: report on fresh ones
			res = map[string]any{"i": i, "k": c.K, "stuck": true}
			f = &c13Fail{}
			f.add("case did not finish within %s: a call into the wrapper never returned (deadlock)", waited)
		}
		if panicked {
			res["panic"] = msg
			f.add("panic: %s", msg)
		}
		f.put(res)
		out.Emit(res)
	}
}

func c13Key(c c13Case, res map[string]any, f *c13Fail) {
	psk := c.Psk.bytes()
	psk0 := append([]byte{}, psk...)
	w, err := WrapPacketConnSalamander(&c13Conn{}, psk)
	refused := err != nil
	res["refused"] = refused
	res["key"] = vHex(psk0)
	res["errIsTooShort"] = errors.Is(err, ErrPSKTooShort)
	// the rule is over bytes: refused iff len(key) < 4, whatever the bytes spell
	if len(psk) < 4 {
		if !refused || w != nil {
			f.add("key of %d bytes [% x] accepted", len(psk), psk0)
		} else if !errors.Is(err, ErrPSKTooShort) {
			f.add("key of %d bytes refused with an unexpected error %v", len(psk), err)
		}
	} else if refused {
		c13Refused(res, f, psk0, err, "WrapPacketConnSalamander")
	} else if w == nil {
		f.add("key of %d bytes: the wrapper returned neither a socket nor an error", len(psk))
	}
	if !bytes.Equal(psk, psk0) {
		f.add("the constructor modified the caller's key")
	}
	o, err2 := newSalamanderObfuscator(psk)
	if (err2 != nil) != refused {
		f.add("constructor and wrapper disagree on key of %d bytes [% x]", len(psk), psk0)
	}
	if o != nil && !bytes.Equal(o.PSK, psk0) {
		f.add("constructor stored a different key")
	}
	if o != nil {
		// an accepted key is used as it is, byte for byte: wire image of a fixed probe packet (the python side
		// repeats this with hashlib) and its way back
		probe := []byte{0x00, 0x01, 0x7f, 0x80, 0xff, 0x41, 0xc3, 0xa4, 0x0a}
		o.RandSrc = rand.New(rand.NewSource(int64(len(psk)) + 1))
		outb := make([]byte, 64)
		n := o.Obfuscate(probe, outb)
		if n != len(probe)+8 {
			f.add("Obfuscate reported %d for a %d-byte payload (key %d bytes)", n, len(probe), len(psk))
		} else {
			res["probe"] = vHex(outb[:n])
			if !bytes.Equal(outb[8:n], c13Xor(psk0, outb[:8], probe)) {
				f.add("wire bytes are not payload XOR BLAKE2b-256(key||salt) (payload %d bytes, key %d bytes [% x])", len(probe), len(psk), psk0[:min(len(psk0), 24)])
			}
			back := make([]byte, 64)
			if m := o.Deobfuscate(outb[:n], back); m != len(probe) || !bytes.Equal(back[:m], probe) {
				f.add("payload changed in transit (%d bytes, key %d bytes): Deobfuscate(Obfuscate(p)) != p", len(probe), len(psk))
			}
		}
	}
}

func c13Filled(n int) []byte {
	b := make([]byte, n)
	for i := range b {
		b[i] = 0xee
	}
	return b
}

func c13AllEE(b []byte) bool {
	for _, x := range b {
		if x != 0xee {
			return false
		}
	}
	return true
}

func c13Obf(c c13Case, res map[string]any, f *c13Fail, rs int64) {
	psk := c.Psk.bytes()
	o, err := newSalamanderObfuscator(psk)
	if err != nil {
		c13Refused(res, f, psk, err, "newSalamanderObfuscator")
		return
	}
	o.RandSrc = rand.New(rand.NewSource(rs))
	in := c.D.bytes()
	in0 := append([]byte{}, in...)
	outb := c13Filled(c.Cap)
	n := o.Obfuscate(in, outb)
	res["n"] = n
	if n < 0 || n > len(outb) {
		f.add("Obfuscate returned %d for a %d-byte buffer", n, len(outb))
		return
	}
	res["out"] = vHex(outb[:n])
	if !bytes.Equal(in, in0) {
		f.add("Obfuscate modified its input")
	}
	if !c13AllEE(outb[n:]) {
		f.add("Obfuscate wrote beyond the %d bytes it reported", n)
	}
	if c.Cap >= len(in)+8 {
		if n != len(in)+8 {
			f.add("Obfuscate reported %d for a %d-byte payload", n, len(in))
		} else if !bytes.Equal(outb[8:n], c13Xor(psk, outb[:8], in)) {
			f.add("wire bytes are not payload XOR BLAKE2b-256(key||salt) (payload %d bytes, key %d bytes)", len(in), len(psk))
		}
	} else if n != 0 {
		f.add("Obfuscate reported %d with a short output buffer (%d < %d)", n, c.Cap, len(in)+8)
	}
}

func c13Deobf(c c13Case, res map[string]any, f *c13Fail) {
	psk := c.Psk.bytes()
	o, err := newSalamanderObfuscator(psk)
	if err != nil {
		c13Refused(res, f, psk, err, "newSalamanderObfuscator")
		return
	}
	in := c.D.bytes()
	in0 := append([]byte{}, in...)
	outb := c13Filled(c.Cap)
	n := o.Deobfuscate(in, outb)
	res["n"] = n
	if n < 0 || n > len(outb) {
		f.add("Deobfuscate returned %d for a %d-byte buffer", n, len(outb))
		return
	}
	res["out"] = vHex(outb[:n])
	if !bytes.Equal(in, in0) {
		f.add("Deobfuscate modified its input")
	}
	if !c13AllEE(outb[n:]) {
		f.add("Deobfuscate wrote beyond the %d bytes it reported", n)
	}
	if len(in) > 8 && c.Cap >= len(in)-8 {
		if n != len(in)-8 {
			f.add("Deobfuscate reported %d for a %d-byte packet", n, len(in))
		} else if !bytes.Equal(outb[:n], c13Xor(psk, in[:8], in[8:])) {
			f.add("deobfuscated bytes are not wire XOR BLAKE2b-256(key||salt)")
		} else if c.Exp != nil && !bytes.Equal(outb[:n], vUnhex(*c.Exp)) {
			f.add("packet built by the reference obfuscator does not deobfuscate to its payload")
		}
	} else if n != 0 {
		f.add("Deobfuscate accepted a %d-byte packet into a %d-byte buffer (n=%d)", len(in), c.Cap, n)
	}
}

type c13Ev struct {
	data    []byte // as delivered (before the cut to the read buffer)
	addr    int
	err     int
	payload []byte // known payload that must surface, or nil
}

func c13Stream(c c13Case, res map[string]any, f *c13Fail, rs int64) {
	psk := c.Psk.bytes()
	ua, ub := &c13Conn{}, &c13Conn{}
	ua.peer = ub
	var ca, cb net.PacketConn = ua, ub
	if c.UDP {
		ca, cb = c13ConnUDP{ua}, c13ConnUDP{ub}
	}
	a, err := c13Wrap(ca, psk, rs)
	if err != nil {
		c13Refused(res, f, psk, err, "WrapPacketConnSalamander")
		return
	}
	b, err := c13Wrap(cb, psk, rs+7)
	if err != nil {
		c13Refused(res, f, psk, err, "WrapPacketConnSalamander")
		return
	}
	if c.UDP {
		if _, ok := a.(c13UDPLike); !ok {
			f.add("UDP-like conn not wrapped as obfsPacketConnUDP (SyscallConn/SetReadBuffer/SetWriteBuffer are not passed through)")
		}
	}
	res["lockobs"] = c13LockAvail(b)
	var evs []c13Ev
	writes := []map[string]any{}
	nW, lastErrW, lastErrCode := 0, -1, 0
	wlocks := []int{} // per returned WriteTo: writeMutex afterwards (c13LockFree / c13LockHeld / c13LockNA)
	rlocks := []int{} // per returned ReadFrom: readMutex afterwards
	for _, it := range c.Items {
		d := it.D.bytes()
		switch it.T {
		case "w":
			d0 := append([]byte{}, d...)
			ua.setWErr(it.Err)
			before := ua.nWrites()
			var n int
			var werr error
			wa := a
			if returned, waited := c13Timed(c13Bound(c13CallBound), func() { n, werr = wa.WriteTo(d, c13Addr(it.Addr)) }); !returned {
				// the abandoned call may hold the old wrapper's locks for ever: go on with a fresh wrapper
				// over a fresh underlying conn (the stuck call keeps the old one) delivering to the same peer
				if lastErrW >= 0 {
					f.add("WriteTo did not return within %s after an earlier underlying write error (write #%d, %d bytes; underlying error %d at write #%d)",
						waited, nW, len(d0), lastErrCode, lastErrW)
				} else {
					f.add("WriteTo did not return within %s (write #%d, %d bytes)", waited, nW, len(d0))
				}
				writes = append(writes, map[string]any{"wire": "", "n": -1, "err": 997, "stuck": true})
				wlocks = append(wlocks, c13LockHeld)
				nW++
				ua = &c13Conn{peer: ub}
				ca = ua
				if c.UDP {
					ca = c13ConnUDP{ua}
				}
				if a, err = c13Wrap(ca, psk, rs+int64(1000*nW)); err != nil {
					c13Refused(res, f, psk, err, "WrapPacketConnSalamander")
					return
				}
				continue
			}
			nW++
			if it.Err != 0 {
				lastErrW, lastErrCode = nW-1, it.Err
			}
			{
				held := c13LockObs(a, "writeMutex")
				wlocks = append(wlocks, held)
				if held == c13LockHeld {
					f.add("writeMutex is still held after WriteTo returned (write #%d, n=%d err=%d): every later WriteTo on this socket blocks", nW-1, n, c13Code(werr))
				}
				if c13LockObs(a, "readMutex") == c13LockHeld {
					f.add("readMutex is held after WriteTo returned (write #%d) with no ReadFrom in progress", nW-1)
				}
			}
			if ua.nWrites() != before+1 {
				f.add("WriteTo made %d underlying writes", ua.nWrites()-before)
				writes = append(writes, map[string]any{"wire": "", "n": n, "err": c13Code(werr)})
				continue
			}
			w := ua.write(before)
			writes = append(writes, map[string]any{"wire": vHex(w.wire), "n": n, "err": c13Code(werr)})
			if !bytes.Equal(d, d0) {
				f.add("WriteTo modified the caller's packet")
			}
			if w.addr != it.Addr {
				f.add("WriteTo changed the destination address")
			}
			if it.Err != 0 {
				if c13Code(werr) != it.Err || n != 0 {
					f.add("underlying write error %d surfaced as n=%d err=%d", it.Err, n, c13Code(werr))
				}
				continue
			}
			if werr != nil {
				f.add("WriteTo failed: %v", werr)
			}
			if n != len(d) {
				f.add("WriteTo reported %d bytes for a %d-byte packet", n, len(d))
			}
			var known []byte
			if len(d) >= 1 && len(d) <= 2040 {
				if len(w.wire) != len(d)+8 {
					f.add("wire packet has %d bytes for a %d-byte payload", len(w.wire), len(d))
				} else if !bytes.Equal(w.wire[8:], c13Xor(psk, w.wire[:8], d)) {
					f.add("wire bytes are not salt || payload XOR BLAKE2b-256(key||salt) (payload %d bytes, key %d bytes)", len(d), len(psk))
				}
				known = d0
			}
			evs = append(evs, c13Ev{data: w.wire, addr: it.Addr, payload: known})
		case "raw":
			ub.mu.Lock()
			ub.in = append(ub.in, c13Pkt{data: d, addr: it.Addr, err: it.Err})
			ub.mu.Unlock()
			e := c13Ev{data: d, addr: it.Addr, err: it.Err}
			if it.Exp != nil {
				e.payload = vUnhex(*it.Exp)
			}
			evs = append(evs, e)
		}
	}
	res["writes"] = writes
	reads := []map[string]any{}
	stuckRead := false
	buf := c13Filled(c.Plen)
	var attributed []int
	for k := 0; k <= len(evs); k++ {
		for i := range buf {
			buf[i] = 0xee
		}
		var n int
		var addr net.Addr
		var rerr error
		rb := b
		if returned, waited := c13Timed(c13Bound(c13CallBound), func() { n, addr, rerr = rb.ReadFrom(buf) }); !returned {
			// (the underlying fake never blocks: an empty queue is the "drained" error)
			f.add("ReadFrom did not return within %s (read #%d, %d events delivered, %d consumed)", waited, len(reads), len(evs), ub.nConsumed())
			stuckRead = true
			break
		}
		code := c13Code(rerr)
		{
			held := c13LockObs(b, "readMutex")
			if code != c13Drained {
				rlocks = append(rlocks, held)
			}
			if held == c13LockHeld {
				f.add("readMutex is still held after ReadFrom returned (read #%d, n=%d err=%d): every later ReadFrom on this socket blocks", len(reads), n, code)
			}
		}
		if code == c13Drained {
			break
		}
		ev := ub.nConsumed() - 1
		if n < 0 || n > len(buf) {
			f.add("ReadFrom returned n=%d for a %d-byte buffer", n, len(buf))
			break
		}
		reads = append(reads, map[string]any{"n": n, "data": vHex(buf[:n]), "addr": c13Port(addr), "err": code, "ev": ev})
		if !c13AllEE(buf[n:]) {
			f.add("ReadFrom wrote beyond the %d bytes it reported", n)
		}
		if ev < 0 || ev >= len(evs) {
			f.add("ReadFrom returned without consuming a packet")
			break
		}
		attributed = append(attributed, ev)
		e := evs[ev]
		wl := len(e.data)
		if wl > udpBufferSize {
			wl = udpBufferSize
		}
		if c13Port(addr) != e.addr {
			f.add("ReadFrom reported address %d for a packet from %d", c13Port(addr), e.addr)
		}
		if code != e.err {
			f.add("ReadFrom reported error %d for an event with error %d", code, e.err)
		}
		if e.err == 0 {
			if wl <= 8 {
				if wl == 0 {
					f.add("junk surfaced: zero-length datagram returned to the caller as n=%d err=nil", n)
				} else {
					f.add("junk surfaced: %d-byte datagram (no room for salt + 1 payload byte) returned to the caller as n=%d", wl, n)
				}
				continue
			}
			if e.payload != nil && len(e.payload) == wl-8 && len(buf) >= len(e.payload) && len(buf) < wl && n != len(e.payload) {
				// the caller's buffer has room for the packet; it need not have room for the salt as well
				f.add("short read: a %d-byte reader buffer holds the %d-byte payload, but ReadFrom returned %d bytes (wire packet %d bytes = %d-byte salt + payload)",
					len(buf), len(e.payload), n, wl, wl-len(e.payload))
			} else if n != wl-8 {
				f.add("ReadFrom reported %d bytes for a %d-byte wire packet", n, wl)
			} else if e.payload != nil && !bytes.Equal(buf[:n], e.payload) {
				f.add("payload changed in transit (%d bytes, key %d bytes)", len(e.payload), len(psk))
			}
		}
	}
	res["reads"] = reads
	res["wlocks"] = wlocks
	res["rlocks"] = rlocks
	// every valid packet that fits the caller's buffer surfaces exactly once, in order
	ai := 0
	for idx, e := range evs {
		// (whatever its payload is: a datagram of more than 8 bytes is a packet of this key, a foreign or junk one
		// included; a known payload is len(wire)-8 bytes long)
		wl := min(len(e.data), udpBufferSize)
		must := e.err == 0 && ((e.payload != nil && len(e.payload) <= c.Plen) || (wl > 8 && wl-8 <= c.Plen))
		for ai < len(attributed) && attributed[ai] < idx {
			ai++
		}
		got := ai < len(attributed) && attributed[ai] == idx
		if e.err != 0 && !got {
			// an error of the socket below is never swallowed by the drop-and-retry loop
			f.add("underlying read error %d (event %d, %d-byte datagram) was not returned to the caller (reader buffer %d bytes)", e.err, idx, wl, c.Plen)
		}
		if must && !got {
			pl := wl - 8
			if e.payload != nil {
				pl = len(e.payload)
			}
			f.add("valid %d-byte packet (event %d) never surfaced (reader buffer %d bytes)", pl, idx, c.Plen)
		}
	}
	for j := 1; j < len(attributed); j++ {
		if attributed[j] <= attributed[j-1] {
			f.add("reads not in arrival order")
		}
	}
	bl := []int{}
	if !stuckRead {
		ub.mu.Lock()
		for l := range ub.bufLens {
			bl = append(bl, l)
		}
		ub.mu.Unlock()
	}
	sort.Ints(bl)
	res["readbuf"] = bl
}

// ---- concurrent readers and writers on one wrapped socket (both directions at once) ----

type c13Chan struct {
	ch     chan c13Pkt
	done   chan struct{}
	peer   *c13Chan
	pushed atomic.Int64
	popped atomic.Int64
	mu     sync.Mutex
	wlog   [][]byte
	// scripted faults: every failEvery-th underlying write (counted per socket) fails with failCode and
	// delivers nothing
	failEvery int64
	failCode  int
	nwrites   atomic.Int64
	nfailed   atomic.Int64
}

func (c *c13Chan) push(p c13Pkt) {
	c.pushed.Add(1)
	c.ch <- p
}

func (c *c13Chan) ReadFrom(p []byte) (int, net.Addr, error) {
	select {
	case k := <-c.ch:
		n := copy(p, k.data)
		c.popped.Add(1)
		return n, c13Addr(k.addr), nil
	case <-c.done:
		return 0, nil, net.ErrClosed
	}
}

func (c *c13Chan) WriteTo(p []byte, a net.Addr) (int, error) {
	if k := c.nwrites.Add(1); c.failEvery > 0 && k%c.failEvery == 0 {
		c.nfailed.Add(1)
		return 0, &c13Err{c.failCode}
	}
	w := append([]byte{}, p...)
	c.mu.Lock()
	c.wlog = append(c.wlog, w)
	c.mu.Unlock()
	c.peer.push(c13Pkt{data: w, addr: c13Port(a)})
	return len(p), nil
}

func (c *c13Chan) Close() error                     { return nil }
func (c *c13Chan) LocalAddr() net.Addr              { return c13Addr(9) }
func (c *c13Chan) SetDeadline(time.Time) error      { return nil }
func (c *c13Chan) SetReadDeadline(time.Time) error  { return nil }
func (c *c13Chan) SetWriteDeadline(time.Time) error { return nil }

func c13ConcPayload(side, w, k int, lens []int) []byte {
	l := lens[(w*131+k*7+side)%len(lens)]
	return vGenData(uint64(3+2*w+side), uint64(k*5+w), l)
}

func c13Conc(c c13Case, res map[string]any, f *c13Fail, rs int64) {
	psk := c.Psk.bytes()
	total := c.W*c.Per + c.Junk + 16
	u := [2]*c13Chan{}
	for s := 0; s < 2; s++ {
		u[s] = &c13Chan{ch: make(chan c13Pkt, total), done: make(chan struct{}), failEvery: int64(c.Werr), failCode: 31 + s}
	}
	u[0].peer, u[1].peer = u[1], u[0]
	var wr [2]net.PacketConn
	for s := 0; s < 2; s++ {
		x, err := c13Wrap(u[s], psk, rs+int64(s))
		if err != nil {
			c13Refused(res, f, psk, err, "WrapPacketConnSalamander")
			return
		}
		wr[s] = x
	}
	type got struct {
		n    int
		data []byte
		addr int
	}
	rbuf := c.Rbuf
	if rbuf == 0 {
		rbuf = 2048
	}
	var rmu sync.Mutex
	var recvd [2][]got
	var rwg, wwg sync.WaitGroup
	for s := 0; s < 2; s++ {
		for r := 0; r < c.R; r++ {
			rwg.Add(1)
			go func(s int) {
				defer rwg.Done()
				buf := make([]byte, rbuf)
				for {
					n, addr, err := wr[s].ReadFrom(buf)
					if err != nil {
						return
					}
					g := got{n: n, data: append([]byte{}, buf[:n]...), addr: c13Port(addr)}
					rmu.Lock()
					recvd[s] = append(recvd[s], g)
					rmu.Unlock()
				}
			}(s)
		}
	}
	var badN, badErr, completed atomic.Int64
	for s := 0; s < 2; s++ {
		for w := 0; w < c.W; w++ {
			wwg.Add(1)
			go func(s, w int) {
				defer wwg.Done()
				for k := 0; k < c.Per; k++ {
					p := c13ConcPayload(s, w, k, c.Lens)
					for try := 0; ; try++ {
						n, err := wr[s].WriteTo(p, c13Addr(1000+w))
						completed.Add(1)
						if err != nil && c.Werr > 0 && try < 8 {
							// a scripted fault of the socket below: it must surface as (0, that error), and the
							// packet is written again (as QUIC does after a failed send)
							if n != 0 || c13Code(err) != 31+s {
								badErr.Add(1)
							}
							continue
						}
						if err != nil || n != len(p) {
							badN.Add(1)
						}
						break
					}
				}
			}(s, w)
		}
		wwg.Add(1)
		go func(s int) {
			defer wwg.Done()
			r := rand.New(rand.NewSource(rs + 99 + int64(s)))
			for j := 0; j < c.Junk; j++ {
				d := make([]byte, r.Intn(9))
				r.Read(d)
				u[s].push(c13Pkt{data: d, addr: 7})
			}
		}(s)
	}
	// wait for the writers, watching their progress: no WriteTo completing for a whole bound while
	// writers are still at work = they are stuck (abandoned: they touch nothing that is read below
	// except through atomics and locks)
	wdone := make(chan struct{})
	go func() { wwg.Wait(); close(wdone) }()
	stuck := false
	{
		bound := c13Bound(c13CallBound)
		last, lastAt := completed.Load(), time.Now()
		tick := time.NewTicker(20 * time.Millisecond)
	waitW:
		for {
			select {
			case <-wdone:
				break waitW
			case <-tick.C:
				if now := completed.Load(); now != last {
					last, lastAt = now, time.Now()
				} else if time.Since(lastAt) > bound {
					stuck = true
					c13Expired.Add(1)
					nf := u[0].nfailed.Load() + u[1].nfailed.Load()
					if nf > 0 {
						f.add("concurrent WriteTo calls made no progress for %s after %d underlying write error(s) (%d calls had returned): WriteTo did not return", bound, nf, last)
					} else {
						f.add("concurrent WriteTo calls made no progress for %s (%d calls had returned): WriteTo did not return", bound, last)
					}
					break waitW
				}
			}
		}
		tick.Stop()
	}
	res["werrs"] = u[0].nfailed.Load() + u[1].nfailed.Load()
	if c.Werr > 0 && !stuck && u[0].nfailed.Load()+u[1].nfailed.Load() == 0 {
		f.add("harness: no underlying write error was injected (werr=%d)", c.Werr)
	}
	if badErr.Load() != 0 {
		f.add("%d underlying write errors did not surface as (0, that error) from a concurrent WriteTo", badErr.Load())
	}
	deadline := time.Now().Add(20 * time.Second)
	if stuck {
		deadline = time.Now().Add(200 * time.Millisecond)
	}
	for s := 0; s < 2; s++ {
		for u[s].popped.Load() != u[s].pushed.Load() && time.Now().Before(deadline) {
			time.Sleep(200 * time.Microsecond)
		}
	}
	for s := 0; s < 2; s++ {
		close(u[s].done)
	}
	if returned, waited := c13Timed(c13Bound(c13CallBound), rwg.Wait); !returned {
		f.add("concurrent ReadFrom calls did not return within %s after the sockets below had failed with net.ErrClosed", waited)
		rmu.Lock() // the abandoned readers may still append: work on a snapshot
		for s := 0; s < 2; s++ {
			recvd[s] = append([]got{}, recvd[s]...)
		}
		rmu.Unlock()
	}
	if badN.Load() != 0 {
		f.add("%d concurrent WriteTo calls reported an error or a wrong count", badN.Load())
	}
	wires := [2][]string{}
	for s := 0; s < 2; s++ {
		// side s receives what side 1-s wrote
		want := map[string]int{}
		for w := 0; w < c.W; w++ {
			for k := 0; k < c.Per; k++ {
				want[fmt.Sprintf("%d/%s", 1000+w, vHex(c13ConcPayload(1-s, w, k, c.Lens)))]++
			}
		}
		for _, g := range recvd[s] {
			if g.n != len(g.data) || g.n == 0 {
				f.add("concurrent ReadFrom surfaced n=%d", g.n)
				continue
			}
			key := fmt.Sprintf("%d/%s", g.addr, vHex(g.data))
			if want[key] == 0 {
				f.add("side %d surfaced a packet nobody sent (%d bytes from %d): junk or corrupted payload", s, g.n, g.addr)
			}
			want[key]--
		}
		missing := 0
		for _, v := range want {
			if v > 0 {
				missing += v
			}
		}
		if missing != 0 {
			f.add("side %d: %d packets written by the peer never surfaced", s, missing)
		}
		// wire format of everything side s wrote
		sent := map[string]int{}
		for w := 0; w < c.W; w++ {
			for k := 0; k < c.Per; k++ {
				sent[vHex(c13ConcPayload(s, w, k, c.Lens))]++
			}
		}
		for _, w := range u[s].wlog {
			wires[s] = append(wires[s], vHex(w))
			if len(w) <= 8 {
				f.add("concurrent WriteTo put a %d-byte packet on the wire", len(w))
				continue
			}
			p := vHex(c13Xor(psk, w[:8], w[8:]))
			if sent[p] == 0 {
				f.add("side %d: a wire packet does not decode (spec keystream) to any payload written", s)
			}
			sent[p]--
		}
		res[fmt.Sprintf("recv%d", s)] = len(recvd[s])
	}
	res["wires0"] = wires[0]
	res["wires1"] = wires[1]
}

// c13Hammer: G goroutines call Obfuscate and Deobfuscate on ONE obfuscator (the shared key-input
// buffer and salt source) with tiny payloads, so that almost all the time is spent inside keyLocked;
// every result is checked against the specification's keystream.
func c13Hammer(c c13Case, res map[string]any, f *c13Fail, rs int64) {
	psk := c.Psk.bytes()
	o, err := newSalamanderObfuscator(psk)
	if err != nil {
		c13Refused(res, f, psk, err, "newSalamanderObfuscator")
		return
	}
	o.RandSrc = rand.New(rand.NewSource(rs))
	var badObf, badDeobf, badN, panics atomic.Int64
	var wg sync.WaitGroup
	for g := 0; g < c.G; g++ {
		wg.Add(1)
		go func(g int) {
			defer wg.Done()
			defer func() {
				if r := recover(); r != nil {
					panics.Add(1)
				}
			}()
			r := rand.New(rand.NewSource(rs + 1000 + int64(g)))
			p := make([]byte, 1+g%5)
			outb := make([]byte, 64)
			back := make([]byte, 64)
			wire := make([]byte, 8+len(p))
			for k := 0; k < c.Iters; k++ {
				r.Read(p)
				n := o.Obfuscate(p, outb)
				if n != len(p)+8 {
					badN.Add(1)
					continue
				}
				if !bytes.Equal(outb[8:n], c13Xor(psk, outb[:8], p)) {
					badObf.Add(1)
				}
				r.Read(wire)
				m := o.Deobfuscate(wire, back)
				if m != len(p) {
					badN.Add(1)
					continue
				}
				if !bytes.Equal(back[:m], c13Xor(psk, wire[:8], wire[8:])) {
					badDeobf.Add(1)
				}
			}
		}(g)
	}
	wg.Wait()
	res["badObf"] = badObf.Load()
	res["badDeobf"] = badDeobf.Load()
	if panics.Load() != 0 {
		f.add("panic in %d goroutines sharing one obfuscator", panics.Load())
	}
	if badN.Load() != 0 {
		f.add("%d concurrent Obfuscate/Deobfuscate calls reported a wrong count", badN.Load())
	}
	if badObf.Load() != 0 {
		f.add("wire bytes are not payload XOR BLAKE2b-256(key||salt) in %d of %d concurrent Obfuscate calls on one obfuscator", badObf.Load(), c.G*c.Iters)
	}
	if badDeobf.Load() != 0 {
		f.add("deobfuscated bytes are not wire XOR BLAKE2b-256(key||salt) in %d of %d concurrent Deobfuscate calls on one obfuscator", badDeobf.Load(), c.G*c.Iters)
	}
}
