//go:build verif

package obfs

// C14 harness: Gecko (extras/obfs/gecko.go, gecko_frame.go) of /repo's working tree.
//
// Sender side: packets are written through a real WrapPacketConnGecko stack over an in-memory
// conn; the wire datagram sizes are recorded and the inner frames recovered by de-obfuscating the
// wire datagrams with the real Salamander obfuscator.
// Receiver side: a real geckoPacketConn (with its real gcLoop goroutine) runs inside a
// testing/synctest bubble (fake clock) over an in-memory inner conn; the operation list of the case
// (frames of the sent messages from arbitrary fake sources, raw datagrams, mutated frames, sleeps,
// direct gcExpired calls) is fed one datagram at a time and after every operation the emitted packet,
// len(reassembly), len(perSource) and perSource[src] are recorded, plus the evicted key when the
// table was at its cap, plus a dump of the table at the end.
// The property's own verdict (ok/why) is evaluated on the implementation alone.
// The TTL and no-lock-out clauses are evaluated against the harness's OWN record of when each pending message was
// first seen (entry identity = the *reassemblyEntry pointer, time = the bubble's clock at the feeding step), never
// against the implementation's deadline field: an incomplete message first seen at t must be gone after the first
// sweep later than t + TTL whatever arrived in between (replayed duplicates, further chunks, frames with another
// chunk count), and a source is refused only while it has 8 pending messages that are not yet due.

import (
	"bytes"
	"encoding/json"
	"errors"
	"net"
	"sort"
	"strconv"
	"testing"
	"testing/synctest"
	"time"
)

type c14Addr int

func (a c14Addr) Network() string { return "c14" }
func (a c14Addr) String() string  { return "s" + strconv.Itoa(int(a)) }

var errC14Empty = errors.New("c14: nothing queued")

type c14Dg struct {
	src  net.Addr
	data []byte
}

// c14Inner is the in-memory inner conn: ReadFrom pops queued datagrams (error when empty, so that
// ReadFrom of the conn under test returns instead of blocking), WriteTo records.
//
// Inner write errors: fault (when set) is asked for every datagram handed down; when it answers true the
// datagram does NOT reach the wire and WriteTo returns an error.  calls counts the WriteTo calls since the
// last reset, failedAt is the index of the first refused call (-1: none), refused the datagrams refused.
type c14Inner struct {
	q        []c14Dg
	sent     [][]byte
	fault    func(p []byte, call int) bool
	calls    int
	failedAt int
	refused  [][]byte
}

var errC14Write = errors.New("c14: sendto: no buffer space available")

func (c *c14Inner) resetWrites() {
	c.sent, c.refused, c.calls, c.failedAt = nil, nil, 0, -1
}

func (c *c14Inner) ReadFrom(p []byte) (int, net.Addr, error) {
	if len(c.q) == 0 {
		return 0, nil, errC14Empty
	}
	d := c.q[0]
	c.q = c.q[1:]
	return copy(p, d.data), d.src, nil
}

func (c *c14Inner) WriteTo(p []byte, _ net.Addr) (int, error) {
	call := c.calls
	c.calls++
	if c.fault != nil && c.fault(p, call) {
		if len(c.refused) == 0 {
			c.failedAt = call
		}
		c.refused = append(c.refused, append([]byte(nil), p...))
		return 0, errC14Write
	}
	c.sent = append(c.sent, append([]byte(nil), p...))
	return len(p), nil
}
func (c *c14Inner) Close() error                     { return nil }
func (c *c14Inner) LocalAddr() net.Addr              { return c14Addr(-1) }
func (c *c14Inner) SetDeadline(time.Time) error      { return nil }
func (c *c14Inner) SetReadDeadline(time.Time) error  { return nil }
func (c *c14Inner) SetWriteDeadline(time.Time) error { return nil }

type c14Sender struct {
	Ctr0 uint32 `json:"ctr0"`
}

type c14MsgSpec struct {
	Snd   int    `json:"snd"`
	Len   int    `json:"len"`
	A     uint64 `json:"a"`
	B     uint64 `json:"b"`
	First int    `json:"first"`
	// inner write error injected into this WriteTo call: "" none; for a long-header packet the refused
	// datagram is the chunk with index 0 ("first"), total-1 ("last"), 1+fi%(total-2) ("mid", = last when
	// total is 2), fi%total ("idx"); "call": the fi-th inner WriteTo call of this WriteTo (never reached when
	// fi >= total).  A short-header packet has one datagram: any kind but "call" with fi > 0 refuses it.
	Fk string `json:"fk"`
	Fi int    `json:"fi"`
}

func (m c14MsgSpec) build() []byte {
	p := vGenData(m.A, m.B, m.Len)
	if len(p) > 0 {
		p[0] = byte(m.First)
	}
	return p
}

type c14Op struct {
	O  string `json:"o"`
	D  int64  `json:"d"`
	S  int    `json:"s"`
	M  int    `json:"m"`
	I  int    `json:"i"`
	At int    `json:"at"`
	V  int    `json:"v"`
	H  string `json:"h"`
	T  int64  `json:"t"`
}

type c14Case struct {
	K        string       `json:"k"`
	Omin     int          `json:"omin"`
	Omax     int          `json:"omax"`
	Rbuf     int          `json:"rbuf"`
	Senders  []c14Sender  `json:"senders"`
	Msgs     []c14MsgSpec `json:"msgs"`
	Ops      []c14Op      `json:"ops"`
	Must     [][2]int     `json:"must"` // (message index, source) pairs that must be delivered
	Distinct bool         `json:"distinct"`
	Hex      string       `json:"hex"`
	// AutoMust: the harness itself lists what must be delivered: every long-header packet whose WriteTo returned
	// success, at every source from which all of its frames are fed (the generator keeps such histories
	// inside one TTL window with at most 7 message ids per source, so nothing may be refused or expired)
	AutoMust bool `json:"automust"`
}

const c14PSK = "c14-verif-password"

func TestVerifC14(t *testing.T) {
	vParams(t, [][3]string{
		{"geckoReassemblyTTLns", "Z", strconv.FormatInt(int64(geckoReassemblyTTL), 10)},
		{"geckoMaxReassembly", "Z", strconv.Itoa(geckoMaxReassembly)},
		{"geckoMaxPerSource", "Z", strconv.Itoa(geckoMaxPerSource)},
		{"geckoBufferSize", "Z", strconv.Itoa(geckoBufferSize)},
		{"geckoDefaultMinPacket", "Z", strconv.Itoa(geckoDefaultMinPacket)},
		{"geckoDefaultMaxPacket", "Z", strconv.Itoa(geckoDefaultMaxPacket)},
		{"geckoFlagFragment", "N", strconv.Itoa(geckoFlagFragment)},
		{"geckoHeaderSize", "Z", strconv.Itoa(geckoHeaderSize)},
		{"geckoMinFragmentChunks", "Z", strconv.Itoa(geckoMinFragmentChunks)},
		{"geckoMaxFragmentChunks", "Z", strconv.Itoa(geckoMaxFragmentChunks)},
		{"smSaltLen", "Z", strconv.Itoa(smSaltLen)},
	})
	out := vOpenOut(t, "VERIF_OUT")
	defer out.Close()
	for i, raw := range vReadCases(t) {
		var c c14Case
		if err := json.Unmarshal(raw, &c); err != nil {
			t.Fatal(err)
		}
		res := map[string]any{"i": i, "k": c.K}
		switch c.K {
		case "seq":
			synctest.Test(t, func(t *testing.T) {
				p, msg := vCatch(func() { c14Seq(c, res) })
				if p {
					res["panic"] = true
					res["ok"] = false
					res["why"] = "panic: " + msg
				}
			})
		case "dec":
			c14Dec(c, res)
		case "cfg":
			c14Cfg(c, res)
		default:
			t.Fatalf("unknown case kind %q", c.K)
		}
		out.Emit(res)
	}
}

// decodeFrame on raw bytes: never panics; header fields and payload digest
func c14Dec(c c14Case, res map[string]any) {
	b := vUnhex(c.Hex)
	var h frameHeader
	var pl []byte
	var err error
	p, msg := vCatch(func() { h, pl, err = decodeFrame(b) })
	res["panic"] = p
	res["ok"] = !p
	res["why"] = ""
	if p {
		res["why"] = "panic in decodeFrame: " + msg
		return
	}
	switch {
	case err == nil:
		res["dec"] = []uint64{uint64(h.padLen), uint64(h.msgID), uint64(h.chunkIdx), uint64(h.totalChunks), uint64(len(pl)), vDigest(pl)}
		// a decoded header must satisfy the documented ranges and the payload must be the tail
		if h.totalChunks < 2 || h.totalChunks > 8 || h.chunkIdx >= h.totalChunks || 5+int(h.padLen)+len(pl) != len(b) {
			res["ok"] = false
			res["why"] = "decodeFrame accepted a header outside the documented ranges"
		}
	case errors.Is(err, errFrameTruncated):
		res["err"] = "short"
	default:
		res["err"] = "invalid"
	}
}

func c14Cfg(c c14Case, res map[string]any) {
	inner := &c14Inner{failedAt: -1}
	var pc net.PacketConn
	var err error
	p, msg := vCatch(func() {
		pc, err = WrapPacketConnGecko(inner, GeckoOptions{Password: []byte(c14PSK), MinPacketSize: c.Omin, MaxPacketSize: c.Omax})
	})
	res["ok"] = !p
	res["why"] = ""
	if p {
		res["why"] = "panic in WrapPacketConnGecko: " + msg
		return
	}
	if err != nil {
		res["cfg"] = false
		return
	}
	g := pc.(*geckoPacketConn)
	res["cfg"] = true
	res["min"] = g.minPkt
	res["max"] = g.maxPkt
	if g.minPkt <= 0 || g.minPkt > g.maxPkt || g.maxPkt > 2048 {
		res["ok"] = false
		res["why"] = "accepted configuration outside 0 < min <= max <= 2048"
	}
	_ = g.Close()
}

type c14Snap struct {
	keys map[reassemblyKey]struct{}
}

func c14SrcNum(addr string) int {
	n, _ := strconv.Atoi(addr[1:])
	return n
}

// census: perSource equals the per-source count of table entries, no zero entries, caps hold
func c14Census(g *geckoPacketConn) string {
	g.mu.Lock()
	defer g.mu.Unlock()
	if len(g.reassembly) > 4096 {
		return "more than 4096 pending messages: " + strconv.Itoa(len(g.reassembly))
	}
	cnt := map[string]int{}
	for k := range g.reassembly {
		cnt[k.addr]++
	}
	for a, n := range cnt {
		if n > 8 {
			return "more than 8 pending messages for source " + a
		}
		if g.perSource[a] != n {
			return "perSource[" + a + "]=" + strconv.Itoa(g.perSource[a]) + " but the table holds " + strconv.Itoa(n)
		}
	}
	for a, n := range g.perSource {
		if n <= 0 {
			return "perSource keeps a non-positive entry for " + a
		}
		if cnt[a] != n {
			return "perSource[" + a + "]=" + strconv.Itoa(n) + " but the table holds " + strconv.Itoa(cnt[a])
		}
	}
	return ""
}

func c14Seq(c c14Case, res map[string]any) {
	ok, why := true, ""
	var fails []string // every distinct clause that failed (the first one is the verdict's reason)
	fail := func(s string) {
		if ok {
			ok, why = false, s
		}
		if len(fails) < 8 {
			for _, f := range fails {
				if f == s {
					return
				}
			}
			fails = append(fails, s)
		}
	}
	defer func() {
		res["ok"] = ok
		res["why"] = why
		if len(fails) > 1 {
			res["fails"] = fails
		}
	}()

	// ---------------- sender side
	type sender struct {
		g     *geckoPacketConn
		inner *c14Inner
	}
	ob, _ := newSalamanderObfuscator([]byte(c14PSK))
	senders := make([]sender, len(c.Senders))
	var minPkt, maxPkt int
	for i, s := range c.Senders {
		inner := &c14Inner{failedAt: -1}
		pc, err := WrapPacketConnGecko(inner, GeckoOptions{Password: []byte(c14PSK), MinPacketSize: c.Omin, MaxPacketSize: c.Omax})
		if err != nil {
			res["cfg"] = false
			return
		}
		g := pc.(*geckoPacketConn)
		g.msgID.Store(s.Ctr0)
		senders[i] = sender{g, inner}
		minPkt, maxPkt = g.minPkt, g.maxPkt
	}
	defer func() {
		for _, s := range senders {
			_ = s.g.Close()
		}
	}()
	if len(senders) == 0 {
		minPkt, maxPkt = c.Omin, c.Omax
	}
	res["cfg"] = true
	res["min"] = minPkt
	res["max"] = maxPkt
	pkts := make([][]byte, len(c.Msgs))
	frames := make([][][]byte, len(c.Msgs))
	wrote := make([]bool, len(c.Msgs)) // WriteTo returned success
	var mouts []map[string]any
	deob := func(w []byte) []byte {
		f := make([]byte, 4096)
		k := ob.Deobfuscate(w, f)
		return append([]byte(nil), f[:k]...)
	}
	// the harness's own record of the message ids seen on the wire, per sender: (position of the write among the
	// sender's long-header writes, id).  Two long-header writes less than 256 writes apart must not share an id,
	// whether or not either of them failed half-way.
	type idRec struct {
		seq int
		id  uint8
		mi  int
	}
	idHist := make([][]idRec, len(senders))
	var idWhys []string // reported after the receiver's verdicts, so that a lost / corrupted delivery is named first
	longSeq := make([]int, len(senders))
	for mi, ms := range c.Msgs {
		p := ms.build()
		pkts[mi] = p
		s := senders[ms.Snd]
		before := s.g.msgID.Load()
		s.inner.resetWrites()
		s.inner.fault = nil
		if ms.Fk != "" {
			long := len(p) > 0 && p[0]&0x80 != 0
			fired := false
			s.inner.fault = func(w []byte, call int) bool {
				if fired {
					return false
				}
				hitNow := false
				if ms.Fk == "call" {
					hitNow = call == ms.Fi
				} else if !long {
					hitNow = true
				} else if f := deob(w); len(f) >= 5 && f[0]&0x80 != 0 {
					idx, tot := int(f[2]>>4), int(f[2]&0x0f)
					switch ms.Fk {
					case "first":
						hitNow = idx == 0
					case "last":
						hitNow = idx == tot-1
					case "mid":
						if tot > 2 {
							hitNow = idx == 1+ms.Fi%(tot-2)
						} else {
							hitNow = idx == 1
						}
					case "idx":
						hitNow = tot > 0 && idx == ms.Fi%tot
					}
				}
				fired = fired || hitNow
				return hitNow
			}
		}
		orig := append([]byte(nil), p...)
		n, err := s.g.WriteTo(p, c14Addr(1000000))
		s.inner.fault = nil
		if !bytes.Equal(p, orig) {
			fail("WriteTo modified the caller's packet")
		}
		faulted := s.inner.failedAt >= 0
		wrote[mi] = err == nil
		mo := map[string]any{"n": n, "err": err != nil, "fail": s.inner.failedAt, "ref": ""}
		var fhex []string
		var wire []int
		for _, w := range s.inner.sent {
			wire = append(wire, len(w))
			f := deob(w)
			frames[mi] = append(frames[mi], f)
			fhex = append(fhex, vHex(f))
		}
		var refused []byte
		if faulted {
			refused = deob(s.inner.refused[0])
			mo["ref"] = vHex(refused)
		}
		mo["frames"] = fhex
		mo["wire"] = wire
		mouts = append(mouts, mo)
		// property verdict, sender side
		if faulted {
			if err == nil {
				fail("WriteTo reported success although the inner conn refused one of the packet's datagrams")
			}
		} else if err != nil || n != len(p) {
			fail("WriteTo did not report the whole packet as written")
		}
		if len(p) == 0 {
			if len(frames[mi]) != 0 {
				fail("empty packet produced datagrams")
			}
			continue
		}
		if p[0]&0x80 == 0 {
			if faulted {
				if len(frames[mi]) != 0 {
					fail("short-header packet refused by the inner conn still produced a datagram")
				}
			} else if len(frames[mi]) != 1 || !bytes.Equal(frames[mi][0], p) {
				fail("short-header packet not passed through unchanged as one datagram")
			}
			if s.g.msgID.Load() != before {
				fail("short-header packet consumed a message id")
			}
			continue
		}
		nf := len(frames[mi])
		// number of chunks of this message: the frames on the wire when the write went through, else what the
		// header of the first frame handed down announces
		tot := nf
		if faulted {
			tot = 0
			if nf > 0 && len(frames[mi][0]) >= 5 {
				tot = int(frames[mi][0][2] & 0x0f)
			} else if len(refused) >= 5 {
				tot = int(refused[2] & 0x0f)
			}
			if nf != s.inner.failedAt {
				fail("datagrams were handed down after the inner conn had refused one")
			}
		}
		if tot < 2 || tot > 8 {
			fail("long-header packet sent in " + strconv.Itoa(tot) + " chunks (want 2..8)")
		}
		wantID := uint8(before + 1)
		var cat []byte
		for fi, f := range frames[mi] {
			if len(f) < 5 || f[0]&0x80 == 0 {
				fail("frame without fragment marker")
				continue
			}
			pad := int(f[3])<<8 | int(f[4])
			if 5+pad > len(f) {
				fail("frame shorter than its padding")
				continue
			}
			if f[1] != wantID {
				fail("frame carries message id " + strconv.Itoa(int(f[1])) + ", want " + strconv.Itoa(int(wantID)))
			}
			if int(f[2]>>4) != fi || int(f[2]&0x0f) != tot {
				fail("frame index/total wrong")
			}
			chunk := f[5+pad:]
			cat = append(cat, chunk...)
			if 8+5+len(chunk) <= maxPkt {
				if wire[fi] < minPkt || wire[fi] > maxPkt {
					fail("datagram of " + strconv.Itoa(wire[fi]) + " bytes outside [" + strconv.Itoa(minPkt) + "," + strconv.Itoa(maxPkt) + "] although chunk of " + strconv.Itoa(len(chunk)) + " fits")
				}
			}
			if fi == 0 {
				// ids on the wire, independent of the implementation's counter
				for _, r := range idHist[ms.Snd] {
					if d := longSeq[ms.Snd] - r.seq; d > 0 && d < 256 && r.id == f[1] {
						idWhys = append(idWhys, "long-header packet "+strconv.Itoa(mi)+" went out under message id "+strconv.Itoa(int(f[1]))+", the id of packet "+strconv.Itoa(r.mi)+
							" written "+strconv.Itoa(d)+" long-header write(s) earlier, whose chunk(s) reached the wire")
						break
					}
				}
				idHist[ms.Snd] = append(idHist[ms.Snd], idRec{longSeq[ms.Snd], f[1], mi})
			}
		}
		longSeq[ms.Snd]++
		if !faulted {
			if !bytes.Equal(cat, p) {
				fail("chunks do not concatenate to the packet")
			}
		} else if tot >= 2 {
			// the chunks that went out before the error are the first nf pieces of the packet cut in tot
			want := p
			if nf < tot {
				want = p[:nf*(len(p)/tot)]
			}
			if !bytes.Equal(cat, want) {
				fail("chunks sent before the write error are not the leading chunks of the packet")
			}
		}
	}
	res["msgs"] = mouts

	// ---------------- receiver side
	t0 := time.Now()
	rin := &c14Inner{failedAt: -1}
	g := newGeckoPacketConn(rin, minPkt, maxPkt)
	defer g.Close()
	synctest.Wait() // gcLoop has created its ticker at t0
	rbuf := make([]byte, c.Rbuf)
	steps := make([][]int64, 0, len(c.Ops))
	delivered := map[[2]int]bool{}
	period := int64(geckoReassemblyTTL / 2)
	ttl := int64(geckoReassemblyTTL)
	// the harness's own record of the pending messages: who they are (entry pointer), when they were first seen,
	// how many datagrams were fed under their key since, and whether a sweep later than first-seen + TTL has passed
	type bornT struct {
		e       *reassemblyEntry
		t       int64
		replays int
		lastRep int64
		overdue bool
	}
	born := map[reassemblyKey]*bornT{}
	var whys []string
	failAll := func(s string) {
		fail(s)
		if len(whys) < 6 {
			whys = append(whys, s)
		}
	}
	defer func() { res["whys"] = whys }()
	// note the entry under k (called after every datagram fed under k; entries are only ever created that way)
	track := func(k reassemblyKey) {
		now := int64(time.Since(t0))
		g.mu.Lock()
		e, ok := g.reassembly[k]
		g.mu.Unlock()
		if !ok {
			delete(born, k)
			return
		}
		if b, ok := born[k]; ok && b.e == e {
			b.replays++
			b.lastRep = now
			return
		}
		born[k] = &bornT{e: e, t: now}
	}
	// after a sweep at time T (gc tick or direct gcExpired): nothing first seen before T - TTL may remain
	ttlFlagged := false
	sweepCheck := func(T int64, what string, si int) {
		now := int64(time.Since(t0))
		g.mu.Lock()
		defer g.mu.Unlock()
		for k, e := range g.reassembly {
			b, ok := born[k]
			if !ok || b.e != e {
				born[k] = &bornT{e: e, t: now}
				continue
			}
			if T > b.t+ttl {
				b.overdue = true
				if !ttlFlagged {
					ttlFlagged = true
					failAll("incomplete message (source " + k.addr + ", id " + strconv.Itoa(int(k.msgID)) + ") first seen at " + strconv.FormatInt(b.t, 10) +
						" ns is still pending after the " + what + " at " + strconv.FormatInt(T, 10) + " ns (TTL " + strconv.FormatInt(ttl, 10) + " ns); " +
						strconv.Itoa(b.replays) + " further datagram(s) arrived under its key, the last at " + strconv.FormatInt(b.lastRep, 10) +
						" ns (step " + strconv.Itoa(si) + ")")
				}
			}
		}
	}
	for si, op := range c.Ops {
		if op.D > 0 {
			time.Sleep(time.Duration(op.D))
			synctest.Wait()
			// TTL with the gc loop: nothing older than the last tick may remain
			now := int64(time.Since(t0))
			last := now / period * period
			if last > 0 {
				g.mu.Lock()
				for _, e := range g.reassembly {
					if int64(e.deadline.Sub(t0)) < last {
						fail("entry with deadline before the last gc tick still pending (step " + strconv.Itoa(si) + ")")
						break
					}
				}
				g.mu.Unlock()
				sweepCheck(last, "gc tick", si)
			}
		}
		row := []int64{0, 0, 0, 0, 0, 0, 0}
		var dg []byte
		gecko := false
		atCap := false
		switch op.O {
		case "t":
		case "g":
			at := t0.Add(time.Duration(op.T))
			g.gcExpired(at)
			g.mu.Lock()
			for _, e := range g.reassembly {
				if at.After(e.deadline) {
					fail("entry past its deadline survives gcExpired (step " + strconv.Itoa(si) + ")")
					break
				}
			}
			g.mu.Unlock()
			sweepCheck(op.T, "gcExpired call", si)
		case "f", "x":
			fs := frames[op.M]
			if len(fs) == 0 {
				break
			}
			dg = append([]byte(nil), fs[op.I%len(fs)]...)
			if op.O == "x" && len(dg) > 0 {
				dg[op.At%len(dg)] = byte(op.V)
			}
		case "e":
			// frame with exactly this index, nothing (an empty datagram) when the message has fewer frames on the wire
			if fs := frames[op.M]; op.I < len(fs) {
				dg = append([]byte(nil), fs[op.I]...)
			}
		case "p":
			dg = vUnhex(op.H)
		}
		if op.O == "f" || op.O == "x" || op.O == "p" || op.O == "e" {
			src := c14Addr(op.S)
			// expectation for no-lock-out, computed before the step
			expectKey := false
			var wantKey reassemblyKey
			tr := dg
			if len(tr) > 2048 {
				tr = tr[:2048]
			}
			if len(tr) > 0 && tr[0]&0x80 != 0 {
				gecko = true
				if h, _, err := decodeFrame(tr); err == nil {
					wantKey = reassemblyKey{addr: src.String(), msgID: h.msgID}
					g.mu.Lock()
					if _, exists := g.reassembly[wantKey]; !exists {
						n := 0
						for k, e := range g.reassembly {
							if k.addr == wantKey.addr {
								// an entry that a sweep should already have removed does not count against the source
								if b, ok := born[k]; ok && b.e == e && b.overdue {
									continue
								}
								n++
							}
						}
						expectKey = n < 8
					}
					g.mu.Unlock()
				}
			}
			var snap map[reassemblyKey]struct{}
			g.mu.Lock()
			if len(g.reassembly) >= geckoMaxReassembly {
				atCap = true
				snap = make(map[reassemblyKey]struct{}, len(g.reassembly))
				for k := range g.reassembly {
					snap[k] = struct{}{}
				}
			}
			g.mu.Unlock()
			rin.q = append(rin.q, c14Dg{src, dg})
			n, addr, err := g.ReadFrom(rbuf)
			if len(rin.q) != 0 {
				fail("ReadFrom returned without consuming the datagram")
				rin.q = nil
			}
			if err == nil {
				outp := rbuf[:n]
				row[0] = int64(n) + 1
				row[1] = int64(vDigest(outp))
				if addr == nil || addr.String() != src.String() {
					fail("packet returned with the wrong source address")
				}
				if !gecko {
					want := tr
					if len(want) > len(rbuf) {
						want = want[:len(rbuf)]
					}
					if !bytes.Equal(outp, want) {
						fail("short-header packet not passed through unchanged")
					}
				} else {
					hit, hitWritten := false, false
					for mi, p := range pkts {
						w := p
						if len(w) > len(rbuf) {
							w = w[:len(rbuf)]
						}
						if len(p) > 0 && p[0]&0x80 != 0 && bytes.Equal(outp, w) {
							hit = true
							hitWritten = hitWritten || wrote[mi]
							if (op.O == "f" || op.O == "e") && op.M == mi {
								delivered[[2]int{mi, op.S}] = true
							}
						}
					}
					if c.Distinct && !hit {
						fail("reassembler emitted a packet that was never sent (step " + strconv.Itoa(si) + ")")
					} else if c.Distinct && !hitWritten {
						fail("reassembler emitted a packet whose write failed before all of its chunks were sent (step " + strconv.Itoa(si) + ")")
					}
				}
			} else if err != errC14Empty {
				fail("ReadFrom error: " + err.Error())
			} else if !gecko && len(dg) > 0 {
				fail("short-header packet swallowed")
			}
			if snap != nil {
				g.mu.Lock()
				for k := range snap {
					if _, still := g.reassembly[k]; !still {
						row[5] = int64(c14SrcNum(k.addr)) + 1
						row[6] = int64(k.msgID)
						break
					}
				}
				g.mu.Unlock()
			}
			if expectKey {
				g.mu.Lock()
				_, present := g.reassembly[wantKey]
				g.mu.Unlock()
				if !present {
					failAll("source " + src.String() + " refused although it holds fewer than 8 pending messages that are not yet due (step " + strconv.Itoa(si) + ")")
				}
			}
			if len(tr) >= 2 && tr[0]&0x80 != 0 {
				track(reassemblyKey{addr: src.String(), msgID: tr[1]})
			}
			g.mu.Lock()
			row[4] = int64(g.perSource[src.String()])
			g.mu.Unlock()
		}
		g.mu.Lock()
		row[2] = int64(len(g.reassembly))
		row[3] = int64(len(g.perSource))
		big := len(g.reassembly) > 256
		g.mu.Unlock()
		if row[2] > 4096 {
			fail("more than 4096 pending messages")
		}
		if row[4] > 8 {
			fail("more than 8 pending messages for one source")
		}
		// the full census is O(table): on big tables only every 64th step, at the end, and after every
		// step that ran at the global cap (snapshot taken => an eviction may have happened)
		if !big || si%64 == 0 || si == len(c.Ops)-1 || atCap {
			if w := c14Census(g); w != "" {
				fail(w + " (step " + strconv.Itoa(si) + ")")
			}
		}
		steps = append(steps, row)
	}
	res["steps"] = steps
	res["now"] = int64(time.Since(t0))
	// final table dump
	g.mu.Lock()
	final := make([][]int64, 0, len(g.reassembly))
	for k, e := range g.reassembly {
		bm := int64(0)
		for i, ch := range e.chunks {
			if ch != nil {
				bm |= 1 << uint(i)
			}
		}
		final = append(final, []int64{int64(c14SrcNum(k.addr)), int64(k.msgID), int64(e.total), int64(e.received), int64(e.deadline.Sub(t0)), bm})
	}
	g.mu.Unlock()
	sort.Slice(final, func(i, j int) bool {
		if final[i][0] != final[j][0] {
			return final[i][0] < final[j][0]
		}
		return final[i][1] < final[j][1]
	})
	res["final"] = final
	must := c.Must
	if c.AutoMust {
		// every long-header packet whose WriteTo returned success must come out at every source from which all
		// of its frames were fed
		for mi, p := range pkts {
			if !wrote[mi] || len(p) == 0 || p[0]&0x80 == 0 || len(frames[mi]) == 0 {
				continue
			}
			fed := map[int]map[int]bool{}
			for _, op := range c.Ops {
				if (op.O == "f" || op.O == "e") && op.M == mi {
					if fed[op.S] == nil {
						fed[op.S] = map[int]bool{}
					}
					if op.O == "f" {
						fed[op.S][op.I%len(frames[mi])] = true
					} else if op.I < len(frames[mi]) {
						fed[op.S][op.I] = true
					}
				}
			}
			var srcs []int
			for src, set := range fed {
				if len(set) == len(frames[mi]) {
					srcs = append(srcs, src)
				}
			}
			sort.Ints(srcs)
			for _, src := range srcs {
				must = append(must, [2]int{mi, src})
			}
		}
		res["must"] = must
	}
	for _, m := range must {
		if !delivered[m] {
			fail("message " + strconv.Itoa(m[0]) + " from source " + strconv.Itoa(m[1]) + " was not delivered although its write succeeded and all its chunks arrived in time")
		}
	}
	for _, w := range idWhys {
		fail(w)
	}
}
