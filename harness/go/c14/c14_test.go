//go:build verif

package obfs

// C14 harness: Gecko (extras/obfs/gecko.go, gecko_frame.go) of /repo's working tree.
//
// Sender side: packets are written through a real WrapPacketConnGecko stack over an in-memory
// conn; the wire datagram sizes are recorded and the inner frames recovered by de-obfuscating the
// wire datagrams with the real Salamander obfuscator.
// Receiver side: a real geckoPacketConn (with its real gcLoop goroutine) runs inside a
// testing/synctest bubble (fake clock) over an in-memory inner conn; the operation list of the case
// (frames of the sent messages from arbitrary fake sources, raw datagrams, mutated frames, sleeps,
// direct gcExpired calls) is fed one datagram at a time and after every operation the emitted packet,
// len(reassembly), len(perSource) and perSource[src] are recorded, plus the evicted key when the
// table was at its cap, plus a dump of the table at the end.
// The property's own verdict (ok/why) is evaluated on the implementation alone.
// The TTL and no-lock-out clauses are evaluated against the harness's OWN record of when each pending message was
// first seen (entry identity = the *reassemblyEntry pointer, time = the bubble's clock at the feeding step), never
// against the implementation's deadline field: an incomplete message first seen at t must be gone after the first
// sweep later than t + TTL whatever arrived in between (replayed duplicates, further chunks, frames with another
// chunk count), and a source is refused only while it has 8 pending messages that are not yet due.
//
// SOURCES.  A source is a value of net.Addr.String() (computed here, on real net.Addr values built from the case's
// address table: *net.UDPAddr / *net.TCPAddr / *net.IPAddr / *net.UnixAddr, a nil *net.UDPAddr, a custom type):
// different String() = different sources, equal String() = one source, whatever else the values share or not.
// The harness's record of the pending messages says WHOSE each entry is (the String() of the source whose datagram
// opened it; the entry is identified by pointer, found under the source's String() when the table is keyed that
// way and otherwise as the one entry not met before - so the clauses below do not depend on how the implementation
// spells its keys).  Cross-source clauses, on the implementation alone: a packet comes out for source S only if
// every one of its chunks was fed from S, and with the very net.Addr value of the datagram that completed it; every
// complete set of chunks fed from one source comes out; a datagram from S never adds a chunk to, nor removes, a
// pending message of another source (tables of up to 64 entries), and never opens a second pending message under
// an id S already has pending; the budget of 8 is per String().  Two different messages fed from ONE source under
// one message id are outside the hypothesis (the delivery clauses are silent for that id; the model is not).

import (
	"bytes"
	"encoding/json"
	"errors"
	"net"
	"sort"
	"strconv"
	"testing"
	"testing/synctest"
	"time"
)

type c14Addr int

func (a c14Addr) Network() string { return "c14" }
func (a c14Addr) String() string  { return "s" + strconv.Itoa(int(a)) }

// c14StrAddr: a net.Addr that is not one of package net's types; Network() and String() are whatever the case says
// (so two values can agree on every "IP and port" reading and still differ in String(), or differ in Network()
// and agree in String()).
type c14StrAddr struct{ network, str string }

func (a c14StrAddr) Network() string { return a.network }
func (a c14StrAddr) String() string  { return a.str }

// c14AddrSpec: one row of a case's source-address table (source number = row index).  The harness builds the
// net.Addr VALUE; what its String() is, is decided by the Go code under test's own standard library, never by
// the generator.
//   t = "udp" / "tcp": *net.UDPAddr / *net.TCPAddr {IP: the bytes of ip (0, 4, 16 or any other number), Port, Zone}
//   t = "ip": *net.IPAddr {IP, Zone};  t = "unix": *net.UnixAddr {Name, Net};  t = "str": c14StrAddr {Net, Name}
//   t = "udpnil": a nil *net.UDPAddr inside a non-nil net.Addr;  t = "" / "fake": c14Addr(row index)
// g is the generator's CLAIM of the String() class (equal g <=> equal String()); the harness checks the claim
// against the real String() values and fails the case when it is wrong.
type c14AddrSpec struct {
	T    string `json:"t"`
	IP   string `json:"ip"`
	Port int    `json:"port"`
	Zone string `json:"zone"`
	Name string `json:"name"`
	Net  string `json:"net"`
	G    int    `json:"g"`
}

func (sp c14AddrSpec) build(i int) net.Addr {
	var ip net.IP
	if sp.IP != "" {
		ip = net.IP(vUnhex(sp.IP))
	}
	switch sp.T {
	case "udp":
		return &net.UDPAddr{IP: ip, Port: sp.Port, Zone: sp.Zone}
	case "tcp":
		return &net.TCPAddr{IP: ip, Port: sp.Port, Zone: sp.Zone}
	case "ip":
		return &net.IPAddr{IP: ip, Zone: sp.Zone}
	case "unix":
		return &net.UnixAddr{Name: sp.Name, Net: sp.Net}
	case "str":
		return c14StrAddr{sp.Net, sp.Name}
	case "udpnil":
		return (*net.UDPAddr)(nil)
	}
	return c14Addr(i)
}

var errC14Empty = errors.New("c14: nothing queued")

type c14Dg struct {
	src  net.Addr
	data []byte
}

// c14Inner is the in-memory inner conn: ReadFrom pops queued datagrams (error when empty, so that
// ReadFrom of the conn under test returns instead of blocking), WriteTo records.
//
// Inner write errors: fault (when set) is asked for every datagram handed down; when it answers true the
// datagram does NOT reach the wire and WriteTo returns an error.  calls counts the WriteTo calls since the
// last reset, failedAt is the index of the first refused call (-1: none), refused the datagrams refused.
type c14Inner struct {
	q        []c14Dg
	sent     [][]byte
	fault    func(p []byte, call int) bool
	calls    int
	failedAt int
	refused  [][]byte
}

var errC14Write = errors.New("c14: sendto: no buffer space available")

func (c *c14Inner) resetWrites() {
	c.sent, c.refused, c.calls, c.failedAt = nil, nil, 0, -1
}

func (c *c14Inner) ReadFrom(p []byte) (int, net.Addr, error) {
	if len(c.q) == 0 {
		return 0, nil, errC14Empty
	}
	d := c.q[0]
	c.q = c.q[1:]
	return copy(p, d.data), d.src, nil
}

func (c *c14Inner) WriteTo(p []byte, _ net.Addr) (int, error) {
	call := c.calls
	c.calls++
	if c.fault != nil && c.fault(p, call) {
		if len(c.refused) == 0 {
			c.failedAt = call
		}
		c.refused = append(c.refused, append([]byte(nil), p...))
		return 0, errC14Write
	}
	c.sent = append(c.sent, append([]byte(nil), p...))
	return len(p), nil
}
func (c *c14Inner) Close() error                     { return nil }
func (c *c14Inner) LocalAddr() net.Addr              { return c14Addr(-1) }
func (c *c14Inner) SetDeadline(time.Time) error      { return nil }
func (c *c14Inner) SetReadDeadline(time.Time) error  { return nil }
func (c *c14Inner) SetWriteDeadline(time.Time) error { return nil }

type c14Sender struct {
	Ctr0 uint32 `json:"ctr0"`
}

type c14MsgSpec struct {
	Snd   int    `json:"snd"`
	Len   int    `json:"len"`
	A     uint64 `json:"a"`
	B     uint64 `json:"b"`
	First int    `json:"first"`
	// inner write error injected into this WriteTo call: "" none; for a long-header packet the refused
	// datagram is the chunk with index 0 ("first"), total-1 ("last"), 1+fi%(total-2) ("mid", = last when
	// total is 2), fi%total ("idx"); "call": the fi-th inner WriteTo call of this WriteTo (never reached when
	// fi >= total).  A short-header packet has one datagram: any kind but "call" with fi > 0 refuses it.
	Fk string `json:"fk"`
	Fi int    `json:"fi"`
	// Tot > 0 (only without an injected fault): the write is repeated on the real sender, with the message counter
	// put back, until crypto/rand happens to cut the packet into exactly Tot chunks (rejection sampling of the
	// implementation's own draw; at most 400 attempts, expected 7), so that messages of DIFFERENT senders can be
	// given the same message id and the same chunk count
	Tot int `json:"tot"`
}

func (m c14MsgSpec) build() []byte {
	p := vGenData(m.A, m.B, m.Len)
	if len(p) > 0 {
		p[0] = byte(m.First)
	}
	return p
}

type c14Op struct {
	O  string `json:"o"`
	D  int64  `json:"d"`
	S  int    `json:"s"`
	M  int    `json:"m"`
	I  int    `json:"i"`
	At int    `json:"at"`
	V  int    `json:"v"`
	H  string `json:"h"`
	T  int64  `json:"t"`
}

type c14Case struct {
	K        string       `json:"k"`
	Omin     int          `json:"omin"`
	Omax     int          `json:"omax"`
	Rbuf     int          `json:"rbuf"`
	Senders  []c14Sender  `json:"senders"`
	Msgs     []c14MsgSpec `json:"msgs"`
	Ops      []c14Op      `json:"ops"`
	Must     [][2]int     `json:"must"` // (message index, source) pairs that must be delivered
	Distinct bool         `json:"distinct"`
	Hex      string       `json:"hex"`
	// AutoMust: the harness itself lists what must be delivered: every long-header packet whose WriteTo returned
	// success, at every source from which all of its frames are fed (the generator keeps such histories
	// inside one TTL window with at most 7 message ids per source, so nothing may be refused or expired)
	AutoMust bool `json:"automust"`
	// Addrs: the source-address table.  Empty: source number s is the harness's own c14Addr(s) (String() = "s<s>").
	// Otherwise every source number used by the operations is a row index.  A SOURCE, for every verdict below, is a
	// String() value: two rows with equal String() are one source, two rows with different String() are two.
	Addrs []c14AddrSpec `json:"addrs"`
}

const c14PSK = "c14-verif-password"

func TestVerifC14(t *testing.T) {
	vParams(t, [][3]string{
		{"geckoReassemblyTTLns", "Z", strconv.FormatInt(int64(geckoReassemblyTTL), 10)},
		{"geckoMaxReassembly", "Z", strconv.Itoa(geckoMaxReassembly)},
		{"geckoMaxPerSource", "Z", strconv.Itoa(geckoMaxPerSource)},
		{"geckoBufferSize", "Z", strconv.Itoa(geckoBufferSize)},
		{"geckoDefaultMinPacket", "Z", strconv.Itoa(geckoDefaultMinPacket)},
		{"geckoDefaultMaxPacket", "Z", strconv.Itoa(geckoDefaultMaxPacket)},
		{"geckoFlagFragment", "N", strconv.Itoa(geckoFlagFragment)},
		{"geckoHeaderSize", "Z", strconv.Itoa(geckoHeaderSize)},
		{"geckoMinFragmentChunks", "Z", strconv.Itoa(geckoMinFragmentChunks)},
		{"geckoMaxFragmentChunks", "Z", strconv.Itoa(geckoMaxFragmentChunks)},
		{"smSaltLen", "Z", strconv.Itoa(smSaltLen)},
	})
	out := vOpenOut(t, "VERIF_OUT")
	defer out.Close()
	for i, raw := range vReadCases(t) {
		var c c14Case
		if err := json.Unmarshal(raw, &c); err != nil {
			t.Fatal(err)
		}
		res := map[string]any{"i": i, "k": c.K}
		switch c.K {
		case "seq":
			synctest.Test(t, func(t *testing.T) {
				p, msg := vCatch(func() { c14Seq(c, res) })
				if p {
					res["panic"] = true
					res["ok"] = false
					res["why"] = "panic: " + msg
				}
			})
		case "dec":
			c14Dec(c, res)
		case "cfg":
			c14Cfg(c, res)
		default:
			t.Fatalf("unknown case kind %q", c.K)
		}
		out.Emit(res)
	}
}

// decodeFrame on raw bytes: never panics; header fields and payload digest
func c14Dec(c c14Case, res map[string]any) {
	b := vUnhex(c.Hex)
	var h frameHeader
	var pl []byte
	var err error
	p, msg := vCatch(func() { h, pl, err = decodeFrame(b) })
	res["panic"] = p
	res["ok"] = !p
	res["why"] = ""
	if p {
		res["why"] = "panic in decodeFrame: " + msg
		return
	}
	switch {
	case err == nil:
		res["dec"] = []uint64{uint64(h.padLen), uint64(h.msgID), uint64(h.chunkIdx), uint64(h.totalChunks), uint64(len(pl)), vDigest(pl)}
		// a decoded header must satisfy the documented ranges and the payload must be the tail
		if h.totalChunks < 2 || h.totalChunks > 8 || h.chunkIdx >= h.totalChunks || 5+int(h.padLen)+len(pl) != len(b) {
			res["ok"] = false
			res["why"] = "decodeFrame accepted a header outside the documented ranges"
		}
	case errors.Is(err, errFrameTruncated):
		res["err"] = "short"
	default:
		res["err"] = "invalid"
	}
}

func c14Cfg(c c14Case, res map[string]any) {
	inner := &c14Inner{failedAt: -1}
	var pc net.PacketConn
	var err error
	p, msg := vCatch(func() {
		pc, err = WrapPacketConnGecko(inner, GeckoOptions{Password: []byte(c14PSK), MinPacketSize: c.Omin, MaxPacketSize: c.Omax})
	})
	res["ok"] = !p
	res["why"] = ""
	if p {
		res["why"] = "panic in WrapPacketConnGecko: " + msg
		return
	}
	if err != nil {
		res["cfg"] = false
		return
	}
	g := pc.(*geckoPacketConn)
	res["cfg"] = true
	res["min"] = g.minPkt
	res["max"] = g.maxPkt
	if g.minPkt <= 0 || g.minPkt > g.maxPkt || g.maxPkt > 2048 {
		res["ok"] = false
		res["why"] = "accepted configuration outside 0 < min <= max <= 2048"
	}
	_ = g.Close()
}

type c14Snap struct {
	keys map[reassemblyKey]struct{}
}

func c14SrcNum(addr string) int {
	n, _ := strconv.Atoi(addr[1:])
	return n
}

// census: perSource equals the per-source count of table entries, no zero entries, caps hold
func c14Census(g *geckoPacketConn) string {
	g.mu.Lock()
	defer g.mu.Unlock()
	if len(g.reassembly) > 4096 {
		return "more than 4096 pending messages: " + strconv.Itoa(len(g.reassembly))
	}
	cnt := map[string]int{}
	for k := range g.reassembly {
		cnt[k.addr]++
	}
	for a, n := range cnt {
		if n > 8 {
			return "more than 8 pending messages for source " + a
		}
		if g.perSource[a] != n {
			return "perSource[" + a + "]=" + strconv.Itoa(g.perSource[a]) + " but the table holds " + strconv.Itoa(n)
		}
	}
	for a, n := range g.perSource {
		if n <= 0 {
			return "perSource keeps a non-positive entry for " + a
		}
		if cnt[a] != n {
			return "perSource[" + a + "]=" + strconv.Itoa(n) + " but the table holds " + strconv.Itoa(cnt[a])
		}
	}
	return ""
}

func c14Seq(c c14Case, res map[string]any) {
	ok, why := true, ""
	var fails []string // every distinct clause that failed (the first one is the verdict's reason)
	fail := func(s string) {
		if ok {
			ok, why = false, s
		}
		if len(fails) < 8 {
			for _, f := range fails {
				if f == s {
					return
				}
			}
			fails = append(fails, s)
		}
	}
	defer func() {
		res["ok"] = ok
		res["why"] = why
		if len(fails) > 1 {
			res["fails"] = fails
		}
	}()

	// ---------------- sender side
	type sender struct {
		g     *geckoPacketConn
		inner *c14Inner
	}
	ob, _ := newSalamanderObfuscator([]byte(c14PSK))
	senders := make([]sender, len(c.Senders))
	var minPkt, maxPkt int
	for i, s := range c.Senders {
		inner := &c14Inner{failedAt: -1}
		pc, err := WrapPacketConnGecko(inner, GeckoOptions{Password: []byte(c14PSK), MinPacketSize: c.Omin, MaxPacketSize: c.Omax})
		if err != nil {
			res["cfg"] = false
			return
		}
		g := pc.(*geckoPacketConn)
		g.msgID.Store(s.Ctr0)
		senders[i] = sender{g, inner}
		minPkt, maxPkt = g.minPkt, g.maxPkt
	}
	defer func() {
		for _, s := range senders {
			_ = s.g.Close()
		}
	}()
	if len(senders) == 0 {
		minPkt, maxPkt = c.Omin, c.Omax
	}
	res["cfg"] = true
	res["min"] = minPkt
	res["max"] = maxPkt
	pkts := make([][]byte, len(c.Msgs))
	frames := make([][][]byte, len(c.Msgs))
	wrote := make([]bool, len(c.Msgs)) // WriteTo returned success
	var mouts []map[string]any
	deob := func(w []byte) []byte {
		f := make([]byte, 4096)
		k := ob.Deobfuscate(w, f)
		return append([]byte(nil), f[:k]...)
	}
	// the harness's own record of the message ids seen on the wire, per sender: (position of the write among the
	// sender's long-header writes, id).  Two long-header writes less than 256 writes apart must not share an id,
	// whether or not either of them failed half-way.
	type idRec struct {
		seq int
		id  uint8
		mi  int
	}
	idHist := make([][]idRec, len(senders))
	var idWhys []string // reported after the receiver's verdicts, so that a lost / corrupted delivery is named first
	longSeq := make([]int, len(senders))
	for mi, ms := range c.Msgs {
		p := ms.build()
		pkts[mi] = p
		s := senders[ms.Snd]
		before := s.g.msgID.Load()
		s.inner.resetWrites()
		s.inner.fault = nil
		if ms.Fk != "" {
			long := len(p) > 0 && p[0]&0x80 != 0
			fired := false
			s.inner.fault = func(w []byte, call int) bool {
				if fired {
					return false
				}
				hitNow := false
				if ms.Fk == "call" {
					hitNow = call == ms.Fi
				} else if !long {
					hitNow = true
				} else if f := deob(w); len(f) >= 5 && f[0]&0x80 != 0 {
					idx, tot := int(f[2]>>4), int(f[2]&0x0f)
					switch ms.Fk {
					case "first":
						hitNow = idx == 0
					case "last":
						hitNow = idx == tot-1
					case "mid":
						if tot > 2 {
							hitNow = idx == 1+ms.Fi%(tot-2)
						} else {
							hitNow = idx == 1
						}
					case "idx":
						hitNow = tot > 0 && idx == ms.Fi%tot
					}
				}
				fired = fired || hitNow
				return hitNow
			}
		}
		orig := append([]byte(nil), p...)
		var n int
		var err error
		for attempt := 0; ; attempt++ {
			n, err = s.g.WriteTo(p, c14Addr(1000000))
			if ms.Tot <= 0 || ms.Fk != "" || err != nil || len(p) == 0 || p[0]&0x80 == 0 || len(s.inner.sent) == ms.Tot || attempt >= 400 {
				break
			}
			s.g.msgID.Store(before) // the draw did not give the wanted chunk count: undo, write again
			s.inner.resetWrites()
		}
		s.inner.fault = nil
		if !bytes.Equal(p, orig) {
			fail("WriteTo modified the caller's packet")
		}
		faulted := s.inner.failedAt >= 0
		wrote[mi] = err == nil
		mo := map[string]any{"n": n, "err": err != nil, "fail": s.inner.failedAt, "ref": ""}
		var fhex []string
		var wire []int
		for _, w := range s.inner.sent {
			wire = append(wire, len(w))
			f := deob(w)
			frames[mi] = append(frames[mi], f)
			fhex = append(fhex, vHex(f))
		}
		var refused []byte
		if faulted {
			refused = deob(s.inner.refused[0])
			mo["ref"] = vHex(refused)
		}
		mo["frames"] = fhex
		mo["wire"] = wire
		mouts = append(mouts, mo)
		// property verdict, sender side
		if faulted {
			if err == nil {
				fail("WriteTo reported success although the inner conn refused one of the packet's datagrams")
			}
		} else if err != nil || n != len(p) {
			fail("WriteTo did not report the whole packet as written")
		}
		if len(p) == 0 {
			if len(frames[mi]) != 0 {
				fail("empty packet produced datagrams")
			}
			continue
		}
		if p[0]&0x80 == 0 {
			if faulted {
				if len(frames[mi]) != 0 {
					fail("short-header packet refused by the inner conn still produced a datagram")
				}
			} else if len(frames[mi]) != 1 || !bytes.Equal(frames[mi][0], p) {
				fail("short-header packet not passed through unchanged as one datagram")
			}
			if s.g.msgID.Load() != before {
				fail("short-header packet consumed a message id")
			}
			continue
		}
		nf := len(frames[mi])
		// number of chunks of this message: the frames on the wire when the write went through, else what the
		// header of the first frame handed down announces
		tot := nf
		if faulted {
			tot = 0
			if nf > 0 && len(frames[mi][0]) >= 5 {
				tot = int(frames[mi][0][2] & 0x0f)
			} else if len(refused) >= 5 {
				tot = int(refused[2] & 0x0f)
			}
			if nf != s.inner.failedAt {
				fail("datagrams were handed down after the inner conn had refused one")
			}
		}
		if tot < 2 || tot > 8 {
			fail("long-header packet sent in " + strconv.Itoa(tot) + " chunks (want 2..8)")
		}
		wantID := uint8(before + 1)
		var cat []byte
		for fi, f := range frames[mi] {
			if len(f) < 5 || f[0]&0x80 == 0 {
				fail("frame without fragment marker")
				continue
			}
			pad := int(f[3])<<8 | int(f[4])
			if 5+pad > len(f) {
				fail("frame shorter than its padding")
				continue
			}
			if f[1] != wantID {
				fail("frame carries message id " + strconv.Itoa(int(f[1])) + ", want " + strconv.Itoa(int(wantID)))
			}
			if int(f[2]>>4) != fi || int(f[2]&0x0f) != tot {
				fail("frame index/total wrong")
			}
			chunk := f[5+pad:]
			cat = append(cat, chunk...)
			if 8+5+len(chunk) <= maxPkt {
				if wire[fi] < minPkt || wire[fi] > maxPkt {
					fail("datagram of " + strconv.Itoa(wire[fi]) + " bytes outside [" + strconv.Itoa(minPkt) + "," + strconv.Itoa(maxPkt) + "] although chunk of " + strconv.Itoa(len(chunk)) + " fits")
				}
			}
			if fi == 0 {
				// ids on the wire, independent of the implementation's counter
				for _, r := range idHist[ms.Snd] {
					if d := longSeq[ms.Snd] - r.seq; d > 0 && d < 256 && r.id == f[1] {
						idWhys = append(idWhys, "long-header packet "+strconv.Itoa(mi)+" went out under message id "+strconv.Itoa(int(f[1]))+", the id of packet "+strconv.Itoa(r.mi)+
							" written "+strconv.Itoa(d)+" long-header write(s) earlier, whose chunk(s) reached the wire")
						break
					}
				}
				idHist[ms.Snd] = append(idHist[ms.Snd], idRec{longSeq[ms.Snd], f[1], mi})
			}
		}
		longSeq[ms.Snd]++
		if !faulted {
			if !bytes.Equal(cat, p) {
				fail("chunks do not concatenate to the packet")
			}
		} else if tot >= 2 {
			// the chunks that went out before the error are the first nf pieces of the packet cut in tot
			want := p
			if nf < tot {
				want = p[:nf*(len(p)/tot)]
			}
			if !bytes.Equal(cat, want) {
				fail("chunks sent before the write error are not the leading chunks of the packet")
			}
		}
	}
	res["msgs"] = mouts

	// ---------------- source addresses
	// A source is a String() value (computed here, by the standard library the code under test is built with).
	tabled := len(c.Addrs) > 0
	addrs := make([]net.Addr, len(c.Addrs))
	names := make([]string, len(c.Addrs))
	firstOf := map[string]int{} // String() -> first row of the table with that String()
	for i, sp := range c.Addrs {
		addrs[i] = sp.build(i)
		names[i] = addrs[i].String()
		if _, seen := firstOf[names[i]]; !seen {
			firstOf[names[i]] = i
		}
	}
	if tabled {
		hx := make([]string, len(names))
		for i, nm := range names {
			hx[i] = vHex([]byte(nm))
		}
		res["names"] = hx
		for i := range names {
			for j := i + 1; j < len(names); j++ {
				if (names[i] == names[j]) != (c.Addrs[i].G == c.Addrs[j].G) {
					fail("address table: the generator's class claim for rows " + strconv.Itoa(i) + " and " + strconv.Itoa(j) + " disagrees with net.Addr.String(): " +
						strconv.Quote(names[i]) + " / " + strconv.Quote(names[j]))
				}
			}
		}
		for _, op := range c.Ops {
			if (op.O == "f" || op.O == "x" || op.O == "p" || op.O == "e") && (op.S < 0 || op.S >= len(addrs)) {
				fail("generator: source " + strconv.Itoa(op.S) + " outside the address table")
				return
			}
		}
	}
	addrOf := func(s int) net.Addr {
		if tabled {
			return addrs[s]
		}
		return c14Addr(s)
	}
	// canonical source number of source number s: the first row with the same String() (s itself without a table:
	// "s<decimal>" is injective)
	canon := func(s int) int {
		if tabled && s >= 0 && s < len(names) {
			return firstOf[names[s]]
		}
		return s
	}
	// source number of a key of the implementation's table, for the comparison with the model
	srcNum := func(a string) int64 {
		if tabled {
			if i, known := firstOf[a]; known {
				return int64(i)
			}
			return 1 << 40 // not the String() of any source of the case
		}
		return int64(c14SrcNum(a))
	}
	// message ids per source (String()): two different messages fed from ONE source under one id are outside the
	// property's hypothesis (pending messages of one source carry distinct ids); only the model speaks about those
	idsFed := map[string]map[uint8]map[int]bool{}
	for _, op := range c.Ops {
		if (op.O == "f" || op.O == "e" || op.O == "x") && op.M >= 0 && op.M < len(frames) && len(frames[op.M]) > 0 &&
			len(frames[op.M][0]) >= 2 && len(pkts[op.M]) > 0 && pkts[op.M][0]&0x80 != 0 {
			ss := addrOf(op.S).String()
			id := frames[op.M][0][1]
			if idsFed[ss] == nil {
				idsFed[ss] = map[uint8]map[int]bool{}
			}
			if idsFed[ss][id] == nil {
				idsFed[ss][id] = map[int]bool{}
			}
			idsFed[ss][id][op.M] = true
		}
	}
	clash := func(src string, id uint8) bool { return len(idsFed[src][id]) > 1 }

	// ---------------- receiver side
	t0 := time.Now()
	rin := &c14Inner{failedAt: -1}
	g := newGeckoPacketConn(rin, minPkt, maxPkt)
	defer g.Close()
	synctest.Wait() // gcLoop has created its ticker at t0
	rbuf := make([]byte, c.Rbuf)
	steps := make([][]int64, 0, len(c.Ops))
	delivered := map[[2]int]bool{}
	period := int64(geckoReassemblyTTL / 2)
	ttl := int64(geckoReassemblyTTL)
	// the harness's own record of the pending messages: which entry (pointer), WHOSE it is (the String() of the source
	// whose datagram created it, and the message id of that datagram - not the implementation's key), when it was
	// first seen, how many datagrams of that source arrived under that id since, and whether a sweep later than
	// first-seen + TTL has passed.  ik is where the implementation keeps it (only used to ask "is it still there").
	type hkey struct {
		src string
		id  uint8
	}
	type bornT struct {
		e       *reassemblyEntry
		ik      reassemblyKey
		src     string
		id      uint8
		known   bool // src/id known (false: an entry first met during a sweep)
		t       int64
		replays int
		lastRep int64
		overdue bool
	}
	born := map[*reassemblyEntry]*bornT{}
	byKey := map[hkey]*bornT{}
	bySrc := map[string][]*bornT{}
	live := func(b *bornT) bool { // caller holds g.mu
		e, there := g.reassembly[b.ik]
		return there && e == b.e
	}
	record := func(k reassemblyKey, e *reassemblyEntry, src string, id uint8, known bool) {
		b := &bornT{e: e, ik: k, src: src, id: id, known: known, t: int64(time.Since(t0))}
		born[e] = b
		if known {
			byKey[hkey{src, id}] = b
			bySrc[src] = append(bySrc[src], b)
		}
	}
	// pending messages of a source that are not yet due (caller holds g.mu)
	countOf := func(src string) int {
		l := bySrc[src]
		keep := l[:0]
		n := 0
		for _, b := range l {
			if !live(b) {
				continue
			}
			keep = append(keep, b)
			// an entry that a sweep should already have removed does not count against the source
			if !b.overdue {
				n++
			}
		}
		bySrc[src] = keep
		return n
	}
	var whys []string
	failAll := func(s string) {
		fail(s)
		if len(whys) < 6 {
			whys = append(whys, s)
		}
	}
	defer func() { res["whys"] = whys }()
	// after a sweep at time T (gc tick or direct gcExpired): nothing first seen before T - TTL may remain
	ttlFlagged := false
	sweepCheck := func(T int64, what string, si int) {
		g.mu.Lock()
		defer g.mu.Unlock()
		for k, e := range g.reassembly {
			b, seen := born[e]
			if !seen {
				record(k, e, k.addr, k.msgID, false)
				continue
			}
			if T > b.t+ttl {
				b.overdue = true
				if !ttlFlagged {
					ttlFlagged = true
					failAll("incomplete message (source " + b.src + ", id " + strconv.Itoa(int(b.id)) + ") first seen at " + strconv.FormatInt(b.t, 10) +
						" ns is still pending after the " + what + " at " + strconv.FormatInt(T, 10) + " ns (TTL " + strconv.FormatInt(ttl, 10) + " ns); " +
						strconv.Itoa(b.replays) + " further datagram(s) arrived under its key, the last at " + strconv.FormatInt(b.lastRep, 10) +
						" ns (step " + strconv.Itoa(si) + ")")
				}
			}
		}
	}
	// chunks fed so far, per source (String()) and message: a packet may come out at a source only when that
	// source itself has sent every one of its chunks
	fedSoFar := map[string]map[int]map[int]bool{}
	for si, op := range c.Ops {
		if op.D > 0 {
			time.Sleep(time.Duration(op.D))
			synctest.Wait()
			// TTL with the gc loop: nothing older than the last tick may remain
			now := int64(time.Since(t0))
			last := now / period * period
			if last > 0 {
				g.mu.Lock()
				for _, e := range g.reassembly {
					if int64(e.deadline.Sub(t0)) < last {
						fail("entry with deadline before the last gc tick still pending (step " + strconv.Itoa(si) + ")")
						break
					}
				}
				g.mu.Unlock()
				sweepCheck(last, "gc tick", si)
			}
		}
		row := []int64{0, 0, 0, 0, 0, 0, 0}
		var dg []byte
		gecko := false
		atCap := false
		switch op.O {
		case "t":
		case "g":
			at := t0.Add(time.Duration(op.T))
			g.gcExpired(at)
			g.mu.Lock()
			for _, e := range g.reassembly {
				if at.After(e.deadline) {
					fail("entry past its deadline survives gcExpired (step " + strconv.Itoa(si) + ")")
					break
				}
			}
			g.mu.Unlock()
			sweepCheck(op.T, "gcExpired call", si)
		case "f", "x":
			fs := frames[op.M]
			if len(fs) == 0 {
				break
			}
			dg = append([]byte(nil), fs[op.I%len(fs)]...)
			if op.O == "x" && len(dg) > 0 {
				dg[op.At%len(dg)] = byte(op.V)
			}
		case "e":
			// frame with exactly this index, nothing (an empty datagram) when the message has fewer frames on the wire
			if fs := frames[op.M]; op.I < len(fs) {
				dg = append([]byte(nil), fs[op.I]...)
			}
		case "p":
			dg = vUnhex(op.H)
		}
		if op.O == "f" || op.O == "x" || op.O == "p" || op.O == "e" {
			src := addrOf(op.S)
			srcStr := src.String()
			qsrc := strconv.Quote(srcStr)
			if op.O == "f" || op.O == "e" {
				if fs := frames[op.M]; len(fs) > 0 && (op.O == "f" || op.I < len(fs)) {
					if fedSoFar[srcStr] == nil {
						fedSoFar[srcStr] = map[int]map[int]bool{}
					}
					if fedSoFar[srcStr][op.M] == nil {
						fedSoFar[srcStr][op.M] = map[int]bool{}
					}
					fedSoFar[srcStr][op.M][op.I%len(fs)] = true
				}
			}
			// expectation for no-lock-out, computed before the step from the harness's own record: the source has no
			// pending message under this id and fewer than 8 pending messages that are not yet due
			expectKey := false
			decodable := false
			var hk hkey
			tr := dg
			if len(tr) > 2048 {
				tr = tr[:2048]
			}
			if len(tr) > 0 && tr[0]&0x80 != 0 {
				gecko = true
				if h, _, err := decodeFrame(tr); err == nil {
					decodable = true
					hk = hkey{srcStr, h.msgID}
					g.mu.Lock()
					if b := byKey[hk]; b == nil || !live(b) {
						expectKey = countOf(srcStr) < 8
					}
					g.mu.Unlock()
				}
			}
			var snap map[reassemblyKey]struct{}
			// isolation (small tables): what every pending message holds before the step
			var iso map[*reassemblyEntry]int
			g.mu.Lock()
			lenBefore := len(g.reassembly)
			if lenBefore >= geckoMaxReassembly {
				atCap = true
				snap = make(map[reassemblyKey]struct{}, len(g.reassembly))
				for k := range g.reassembly {
					snap[k] = struct{}{}
				}
			}
			if lenBefore <= 64 {
				iso = make(map[*reassemblyEntry]int, lenBefore)
				for _, e := range g.reassembly {
					iso[e] = e.received
				}
			}
			g.mu.Unlock()
			rin.q = append(rin.q, c14Dg{src, dg})
			n, addr, err := g.ReadFrom(rbuf)
			if len(rin.q) != 0 {
				fail("ReadFrom returned without consuming the datagram")
				rin.q = nil
			}
			if err == nil {
				outp := rbuf[:n]
				row[0] = int64(n) + 1
				row[1] = int64(vDigest(outp))
				if addr == nil || addr.String() != srcStr {
					fail("packet returned with the wrong source address")
				} else if addr != src {
					fail("packet returned with a net.Addr value other than the one the inner conn reported for the datagram")
				}
				if !gecko {
					want := tr
					if len(want) > len(rbuf) {
						want = want[:len(rbuf)]
					}
					if !bytes.Equal(outp, want) {
						fail("short-header packet not passed through unchanged")
					}
				} else {
					hit, hitWritten, hitOwn := false, false, false
					for mi, p := range pkts {
						w := p
						if len(w) > len(rbuf) {
							w = w[:len(rbuf)]
						}
						if len(p) > 0 && p[0]&0x80 != 0 && bytes.Equal(outp, w) {
							hit = true
							hitWritten = hitWritten || wrote[mi]
							if wrote[mi] && len(frames[mi]) > 0 && len(fedSoFar[srcStr][mi]) == len(frames[mi]) {
								hitOwn = true
							}
							if (op.O == "f" || op.O == "e") && op.M == mi {
								delivered[[2]int{mi, canon(op.S)}] = true
							}
						}
					}
					exempt := len(tr) >= 2 && clash(srcStr, tr[1])
					if c.Distinct && !hit && !exempt {
						fail("reassembler emitted a packet that was never sent (step " + strconv.Itoa(si) + ", delivered for source " + qsrc + ")")
					} else if c.Distinct && hit && !hitWritten {
						fail("reassembler emitted a packet whose write failed before all of its chunks were sent (step " + strconv.Itoa(si) + ")")
					} else if c.Distinct && hit && !hitOwn && !exempt {
						fail("packet delivered for source " + qsrc + " is not a packet that source sent: not all of its chunks came from that source (step " + strconv.Itoa(si) + ")")
					}
				}
			} else if err != errC14Empty {
				fail("ReadFrom error: " + err.Error())
			} else if !gecko && len(dg) > 0 {
				fail("short-header packet swallowed")
			}
			evicted := false
			if snap != nil {
				g.mu.Lock()
				for k := range snap {
					if _, still := g.reassembly[k]; !still {
						row[5] = srcNum(k.addr) + 1
						row[6] = int64(k.msgID)
						evicted = true
						break
					}
				}
				g.mu.Unlock()
			}
			// the harness's record: a further datagram under a pending message of this source, or the entry this
			// datagram has just opened (found under the source's String() when the table is keyed that way, else by
			// looking for the one entry not met before)
			g.mu.Lock()
			nowNs := int64(time.Since(t0))
			splitWhy := ""
			if len(tr) >= 2 && tr[0]&0x80 != 0 {
				had := false
				if b := byKey[hkey{srcStr, tr[1]}]; b != nil && live(b) {
					b.replays++
					b.lastRep = nowNs
					had = true
				}
				if decodable {
					ik := reassemblyKey{addr: srcStr, msgID: hk.id}
					if e, there := g.reassembly[ik]; there {
						if born[e] == nil {
							record(ik, e, srcStr, hk.id, true)
						}
					} else if len(g.reassembly) > lenBefore || evicted {
						// the table is not keyed by String(): the entry this datagram opened is the one not met before
						for k, e := range g.reassembly {
							if born[e] == nil {
								if had {
									splitWhy = "a chunk of source " + qsrc + " under message id " + strconv.Itoa(int(hk.id)) +
										" opened a NEW pending message although that source already has one under that id (step " + strconv.Itoa(si) + ")"
								}
								record(k, e, srcStr, hk.id, true)
								break
							}
						}
					}
				}
			}
			// isolation: a datagram of one source neither adds a chunk to, nor removes, a pending message of another
			var isoWhy []string
			for e, rec := range iso {
				b := born[e]
				if b == nil || !b.known || b.src == srcStr {
					continue
				}
				if live(b) {
					if e.received != rec {
						isoWhy = append(isoWhy, "a chunk from source "+qsrc+" was added to the pending message (id "+strconv.Itoa(int(b.id))+") of source "+strconv.Quote(b.src)+" (step "+strconv.Itoa(si)+")")
					}
				} else if !atCap {
					isoWhy = append(isoWhy, "the pending message (id "+strconv.Itoa(int(b.id))+") of source "+strconv.Quote(b.src)+" went away when a datagram from source "+qsrc+" arrived (step "+strconv.Itoa(si)+")")
				}
			}
			admitted := false
			if decodable {
				b := byKey[hk]
				admitted = b != nil && live(b)
			}
			row[4] = int64(g.perSource[srcStr])
			g.mu.Unlock()
			sort.Strings(isoWhy)
			for _, w := range isoWhy {
				failAll(w)
			}
			if splitWhy != "" {
				failAll(splitWhy)
			}
			if expectKey && !admitted {
				failAll("source " + srcStr + " refused although it holds fewer than 8 pending messages that are not yet due (step " + strconv.Itoa(si) + ")")
			}
		}
		g.mu.Lock()
		row[2] = int64(len(g.reassembly))
		row[3] = int64(len(g.perSource))
		big := len(g.reassembly) > 256
		g.mu.Unlock()
		if row[2] > 4096 {
			fail("more than 4096 pending messages")
		}
		if row[4] > 8 {
			fail("more than 8 pending messages for one source")
		}
		// the full census is O(table): on big tables only every 64th step, at the end, and after every
		// step that ran at the global cap (snapshot taken => an eviction may have happened)
		if !big || si%64 == 0 || si == len(c.Ops)-1 || atCap {
			if w := c14Census(g); w != "" {
				fail(w + " (step " + strconv.Itoa(si) + ")")
			}
		}
		steps = append(steps, row)
	}
	res["steps"] = steps
	res["now"] = int64(time.Since(t0))
	// final table dump
	g.mu.Lock()
	final := make([][]int64, 0, len(g.reassembly))
	for k, e := range g.reassembly {
		bm := int64(0)
		for i, ch := range e.chunks {
			if ch != nil {
				bm |= 1 << uint(i)
			}
		}
		final = append(final, []int64{srcNum(k.addr), int64(k.msgID), int64(e.total), int64(e.received), int64(e.deadline.Sub(t0)), bm})
	}
	g.mu.Unlock()
	sort.Slice(final, func(i, j int) bool {
		if final[i][0] != final[j][0] {
			return final[i][0] < final[j][0]
		}
		return final[i][1] < final[j][1]
	})
	res["final"] = final
	must := make([][2]int, 0, len(c.Must))
	for _, m := range c.Must {
		must = append(must, [2]int{m[0], canon(m[1])})
	}
	if c.AutoMust {
		// every long-header packet whose WriteTo returned success must come out at every source (String()) from
		// which all of its frames were fed
		for mi, p := range pkts {
			if !wrote[mi] || len(p) == 0 || p[0]&0x80 == 0 || len(frames[mi]) == 0 {
				continue
			}
			fed := map[int]map[int]bool{}
			for _, op := range c.Ops {
				if (op.O == "f" || op.O == "e") && op.M == mi {
					cs := canon(op.S)
					if fed[cs] == nil {
						fed[cs] = map[int]bool{}
					}
					if op.O == "f" {
						fed[cs][op.I%len(frames[mi])] = true
					} else if op.I < len(frames[mi]) {
						fed[cs][op.I] = true
					}
				}
			}
			var srcs []int
			for src, set := range fed {
				if len(set) == len(frames[mi]) {
					srcs = append(srcs, src)
				}
			}
			sort.Ints(srcs)
			for _, src := range srcs {
				must = append(must, [2]int{mi, src})
			}
		}
		res["must"] = must
	}
	for _, m := range must {
		mi := m[0]
		if mi >= 0 && mi < len(frames) && len(frames[mi]) > 0 && len(frames[mi][0]) >= 2 && clash(addrOf(m[1]).String(), frames[mi][0][1]) {
			continue // two messages of one source under one id: outside the hypothesis
		}
		if !delivered[m] {
			fail("message " + strconv.Itoa(m[0]) + " from source " + strconv.Itoa(m[1]) + " (" + strconv.Quote(addrOf(m[1]).String()) + ") was not delivered although its write succeeded and all its chunks arrived in time")
		}
	}
	for _, w := range idWhys {
		fail(w)
	}
}
