//go:build verif

package server

// C15, the refused report at every position of a stream: the real copyBufferLog (alone) and the real
// copyTwoWayEx (the scripted direction against a blocked other direction, a recording TrafficLogger) on
// SCRIPTED Reads.  Every iteration of the script says what the Read returns (n bytes and nil / io.EOF / a
// failure - a Read may return bytes together with an error) and what the environment answers in it (the
// report is accepted or refused, the Write succeeds or fails).  Observed: the sequence of log / Write calls
// and the class of the returned error; the Coq model (model/C15_Copy.v copy_loop) must produce the same.
//
// Property predicate, on the implementation alone: whenever a report is refused - at whichever position of
// the stream, whatever the Read returned next to the bytes - the copy returns errDisconnect (the only value
// that makes handleTCPRequest close the QUIC connection), the refused bytes are not written and nothing
// happens after the refusal; without a refusal it never returns errDisconnect; written bytes are the read ones.

import (
	"bytes"
	"encoding/json"
	"errors"
	"fmt"
	"io"
	"sync"
	"testing"
	"time"
)

type c15cStep struct {
	N   int    `json:"n"`
	Err string `json:"err"` // nil | eof | fail
	OK  bool   `json:"ok"`
	WOK bool   `json:"wok"`
}

type c15cCase struct {
	K     string     `json:"k"`
	Steps []c15cStep `json:"steps"`
	Two   string     `json:"two"` // "" = copyBufferLog alone | up | down = through copyTwoWayEx in that direction
}

var (
	errC15cRead    = errors.New("c15: scripted read failure")
	errC15cWrite   = errors.New("c15: scripted write failure")
	errC15cBlocked = errors.New("c15: the script is over (the loop was blocked in Read)")
)

// the shared record of one run
type c15cRun struct {
	mu      sync.Mutex
	steps   []c15cStep
	i       int      // iterations started
	cur     []byte   // the bytes of the current iteration
	acts    [][3]int // [0 log | 1 write, n, ok]
	bad     string
	blocked chan struct{}
	unblock chan struct{}
	once    sync.Once
}

func (r *c15cRun) Read(p []byte) (int, error) {
	r.mu.Lock()
	if r.i >= len(r.steps) {
		r.mu.Unlock()
		r.once.Do(func() { close(r.blocked) })
		<-r.unblock
		return 0, errC15cBlocked
	}
	st := r.steps[r.i]
	r.i++
	n := st.N
	if n > len(p) {
		n = len(p)
		if r.bad == "" {
			r.bad = fmt.Sprintf("iteration %d: the script wants %d bytes, the buffer has %d", r.i-1, st.N, len(p))
		}
	}
	for j := 0; j < n; j++ {
		p[j] = byte(r.i*31 + j*7 + 1)
	}
	r.cur = append([]byte(nil), p[:n]...)
	r.mu.Unlock()
	switch st.Err {
	case "eof":
		return n, io.EOF
	case "fail":
		return n, errC15cRead
	}
	return n, nil
}

func (r *c15cRun) log(n uint64) bool {
	r.mu.Lock()
	defer r.mu.Unlock()
	ok := r.i > 0 && r.steps[r.i-1].OK
	r.acts = append(r.acts, [3]int{0, int(n), c15cB(ok)})
	return ok
}

func (r *c15cRun) Write(b []byte) (int, error) {
	r.mu.Lock()
	defer r.mu.Unlock()
	wok := r.i > 0 && r.steps[r.i-1].WOK
	r.acts = append(r.acts, [3]int{1, len(b), c15cB(wok)})
	if !bytes.Equal(b, r.cur) && r.bad == "" {
		r.bad = fmt.Sprintf("iteration %d: the %d bytes written are not the %d bytes read", r.i-1, len(b), len(r.cur))
	}
	if !wok {
		return 0, errC15cWrite
	}
	return len(b), nil
}

func c15cB(b bool) int {
	if b {
		return 1
	}
	return 0
}

// the other direction of a two-way run: its source says nothing until the run is over
type c15cIdle struct{ ch chan struct{} }

func (r c15cIdle) Read(p []byte) (int, error) {
	<-r.ch
	return 0, io.ErrClosedPipe
}

type c15cSink struct{}

func (c15cSink) Write(b []byte) (int, error) { return len(b), nil }

type c15cRW struct {
	io.Reader
	io.Writer
}

// the TrafficLogger of a two-way run: answers what the script says, checks the direction of the report
type c15cLogger struct {
	run *c15cRun
	dir string
}

func (l *c15cLogger) LogTraffic(id string, tx, rx uint64) bool {
	n := tx
	if l.dir == "down" {
		n = rx
	}
	if (l.dir == "up" && rx != 0) || (l.dir == "down" && tx != 0) || id != "c15" {
		l.run.mu.Lock()
		if l.run.bad == "" {
			l.run.bad = fmt.Sprintf("a %s chunk was reported as LogTraffic(%q, tx=%d, rx=%d)", l.dir, id, tx, rx)
		}
		l.run.mu.Unlock()
	}
	return l.run.log(n)
}
func (l *c15cLogger) LogOnlineState(id string, online bool)           {}
func (l *c15cLogger) TraceStream(stream HyStream, stats *StreamStats) {}
func (l *c15cLogger) UntraceStream(stream HyStream)                   {}

func c15cClass(err error) string {
	switch err {
	case nil:
		return "nil"
	case errDisconnect:
		return "disconnect"
	case errC15cWrite:
		return "werr"
	case errC15cRead:
		return "rerr"
	case errC15cBlocked:
		return "blocked"
	}
	return "other"
}

func c15cOne(c c15cCase, res map[string]any) {
	run := &c15cRun{steps: c.Steps, blocked: make(chan struct{}), unblock: make(chan struct{})}
	done := make(chan error, 1)
	idle := c15cIdle{ch: make(chan struct{})}
	switch c.Two {
	case "":
		go func() { done <- copyBufferLog(run, run, run.log) }()
	default:
		stats := &StreamStats{}
		stats.LastActiveTime.Store(time.Now())
		l := &c15cLogger{run: run, dir: c.Two}
		serverRw, remoteRw := c15cRW{Reader: run, Writer: c15cSink{}}, c15cRW{Reader: idle, Writer: run}
		if c.Two == "down" {
			serverRw, remoteRw = c15cRW{Reader: idle, Writer: run}, c15cRW{Reader: run, Writer: c15cSink{}}
		}
		go func() { done <- copyTwoWayEx("c15", serverRw, remoteRw, l, stats) }()
	}
	var err error
	select {
	case err = <-done:
	case <-run.blocked:
		close(run.unblock)
		select {
		case err = <-done:
		case <-time.After(20 * time.Second):
			err = errors.New("stuck")
		}
	case <-time.After(20 * time.Second):
		err = errors.New("stuck")
	}
	close(idle.ch)
	run.once.Do(func() { close(run.blocked) })
	select {
	case <-run.unblock:
	default:
		close(run.unblock)
	}
	run.mu.Lock()
	defer run.mu.Unlock()
	acts := run.acts
	if acts == nil {
		acts = [][3]int{}
	}
	res["res"] = c15cClass(err)
	res["acts"] = acts
	res["closed"] = err == errDisconnect // handleTCPRequest: if err == errDisconnect { conn.CloseWithError(...) }
	ok, why := true, ""
	refusedAt := -1
	for k, a := range acts {
		if a[0] == 0 && a[2] == 0 && refusedAt < 0 {
			refusedAt = k
		}
	}
	switch {
	case run.bad != "":
		ok, why = false, run.bad
	case refusedAt >= 0 && err != errDisconnect:
		st := c.Steps[run.i-1]
		ok, why = false, fmt.Sprintf("the report of chunk #%d (%d bytes, Read returned them with %s) was refused - the kick is used up - but the copy returned %v, not errDisconnect: the connection is not closed",
			run.i-1, st.N, st.Err, err)
	case refusedAt >= 0 && refusedAt != len(acts)-1:
		ok, why = false, fmt.Sprintf("after the refused report (action #%d) the copy went on: %v", refusedAt, acts[refusedAt+1:])
	case refusedAt < 0 && err == errDisconnect:
		ok, why = false, "errDisconnect although every report was accepted: a user that was not kicked is disconnected"
	}
	res["ok"] = ok
	res["why"] = why
}

func TestVerifC15Copy(t *testing.T) {
	out := vOpenOut(t, "VERIF_OUT")
	defer out.Close()
	for i, raw := range vReadCases(t) {
		var c c15cCase
		if err := json.Unmarshal(raw, &c); err != nil {
			t.Fatal(err)
		}
		res := map[string]any{"i": i, "k": c.K}
		if p, msg := vCatch(func() { c15cOne(c, res) }); p {
			res["ok"] = false
			res["why"] = "panic: " + msg
		}
		out.Emit(res)
	}
}
