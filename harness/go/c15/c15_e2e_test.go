//go:build verif

package trafficlogger

// C15 end-to-end census: a real hysteria server (core/server) with the real
// trafficStatsServerImpl as its TrafficLogger, real clients (core/client) over loopback QUIC.
// A generated script connects, rejects, closes, proxies bytes through a local echo server and
// kicks; after every step the harness waits for GET /online to show the expected census
// (bounded wait of 15 s: a stale or wrong listing is a violation), and at the end compares GET /traffic
// with the bytes that went through.

import (
	"crypto/ecdsa"
	"crypto/elliptic"
	crand "crypto/rand"
	"crypto/tls"
	"crypto/x509"
	"crypto/x509/pkix"
	"encoding/json"
	"fmt"
	"io"
	"math/big"
	"net"
	"strings"
	"time"

	"github.com/apernet/hysteria/core/v2/client"
	"github.com/apernet/hysteria/core/v2/server"
)

type c15Step struct {
	A    string `json:"a"` // connect | reject | close | traffic | kick
	Slot int    `json:"slot"`
	ID   int    `json:"id"`
	N    int    `json:"n"`
}

type c15Auth struct{}

func (c15Auth) Authenticate(addr net.Addr, auth string, tx uint64) (bool, string) {
	if strings.HasPrefix(auth, "ok:") {
		return true, auth[3:]
	}
	return false, ""
}

func c15Cert() (tls.Certificate, error) {
	key, err := ecdsa.GenerateKey(elliptic.P256(), crand.Reader)
	if err != nil {
		return tls.Certificate{}, err
	}
	tmpl := &x509.Certificate{
		SerialNumber: big.NewInt(1), Subject: pkix.Name{CommonName: "c15"},
		NotBefore: time.Now().Add(-time.Hour), NotAfter: time.Now().Add(24 * time.Hour),
		KeyUsage: x509.KeyUsageDigitalSignature, ExtKeyUsage: []x509.ExtKeyUsage{x509.ExtKeyUsageServerAuth},
		DNSNames: []string{"localhost"}, IPAddresses: []net.IP{net.IPv4(127, 0, 0, 1)},
	}
	der, err := x509.CreateCertificate(crand.Reader, tmpl, tmpl, &key.PublicKey, key)
	if err != nil {
		return tls.Certificate{}, err
	}
	return tls.Certificate{Certificate: [][]byte{der}, PrivateKey: key}, nil
}

type c15E2EObs struct {
	Step   int       `json:"step"`
	Result string    `json:"result"` // ok | refused | rejected | error:<..>
	Online [][]int64 `json:"online"` // listing after the step reached (or failed to reach) the expected census
}

func c15E2E(c c15Case, steps []c15Step, res map[string]any) {
	ok, why := true, ""
	fail := func(format string, a ...any) {
		if ok {
			ok, why = false, fmt.Sprintf(format, a...)
		}
	}
	defer func() {
		res["ok"] = ok
		res["why"] = why
	}()
	cert, err := c15Cert()
	if err != nil {
		fail("setup: %v", err)
		return
	}
	stats := NewTrafficStatsServer(c.Secret)
	udpConn, err := net.ListenUDP("udp", &net.UDPAddr{IP: net.IPv4(127, 0, 0, 1)})
	if err != nil {
		fail("setup: %v", err)
		return
	}
	srv, err := server.NewServer(&server.Config{
		TLSConfig:     server.TLSConfig{Certificates: []tls.Certificate{cert}},
		Conn:          udpConn,
		Authenticator: c15Auth{},
		TrafficLogger: stats,
	})
	if err != nil {
		fail("setup: %v", err)
		return
	}
	defer srv.Close()
	go srv.Serve()
	echo, err := net.Listen("tcp", "127.0.0.1:0")
	if err != nil {
		fail("setup: %v", err)
		return
	}
	defer echo.Close()
	go func() {
		for {
			conn, err := echo.Accept()
			if err != nil {
				return
			}
			go func() { _, _ = io.Copy(conn, conn); _ = conn.Close() }()
		}
	}()

	idx := c15Index(c.Ids)
	n := len(c.Ids)
	httpOp := func(method, path, body string) c15Res {
		r := c15Do(stats, c.Ids, idx, c15Op{O: "http", HasAuth: true, Auth: c.Secret, Method: method, Path: path, Body: body})
		c15FixEmpty(c15Op{Path: path}, &r)
		return r
	}
	slots := map[int]client.Client{}
	slotID := map[int]int{}
	live := make([]int64, n)
	pending := make([]bool, n)
	sent := make([]uint64, n) // bytes proxied successfully per id (each direction)
	obs := []c15E2EObs{}
	defer func() {
		for _, cl := range slots {
			_ = cl.Close()
		}
	}()

	// wait (bounded) until the listing equals the expected census
	census := func() ([][]int64, bool) {
		deadline := time.Now().Add(15 * time.Second)
		for {
			r := httpOp("GET", "/online", "")
			seen := make([]int64, n)
			good := r.Kind == "online"
			for _, e := range r.On {
				seen[e[0]] = e[1]
				if e[1] <= 0 {
					good = false
				}
			}
			for id := 0; id < n; id++ {
				if seen[id] != live[id] {
					good = false
				}
			}
			if good || time.Now().After(deadline) {
				if r.On == nil {
					r.On = [][]int64{}
				}
				return r.On, good
			}
			time.Sleep(5 * time.Millisecond)
		}
	}

	for si, st := range steps {
		result := "ok"
		switch st.A {
		case "connect", "reject":
			auth := "ok:" + c.Ids[st.ID]
			if st.A == "reject" {
				auth = "denied"
			}
			cl, _, err := client.NewClient(&client.Config{
				ServerAddr: udpConn.LocalAddr(), Auth: auth,
				TLSConfig: client.TLSConfig{InsecureSkipVerify: true},
			})
			if st.A == "reject" {
				if err == nil {
					fail("step %d: a client with rejected credentials was accepted", si)
					_ = cl.Close()
				}
				result = "rejected"
			} else if err != nil {
				fail("step %d: connect failed: %v", si, err)
				result = "error:connect"
			} else {
				slots[st.Slot] = cl
				slotID[st.Slot] = st.ID
				live[st.ID]++
			}
		case "close":
			if cl, has := slots[st.Slot]; has {
				_ = cl.Close()
				delete(slots, st.Slot)
				live[slotID[st.Slot]]--
			}
		case "kick":
			body, _ := json.Marshal([]string{c.Ids[st.ID]})
			if r := httpOp("POST", "/kick", string(body)); r.St != 200 {
				fail("step %d: kick answered %d", si, r.St)
			}
			pending[st.ID] = true
		case "traffic":
			cl, has := slots[st.Slot]
			if !has {
				result = "skipped"
				break
			}
			id := slotID[st.Slot]
			err := func() error {
				conn, err := cl.TCP(echo.Addr().String())
				if err != nil {
					return err
				}
				defer conn.Close()
				_ = conn.SetDeadline(time.Now().Add(20 * time.Second))
				msg := vGenData(7, uint64(si), st.N)
				if _, err := conn.Write(msg); err != nil {
					return err
				}
				back := make([]byte, st.N)
				if _, err := io.ReadFull(conn, back); err != nil {
					return err
				}
				if string(back) != string(msg) {
					return fmt.Errorf("echo mismatch")
				}
				return nil
			}()
			if pending[id] {
				// the kicked user's next report must be refused, which disconnects this connection
				if err == nil {
					fail("step %d: id %d was kicked but its next %d bytes were proxied", si, id, st.N)
					sent[id] += uint64(st.N)
				} else {
					result = "refused"
					_ = cl.Close()
					delete(slots, st.Slot)
					live[id]--
				}
				pending[id] = false
			} else if err != nil {
				fail("step %d: id %d (not kicked) could not proxy %d bytes: %v", si, id, st.N, err)
				result = "error:traffic"
			} else {
				sent[id] += uint64(st.N)
			}
		}
		on, good := census()
		if !good {
			fail("step %d (%s): GET /online shows %v, expected census %v (after 15s)", si, st.A, on, live)
		}
		obs = append(obs, c15E2EObs{Step: si, Result: result, Online: on})
	}
	// traffic totals: every proxied byte was reported once in each direction, refused reports added nothing
	tr := httpOp("GET", "/traffic", "")
	shown := make([][2]uint64, n)
	for _, e := range tr.M {
		shown[e[0]] = [2]uint64{e[1], e[2]}
	}
	for id := 0; id < n; id++ {
		if shown[id][0] != sent[id] || shown[id][1] != sent[id] {
			fail("final snapshot shows tx=%d rx=%d for id %d, proxied %d each way", shown[id][0], shown[id][1], id, sent[id])
		}
	}
	if tr.M == nil {
		tr.M = [][]uint64{}
	}
	res["obs"] = obs
	res["final"] = tr.M
}
