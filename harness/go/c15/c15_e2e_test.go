//go:build verif

package trafficlogger

// C15 end-to-end census and kick => disconnect: a real hysteria server (core/server) with the real
// trafficStatsServerImpl as its TrafficLogger, real clients (core/client) over loopback QUIC.
//
// Every LogTraffic / LogOnlineState call the server makes is recorded at the logger boundary by a
// pass-through tap (c15Tap).  The harness holds BOTH ends of every proxied flow: the client side
// (a hysteria TCP stream or UDP session) and the remote side (the TCP connection accepted by, or the
// datagram socket of, a local "remote" it runs itself).  So a generated script can make the next
// traffic report of a user come from each of the four report sites of core/server:
//
//   tcp up    client writes, remote reads      copy.go   LogTraffic(id, n, 0)
//   tcp down  remote writes, client reads      copy.go   LogTraffic(id, 0, n)
//   udp up    client sends a datagram          server.go udpIOImpl.ReceiveMessage  LogTraffic(id, n, 0)
//   udp down  remote sends a datagram back     server.go udpIOImpl.SendMessage     LogTraffic(id, 0, n)
//
// on a flow opened after the kick or established (and used) before it.
//
// Verdict on the implementation alone, per step: bytes of a user that is not kicked arrive intact,
// are reported (all accepted) with exactly their count in exactly their direction, and leave the
// connection usable; the first report of a kicked user is refused, exactly once, nothing of it is
// forwarded, the QUIC connection is closed by the server (the client sees its flow die and a later
// proxy attempt on that connection fails), exactly one offline notification follows, and GET /online
// drops the connection (bounded waits: a stale or wrong listing is a violation).  At the end
// GET /traffic must show exactly the bytes that went through, per user and direction.
//
// "pendauth" steps hold the auth request of raw HTTP/3 connections inside the authenticator (c15Auth
// "hold:" credentials: a slow backend the harness releases) and meanwhile close the QUIC connection,
// cancel the request, or do nothing; then the backend accepts or rejects.  Verdict: whatever the
// server reports about such a connection between the backend's answer and the end of its handler is
// nothing, or online, or online then offline, for its own user; rejected credentials are never
// reported; the connections that are still there and authenticated are counted by GET /online.
//
// On every script, after every step, the pairing of the notifications is evaluated on the whole
// record of the logger boundary (pairing()): per user no prefix has more offline than online
// notifications, per connection (EventLogger Connect / Disconnect, by client address) they
// alternate starting with Connect, and at the quiescent observation point #online - #offline is
// the number of live authenticated connections of the user.

import (
	"bytes"
	"context"
	"crypto/ecdsa"
	"crypto/elliptic"
	crand "crypto/rand"
	"crypto/tls"
	"crypto/x509"
	"crypto/x509/pkix"
	"encoding/json"
	"fmt"
	"io"
	"math/big"
	"net"
	"net/http"
	"net/url"
	"runtime"
	"strconv"
	"strings"
	"sync"
	"time"

	quic "github.com/apernet/quic-go"
	"github.com/apernet/quic-go/http3"

	"github.com/apernet/hysteria/core/v2/client"
	"github.com/apernet/hysteria/core/v2/server"
	"github.com/apernet/hysteria/extras/v2/outbounds"
)

type c15Step struct {
	A    string `json:"a"` // connect | reject | close | kick | tcp | udp | hang | release
	Slot int    `json:"slot"`
	ID   int    `json:"id"`
	N    int    `json:"n"`
	Flow int    `json:"flow"` // tcp / udp: the flow to use; opened at its first step
	Dir  string `json:"dir"`  // tcp / udp: up (client -> remote) | down (remote -> client)
	// rawauth: a raw HTTP/3 connection in slot Slot that sends len(Reqs) auth requests for user ID
	// ("ok" accepted after the rendezvous, "bad" rejected credentials), all at once (Conc) or one by one
	Reqs  []string  `json:"reqs"`
	Conc  bool      `json:"conc"`
	Proto *c15Proto `json:"proto"`
	// pendauth: raw HTTP/3 connections whose auth request is held inside the authenticator (a slow backend)
	// while the harness lets the connection die / cancels the request / does nothing; the authenticator
	// then answers in the order Order; SettleMs = how long the server is given to see a close
	Conns    []c15Pend `json:"conns"`
	Order    []int     `json:"order"`
	SettleMs int       `json:"settle_ms"`
	// hang: the connection in slot Slot gets proxy requests whose OUTBOUND DIAL does not return (an unresponsive
	// target, a slow upstream): Kind "tcp" = N TCP requests, each served by a handleTCPRequest goroutine that sits in
	// Outbound.TCP; Kind "udp" = one datagram of N bytes on a fresh UDP session, whose first packet makes the
	// connection's UDP session manager sit in Outbound.UDP.  The dials stay pending until a "release" step for the
	// slot (they then fail) or the end of the case - in particular across the end of the connection.
	Kind string `json:"kind"`
	// tcp steps.  Fin: the sender closes its end TOGETHER with the bytes (up: the client writes and closes the stream at
	// once, so the server's Read of the QUIC stream can return the bytes and io.EOF in one call; down: the remote does the
	// same - through a Mem remote the bytes and the EOF are one Read by construction).  The flow is over after such a step.
	// Mem: the remote end of the flow is an in-memory net.Conn handed out by the gated Outbound (the harness holds the
	// other end), whose Read returns the last bytes together with io.EOF as the io.Reader contract allows.
	// Hooked: the request goes through the server's RequestHook (the address carries the marker), which takes Putback
	// bytes off the stream before the target is dialled and hands them back to be written to the target ahead of the
	// relay (Putback 0: a hook that only rewrites the address).  Also on udp steps (address rewrite only).
	Fin     bool `json:"fin"`
	Mem     bool `json:"mem"`
	Hooked  bool `json:"hooked"`
	Putback int  `json:"putback"`
}

type c15Pend struct {
	Slot   int    `json:"slot"`
	ID     int    `json:"id"`
	Decide string `json:"decide"` // ok | bad: what the authenticator answers when released
	Fault  string `json:"fault"`  // close (CloseWithError) | cancel (the request is cancelled, the connection stays) | none
	When   string `json:"when"`   // pending: the fault happens while the authenticator is deciding | decided: right after it answered
}

type c15PendObs struct {
	Slot    int     `json:"slot"`
	Entered bool    `json:"entered"` // the auth request reached the authenticator
	Status  int     `json:"status"`  // fault none: the answer to the auth request; cancel: to a second one (rejected credentials)
	Live    bool    `json:"live"`    // the connection is still there and the server treats it as authenticated
	Notes   [][]int `json:"notes"`   // LogOnlineState calls between this connection's release and its resolution: [id, 0|1]
}

// the wire constants of the auth request (core/internal/protocol, not importable from here): read from
// the tree's source by the python driver and passed in the step
type c15Proto struct {
	Host   string `json:"host"`
	Path   string `json:"path"`
	HAuth  string `json:"hauth"`
	HCCRX  string `json:"hccrx"`
	HPad   string `json:"hpad"`
	Status int    `json:"status"`
}

// "ok:<id>" accepts at once.  "rv:<k>:<token>:<id>" accepts after a short rendezvous: the call waits
// until k calls with the same token are inside Authenticate, or c15Rendezvous has passed - a slow
// authenticator backend (HTTP / command), so that auth requests in flight on ONE connection overlap
// if the server lets them.
//
// "hold:<token>:<ok|bad>:<id>" is a backend that answers when the harness says so: the call announces itself
// (entered) and blocks until released (or c15HoldMax), then accepts as <id> or rejects.
type c15Auth struct {
	mu    sync.Mutex
	rv    map[string]*c15Rv
	holds map[string]*c15Hold
}

type c15Hold struct {
	entered chan struct{}
	release chan struct{}
	once    sync.Once
}

const c15HoldMax = 60 * time.Second

func (a *c15Auth) hold(token string) *c15Hold {
	a.mu.Lock()
	defer a.mu.Unlock()
	if a.holds == nil {
		a.holds = map[string]*c15Hold{}
	}
	h := a.holds[token]
	if h == nil {
		h = &c15Hold{entered: make(chan struct{}), release: make(chan struct{})}
		a.holds[token] = h
	}
	return h
}

type c15Rv struct {
	n    int
	full chan struct{}
}

const c15Rendezvous = 150 * time.Millisecond

func (a *c15Auth) Authenticate(addr net.Addr, auth string, tx uint64) (bool, string) {
	if strings.HasPrefix(auth, "ok:") {
		return true, auth[3:]
	}
	if strings.HasPrefix(auth, "hold:") {
		parts := strings.SplitN(auth, ":", 4)
		if len(parts) != 4 {
			return false, ""
		}
		h := a.hold(parts[1])
		h.once.Do(func() { close(h.entered) })
		select {
		case <-h.release:
		case <-time.After(c15HoldMax):
		}
		return parts[2] == "ok", parts[3]
	}
	if strings.HasPrefix(auth, "rv:") {
		parts := strings.SplitN(auth, ":", 4)
		if len(parts) != 4 {
			return false, ""
		}
		k, _ := strconv.Atoi(parts[1])
		a.mu.Lock()
		if a.rv == nil {
			a.rv = map[string]*c15Rv{}
		}
		r := a.rv[parts[2]]
		if r == nil {
			r = &c15Rv{full: make(chan struct{})}
			a.rv[parts[2]] = r
		}
		r.n++
		if r.n == k {
			close(r.full)
		}
		a.mu.Unlock()
		select {
		case <-r.full:
		case <-time.After(c15Rendezvous):
		}
		return true, parts[3]
	}
	return false, ""
}

// a raw HTTP/3 client: one QUIC connection, any number of auth requests on it
type c15Raw struct {
	pkt  net.PacketConn
	tr   *quic.Transport
	conn *quic.Conn
	cc   *http3.ClientConn
}

func c15RawDial(srv net.Addr) (*c15Raw, error) {
	pkt, err := net.ListenUDP("udp", &net.UDPAddr{IP: net.IPv4(127, 0, 0, 1)})
	if err != nil {
		return nil, err
	}
	tr := &quic.Transport{Conn: pkt}
	ctx, cancel := context.WithTimeout(context.Background(), 10*time.Second)
	defer cancel()
	conn, err := tr.Dial(ctx, srv, &tls.Config{InsecureSkipVerify: true, NextProtos: []string{http3.NextProtoH3}},
		&quic.Config{EnableDatagrams: true})
	if err != nil {
		_ = tr.Close()
		_ = pkt.Close()
		return nil, err
	}
	h3 := &http3.Transport{}
	return &c15Raw{pkt: pkt, tr: tr, conn: conn, cc: h3.NewClientConn(conn)}, nil
}

// one POST <host><path> auth request; returns the status code (0 = transport error)
func (r *c15Raw) auth(p *c15Proto, auth string) int {
	ctx, cancel := context.WithTimeout(context.Background(), 10*time.Second)
	defer cancel()
	return r.authCtx(ctx, p, auth)
}

// a request that is not an auth request (answered by the masquerade handler without touching the auth
// state): when its answer is back, the server has processed everything this client sent before it
func (r *c15Raw) ping(p *c15Proto) int {
	req := &http.Request{
		Method: http.MethodGet,
		URL:    &url.URL{Scheme: "https", Host: p.Host, Path: "/"},
		Header: make(http.Header),
	}
	ctx, cancel := context.WithTimeout(context.Background(), 10*time.Second)
	defer cancel()
	resp, err := r.cc.RoundTrip(req.WithContext(ctx))
	if err != nil {
		return 0
	}
	_ = resp.Body.Close()
	return resp.StatusCode
}

func (r *c15Raw) authCtx(ctx context.Context, p *c15Proto, auth string) int {
	req := &http.Request{
		Method: http.MethodPost,
		URL:    &url.URL{Scheme: "https", Host: p.Host, Path: p.Path},
		Header: make(http.Header),
	}
	req.Header.Set(p.HAuth, auth)
	req.Header.Set(p.HCCRX, "0")
	req.Header.Set(p.HPad, "verif-padding-verif-padding-verif-padding")
	resp, err := r.cc.RoundTrip(req.WithContext(ctx))
	if err != nil {
		return 0
	}
	_ = resp.Body.Close()
	return resp.StatusCode
}

func (r *c15Raw) close() {
	_ = r.conn.CloseWithError(0, "")
	_ = r.tr.Close()
	_ = r.pkt.Close()
}

func c15Cert() (tls.Certificate, error) {
	key, err := ecdsa.GenerateKey(elliptic.P256(), crand.Reader)
	if err != nil {
		return tls.Certificate{}, err
	}
	tmpl := &x509.Certificate{
		SerialNumber: big.NewInt(1), Subject: pkix.Name{CommonName: "c15"},
		NotBefore: time.Now().Add(-time.Hour), NotAfter: time.Now().Add(24 * time.Hour),
		KeyUsage: x509.KeyUsageDigitalSignature, ExtKeyUsage: []x509.ExtKeyUsage{x509.ExtKeyUsageServerAuth},
		DNSNames: []string{"localhost"}, IPAddresses: []net.IP{net.IPv4(127, 0, 0, 1)},
	}
	der, err := x509.CreateCertificate(crand.Reader, tmpl, tmpl, &key.PublicKey, key)
	if err != nil {
		return tls.Certificate{}, err
	}
	return tls.Certificate{Certificate: [][]byte{der}, PrivateKey: key}, nil
}

// ---------------------------------------------------------------- the tap at the logger boundary

type c15TapEv struct {
	Log    bool // LogTraffic (else LogOnlineState)
	ID     int  // index of the id string, -1 if unknown
	Tx, Rx uint64
	OK     bool   // LogTraffic's answer
	On     bool   // LogOnlineState's argument
	Site   string // LogTraffic: the function of core/server the call was made from (report site, from the call stack)
}

type c15Tap struct {
	mu    sync.Mutex
	inner TrafficStatsServer
	idx   map[string]int
	evs   []c15TapEv
}

func (t *c15Tap) idOf(id string) int {
	if i, ok := t.idx[id]; ok {
		return i
	}
	return -1
}

func (t *c15Tap) LogTraffic(id string, tx, rx uint64) bool {
	t.mu.Lock()
	defer t.mu.Unlock()
	ok := t.inner.LogTraffic(id, tx, rx)
	t.evs = append(t.evs, c15TapEv{Log: true, ID: t.idOf(id), Tx: tx, Rx: rx, OK: ok, Site: c15ReportSite()})
	return ok
}

// the report site of a LogTraffic call, from observation: the innermost function of core/server on the call stack
// (closures are named after the function they are written in: the two copy directions of copyTwoWayEx report as
// "copyTwoWayEx").  The model (model/C15_Sites.v, site_of_caller) knows what each of them does with a refusal; a
// name it does not know is a report site that is not in the model.
func c15ReportSite() string {
	pcs := make([]uintptr, 48)
	n := runtime.Callers(3, pcs)
	frames := runtime.CallersFrames(pcs[:n])
	innermost := "?"
	for {
		fr, more := frames.Next()
		fn := vCanonNames(fr.Function)
		if i := strings.Index(fn, "/server."); i >= 0 && strings.Contains(fn[:i], "hysteria/core") {
			name := fn[i+len("/server."):]
			if j := strings.Index(name, ".func"); j >= 0 {
				name = name[:j]
			}
			if j := strings.Index(name, ".gowrap"); j >= 0 {
				name = name[:j]
			}
			// "(*udpIOImpl).ReceiveMessage" -> "udpIOImpl.ReceiveMessage"
			name = strings.NewReplacer("(*", "", "(", "", ")", "").Replace(name)
			// a report made through a helper (say udpIOImpl.logTraffic called by ReceiveMessage) belongs to the
			// nearest enclosing function that is one of the modelled relay / datagram sites; only when no such
			// function is on the stack is the innermost core/server function the (unmodelled) site
			if c15RelaySite(name) {
				return name
			}
			if innermost == "?" {
				innermost = name
			}
		}
		if !more {
			return innermost
		}
	}
}

func (t *c15Tap) LogOnlineState(id string, online bool) {
	t.mu.Lock()
	defer t.mu.Unlock()
	t.inner.LogOnlineState(id, online)
	t.evs = append(t.evs, c15TapEv{ID: t.idOf(id), On: online})
}

func (t *c15Tap) TraceStream(stream server.HyStream, stats *server.StreamStats) {
	t.inner.TraceStream(stream, stats)
}
func (t *c15Tap) UntraceStream(stream server.HyStream) { t.inner.UntraceStream(stream) }

func (t *c15Tap) mark() int {
	t.mu.Lock()
	defer t.mu.Unlock()
	return len(t.evs)
}

func (t *c15Tap) since(mark int) []c15TapEv {
	t.mu.Lock()
	defer t.mu.Unlock()
	return append([]c15TapEv(nil), t.evs[mark:]...)
}

func (t *c15Tap) refusedSince(mark, id int) int {
	n := 0
	for _, e := range t.since(mark) {
		if e.Log && e.ID == id && !e.OK {
			n++
		}
	}
	return n
}

// the EventLogger of the server: Connect / Disconnect carry the client's address, so the announcements can
// be attributed to a connection (every client of the harness has its own UDP socket)
type c15EvLog struct {
	mu  sync.Mutex
	evs []c15ConnEv
}

type c15ConnEv struct {
	Addr string
	ID   string
	Up   bool
}

func (l *c15EvLog) Connect(addr net.Addr, id string, tx uint64) {
	l.mu.Lock()
	l.evs = append(l.evs, c15ConnEv{Addr: addr.String(), ID: id, Up: true})
	l.mu.Unlock()
}

func (l *c15EvLog) Disconnect(addr net.Addr, id string, err error) {
	l.mu.Lock()
	l.evs = append(l.evs, c15ConnEv{Addr: addr.String(), ID: id})
	l.mu.Unlock()
}
func (l *c15EvLog) TCPRequest(addr net.Addr, id, reqAddr string)                    {}
func (l *c15EvLog) TCPError(addr net.Addr, id, reqAddr string, err error)           {}
func (l *c15EvLog) UDPRequest(addr net.Addr, id string, sessionID uint32, r string) {}
func (l *c15EvLog) UDPError(addr net.Addr, id string, sessionID uint32, err error)  {}

// per connection (client address; an address can come back for a later connection once the earlier one is gone):
// Connect and Disconnect alternate, starting with Connect
func (l *c15EvLog) unpaired() string {
	l.mu.Lock()
	defer l.mu.Unlock()
	connected := map[string]bool{}
	for k, e := range l.evs {
		switch {
		case e.Up && connected[e.Addr]:
			return fmt.Sprintf("connection %s of %q was announced (Connect) a second time (event #%d)", e.Addr, e.ID, k)
		case !e.Up && !connected[e.Addr]:
			return fmt.Sprintf("connection %s of %q was reported gone (Disconnect) without having been announced (event #%d)", e.Addr, e.ID, k)
		}
		connected[e.Addr] = e.Up
	}
	return ""
}

// ---------------------------------------------------------------- gated outbound

// c15Gate: the server's Outbound in scripts with "hang" steps.  Addresses of host "<token>.c15hang" are dials that
// do not return until the token is released (then they fail, like a dial that timed out); everything else goes
// to the stock direct outbound of extras/outbounds, as the app configures it.
type c15Gate struct {
	base    server.Outbound
	mem     chan *c15MemConn // the harness ends of the in-memory remotes, in the order the server dialled them
	mu      sync.Mutex
	entered map[string]int           // token -> dials that are inside TCP / UDP
	rel     map[string]chan struct{} // token -> closed when released
	left    map[string]int           // token -> dials that have returned
}

const c15HangSuffix = ".c15hang"

// addresses of host "<anything>.c15mem" are in-memory remotes: the server gets one end of a c15MemConn pair, the
// harness the other
const c15MemSuffix = ".c15mem"

func newC15Gate() *c15Gate {
	return &c15Gate{
		base:    &outbounds.PluggableOutboundAdapter{PluggableOutbound: outbounds.NewDirectOutboundSimple(outbounds.DirectOutboundModeAuto)},
		entered: map[string]int{}, rel: map[string]chan struct{}{}, left: map[string]int{},
		mem: make(chan *c15MemConn, 64),
	}
}

func (g *c15Gate) ch(token string) chan struct{} {
	g.mu.Lock()
	defer g.mu.Unlock()
	c, has := g.rel[token]
	if !has {
		c = make(chan struct{})
		g.rel[token] = c
	}
	return c
}

func (g *c15Gate) token(reqAddr string) (string, bool) {
	host, _, err := net.SplitHostPort(reqAddr)
	if err != nil || !strings.HasSuffix(host, c15HangSuffix) {
		return "", false
	}
	return strings.TrimSuffix(host, c15HangSuffix), true
}

func (g *c15Gate) wait(token string) error {
	c := g.ch(token)
	g.mu.Lock()
	g.entered[token]++
	g.mu.Unlock()
	select {
	case <-c:
	case <-time.After(c15HangMax):
	}
	g.mu.Lock()
	g.left[token]++
	g.mu.Unlock()
	return fmt.Errorf("dial %s: i/o timeout", token)
}

func (g *c15Gate) TCP(reqAddr string) (net.Conn, error) {
	if tk, is := g.token(reqAddr); is {
		return nil, g.wait(tk)
	}
	if host, _, err := net.SplitHostPort(reqAddr); err == nil && strings.HasSuffix(host, c15MemSuffix) {
		srvEnd, harnessEnd := c15MemPipe()
		select {
		case g.mem <- harnessEnd:
		default:
			return nil, fmt.Errorf("dial %s: nobody accepts", reqAddr)
		}
		return srvEnd, nil
	}
	return g.base.TCP(reqAddr)
}

func (g *c15Gate) UDP(reqAddr string) (server.UDPConn, error) {
	if tk, is := g.token(reqAddr); is {
		return nil, g.wait(tk)
	}
	return g.base.UDP(reqAddr)
}

func (g *c15Gate) CheckUDP(reqAddr string) error {
	if _, is := g.token(reqAddr); is {
		return nil
	}
	return g.base.CheckUDP(reqAddr)
}

func (g *c15Gate) inside(token string) int {
	g.mu.Lock()
	defer g.mu.Unlock()
	return g.entered[token] - g.left[token]
}

func (g *c15Gate) release(token string) {
	c := g.ch(token)
	g.mu.Lock()
	defer g.mu.Unlock()
	select {
	case <-c:
	default:
		close(c)
	}
}

func (g *c15Gate) releaseAll() {
	g.mu.Lock()
	tokens := make([]string, 0, len(g.rel))
	for tk := range g.rel {
		tokens = append(tokens, tk)
	}
	g.mu.Unlock()
	for _, tk := range tokens {
		g.release(tk)
	}
}

// ---------------------------------------------------------------- in-memory remote

// c15MemConn: one end of an in-memory duplex byte stream (a net.Conn).  Writes never block (the queue is unbounded;
// the harness moves at most a few 10 kB per step).  A Read that drains the queue of a peer that has closed its write
// side returns the bytes TOGETHER with io.EOF (and 0, io.EOF ever after), which is what io.Reader allows and what a QUIC
// receive stream does when the last data and the FIN arrive together; a TCP socket never does.
type c15MemHalf struct {
	mu     sync.Mutex
	cond   *sync.Cond
	q      [][]byte
	fin    bool      // the writer has closed: no more bytes will come
	dead   bool      // the reader has closed
	until  time.Time // read deadline
	eofed  bool
	nreads int
}

type c15MemConn struct {
	rd, wr *c15MemHalf
}

func c15MemPipe() (*c15MemConn, *c15MemConn) {
	a, b := &c15MemHalf{}, &c15MemHalf{}
	a.cond, b.cond = sync.NewCond(&a.mu), sync.NewCond(&b.mu)
	return &c15MemConn{rd: a, wr: b}, &c15MemConn{rd: b, wr: a}
}

type c15MemTimeout struct{}

func (c15MemTimeout) Error() string   { return "i/o timeout" }
func (c15MemTimeout) Timeout() bool   { return true }
func (c15MemTimeout) Temporary() bool { return true }

func (c *c15MemConn) Read(p []byte) (int, error) {
	h := c.rd
	h.mu.Lock()
	defer h.mu.Unlock()
	for {
		if h.dead {
			return 0, io.ErrClosedPipe
		}
		if len(h.q) > 0 {
			if len(p) == 0 {
				return 0, nil
			}
			n := 0
			for n < len(p) && len(h.q) > 0 {
				k := copy(p[n:], h.q[0])
				n += k
				if k == len(h.q[0]) {
					h.q = h.q[1:]
				} else {
					h.q[0] = h.q[0][k:]
				}
			}
			h.nreads++
			if len(h.q) == 0 && h.fin {
				h.eofed = true
				return n, io.EOF // the last bytes and the end of the stream in one Read
			}
			return n, nil
		}
		if h.fin {
			h.eofed = true
			return 0, io.EOF
		}
		if !h.until.IsZero() && !time.Now().Before(h.until) {
			return 0, c15MemTimeout{}
		}
		h.cond.Wait()
	}
}

func (c *c15MemConn) write(p []byte, fin bool) (int, error) {
	h := c.wr
	h.mu.Lock()
	defer h.mu.Unlock()
	if h.fin || h.dead {
		return 0, io.ErrClosedPipe
	}
	if len(p) > 0 {
		h.q = append(h.q, append([]byte(nil), p...))
	}
	if fin {
		h.fin = true
	}
	h.cond.Broadcast()
	return len(p), nil
}

func (c *c15MemConn) Write(p []byte) (int, error) { return c.write(p, false) }

// the bytes and the end of the stream, atomically (no Read of the peer can see the one without the other)
func (c *c15MemConn) WriteFin(p []byte) (int, error) { return c.write(p, true) }

func (c *c15MemConn) CloseWrite() error {
	_, err := c.write(nil, true)
	return err
}

func (c *c15MemConn) Close() error {
	c.wr.mu.Lock()
	c.wr.fin = true
	c.wr.cond.Broadcast()
	c.wr.mu.Unlock()
	c.rd.mu.Lock()
	c.rd.dead = true
	c.rd.cond.Broadcast()
	c.rd.mu.Unlock()
	return nil
}

func (c *c15MemConn) SetReadDeadline(t time.Time) error {
	h := c.rd
	h.mu.Lock()
	h.until = t
	h.cond.Broadcast()
	h.mu.Unlock()
	if !t.IsZero() {
		d := time.Until(t)
		if d < 0 {
			d = 0
		}
		time.AfterFunc(d+time.Millisecond, func() {
			h.mu.Lock()
			h.cond.Broadcast()
			h.mu.Unlock()
		})
	}
	return nil
}
func (c *c15MemConn) SetWriteDeadline(t time.Time) error { return nil }
func (c *c15MemConn) SetDeadline(t time.Time) error      { return c.SetReadDeadline(t) }

type c15MemAddr struct{}

func (c15MemAddr) Network() string { return "mem" }
func (c15MemAddr) String() string  { return "mem" }

func (c *c15MemConn) LocalAddr() net.Addr  { return c15MemAddr{} }
func (c *c15MemConn) RemoteAddr() net.Addr { return c15MemAddr{} }

// ---------------------------------------------------------------- request hook

// c15Hook: the server's RequestHook in scripts with hooked flows.  A request for "c15hook-<k>-<addr>" is hooked:
// the hook takes k bytes off the stream (a sniffer reading the head of the payload), rewrites the address to <addr>
// and hands the k bytes back as putback; every other address is not hooked (Check false).
type c15Hook struct{}

const c15HookPrefix = "c15hook-"

func c15HookSplit(reqAddr string) (int, string, bool) {
	if !strings.HasPrefix(reqAddr, c15HookPrefix) {
		return 0, "", false
	}
	rest := reqAddr[len(c15HookPrefix):]
	j := strings.IndexByte(rest, '-')
	if j < 0 {
		return 0, "", false
	}
	k, err := strconv.Atoi(rest[:j])
	if err != nil || k < 0 {
		return 0, "", false
	}
	return k, rest[j+1:], true
}

func (c15Hook) Check(isUDP bool, reqAddr string) bool {
	_, _, is := c15HookSplit(reqAddr)
	return is
}

func (c15Hook) TCP(stream server.HyStream, reqAddr *string) ([]byte, error) {
	k, inner, _ := c15HookSplit(*reqAddr)
	var data []byte
	if k > 0 {
		data = make([]byte, k)
		_ = stream.SetReadDeadline(time.Now().Add(c15Deliver))
		if _, err := io.ReadFull(stream, data); err != nil {
			return nil, err
		}
		_ = stream.SetReadDeadline(time.Time{})
	}
	*reqAddr = inner
	return data, nil
}

func (c15Hook) UDP(data []byte, reqAddr *string) error {
	if _, inner, is := c15HookSplit(*reqAddr); is {
		*reqAddr = inner
	}
	return nil
}

// ---------------------------------------------------------------- flows

type c15Rx struct {
	data []byte
	addr net.Addr
	err  error
}

type c15Flow struct {
	udp  bool
	slot int
	// tcp: both ends
	cc, rc net.Conn
	// udp: client session, datagrams it received, and the server's outbound socket as the remote saw it
	uc   client.HyUDPConn
	rx   chan c15Rx
	peer net.Addr
	to   string // udp: the address the client sends to (with the hook marker on a hooked session)
	mem  bool   // tcp: the remote end is an in-memory conn handed out by the gated outbound
	pb   int    // tcp: bytes the request hook still waits for before it dials the target (0 once it has them)
}

// the four report sites of the model: the two copy directions of the TCP relay and the two datagram directions
func c15RelaySite(site string) bool {
	return site == "copyTwoWayEx" || site == "udpIOImpl.ReceiveMessage" || site == "udpIOImpl.SendMessage"
}

func (f *c15Flow) close() {
	if f.cc != nil {
		_ = f.cc.Close()
	}
	if f.rc != nil {
		_ = f.rc.Close()
	}
	if f.uc != nil {
		_ = f.uc.Close()
	}
}

type c15E2EObs struct {
	Step    int          `json:"step"`
	Result  string       `json:"result"`  // ok | refused | rejected | skipped | error:<..>
	Reports [][]uint64   `json:"reports"` // LogTraffic calls seen during the step: [id, tx, rx, accepted]
	Sites   []string     `json:"sites"`   // ... and the function of core/server each of them was made from
	Ups     []int        `json:"ups"`     // LogOnlineState(id, true) calls seen during the step
	Downs   []int        `json:"downs"`   // LogOnlineState(id, false) calls seen during the step
	Alive   *bool        `json:"alive"`   // tcp / udp steps: did a proxy attempt on the connection succeed afterwards?
	Online  [][]int64    `json:"online"`  // listing after the step reached (or failed to reach) the expected census
	Auths   []int        `json:"auths"`   // rawauth: status of every auth request, in the order of Reqs
	Pend    []c15PendObs `json:"pend"`    // pendauth: one per connection, in the order of Conns
}

const (
	c15HangMax = 90 * time.Second // a gated dial that nobody released (the case is long over by then)
	c15Deliver = 15 * time.Second // bound on a transfer (or its refusal) becoming visible
	c15Die     = 5 * time.Second  // bound on a refused connection becoming unusable for the client
)

func c15E2E(c c15Case, steps []c15Step, res map[string]any) {
	ok, why := true, ""
	fail := func(format string, a ...any) {
		if ok {
			ok, why = false, fmt.Sprintf(format, a...)
		}
	}
	defer func() {
		res["ok"] = ok
		res["why"] = why
	}()
	cert, err := c15Cert()
	if err != nil {
		fail("setup: %v", err)
		return
	}
	stats := NewTrafficStatsServer(c.Secret)
	idx := c15Index(c.Ids)
	tap := &c15Tap{inner: stats, idx: idx}
	udpConn, err := net.ListenUDP("udp", &net.UDPAddr{IP: net.IPv4(127, 0, 0, 1)})
	if err != nil {
		fail("setup: %v", err)
		return
	}
	authn := &c15Auth{}
	evlog := &c15EvLog{}
	scfg := &server.Config{
		TLSConfig:     server.TLSConfig{Certificates: []tls.Certificate{cert}},
		Conn:          udpConn,
		Authenticator: authn,
		TrafficLogger: tap,
		EventLogger:   evlog,
	}
	// scripts with pending outbound dials run the server over the gated outbound (all other scripts: the default one)
	var gate *c15Gate
	for _, st := range steps {
		if st.A == "hang" || st.Mem {
			gate = newC15Gate()
			scfg.Outbound = gate
			break
		}
	}
	// scripts with hooked requests run the server with a RequestHook next to the TrafficLogger (requests whose address
	// does not carry the marker are not hooked)
	for _, st := range steps {
		if st.Hooked {
			scfg.RequestHook = c15Hook{}
			break
		}
	}
	srv, err := server.NewServer(scfg)
	if err != nil {
		fail("setup: %v", err)
		return
	}
	defer srv.Close()
	if gate != nil {
		defer gate.releaseAll()
	}
	hung := map[int][]string{} // slot -> tokens of its pending dials
	go srv.Serve()

	// the remote the proxied TCP flows end at: the harness keeps every accepted connection
	remote, err := net.Listen("tcp", "127.0.0.1:0")
	if err != nil {
		fail("setup: %v", err)
		return
	}
	defer remote.Close()
	accepted := make(chan net.Conn, 16)
	go func() {
		for {
			conn, err := remote.Accept()
			if err != nil {
				return
			}
			accepted <- conn
		}
	}()
	acceptRemote := func(f *c15Flow) net.Conn {
		if f.mem {
			select {
			case c := <-gate.mem:
				return c
			case <-time.After(c15Deliver):
				return nil
			}
		}
		select {
		case c := <-accepted:
			return c
		case <-time.After(c15Deliver):
			return nil
		}
	}
	// the target of the "is this connection still usable" probes: accepts and hangs up, no byte flows
	probe, err := net.Listen("tcp", "127.0.0.1:0")
	if err != nil {
		fail("setup: %v", err)
		return
	}
	defer probe.Close()
	go func() {
		for {
			conn, err := probe.Accept()
			if err != nil {
				return
			}
			_ = conn.Close()
		}
	}()
	// the remote of the proxied UDP sessions
	remoteUDP, err := net.ListenUDP("udp", &net.UDPAddr{IP: net.IPv4(127, 0, 0, 1)})
	if err != nil {
		fail("setup: %v", err)
		return
	}
	defer remoteUDP.Close()
	udpIn := make(chan c15Rx, 64)
	go func() {
		for {
			buf := make([]byte, 4096)
			n, addr, err := remoteUDP.ReadFrom(buf)
			if err != nil {
				return
			}
			select {
			case udpIn <- c15Rx{data: buf[:n], addr: addr}:
			default:
			}
		}
	}()

	n := len(c.Ids)
	httpOp := func(method, path, body string) c15Res {
		r := c15Do(stats, c.Ids, idx, c15Op{O: "http", HasAuth: true, Auth: c.Secret, Method: method, Path: path, Body: body})
		c15FixEmpty(c15Op{Path: path}, &r)
		return r
	}
	slots := map[int]client.Client{}
	raws := map[int]*c15Raw{}
	slotID := map[int]int{}
	flows := map[int]*c15Flow{}
	live := make([]int64, n)
	pending := make([]bool, n)
	sent := make([][2]uint64, n) // bytes that went through per id: [up, down]
	obs := []c15E2EObs{}
	defer func() {
		for _, f := range flows {
			f.close()
		}
		for _, cl := range slots {
			_ = cl.Close()
		}
		for _, rc := range raws {
			rc.close()
		}
	}()
	dropSlot := func(slot int) {
		for k, f := range flows {
			if f.slot == slot {
				f.close()
				delete(flows, k)
			}
		}
		delete(slots, slot)
	}

	// wait (bounded) until the listing equals the expected census
	census := func() ([][]int64, bool) {
		bound := 15 * time.Second
		if !ok {
			bound = 250 * time.Millisecond // the verdict is already "violated": do not spend the full bound again
		}
		deadline := time.Now().Add(bound)
		for {
			r := httpOp("GET", "/online", "")
			seen := make([]int64, n)
			good := r.Kind == "online"
			for _, e := range r.On {
				seen[e[0]] = e[1]
				if e[1] <= 0 {
					good = false
				}
			}
			for id := 0; id < n; id++ {
				if seen[id] != live[id] {
					good = false
				}
			}
			if good || time.Now().After(deadline) {
				if r.On == nil {
					r.On = [][]int64{}
				}
				return r.On, good
			}
			time.Sleep(5 * time.Millisecond)
		}
	}
	// the pairing of the online / offline notifications, on the whole record of the logger boundary: per user no
	// prefix has more offline than online notifications (an offline one always answers an earlier online one),
	// at a quiescent point #online - #offline is the number of live authenticated connections, and per connection
	// (EventLogger, by client address) nothing / Connect / Connect then Disconnect
	pairing := func(si int, a string, quiescent bool) {
		bal := make([]int64, n)
		k := 0
		for _, e := range tap.since(0) {
			if e.Log {
				continue
			}
			k++
			if e.ID < 0 {
				fail("step %d (%s): online notification #%d names a user nobody authenticated as", si, a, k)
				return
			}
			if e.On {
				bal[e.ID]++
			} else if bal[e.ID]--; bal[e.ID] < 0 {
				fail("step %d (%s): unpaired offline notification: LogOnlineState(id %d, false) is notification #%d at the logger boundary "+
					"and no online notification of that user is outstanding (online-offline balance %d)", si, a, e.ID, k, bal[e.ID])
				return
			}
		}
		if msg := evlog.unpaired(); msg != "" {
			fail("step %d (%s): unpaired online announcements: %s", si, a, msg)
			return
		}
		for id := 0; quiescent && id < n; id++ {
			if bal[id] != live[id] {
				fail("step %d (%s): online-offline balance of the notifications for id %d is %d with %d live authenticated connection(s)", si, a, id, bal[id], live[id])
				return
			}
		}
	}
	// the online / offline notifications recorded since mark, as [id, 0|1]
	notesSince := func(mark int) [][]int {
		out := [][]int{}
		for _, e := range tap.since(mark) {
			if !e.Log {
				b := 0
				if e.On {
					b = 1
				}
				out = append(out, []int{e.ID, b})
			}
		}
		return out
	}
	// one proxy attempt on the connection that moves no byte (so it makes no traffic report)
	usable := func(cl client.Client) bool {
		conn, err := cl.TCP(probe.Addr().String())
		if err != nil {
			return false
		}
		_ = conn.Close()
		return true
	}
	// what became of a transfer: delivered | refused | error | timeout
	outcome := func(rxc <-chan c15Rx, want []byte, id, mark int) (string, int, net.Addr) {
		deadline := time.After(c15Deliver)
		tick := time.NewTicker(2 * time.Millisecond)
		defer tick.Stop()
		for {
			select {
			case r := <-rxc:
				if r.err == nil && bytes.Equal(r.data, want) {
					return "delivered", len(r.data), r.addr
				}
				if r.err == nil && len(r.data) == len(want) {
					return "error:corrupted", len(r.data), nil
				}
				if r.err == nil {
					continue // a stale datagram
				}
				if tap.refusedSince(mark, id) > 0 {
					return "refused", len(r.data), nil
				}
				return "error:" + c15ErrClass(r.err), len(r.data), nil
			case <-tick.C:
				if tap.refusedSince(mark, id) > 0 {
					// give the receiving end a moment to see what the refusal did to the flow
					select {
					case r := <-rxc:
						if r.err == nil && bytes.Equal(r.data, want) {
							return "delivered", len(r.data), r.addr
						}
						return "refused", len(r.data), nil
					case <-time.After(150 * time.Millisecond):
						return "refused", 0, nil
					}
				}
			case <-deadline:
				return "timeout", 0, nil
			}
		}
	}
	readN := func(conn net.Conn, k int) <-chan c15Rx {
		ch := make(chan c15Rx, 1)
		go func() {
			_ = conn.SetReadDeadline(time.Now().Add(c15Deliver + 5*time.Second))
			buf := make([]byte, k)
			got, err := io.ReadFull(conn, buf)
			ch <- c15Rx{data: buf[:got], err: err}
		}()
		return ch
	}

	for si, st := range steps {
		result := "ok"
		mark := tap.mark()
		var alive *bool
		var auths []int
		var pobs []c15PendObs
		wantDowns, wantUps := []int{}, []int{}
		switch st.A {
		case "pendauth":
			// connections that are closed (or whose request is cancelled) while their auth is pending: the
			// authenticator backend is slow, the client gives up, then the backend answers
			if st.Proto == nil || len(st.Conns) == 0 {
				result = "skipped"
				break
			}
			type pendRun struct {
				rc     *c15Raw
				hold   *c15Hold
				cancel context.CancelFunc
				done   chan int
				closed bool
			}
			wait := func(ch chan int) int {
				select {
				case v := <-ch:
					return v
				case <-time.After(12 * time.Second):
					return -1
				}
			}
			runs := make([]*pendRun, len(st.Conns))
			pobs = make([]c15PendObs, len(st.Conns))
			setup := true
			for j, pc := range st.Conns {
				pobs[j] = c15PendObs{Slot: pc.Slot, Status: -1, Notes: [][]int{}}
				rc, err := c15RawDial(udpConn.LocalAddr())
				if err != nil {
					fail("step %d: raw QUIC connection failed: %v", si, err)
					setup = false
					break
				}
				token := fmt.Sprintf("p%d-%d", si, j)
				ctx, cancel := context.WithTimeout(context.Background(), 30*time.Second)
				pr := &pendRun{rc: rc, hold: authn.hold(token), cancel: cancel, done: make(chan int, 1)}
				runs[j] = pr
				cred := fmt.Sprintf("hold:%s:%s:%s", token, pc.Decide, c.Ids[pc.ID])
				go func() { pr.done <- pr.rc.authCtx(ctx, st.Proto, cred) }()
				select {
				case <-pr.hold.entered:
					pobs[j].Entered = true
				case <-time.After(10 * time.Second):
					fail("step %d: the auth request of connection %d never reached the authenticator", si, j)
					setup = false
				}
				if !setup {
					break
				}
			}
			inject := func(j int) {
				pr := runs[j]
				switch st.Conns[j].Fault {
				case "close":
					_ = pr.rc.conn.CloseWithError(0x101, "") // what client.connect does when its round trip fails
					pr.closed = true
					wait(pr.done)
				case "cancel":
					pr.cancel()
					wait(pr.done)
				}
			}
			if !setup {
				result = "error:setup"
				for _, pr := range runs {
					if pr != nil {
						close(pr.hold.release)
						pr.cancel()
						pr.rc.close()
					}
				}
				break
			}
			// the faults that happen while the authenticator is still deciding
			for j, pc := range st.Conns {
				if pc.When == "pending" && pc.Fault != "none" {
					inject(j)
					if pc.Fault == "cancel" && runs[j].rc.ping(st.Proto) == 0 {
						fail("step %d: connection %d is unusable after its auth request was cancelled", si, j)
					}
				}
			}
			// let the server see the closes (there is nothing a closed connection could answer)
			time.Sleep(time.Duration(st.SettleMs) * time.Millisecond)
			// the backend answers, one connection after the other; each answer is followed until the server has
			// said about that connection what the code says it will (bounded; the verdict is the pairing below)
			for _, j := range st.Order {
				if j < 0 || j >= len(runs) {
					continue
				}
				pc, pr := st.Conns[j], runs[j]
				mk := tap.mark()
				close(pr.hold.release)
				if pc.When == "decided" && pc.Fault != "none" {
					inject(j)
				}
				if pc.Fault == "none" {
					pobs[j].Status = wait(pr.done)
				}
				wantN := 0
				if pc.Decide == "ok" {
					wantN = 1
					if pc.Fault == "close" {
						wantN = 2
					}
				}
				bound := 10 * time.Second
				if !ok {
					bound = 250 * time.Millisecond
				}
				if wantN == 0 {
					bound = 40 * time.Millisecond
				}
				deadline := time.Now().Add(bound)
				var notes [][]int
				for {
					notes = notesSince(mk)
					if (wantN > 0 && len(notes) >= wantN) || (len(notes) > 0 && notes[0][1] == 0) || time.Now().After(deadline) {
						break
					}
					time.Sleep(2 * time.Millisecond)
				}
				pobs[j].Notes = notes
				// per connection: nothing, or online, or online then offline - of its own user
				shape := len(notes) <= 2
				for k, nt := range notes {
					if nt[0] != pc.ID || nt[1] != 1-k {
						shape = false
					}
				}
				what := fmt.Sprintf("connection %d of id %d (authenticator answers %s; %s %s)", j, pc.ID, pc.Decide, pc.Fault, pc.When)
				switch {
				case !shape:
					fail("step %d: unpaired online notifications for %s: the server reported %v ([id, 1 online | 0 offline]) between the authenticator's answer "+
						"and the end of that connection's handler; expected nothing, or online, or online then offline", si, what, notes)
				case pc.Decide != "ok" && len(notes) > 0:
					fail("step %d: online notifications %v for %s, whose credentials were rejected", si, notes, what)
				}
			}
			// what is left: the connections that are still there and authenticated are connections of their users
			for j, pc := range st.Conns {
				pr := runs[j]
				pr.cancel()
				isLive := false
				switch {
				case pr.closed:
				case pc.Decide == "ok" && pc.Fault == "none":
					isLive = pobs[j].Status == st.Proto.Status
					if !isLive {
						fail("step %d: auth request of connection %d (accepted credentials, slow authenticator) answered %d", si, j, pobs[j].Status)
					}
				case pc.Decide == "ok":
					// the request was cancelled; a second one with rejected credentials tells whether the server
					// took the first: "already authenticated"
					pobs[j].Status = pr.rc.auth(st.Proto, "denied")
					isLive = pobs[j].Status == st.Proto.Status
				case pc.Fault == "none" && pobs[j].Status == st.Proto.Status:
					fail("step %d: rejected credentials were accepted on connection %d", si, j)
				}
				pobs[j].Live = isLive
				if isLive {
					raws[pc.Slot] = pr.rc
					slotID[pc.Slot] = pc.ID
					live[pc.ID]++
				} else {
					pr.rc.close()
				}
			}
			for _, j := range st.Order {
				if j < 0 || j >= len(runs) {
					continue
				}
				pc, nt := st.Conns[j], pobs[j].Notes
				switch {
				case pobs[j].Live:
					wantUps = append(wantUps, pc.ID)
				case runs[j].closed && pc.Decide == "ok" && len(nt) == 2:
					wantUps = append(wantUps, pc.ID)
					wantDowns = append(wantDowns, pc.ID)
				}
			}
		case "connect", "reject":
			auth := "ok:" + c.Ids[st.ID]
			if st.A == "reject" {
				auth = "denied"
			}
			cl, _, err := client.NewClient(&client.Config{
				ServerAddr: udpConn.LocalAddr(), Auth: auth,
				TLSConfig: client.TLSConfig{InsecureSkipVerify: true},
			})
			if st.A == "reject" {
				if err == nil {
					fail("step %d: a client with rejected credentials was accepted", si)
					_ = cl.Close()
				}
				result = "rejected"
			} else if err != nil {
				fail("step %d: connect failed: %v", si, err)
				result = "error:connect"
			} else {
				slots[st.Slot] = cl
				slotID[st.Slot] = st.ID
				live[st.ID]++
				wantUps = append(wantUps, st.ID)
			}
		case "rawauth":
			// several auth requests on ONE QUIC connection: however they overlap, the connection is one
			// connection of its user - one online notification, listed once, gone from the listing after close
			if st.Proto == nil || len(st.Reqs) == 0 {
				result = "skipped"
				break
			}
			rc, err := c15RawDial(udpConn.LocalAddr())
			if err != nil {
				fail("step %d: raw QUIC connection failed: %v", si, err)
				result = "error:connect"
				break
			}
			nok := 0
			for _, k := range st.Reqs {
				if k == "ok" {
					nok++
				}
			}
			token := fmt.Sprintf("%d-%d", si, st.Slot)
			cred := func(k string) string {
				if k == "ok" {
					n := 1
					if st.Conc {
						n = nok
					}
					return fmt.Sprintf("rv:%d:%s:%s", n, token, c.Ids[st.ID])
				}
				return "denied"
			}
			auths = make([]int, len(st.Reqs))
			if st.Conc {
				var wg sync.WaitGroup
				for j, k := range st.Reqs {
					wg.Add(1)
					go func(j int, k string) {
						defer wg.Done()
						auths[j] = rc.auth(st.Proto, cred(k))
					}(j, k)
				}
				wg.Wait()
			} else {
				for j, k := range st.Reqs {
					auths[j] = rc.auth(st.Proto, cred(k))
				}
			}
			anyOK, stepBad := false, false
			for j, k := range st.Reqs {
				switch {
				case k == "ok" && auths[j] != st.Proto.Status:
					fail("step %d: auth request %d of %d on one connection (accepted credentials) answered %d", si, j, len(st.Reqs), auths[j])
					stepBad = true
				case k == "ok":
					anyOK = true
				case auths[j] == st.Proto.Status && !st.Conc && !anyOK:
					fail("step %d: rejected credentials were accepted on a connection that was not authenticated", si)
					stepBad = true
				}
			}
			nup := 0
			for _, e := range tap.since(mark) {
				if !e.Log && e.On {
					nup++
				}
			}
			if nup > 1 {
				fail("step %d: %d auth requests on ONE connection of id %d (concurrent=%v) produced %d online notifications", si, len(st.Reqs), st.ID, st.Conc, nup)
			}
			if nok > 0 && !stepBad {
				raws[st.Slot] = rc
				slotID[st.Slot] = st.ID
				live[st.ID]++
				wantUps = append(wantUps, st.ID)
			} else {
				rc.close()
				if nok > 0 {
					result = "error:auth"
				} else {
					result = "rejected"
				}
			}
		case "close":
			if rc, has := raws[st.Slot]; has {
				rc.close()
				delete(raws, st.Slot)
				live[slotID[st.Slot]]--
				wantDowns = append(wantDowns, slotID[st.Slot])
			} else if cl, has := slots[st.Slot]; has {
				_ = cl.Close()
				dropSlot(st.Slot)
				live[slotID[st.Slot]]--
				wantDowns = append(wantDowns, slotID[st.Slot])
			} else {
				result = "skipped"
			}
		case "hang":
			// proxy requests of the connection whose outbound dial does not return; nothing else happens: no byte is
			// proxied for a TCP request (no report), the datagram of a UDP session is reported (and accepted) when the
			// server receives it, before the session is set up
			cl, has := slots[st.Slot]
			if !has || gate == nil {
				result = "skipped"
				break
			}
			id := slotID[st.Slot]
			token := fmt.Sprintf("s%d-%d", si, st.Slot)
			want := 1
			if st.Kind == "udp" {
				uc, err := cl.UDP()
				if err != nil {
					fail("step %d: id %d could not open a UDP session: %v", si, id, err)
					result = "error:open"
					break
				}
				flows[-1-si] = &c15Flow{udp: true, slot: st.Slot, uc: uc}
				if err := uc.Send(vGenData(9, uint64(si), st.N), token+c15HangSuffix+":53"); err != nil {
					fail("step %d: id %d could not send a datagram: %v", si, id, err)
					result = "error:send"
					break
				}
				sent[id][0] += uint64(st.N)
			} else {
				want = st.N
				for j := 0; j < st.N; j++ {
					go func() {
						// returns when the dial is released (a dial error) or the connection is gone
						if conn, err := cl.TCP(token + c15HangSuffix + ":80"); err == nil {
							_ = conn.Close()
						}
					}()
				}
			}
			t0 := time.Now()
			for gate.inside(token) < want && time.Since(t0) < 10*time.Second {
				time.Sleep(2 * time.Millisecond)
			}
			if got := gate.inside(token); got != want {
				fail("step %d: %d of the %d %s request(s) of id %d reached the outbound dial within 10 s", si, got, want, st.Kind, id)
				result = "error:hang"
				break
			}
			hung[st.Slot] = append(hung[st.Slot], token)
			if st.Kind == "udp" {
				// the report of the datagram (ReceiveMessage) precedes the dial
				nrep := 0
				for _, e := range tap.since(mark) {
					if e.Log && e.ID == id && e.OK && e.Tx == uint64(st.N) && e.Rx == 0 {
						nrep++
					}
				}
				if nrep != 1 {
					fail("step %d: the %d-byte datagram of id %d (new UDP session, dial pending) was reported %d times", si, st.N, id, nrep)
				}
			}
		case "release":
			// the pending dials of the slot fail now (whether or not the connection is still there)
			if gate == nil || len(hung[st.Slot]) == 0 {
				result = "skipped"
				break
			}
			for _, tk := range hung[st.Slot] {
				gate.release(tk)
			}
			t0 := time.Now()
			left := 1
			for left > 0 && time.Since(t0) < 10*time.Second {
				left = 0
				for _, tk := range hung[st.Slot] {
					left += gate.inside(tk)
				}
				time.Sleep(2 * time.Millisecond)
			}
			delete(hung, st.Slot)
			if cl, has := slots[st.Slot]; has {
				a := usable(cl)
				alive = &a
				if !a {
					fail("step %d: id %d lost its connection when its pending dials failed", si, slotID[st.Slot])
					_ = cl.Close()
					dropSlot(st.Slot)
					live[slotID[st.Slot]]--
				}
			}
		case "kick":
			body, _ := json.Marshal([]string{c.Ids[st.ID]})
			if r := httpOp("POST", "/kick", string(body)); r.St != 200 {
				fail("step %d: kick answered %d", si, r.St)
			}
			pending[st.ID] = true
		case "tcp", "udp":
			cl, has := slots[st.Slot]
			if !has {
				result = "skipped"
				break
			}
			id := slotID[st.Slot]
			site := st.A + " " + st.Dir
			if st.Fin {
				site += " (the sender closes with these bytes: last chunk of the stream)"
			}
			if st.Hooked {
				site += fmt.Sprintf(" (hooked request, putback %d)", st.Putback)
			}
			msg := vGenData(7, uint64(si), st.N)
			// open the flow at its first step (opening moves no byte: no report)
			f := flows[st.Flow]
			if f == nil {
				f = &c15Flow{udp: st.A == "udp", slot: st.Slot}
				if f.udp {
					uc, err := cl.UDP()
					if err != nil {
						fail("step %d: id %d could not open a UDP session: %v", si, id, err)
						result = "error:open"
						break
					}
					f.uc = uc
					f.to = remoteUDP.LocalAddr().String()
					if st.Hooked {
						f.to = c15HookPrefix + "0-" + f.to
					}
					f.rx = make(chan c15Rx, 16)
					go func(f *c15Flow) {
						for {
							b, _, err := f.uc.Receive()
							if err != nil {
								f.rx <- c15Rx{err: err}
								return
							}
							select {
							case f.rx <- c15Rx{data: b}:
							default:
							}
						}
					}(f)
				} else {
					target := remote.Addr().String()
					if st.Mem && gate != nil {
						f.mem = true
						target = fmt.Sprintf("f%d-%d%s:1", si, st.Flow, c15MemSuffix)
					}
					if st.Hooked {
						target = fmt.Sprintf("%s%d-%s", c15HookPrefix, st.Putback, target)
						f.pb = st.Putback
					}
					cc, err := cl.TCP(target)
					if err != nil {
						fail("step %d: id %d could not open a TCP stream: %v", si, id, err)
						result = "error:open"
						break
					}
					f.cc = cc
					// a hook that wants bytes dials the target only after it has read them: the remote sees the
					// connection after the first upload
					if f.pb == 0 {
						if f.rc = acceptRemote(f); f.rc == nil {
							_ = cc.Close()
							fail("step %d: the remote never saw the TCP connection of id %d", si, id)
							result = "error:open"
							break
						}
					}
				}
				flows[st.Flow] = f
			}
			if f.udp != (st.A == "udp") || f.slot != st.Slot || (f.udp && st.Dir == "down" && f.peer == nil) ||
				(!f.udp && f.rc == nil && (st.Dir != "up" || st.N < f.pb)) || (f.udp && st.Fin) {
				result = "skipped" // a script the generator does not produce
				break
			}
			// the bytes of this step the hook takes off the stream and writes to the target itself (putback): the relay
			// - and with it the relay's report sites - sees the rest
			pb := 0
			// move the bytes
			var rxc <-chan c15Rx
			var serr error
			switch {
			case !f.udp && st.Dir == "up":
				if f.rc != nil {
					rxc = readN(f.rc, st.N)
				}
				_ = f.cc.SetWriteDeadline(time.Now().Add(c15Deliver))
				_, serr = f.cc.Write(msg)
				if st.Fin {
					_ = f.cc.Close() // the stream's FIN right behind the bytes
				}
				if f.rc == nil {
					pb, f.pb = f.pb, 0
					if f.rc = acceptRemote(f); f.rc == nil {
						ch := make(chan c15Rx, 1)
						ch <- c15Rx{err: io.ErrUnexpectedEOF}
						rxc = ch
					} else {
						rxc = readN(f.rc, st.N)
					}
				}
			case !f.udp && st.Dir == "down":
				rxc = readN(f.cc, st.N)
				_ = f.rc.SetWriteDeadline(time.Now().Add(c15Deliver))
				switch rc := f.rc.(type) {
				case *c15MemConn:
					if st.Fin {
						_, serr = rc.WriteFin(msg)
					} else {
						_, serr = rc.Write(msg)
					}
				case *net.TCPConn:
					_, serr = rc.Write(msg)
					if st.Fin {
						_ = rc.CloseWrite()
					}
				default:
					_, serr = rc.Write(msg)
				}
			case f.udp && st.Dir == "up":
				for drained := false; !drained; {
					select {
					case <-udpIn:
					default:
						drained = true
					}
				}
				rxc = udpIn
				serr = f.uc.Send(msg, f.to)
			default:
				rxc = f.rx
				_, serr = remoteUDP.WriteTo(msg, f.peer)
			}
			relayN := st.N - pb
			// (a send that fails because a refusal already tore the connection down is still a refusal)
			how, got, from := outcome(rxc, msg, id, mark)
			if how == "timeout" && serr != nil {
				how = "error:send"
			}
			if how == "delivered" && f.udp && st.Dir == "up" {
				f.peer = from // the server's outbound socket of this session, for later "down" steps
			}
			if pb > 0 && how == "delivered" {
				// the putback bytes are written to the target by handleTCPRequest itself; should that code report them, the
				// call may come after the bytes have arrived: give it a moment to show up in this step's record
				for t0 := time.Now(); time.Since(t0) < 100*time.Millisecond; time.Sleep(5 * time.Millisecond) {
					late := false
					for _, e := range tap.since(mark) {
						late = late || (e.Log && !c15RelaySite(e.Site))
					}
					if late {
						break
					}
				}
			}
			evs := tap.since(mark)
			var tx, rx uint64   // accepted, from the four relay / datagram sites
			var otx, orx uint64 // accepted, from anywhere else in core/server
			nrep, nref, nother := 0, 0, 0
			refSite := ""
			for _, e := range evs {
				if !e.Log {
					continue
				}
				if e.ID != id {
					nother++
					continue
				}
				nrep++
				switch {
				case !e.OK:
					nref++
					if refSite == "" {
						refSite = e.Site
					}
				case c15RelaySite(e.Site):
					tx += e.Tx
					rx += e.Rx
				default:
					otx += e.Tx
					orx += e.Rx
				}
			}
			if nother > 0 {
				fail("step %d: %d traffic report(s) for a user that moved no byte", si, nother)
			}
			// EVERY refusal, wherever in core/server the report was made: the logger answered false for this user (the
			// kick is used up), so the connection the report came from must be closed by the server within the bound,
			// and nothing the connection does afterwards is reported as if nothing had happened
			refusal := func() {
				t0 := time.Now()
				a := usable(cl)
				for a && time.Since(t0) < c15Die && ok {
					time.Sleep(10 * time.Millisecond)
					a = usable(cl)
				}
				alive = &a
				if a {
					fail("step %d: id %d was kicked and its next report (%s) was refused - LogTraffic returned false to core/server.%s - but the user was not disconnected: "+
						"a proxy attempt on that connection still succeeds %.1fs later", si, id, site, refSite, time.Since(t0).Seconds())
					_ = cl.Close()
				}
				seenRef := false
				for _, e := range tap.since(mark) {
					if !e.Log || e.ID != id {
						continue
					}
					if !e.OK {
						seenRef = true
					} else if seenRef {
						fail("step %d: id %d: after the refused report (%s, at core/server.%s) a later report of the same connection was accepted as if nothing had happened: LogTraffic(tx=%d, rx=%d) at core/server.%s",
							si, id, site, refSite, e.Tx, e.Rx, e.Site)
						sent[id][0] += e.Tx
						sent[id][1] += e.Rx
					}
				}
				dropSlot(st.Slot)
				live[id]--
				wantDowns = append(wantDowns, id)
			}
			switch {
			case how == "delivered" && nref > 0:
				// all bytes arrived although a report of this transfer was refused
				result = "refused"
				if !pending[id] {
					fail("step %d: LogTraffic(id %d) refused a %s report with no kick pending", si, id, site)
				}
				pending[id] = false
				sent[id][0] += tx + otx
				sent[id][1] += rx + orx
				refusal()
				fail("step %d: id %d: a report of this transfer (%s) was refused at core/server.%s, yet all %d bytes were proxied", si, id, site, refSite, st.N)
			case how == "delivered" && pending[id] && relayN > 0:
				fail("step %d: id %d was kicked but its next %d bytes (%s) were proxied", si, id, st.N, site)
				pending[id] = false
				sent[id][c15DirIx(st.Dir)] += uint64(st.N)
			case how == "delivered":
				// (with a kick pending and relayN == 0 the hook's putback was the whole transfer: the relay saw no byte
				// and made no report, so the kick is still pending)
				wtx, wrx := uint64(relayN), uint64(0)
				if st.Dir == "down" {
					wtx, wrx = 0, uint64(relayN)
				}
				if nref != 0 {
					fail("step %d: LogTraffic(id %d) refused %d report(s) with no kick pending", si, id, nref)
				} else if tx != wtx || rx != wrx {
					fail("step %d: conservation broken end to end: %d bytes went %s for id %d (%d of them through the relay), the accepted reports of the relay say tx=%d rx=%d",
						si, st.N, site, id, relayN, tx, rx)
				} else if otx > uint64(pb) || orx > 0 {
					fail("step %d: conservation broken end to end: %d bytes went %s for id %d, %d of them as the hook's putback; reports from outside the relay say tx=%d rx=%d",
						si, st.N, site, id, pb, otx, orx)
				}
				sent[id][0] += tx + otx
				sent[id][1] += rx + orx
				a := usable(cl)
				alive = &a
				if !a {
					fail("step %d: id %d (not kicked) lost its connection after an accepted %s report", si, id, site)
					_ = cl.Close()
					dropSlot(st.Slot)
					live[id]--
				}
			case how == "refused" && !pending[id]:
				result = "refused"
				fail("step %d: LogTraffic(id %d) refused a %s report with no kick pending", si, id, site)
			case how == "refused":
				result = "refused"
				pending[id] = false
				if nref != 1 || nrep != 1 {
					fail("step %d: id %d was kicked once; its next reports (%s): %d made, %d refused (expected exactly one, refused)", si, id, site, nrep, nref)
				}
				// (the hook's putback is written to the target ahead of the relay: it is not part of a report the relay
				// made; a report made for the putback itself covers exactly those bytes)
				if allowed := pb; got > allowed || (got > 0 && !c15RelaySite(refSite)) {
					if !c15RelaySite(refSite) {
						allowed = 0
					}
					fail("step %d: %d bytes of the refused %s report of id %d (made at core/server.%s) were forwarded", si, got-allowed, site, id, refSite)
				}
				// the refusal must disconnect the user: the connection becomes unusable for the client
				refusal()
			default:
				if pending[id] {
					fail("step %d: id %d was kicked; its next transfer (%s, %d bytes) was neither refused nor proxied: %s", si, id, site, st.N, how)
				} else {
					fail("step %d: id %d (not kicked) could not proxy %d bytes (%s): %s", si, id, st.N, site, how)
				}
				result = how
				if !strings.HasPrefix(result, "error") {
					result = "error:" + how
				}
			}
			if st.Fin {
				// the stream is over: both directions of the relay end (the server closes the target and the stream)
				if f2 := flows[st.Flow]; f2 != nil {
					f2.close()
					delete(flows, st.Flow)
				}
			}
		}
		on, good := census()
		if !good {
			npend := 0
			if gate != nil {
				for _, tks := range hung {
					for _, tk := range tks {
						npend += gate.inside(tk)
					}
				}
			}
			if npend > 0 {
				fail("step %d (%s): GET /online shows %v, expected census %v (bounded wait of 15 s expired) while %d outbound dial(s) of proxy requests are still pending: the listing must not wait for them", si, st.A, on, live, npend)
			} else {
				fail("step %d (%s): GET /online shows %v, expected census %v (bounded wait expired)", si, st.A, on, live)
			}
		}
		pairing(si, st.A, good)
		ob := c15E2EObs{Step: si, Result: result, Alive: alive, Online: on, Reports: [][]uint64{}, Sites: []string{}, Ups: []int{}, Downs: []int{}, Auths: auths, Pend: pobs}
		for _, e := range tap.since(mark) {
			switch {
			case e.Log:
				b := uint64(0)
				if e.OK {
					b = 1
				}
				ob.Reports = append(ob.Reports, []uint64{uint64(int64(e.ID)), e.Tx, e.Rx, b})
				ob.Sites = append(ob.Sites, e.Site)
			case e.On:
				ob.Ups = append(ob.Ups, e.ID)
			default:
				ob.Downs = append(ob.Downs, e.ID)
			}
		}
		if !c15SameInts(ob.Ups, wantUps) || !c15SameInts(ob.Downs, wantDowns) {
			fail("step %d (%s): online notifications online=%v offline=%v, expected online=%v offline=%v", si, st.A, ob.Ups, ob.Downs, wantUps, wantDowns)
		}
		obs = append(obs, ob)
	}
	// traffic totals: every byte that went through was reported once, in its direction; refused reports added nothing
	tr := httpOp("GET", "/traffic", "")
	shown := make([][2]uint64, n)
	for _, e := range tr.M {
		shown[e[0]] = [2]uint64{e[1], e[2]}
	}
	for id := 0; id < n; id++ {
		if shown[id] != sent[id] {
			fail("final snapshot shows tx=%d rx=%d for id %d, proxied %d up and %d down", shown[id][0], shown[id][1], id, sent[id][0], sent[id][1])
		}
	}
	if tr.M == nil {
		tr.M = [][]uint64{}
	}
	res["obs"] = obs
	res["final"] = tr.M
}

func c15DirIx(dir string) int {
	if dir == "down" {
		return 1
	}
	return 0
}

func c15SameInts(a, b []int) bool {
	if len(a) != len(b) {
		return false
	}
	for i := range a {
		if a[i] != b[i] {
			return false
		}
	}
	return true
}

func c15ErrClass(err error) string {
	if err == io.EOF || err == io.ErrUnexpectedEOF {
		return "eof"
	}
	if ne, ok := err.(net.Error); ok && ne.Timeout() {
		return "timeout"
	}
	return "closed"
}
