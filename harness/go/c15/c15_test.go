//go:build verif

package trafficlogger

// C15 harness: drives the real trafficStatsServerImpl of /repo's working tree (LogTraffic,
// LogOnlineState and ServeHTTP through an httptest.ResponseRecorder) on the cases in $VERIF_IN.
//
//   seq    : one goroutine, a generated call sequence; raw results for the comparison with the
//            Coq model + the property's own predicate (conservation on every snapshot, kick
//            exactly once, online count exact) evaluated by a monitor written here.
//   lin    : 2-4 goroutines x 3-5 calls on one server object, call/return stamps from one
//            atomic counter, then a sequential epilogue that reads everything back; the history
//            goes to Lin.lin_check in Coq; here only the order-free clauses are evaluated.
//   stress : many loggers + clearing pollers + kickers; only conservation (order-free).

import (
	"encoding/json"
	"fmt"
	"io"
	"math/bits"
	"math/rand"
	"net/http"
	"net/http/httptest"
	"net/url"
	"runtime"
	"sort"
	"strconv"
	"strings"
	"sync"
	"sync/atomic"
	"testing"
)

type c15Op struct {
	O string `json:"o"` // log | online | http
	// log / online
	ID int    `json:"id"`
	Tx uint64 `json:"tx"`
	Rx uint64 `json:"rx"`
	B  bool   `json:"b"`
	// http
	HasAuth  bool   `json:"hasauth"`
	Auth     string `json:"auth"`
	Method   string `json:"method"`
	Path     string `json:"path"`
	HasClear bool   `json:"hasclear"`
	Clear    string `json:"clear"`
	Body     string `json:"body"`
	// what the generator expects json.Decode(&[]string) to yield for Body: nil = error
	Ids *[]int `json:"ids"`
}

type c15Case struct {
	K        string    `json:"k"`
	Secret   string    `json:"secret"`
	Ids      []string  `json:"ids"`
	Ops      []c15Op   `json:"ops"`
	Threads  [][]c15Op `json:"threads"`
	Epilogue []c15Op   `json:"epilogue"`
	Paired   bool      `json:"paired"`
	Rounds   bool      `json:"rounds"` // all goroutines start their j-th call together (spin barrier)
	Steps    []c15Step `json:"steps"`  // e2e
	// stress
	G       int   `json:"g"`
	N       int   `json:"n"`
	Pollers int   `json:"pollers"`
	Kickers int   `json:"kickers"`
	Seed    int64 `json:"seed"`
}

type c15Res struct {
	B    *bool      `json:"b,omitempty"`
	St   int        `json:"st,omitempty"`
	Kind string     `json:"kind,omitempty"`
	M    [][]uint64 `json:"m,omitempty"`  // stats: [id, tx, rx] sorted by id
	On   [][]int64  `json:"on,omitempty"` // online: [id, count] sorted by id
}

const c15JSONType = "application/json; charset=utf-8"

func c15Index(ids []string) map[string]int {
	m := make(map[string]int, len(ids))
	for i, s := range ids {
		m[s] = i
	}
	return m
}

// c15Do performs one call on the real object and canonicalises the result.
func c15Do(s TrafficStatsServer, ids []string, idx map[string]int, op c15Op) c15Res {
	switch op.O {
	case "log":
		b := s.LogTraffic(ids[op.ID], op.Tx, op.Rx)
		return c15Res{B: &b}
	case "online":
		s.LogOnlineState(ids[op.ID], op.B)
		return c15Res{}
	case "http":
		u := url.URL{Scheme: "http", Host: "stats.local", Path: op.Path}
		if op.HasClear {
			u.RawQuery = url.Values{"clear": {op.Clear}}.Encode()
		}
		req, err := http.NewRequest(op.Method, u.String(), strings.NewReader(op.Body))
		if err != nil {
			return c15Res{Kind: "bad:newrequest:" + err.Error()}
		}
		if op.HasAuth {
			req.Header.Set("Authorization", op.Auth)
		}
		rec := httptest.NewRecorder()
		s.ServeHTTP(rec, req)
		return c15Canon(rec, idx)
	}
	return c15Res{Kind: "bad:op"}
}

func c15Canon(rec *httptest.ResponseRecorder, idx map[string]int) c15Res {
	res := rec.Result()
	body, _ := io.ReadAll(res.Body)
	r := c15Res{St: res.StatusCode}
	ct := res.Header.Get("Content-Type")
	if res.StatusCode != 200 {
		r.Kind = "err"
		return r
	}
	switch {
	case len(body) == 0:
		r.Kind = "empty"
	case string(body) == indexHTML:
		r.Kind = "index"
	case ct == c15JSONType && strings.HasPrefix(string(body), `{"streams":`):
		r.Kind = "streams"
	case ct == c15JSONType:
		// a stats listing is map[string]{tx,rx}; an online listing is map[string]int
		var st map[string]struct {
			Tx *uint64 `json:"tx"`
			Rx *uint64 `json:"rx"`
		}
		dec := json.NewDecoder(strings.NewReader(string(body)))
		dec.DisallowUnknownFields()
		if err := dec.Decode(&st); err == nil {
			r.Kind = "stats"
			r.M = [][]uint64{}
			for k, v := range st {
				i, ok := idx[k]
				if !ok || v.Tx == nil || v.Rx == nil {
					r.Kind = "bad:stats-entry:" + k
					return r
				}
				r.M = append(r.M, []uint64{uint64(i), *v.Tx, *v.Rx})
			}
			sort.Slice(r.M, func(a, b int) bool { return r.M[a][0] < r.M[b][0] })
			// both listings are "{}" when empty: the caller disambiguates by the request
			return r
		}
		var on map[string]int64
		if err := json.Unmarshal(body, &on); err == nil {
			r.Kind = "online"
			r.On = [][]int64{}
			for k, v := range on {
				i, ok := idx[k]
				if !ok {
					r.Kind = "bad:online-entry:" + k
					return r
				}
				r.On = append(r.On, []int64{int64(i), v})
			}
			sort.Slice(r.On, func(a, b int) bool { return r.On[a][0] < r.On[b][0] })
			return r
		}
		r.Kind = "bad:json:" + string(body)
	default:
		r.Kind = "bad:body:" + ct
	}
	return r
}

// an empty JSON object is a stats listing or an online listing depending on the path asked
func c15FixEmpty(op c15Op, r *c15Res) {
	if r.Kind == "stats" && len(r.M) == 0 && op.Path == "/online" {
		r.Kind = "online"
		r.M = nil
		r.On = [][]int64{}
	}
}

func c15IsClear(op c15Op) bool {
	if !op.HasClear {
		return false
	}
	b, _ := strconv.ParseBool(op.Clear)
	return b
}

// u128 sums (value, carry count) so that "equal in N when below 2^64" can be decided
type c15Sum struct{ lo, hi uint64 }

func (a *c15Sum) add(x uint64) {
	var c uint64
	a.lo, c = bits.Add64(a.lo, x, 0)
	a.hi += c
}

func c15SumOf(a c15Sum, x uint64) c15Sum { a.add(x); return a }

// ---------------------------------------------------------------- monitor (sequential)

type c15Monitor struct {
	secret   string
	n        int
	allowed  [][2]c15Sum // per id: tx, rx accepted so far
	cleared  [][2]c15Sum // per id: shown by clearing snapshots so far
	pending  []bool      // kick pending
	live     []int64     // connection count as the property states it
	ok       bool
	why      string
	nRefused int
	nSnap    int
}

func c15NewMonitor(n int) *c15Monitor {
	return &c15Monitor{n: n, allowed: make([][2]c15Sum, n), cleared: make([][2]c15Sum, n),
		pending: make([]bool, n), live: make([]int64, n), ok: true}
}

func (m *c15Monitor) fail(i int, format string, a ...any) {
	if m.ok {
		m.ok = false
		m.why = fmt.Sprintf("call %d: ", i) + fmt.Sprintf(format, a...)
	}
}

// observe one call and its result; the monitor knows the property, not the implementation
func (m *c15Monitor) observe(i int, op c15Op, r c15Res) {
	switch op.O {
	case "log":
		want := !m.pending[op.ID]
		if r.B == nil || *r.B != want {
			m.fail(i, "LogTraffic(id %d) returned %v, expected %v (kick pending: %v)", op.ID, r.B != nil && *r.B, want, m.pending[op.ID])
		}
		if r.B != nil && *r.B {
			m.allowed[op.ID][0].add(op.Tx)
			m.allowed[op.ID][1].add(op.Rx)
		} else {
			m.nRefused++
		}
		m.pending[op.ID] = false
	case "online":
		if op.B {
			m.live[op.ID]++
		} else if m.live[op.ID] > 0 {
			m.live[op.ID]--
		}
	case "http":
		if strings.HasPrefix(r.Kind, "bad:") {
			m.fail(i, "malformed response: %s", r.Kind)
			return
		}
		if m.secret != "" && (!op.HasAuth || op.Auth != m.secret) && r.St != http.StatusUnauthorized {
			m.fail(i, "request without the API secret (%s %s) was answered %d", op.Method, op.Path, r.St)
		}
		if r.St == 200 && r.Kind == "empty" && op.Ids != nil {
			for _, id := range *op.Ids {
				m.pending[id] = true
			}
		}
		if r.St == 200 && r.Kind == "stats" {
			m.nSnap++
			shown := make([][2]uint64, m.n)
			for _, e := range r.M {
				shown[e[0]] = [2]uint64{e[1], e[2]}
			}
			for id := 0; id < m.n; id++ {
				for d := 0; d < 2; d++ {
					tot := c15SumOf(m.cleared[id][d], shown[id][d])
					al := m.allowed[id][d]
					// equal mod 2^64 always; equal in N when the accepted total is below 2^64
					if tot.lo != al.lo || (al.hi == 0 && tot.hi != 0) {
						m.fail(i, "conservation broken for id %d dir %d: cleared+snapshot=%d(+%d*2^64) accepted=%d(+%d*2^64)",
							id, d, tot.lo, tot.hi, al.lo, al.hi)
					}
				}
			}
			if c15IsClear(op) {
				for id := 0; id < m.n; id++ {
					m.cleared[id][0].add(shown[id][0])
					m.cleared[id][1].add(shown[id][1])
				}
			}
		}
		if r.St == 200 && r.Kind == "online" {
			seen := make([]int64, m.n)
			for _, e := range r.On {
				if e[1] <= 0 {
					m.fail(i, "online listing shows id %d with count %d", e[0], e[1])
				}
				seen[e[0]] = e[1]
			}
			for id := 0; id < m.n; id++ {
				if seen[id] != m.live[id] {
					m.fail(i, "online listing shows %d connections for id %d, expected %d", seen[id], id, m.live[id])
				}
			}
		}
	}
}

// ---------------------------------------------------------------- cases

func TestVerifC15(t *testing.T) {
	vParams(t, [][3]string{
		{"StatusOK", "N", strconv.Itoa(http.StatusOK)},
		{"StatusBadRequest", "N", strconv.Itoa(http.StatusBadRequest)},
		{"StatusUnauthorized", "N", strconv.Itoa(http.StatusUnauthorized)},
		{"StatusNotFound", "N", strconv.Itoa(http.StatusNotFound)},
	})
	out := vOpenOut(t, "VERIF_OUT")
	defer out.Close()
	for i, raw := range vReadCases(t) {
		var c c15Case
		if err := json.Unmarshal(raw, &c); err != nil {
			t.Fatal(err)
		}
		res := map[string]any{"i": i, "k": c.K}
		switch c.K {
		case "seq":
			c15Seq(c, res)
		case "lin":
			c15Lin(c, res)
		case "stress":
			c15Stress(c, res)
		case "e2e":
			c15E2E(c, c.Steps, res)
		default:
			t.Fatalf("unknown case kind %q", c.K)
		}
		out.Emit(res)
	}
}

func c15Seq(c c15Case, res map[string]any) {
	s := NewTrafficStatsServer(c.Secret)
	idx := c15Index(c.Ids)
	mon := c15NewMonitor(len(c.Ids))
	mon.secret = c.Secret
	rs := make([]c15Res, 0, len(c.Ops))
	for i, op := range c.Ops {
		var r c15Res
		p, msg := vCatch(func() { r = c15Do(s, c.Ids, idx, op) })
		if p {
			r = c15Res{Kind: "bad:panic:" + msg}
			mon.fail(i, "panic: %s", msg)
		}
		c15FixEmpty(op, &r)
		mon.observe(i, op, r)
		rs = append(rs, r)
	}
	res["rs"] = rs
	res["ok"] = mon.ok
	res["why"] = mon.why
	res["refused"] = mon.nRefused
	res["snaps"] = mon.nSnap
}

type c15Event struct {
	T    int    `json:"t"`
	J    int    `json:"j"`
	Call int64  `json:"call"`
	Ret  int64  `json:"ret"`
	R    c15Res `json:"r"`
}

// spin barrier: releases all n goroutines within a few hundred nanoseconds of each other
type c15Barrier struct {
	n     int32
	count atomic.Int32
	gen   atomic.Int32
}

func (b *c15Barrier) wait() {
	g := b.gen.Load()
	if b.count.Add(1) == b.n {
		b.count.Store(0)
		b.gen.Add(1)
		return
	}
	for k := 0; b.gen.Load() == g; k++ {
		if k%2000 == 1999 {
			runtime.Gosched()
		}
	}
}

func c15Lin(c c15Case, res map[string]any) {
	s := NewTrafficStatsServer(c.Secret)
	idx := c15Index(c.Ids)
	var clock atomic.Int64
	evs := make([][]c15Event, len(c.Threads))
	start := make(chan struct{})
	var wg sync.WaitGroup
	bar := &c15Barrier{n: int32(len(c.Threads))}
	rounds := 0
	for _, th := range c.Threads {
		if len(th) > rounds {
			rounds = len(th)
		}
	}
	for ti := range c.Threads {
		wg.Add(1)
		go func(ti int) {
			defer wg.Done()
			ops := c.Threads[ti]
			my := make([]c15Event, 0, len(ops))
			yrng := rand.New(rand.NewSource(c.Seed*31 + int64(ti)))
			<-start
			for j := 0; j < rounds; j++ {
				if c.Rounds || j == 0 {
					bar.wait()
				}
				if j >= len(ops) {
					continue
				}
				op := ops[j]
				// yields inside the stamped interval: the order in which the critical sections
				// really ran is then not the order of the call stamps
				y1, y2 := yrng.Intn(4), yrng.Intn(3)
				call := clock.Add(1)
				for y := 0; y < y1; y++ {
					runtime.Gosched()
				}
				r := c15Do(s, c.Ids, idx, op)
				for y := 0; y < y2; y++ {
					runtime.Gosched()
				}
				ret := clock.Add(1)
				c15FixEmpty(op, &r)
				my = append(my, c15Event{T: ti, J: j, Call: call, Ret: ret, R: r})
				if !c.Rounds && (ti+j)%3 == 0 {
					runtime.Gosched()
				}
			}
			evs[ti] = my
		}(ti)
	}
	close(start)
	wg.Wait()
	all := []c15Event{}
	for _, e := range evs {
		all = append(all, e...)
	}
	// sequential epilogue: reads everything back (counters, online, pending kicks)
	for j, op := range c.Epilogue {
		call := clock.Add(1)
		r := c15Do(s, c.Ids, idx, op)
		ret := clock.Add(1)
		c15FixEmpty(op, &r)
		all = append(all, c15Event{T: len(c.Threads), J: j, Call: call, Ret: ret, R: r})
	}
	res["events"] = all
	// overlap: pairs of calls of different goroutines neither of which precedes the other
	ov := 0
	for a := range all {
		for b := a + 1; b < len(all); b++ {
			if all[a].T != all[b].T && !(all[a].Ret < all[b].Call) && !(all[b].Ret < all[a].Call) {
				ov++
			}
		}
	}
	res["overlap"] = ov

	// order-free clauses on the implementation alone
	n := len(c.Ids)
	ok, why := true, ""
	fail := func(format string, a ...any) {
		if ok {
			ok, why = false, fmt.Sprintf(format, a...)
		}
	}
	allowed := make([][2]c15Sum, n)
	got := make([][2]c15Sum, n) // cleared snapshots + final snapshot
	refused := make([]int, n)
	kicks := make([]int, n)
	bal := make([]int64, n)
	var finalOnline [][]int64
	sawFinalOnline := false
	opOf := func(e c15Event) c15Op {
		if e.T == len(c.Threads) {
			return c.Epilogue[e.J]
		}
		return c.Threads[e.T][e.J]
	}
	finalSnap := -1
	for k, e := range all {
		op := opOf(e)
		if e.T == len(c.Threads) && op.O == "http" && e.R.Kind == "stats" && !c15IsClear(op) && finalSnap < 0 {
			finalSnap = k
		}
	}
	for k, e := range all {
		op := opOf(e)
		if strings.HasPrefix(e.R.Kind, "bad:") {
			fail("malformed response: %s", e.R.Kind)
		}
		switch op.O {
		case "log":
			if e.T == len(c.Threads) {
				// epilogue probes (0 bytes) only reveal pending kicks
				if e.R.B != nil && !*e.R.B {
					refused[op.ID]++
				}
				continue
			}
			if e.R.B != nil && *e.R.B {
				allowed[op.ID][0].add(op.Tx)
				allowed[op.ID][1].add(op.Rx)
			} else {
				refused[op.ID]++
			}
		case "online":
			if op.B {
				bal[op.ID]++
			} else {
				bal[op.ID]--
			}
		case "http":
			if e.R.St == 200 && e.R.Kind == "empty" && op.Ids != nil {
				for _, id := range *op.Ids {
					kicks[id]++
				}
			}
			if e.R.St == 200 && e.R.Kind == "stats" && (c15IsClear(op) || k == finalSnap) {
				for _, m := range e.R.M {
					got[m[0]][0].add(m[1])
					got[m[0]][1].add(m[2])
				}
			}
			if e.R.St == 200 && e.R.Kind == "online" {
				for _, m := range e.R.On {
					if m[1] <= 0 {
						fail("online listing shows id %d with count %d", m[0], m[1])
					}
				}
				if e.T == len(c.Threads) {
					finalOnline, sawFinalOnline = e.R.On, true
				}
			}
		}
	}
	if finalSnap >= 0 {
		for id := 0; id < n; id++ {
			for d := 0; d < 2; d++ {
				if got[id][d].lo != allowed[id][d].lo || (allowed[id][d].hi == 0 && got[id][d].hi != 0) {
					fail("conservation broken for id %d dir %d: cleared+final=%d(+%d*2^64) accepted=%d(+%d*2^64)",
						id, d, got[id][d].lo, got[id][d].hi, allowed[id][d].lo, allowed[id][d].hi)
				}
			}
		}
	}
	for id := 0; id < n; id++ {
		if refused[id] > kicks[id] {
			fail("id %d was refused %d times but kicked only %d times", id, refused[id], kicks[id])
		}
		if kicks[id] > 0 && refused[id] == 0 {
			fail("id %d was kicked %d times and every later report was accepted", id, kicks[id])
		}
	}
	if c.Paired && sawFinalOnline {
		seen := make([]int64, n)
		for _, m := range finalOnline {
			seen[m[0]] = m[1]
		}
		for id := 0; id < n; id++ {
			if seen[id] != bal[id] {
				fail("final online count of id %d is %d, expected %d", id, seen[id], bal[id])
			}
		}
	}
	res["ok"] = ok
	res["why"] = why
}

func c15Stress(c c15Case, res map[string]any) {
	s := NewTrafficStatsServer(c.Secret)
	ids := c.Ids
	idx := c15Index(ids)
	n := len(ids)
	type acc struct {
		allowed [][2]c15Sum
		refused []int
	}
	var wg sync.WaitGroup
	start := make(chan struct{})
	accs := make([]acc, c.G)
	var stop atomic.Bool
	for g := 0; g < c.G; g++ {
		wg.Add(1)
		accs[g] = acc{allowed: make([][2]c15Sum, n), refused: make([]int, n)}
		go func(g int) {
			defer wg.Done()
			rng := rand.New(rand.NewSource(c.Seed*1000 + int64(g)))
			// reports are generated before the start signal so that the loop below is as tight
			// (and as contended) as the real copy loops
			type rep struct {
				id     int
				tx, rx uint64
			}
			reps := make([]rep, c.N)
			for k := range reps {
				id := rng.Intn(n)
				var tx, rx uint64
				switch rng.Intn(4) {
				case 0:
					tx = uint64(rng.Intn(65536))
				case 1:
					rx = uint64(rng.Intn(65536))
				case 2:
					tx, rx = rng.Uint64()>>rng.Intn(64), rng.Uint64()>>rng.Intn(64)
				default:
					tx, rx = 1, 1
				}
				reps[k] = rep{id, tx, rx}
			}
			<-start
			for _, r := range reps {
				if s.LogTraffic(ids[r.id], r.tx, r.rx) {
					accs[g].allowed[r.id][0].add(r.tx)
					accs[g].allowed[r.id][1].add(r.rx)
				} else {
					accs[g].refused[r.id]++
				}
			}
		}(g)
	}
	get := func(clear string) c15Res {
		return c15Do(s, ids, idx, c15Op{O: "http", HasAuth: true, Auth: c.Secret, Method: "GET", Path: "/traffic",
			HasClear: clear != "", Clear: clear})
	}
	var pwg sync.WaitGroup
	polled := make([][][2]c15Sum, c.Pollers)
	nclears := make([]int, c.Pollers)
	bad := make([]string, c.Pollers)
	for p := 0; p < c.Pollers; p++ {
		pwg.Add(1)
		polled[p] = make([][2]c15Sum, n)
		go func(p int) {
			defer pwg.Done()
			<-start
			for !stop.Load() {
				r := get("1")
				if r.Kind != "stats" {
					bad[p] = "clearing poll returned " + r.Kind
					return
				}
				for _, m := range r.M {
					polled[p][m[0]][0].add(m[1])
					polled[p][m[0]][1].add(m[2])
				}
				nclears[p]++
				if p%2 == 1 {
					get("") // a plain reader in between
				}
				runtime.Gosched()
			}
		}(p)
	}
	nk := make([]int, n)
	var kmu sync.Mutex
	for q := 0; q < c.Kickers; q++ {
		pwg.Add(1)
		go func(q int) {
			defer pwg.Done()
			rng := rand.New(rand.NewSource(c.Seed*7777 + int64(q)))
			<-start
			for !stop.Load() {
				id := rng.Intn(n)
				body, _ := json.Marshal([]string{ids[id]})
				r := c15Do(s, ids, idx, c15Op{O: "http", HasAuth: true, Auth: c.Secret, Method: "POST", Path: "/kick", Body: string(body)})
				if r.St == 200 {
					kmu.Lock()
					nk[id]++
					kmu.Unlock()
				}
				for y := 0; y < 50; y++ {
					runtime.Gosched()
				}
			}
		}(q)
	}
	close(start)
	wg.Wait()
	stop.Store(true)
	pwg.Wait()
	final := get("")
	ok, why := true, ""
	fail := func(format string, a ...any) {
		if ok {
			ok, why = false, fmt.Sprintf(format, a...)
		}
	}
	for _, b := range bad {
		if b != "" {
			fail("%s", b)
		}
	}
	if final.Kind != "stats" {
		fail("final snapshot returned %s", final.Kind)
	}
	got := make([][2]c15Sum, n)
	for p := range polled {
		for id := 0; id < n; id++ {
			for d := 0; d < 2; d++ {
				// 128-bit addition of partial sums
				var cy uint64
				got[id][d].lo, cy = bits.Add64(got[id][d].lo, polled[p][id][d].lo, 0)
				got[id][d].hi += polled[p][id][d].hi + cy
			}
		}
	}
	for _, m := range final.M {
		got[m[0]][0].add(m[1])
		got[m[0]][1].add(m[2])
	}
	allowed := make([][2]c15Sum, n)
	totalRefused, totalKicks, totalClears := 0, 0, 0
	for g := range accs {
		for id := 0; id < n; id++ {
			for d := 0; d < 2; d++ {
				var cy uint64
				allowed[id][d].lo, cy = bits.Add64(allowed[id][d].lo, accs[g].allowed[id][d].lo, 0)
				allowed[id][d].hi += accs[g].allowed[id][d].hi + cy
			}
		}
	}
	for id := 0; id < n; id++ {
		r := 0
		for g := range accs {
			r += accs[g].refused[id]
		}
		totalRefused += r
		totalKicks += nk[id]
		if r > nk[id] {
			fail("id %d refused %d times with only %d kicks", id, r, nk[id])
		}
		for d := 0; d < 2; d++ {
			if got[id][d].lo != allowed[id][d].lo || (allowed[id][d].hi == 0 && got[id][d].hi != 0) {
				fail("conservation broken for id %d dir %d: cleared+final=%d accepted=%d (mod 2^64), difference %d",
					id, d, got[id][d].lo, allowed[id][d].lo, allowed[id][d].lo-got[id][d].lo)
			}
		}
	}
	for _, k := range nclears {
		totalClears += k
	}
	res["ok"] = ok
	res["why"] = why
	res["logs"] = c.G * c.N
	res["refused"] = totalRefused
	res["kicks"] = totalKicks
	res["clears"] = totalClears
}
