//go:build verif

package client

// C16 harness: drives the real NewReconnectableClient of /repo's working tree against a real
// hysteria server on loopback (one server per history), through a counting ConnFactory with a
// kill switch.  A history is a script of controller steps (calls from goroutines 0..3 that can be
// parked inside the server's outbound dial, kills, failing reconnects, Close, bursts).  Every
// boundary event (configFunc, factory.New, PacketConn.Close, connectedFunc, call start/return,
// server saw request, kill, Close begin/end, quiescent census) is appended to one log under one
// mutex; the log is replayed against the Coq LTS by the driver.  A call can also be HELD inside the
// callbacks of its reconnect (configFunc after the config was evaluated, ConnFactory.New before the
// socket exists, ConnFactory.New after the socket exists = before the handshake) while the script
// issues further calls and Close from other goroutines and then opens the holds in a chosen order:
// the real code keeps rc.m across reconnect(), so the others must queue up behind the mutex (the
// controller recognises that state in the goroutine dump) and the boundary events of one locked
// section must stay contiguous in the log.  The property's own verdict
// (socket census at quiescent points, Close is final, counts, fresh config per connect) is
// computed here on the implementation alone.

import (
	"context"
	crand "crypto/rand"
	"crypto/tls"
	"encoding/json"
	"errors"
	"fmt"
	"io"
	"net"
	"os"
	"runtime"
	"runtime/debug"
	"strconv"
	"strings"
	"sync"
	"sync/atomic"
	"testing"
	"time"

	coreErrs "github.com/apernet/hysteria/core/v2/errors"
	"github.com/apernet/hysteria/core/v2/server"
	"github.com/apernet/quic-go"
)

// ---------------------------------------------------------------- goroutine identity

var c16Goids sync.Map // goid -> *c16Who

type c16Who struct {
	h *c16Hist
	g int
}

func c16Goid() int64 {
	var buf [64]byte
	n := runtime.Stack(buf[:], false)
	// "goroutine 123 [running]:..."
	f := strings.Fields(string(buf[:n]))
	if len(f) < 2 {
		return -1
	}
	id, _ := strconv.ParseInt(f[1], 10, 64)
	return id
}

// ---------------------------------------------------------------- case / log types

type c16Step struct {
	Op   string   `json:"op"`
	G    int      `json:"g"`
	Kind string   `json:"kind"` // tcp | udp
	Mode string   `json:"mode"` // ok | err | gate
	How  string   `json:"how"`  // release: ok|err ; kill: sock|srv|sockclose|idle|reset
	F    []string `json:"f"`    // fault queue entries: ok cfgerr newerr hsconn hsauth hsvn hsblack
	N    int      `json:"n"`
	Hold []string `json:"hold"` // call: stages of its reconnect at which the call parks: cfg new hs
}

type c16Case struct {
	K     string    `json:"k"`
	Lazy  bool      `json:"lazy"`
	UDP   bool      `json:"udp"`
	Init  string    `json:"init"` // fault of the eager first connect
	Steps []c16Step `json:"steps"`
	// client configuration dimensions that decide HOW a lost connection shows up in quic-go
	NoParrot bool `json:"noparrot"` // QUICConfig.DisableChromeParrot: non-empty connection ids => stateless resets are detected
	Idle     int  `json:"idle"`     // QUICConfig.MaxIdleTimeout in seconds (0 = default 30 s)
}

type c16Ev struct {
	E   string `json:"e"`
	By  int    `json:"by"`            // goroutine that emitted it (-1 = controller)
	G   int    `json:"g,omitempty"`   // subject goroutine for start/req/ret
	Sid int    `json:"sid,omitempty"` // socket id
	Ok  bool   `json:"ok,omitempty"`
	N   int    `json:"n,omitempty"`
	R   string `json:"r,omitempty"`
	O   []int  `json:"o,omitempty"`
	K   string `json:"k,omitempty"` // start: tcp | udp ; lost / ret: kind of the terminal error (c16Kinds)
}

var (
	errC16Cfg = errors.New("verif: config error")
	errC16New = errors.New("verif: factory error")
)

// ---------------------------------------------------------------- counting socket with a kill switch

type c16Sock struct {
	net.PacketConn
	h      *c16Hist
	sid    int
	closes int32
	killed atomic.Bool
	black  atomic.Bool // blackhole: nothing gets out, nothing gets in (the path died silently)
	lost   bool        // the harness killed the connection on this socket (guarded by h.mu)
	filled bool        // the harness exhausted the stream limit of the connection on this socket
	// (guarded by h.mu) how the connection was lost, the kind of the terminal error quic-go reported for it, and
	// whether a call that started after the loss has come back from this (dead) client
	lostHow  string
	lostKind string
	seen     bool
}

var errC16Killed = errors.New("verif: socket failed")

func (s *c16Sock) ReadFrom(b []byte) (int, net.Addr, error) {
	for {
		n, a, err := s.PacketConn.ReadFrom(b)
		if s.killed.Load() {
			return 0, nil, errC16Killed
		}
		if err == nil && s.black.Load() {
			continue
		}
		return n, a, err
	}
}

func (s *c16Sock) WriteTo(b []byte, a net.Addr) (int, error) {
	if s.black.Load() {
		return len(b), nil
	}
	return s.PacketConn.WriteTo(b, a)
}

func (s *c16Sock) Close() error {
	s.h.mu.Lock()
	s.closes++
	s.h.logLocked(c16Ev{E: "sockclose", Sid: s.sid})
	s.h.mu.Unlock()
	return s.PacketConn.Close()
}

// single-use factory, one per config evaluation (as app/cmd/client.go builds them)
type c16Factory struct {
	h     *c16Hist
	fault string
	used  atomic.Bool
}

func (f *c16Factory) New(net.Addr) (net.PacketConn, error) {
	h := f.h
	if f.used.Swap(true) {
		h.fail("connection factory of one config evaluation used twice")
		return nil, errors.New("connection factory already used")
	}
	h.holdAt("new")
	if f.fault == "newerr" {
		h.mu.Lock()
		if h.rcClosed && h.logging {
			h.why = append(h.why, "ConnFactory.New called after Close returned")
		}
		h.logLocked(c16Ev{E: "newerr"})
		h.mu.Unlock()
		return nil, errC16New
	}
	pc, err := net.ListenUDP("udp", &net.UDPAddr{IP: net.IPv4(127, 0, 0, 1)})
	if err != nil {
		h.fail("harness: ListenUDP: " + err.Error())
		return nil, err
	}
	h.mu.Lock()
	s := &c16Sock{PacketConn: pc, h: h, sid: len(h.socks)}
	h.socks = append(h.socks, s)
	if h.rcClosed && h.logging {
		h.why = append(h.why, fmt.Sprintf("ConnFactory.New called after Close returned (socket %d)", s.sid))
	}
	h.logLocked(c16Ev{E: "new", Sid: s.sid})
	h.mu.Unlock()
	h.holdAt("hs")
	return s, nil
}

// ---------------------------------------------------------------- server side

type c16Null struct {
	once sync.Once
	ch   chan struct{}
}

func newC16Null() *c16Null                         { return &c16Null{ch: make(chan struct{})} }
func (c *c16Null) Read(b []byte) (int, error)      { <-c.ch; return 0, io.EOF }
func (c *c16Null) Write(b []byte) (int, error)     { return len(b), nil }
func (c *c16Null) Close() error                    { c.once.Do(func() { close(c.ch) }); return nil }
func (c *c16Null) LocalAddr() net.Addr             { return &net.TCPAddr{} }
func (c *c16Null) RemoteAddr() net.Addr            { return &net.TCPAddr{} }
func (c *c16Null) SetDeadline(time.Time) error     { return nil }
func (c *c16Null) SetReadDeadline(time.Time) error { return nil }
func (c *c16Null) SetWriteDeadline(time.Time) error {
	return nil
}

type c16Outbound struct{ h *c16Hist }

func (o *c16Outbound) TCP(reqAddr string) (net.Conn, error) {
	h := o.h
	// "c<g>-<mode>-<call number>:80" or "kick<n>:1"
	host := strings.SplitN(reqAddr, ":", 2)[0]
	if strings.HasPrefix(host, "kick") {
		n, _ := strconv.Atoi(strings.TrimPrefix(host, "kick"))
		a, b := net.Pipe()
		h.mu.Lock()
		h.kickPipes[n] = a
		h.mu.Unlock()
		return b, nil
	}
	parts := strings.SplitN(host, "-", 3)
	g, _ := strconv.Atoi(strings.TrimPrefix(parts[0], "c"))
	mode := parts[1]
	seq, _ := strconv.Atoi(parts[2])
	// the server works on its own goroutines: a request can surface after the call that sent it has
	// returned (its connection was closed under it); N = number of the call of g it belongs to
	h.mu.Lock()
	stale := seq != h.callSeq[g]
	h.logLocked(c16Ev{E: "req", G: g, N: seq})
	h.mu.Unlock()
	if stale {
		return nil, errors.New("verif: stale request")
	}
	switch mode {
	case "ok":
		return newC16Null(), nil
	case "err":
		return nil, errors.New("verif: dial refused")
	default: // gate
		h.mu.Lock()
		ch := h.gates[g]
		pk := h.parked[g]
		h.mu.Unlock()
		select {
		case pk <- struct{}{}:
		default:
		}
		how := <-ch
		if how == "ok" {
			return newC16Null(), nil
		}
		return nil, errors.New("verif: dial refused")
	}
}
func (o *c16Outbound) UDP(string) (server.UDPConn, error) { return nil, errors.New("no udp") }
func (o *c16Outbound) CheckUDP(string) error              { return nil }

type c16Auth struct{}

func (c16Auth) Authenticate(addr net.Addr, auth string, tx uint64) (bool, string) {
	return auth == "good", "u"
}

type c16TL struct{ h *c16Hist }

func (l *c16TL) LogTraffic(id string, tx, rx uint64) bool         { return !l.h.kick.Load() }
func (l *c16TL) LogOnlineState(string, bool)                      {}
func (l *c16TL) TraceStream(server.HyStream, *server.StreamStats) {}
func (l *c16TL) UntraceStream(server.HyStream)                    {}

// ---------------------------------------------------------------- one history

const c16NG = 4

type c16Hist struct {
	mu         sync.Mutex
	evs        []c16Ev
	socks      []*c16Sock
	faults     []string
	why        []string
	logging    bool
	gates      [c16NG]chan string
	parked     [c16NG]chan struct{}
	done       [c16NG]chan struct{}
	busy       [c16NG]bool
	isParked   [c16NG]bool
	kick       atomic.Bool
	kickPipes  map[int]net.Conn
	srvAddr    net.Addr
	rc         *reconnectableClientImpl
	ncfg       int
	nconn      int
	rcClosed   bool // Close() has returned
	closeBegun bool
	nClose     int
	startSid   [c16NG]int // socket of the current client when the call started (-1 none)
	startNsk   [c16NG]int // sockets created when the call started
	// sequential verdict state
	lastRet     string
	lastRetSeq  bool
	lastQuiet   bool
	cfgAtStart  [c16NG]int
	startSeqOK  [c16NG]bool
	prevRetAtSt [c16NG]string
	streams     []*quic.Stream
	// holds (histories with "hold" / "open" steps): the controller settles by goroutine state
	conc       bool
	holds      [c16NG][]string      // stages at which the call in flight of g still has to park (mu)
	held       [c16NG]string        // stage g is parked at right now (mu)
	holdCh     [c16NG]chan struct{} // opens the hold of g
	goid       [c16NG]int64         // goroutine id of the call in flight (mu)
	callSeq    [c16NG]int           // number of the call in flight of g (mu)
	closerBusy bool                 // an rc.Close() is in flight on its own goroutine
	closerGoid int64                // (mu)
	closerDone chan struct{}
	// the ways a connection can die
	cs       c16Case
	tlsc     server.TLSConfig
	srv      server.Server
	srvKey   quic.StatelessResetKey
	fakes    []net.PacketConn // fake peers of failing handshakes (version negotiation, silence)
	kinds    []c16KindObs     // error kinds observed in this history (mu)
	noFaultAtSt [c16NG]bool   // no failing connect was queued when the call started
	lostAtSt [c16NG]bool      // the current client at the start of the call was one whose connection the harness had killed
	kindAtSt [c16NG]string    // ... and how / with which terminal error
	// a call into the code under test panicked: the handle counts as unusable, the history stops
	dead     atomic.Bool
	pmu      sync.Mutex // its own lock: a panic can surface while mu is held further up the stack
	panicWhy []string
}

// Every call into the code under test (TCP / UDP / Close / the constructor, on the controller as well as on
// the goroutines the harness spawns for them, incl. the kick stream) runs under recover: a panic is a verdict
// of its own, never the death of the process.  The boundary log written so far stays what it is.
func (h *c16Hist) guard(what string, f func()) (panicked bool) {
	defer func() {
		if r := recover(); r != nil {
			panicked = true
			at := c16PanicSite(string(debug.Stack()))
			h.dead.Store(true)
			h.pmu.Lock()
			h.panicWhy = append(h.panicWhy, fmt.Sprintf("call panicked: %s: %v%s", what, r, at))
			h.pmu.Unlock()
		}
	}()
	f()
	return false
}

// wait for ch: 0 = it fired, 1 = limit reached, 2 = a call of this history has panicked and ch did not fire
// within a second of that (the panic may have left rc.m locked: whoever queues on it never comes back; that
// is the panic's doing, not a harness timeout)
func (h *c16Hist) waitCh(ch <-chan struct{}, limit time.Duration) int {
	end := time.Now().Add(limit)
	var deadSince time.Time
	for {
		select {
		case <-ch:
			return 0
		case <-time.After(20 * time.Millisecond):
		}
		now := time.Now()
		if h.dead.Load() {
			if deadSince.IsZero() {
				deadSince = now
			} else if now.Sub(deadSince) > time.Second {
				return 2
			}
		}
		if now.After(end) {
			return 1
		}
	}
}

// first frame below the runtime's panic machinery: " (at pkg.func file:line)"
func c16PanicSite(stack string) string {
	lines := strings.Split(stack, "\n")
	seen := false
	for i := 0; i+1 < len(lines); i++ {
		ln := lines[i]
		if strings.HasPrefix(ln, "\t") || strings.HasPrefix(ln, "goroutine ") {
			continue
		}
		if strings.HasPrefix(ln, "panic(") || strings.HasPrefix(ln, "runtime.") {
			seen = seen || strings.HasPrefix(ln, "panic(") || strings.Contains(ln, "anic")
			continue
		}
		if !seen {
			continue
		}
		fn := ln
		if k := strings.LastIndex(fn, "("); k > 0 {
			fn = fn[:k]
		}
		if k := strings.LastIndex(fn, "/"); k >= 0 {
			fn = fn[k+1:]
		}
		loc := strings.TrimSpace(lines[i+1])
		if k := strings.Index(loc, " +0x"); k > 0 {
			loc = loc[:k]
		}
		if k := strings.LastIndex(loc, "/"); k >= 0 {
			loc = loc[k+1:]
		}
		return " (at " + fn + " " + loc + ")"
	}
	return ""
}

func (h *c16Hist) who() int {
	if w, ok := c16Goids.Load(c16Goid()); ok {
		ww := w.(*c16Who)
		if ww.h == h {
			return ww.g
		}
	}
	return -1
}

func (h *c16Hist) logLocked(e c16Ev) {
	if !h.logging {
		return
	}
	e.By = h.who()
	h.evs = append(h.evs, e)
}

func (h *c16Hist) log(e c16Ev) {
	h.mu.Lock()
	h.logLocked(e)
	h.mu.Unlock()
}

func (h *c16Hist) fail(s string) {
	h.mu.Lock()
	h.why = append(h.why, s)
	h.mu.Unlock()
}

func (h *c16Hist) configFunc() (*Config, error) {
	h.mu.Lock()
	f := "ok"
	if len(h.faults) > 0 {
		f = h.faults[0]
		h.faults = h.faults[1:]
	}
	h.ncfg++
	if h.rcClosed && h.logging {
		h.why = append(h.why, "configFunc evaluated after Close returned")
	}
	h.logLocked(c16Ev{E: "cfg", Ok: f != "cfgerr"})
	h.mu.Unlock()
	h.holdAt("cfg") // "slow DNS": the config has been evaluated, the connection is not built yet
	if f == "cfgerr" {
		return nil, errC16Cfg
	}
	auth := "good"
	if f == "hsauth" {
		auth = "bad"
	}
	addr := h.srvAddr
	switch f {
	case "hsvn", "hsblack":
		// handshake-level failures that come from the peer: a peer that offers no QUIC version we speak
		// (VersionNegotiationError), a peer that never answers (handshake idle timeout)
		if a := h.fakePeer(f == "hsvn"); a != nil {
			addr = a
		}
	}
	return &Config{
		ConnFactory: &c16Factory{h: h, fault: f},
		ServerAddr:  addr,
		Auth:        auth,
		// "hsconn": certificate verification fails => RoundTrip error => ConnectError path of connect()
		TLSConfig: TLSConfig{InsecureSkipVerify: f != "hsconn"},
		QUICConfig: QUICConfig{
			DisableChromeParrot: h.cs.NoParrot,
			MaxIdleTimeout:      time.Duration(h.cs.Idle) * time.Second,
		},
	}, nil
}

// a UDP peer that is no hysteria server: it answers every long-header packet with a Version Negotiation packet
// that offers only a version nobody speaks (vn), or never answers at all
func (h *c16Hist) fakePeer(vn bool) net.Addr {
	pc, err := net.ListenUDP("udp", &net.UDPAddr{IP: net.IPv4(127, 0, 0, 1)})
	if err != nil {
		h.fail("harness: ListenUDP (fake peer): " + err.Error())
		return nil
	}
	h.mu.Lock()
	h.fakes = append(h.fakes, pc)
	h.mu.Unlock()
	go func() {
		buf := make([]byte, 2048)
		for {
			n, from, err := pc.ReadFrom(buf)
			if err != nil {
				return
			}
			if !vn || n < 7 || buf[0]&0x80 == 0 {
				continue
			}
			// long header: flags(1) version(4) dcidlen(1) dcid scidlen(1) scid
			p := buf[:n]
			dl := int(p[5])
			if 6+dl+1 > n {
				continue
			}
			dcid := p[6 : 6+dl]
			sl := int(p[6+dl])
			if 7+dl+sl > n {
				continue
			}
			scid := p[7+dl : 7+dl+sl]
			out := []byte{0x80 | 0x2a, 0, 0, 0, 0, byte(sl)}
			out = append(out, scid...)
			out = append(out, byte(dl))
			out = append(out, dcid...)
			out = append(out, 0xff, 0x00, 0x00, 0x1d) // draft-29 only
			_, _ = pc.WriteTo(out, from)
		}
	}()
	return pc.LocalAddr()
}

// (re)start the hysteria server of this history on addr (nil = any port).  A restart keeps the address and the
// stateless reset key, as a server process that comes back with its configuration does; everything it knew
// about its connections is gone and no CONNECTION_CLOSE was sent.
func (h *c16Hist) startServer(addr *net.UDPAddr) error {
	if addr == nil {
		addr = &net.UDPAddr{IP: net.IPv4(127, 0, 0, 1)}
	}
	var uc *net.UDPConn
	var err error
	for i := 0; i < 100; i++ {
		if uc, err = net.ListenUDP("udp", addr); err == nil {
			break
		}
		time.Sleep(20 * time.Millisecond)
	}
	if err != nil {
		return errors.New("listen: " + err.Error())
	}
	key := h.srvKey
	s, err := server.NewServer(&server.Config{
		TLSConfig:         h.tlsc,
		Conn:              uc,
		Outbound:          &c16Outbound{h},
		Authenticator:     c16Auth{},
		TrafficLogger:     &c16TL{h},
		DisableUDP:        !h.cs.UDP,
		StatelessResetKey: &key,
		// (the Chrome fingerprint pins the client's own idle timeout to 30 s: the effective one is the minimum of both ends)
		QUICConfig: server.QUICConfig{MaxIncomingStreams: 8, MaxIdleTimeout: time.Duration(h.cs.Idle) * time.Second},
	})
	if err != nil {
		return errors.New("server: " + err.Error())
	}
	h.srvAddr = uc.LocalAddr()
	h.srv = s
	go s.Serve()
	return nil
}

func (h *c16Hist) connectedFunc(c Client, info *HandshakeInfo, n int) {
	h.mu.Lock()
	h.nconn++
	if n != h.nconn {
		h.why = append(h.why, fmt.Sprintf("connectedFunc reported count %d on successful connect number %d", n, h.nconn))
	}
	if h.logging {
		// one connect per loss: connect number n >= 2 is a RE-connect, so the connection before it was
		// dropped and its socket closed; nothing but the socket of this connection is open now
		var o []int
		for _, sk := range h.socks {
			if sk.closes == 0 && sk.sid != len(h.socks)-1 {
				o = append(o, sk.sid)
			}
		}
		if len(o) > 0 {
			h.why = append(h.why, fmt.Sprintf("connectedFunc reported count %d while the socket(s) %v of earlier connection(s) are still open: connect counts must go 1..k with one connect per lost connection", n, o))
		}
		if h.rcClosed {
			h.why = append(h.why, fmt.Sprintf("connectedFunc reported count %d after Close returned", n))
		}
	}
	h.logLocked(c16Ev{E: "connected", N: n})
	h.mu.Unlock()
	// the lock of rc is held by our caller: rc.client can be read here
	if rc, ok := c.(*reconnectableClientImpl); ok {
		if cl, ok := rc.client.(*clientImpl); ok {
			go func() {
				// kick stream: lets the server disconnect this client (TrafficLogger says no)
				h.guard(fmt.Sprintf("TCP() of the kick stream on connection %d", n), func() {
					_, _ = cl.TCP(fmt.Sprintf("kick%d:1", n))
				})
			}()
		}
	}
}

func c16Class(err error) string {
	if err == nil {
		return "ok"
	}
	if _, ok := err.(coreErrs.ClosedError); ok {
		return "closed"
	}
	if errors.Is(err, errC16Cfg) {
		return "cfgerr"
	}
	if errors.Is(err, errC16New) {
		return "newerr"
	}
	var ce coreErrs.ConnectError
	var ae coreErrs.AuthError
	if errors.As(err, &ce) || errors.As(err, &ae) {
		return "hserr"
	}
	return "recov"
}

// ---------------------------------------------------------------- the ways a connection can die
//
// Finite enum of the error kinds that reach wrapIfConnectionClosed (OpenStream / stream Read / stream Write of
// the pinned quic-go) or that end a connection attempt.  id = position in the Coq enum model/C16_Loss.v errkind.
// terminal = the connection is gone for good when quic-go reports it.  The property needs every terminal kind
// classified as ClosedError (that is what takes clientDo to its "drop, close, reconnect next time" branch).
type c16KindRow struct {
	name     string
	terminal bool
	sample   error
}

var c16Kinds = []c16KindRow{
	{"streamlimit", false, &quic.StreamLimitReachedError{}},
	{"idle", true, &quic.IdleTimeoutError{}},
	{"hstimeout", true, &quic.HandshakeTimeoutError{}},
	{"appremote", true, &quic.ApplicationError{ErrorCode: 0x107, Remote: true}},
	{"applocal", true, &quic.ApplicationError{ErrorCode: 0x100}},
	{"trremote", true, &quic.TransportError{ErrorCode: quic.ProtocolViolation, Remote: true}},
	{"trlocal", true, &quic.TransportError{ErrorCode: quic.InternalError}},
	{"crypto", true, &quic.TransportError{ErrorCode: 0x100 + 42}},
	{"vneg", true, &quic.VersionNegotiationError{}},
	{"reset", true, &quic.StatelessResetError{}},
	{"trclosed", true, quic.ErrTransportClosed},
	{"netclosed", true, net.ErrClosed},
	{"streamreset", false, &quic.StreamError{ErrorCode: 0x10c, Remote: true}},
	{"eof", false, io.EOF},
	{"deadline", false, os.ErrDeadlineExceeded},
}

func c16KindID(name string) int {
	for i, r := range c16Kinds {
		if r.name == name {
			return i
		}
	}
	return -1
}

// the kind of an error value, by its dynamic type ("unknown:<type>" if it is none of the enum)
func c16Kind(err error) string {
	var sl *quic.StreamLimitReachedError
	var slv quic.StreamLimitReachedError
	var idle *quic.IdleTimeoutError
	var hst *quic.HandshakeTimeoutError
	var app *quic.ApplicationError
	var tre *quic.TransportError
	var vn *quic.VersionNegotiationError
	var rst *quic.StatelessResetError
	var ste *quic.StreamError
	switch {
	case err == nil:
		return ""
	case errors.As(err, &sl), errors.As(err, &slv):
		return "streamlimit"
	case errors.As(err, &idle):
		return "idle"
	case errors.As(err, &hst):
		return "hstimeout"
	case errors.As(err, &app):
		if app.Remote {
			return "appremote"
		}
		return "applocal"
	case errors.As(err, &tre):
		if tre.ErrorCode >= 0x100 && tre.ErrorCode < 0x200 {
			return "crypto"
		}
		if tre.Remote {
			return "trremote"
		}
		return "trlocal"
	case errors.As(err, &vn):
		return "vneg"
	case errors.As(err, &rst):
		return "reset"
	case errors.Is(err, quic.ErrTransportClosed):
		return "trclosed"
	case errors.As(err, &ste):
		return "streamreset"
	case errors.Is(err, io.EOF), errors.Is(err, io.ErrUnexpectedEOF):
		return "eof"
	case errors.Is(err, os.ErrDeadlineExceeded):
		return "deadline"
	case errors.Is(err, net.ErrClosed):
		return "netclosed"
	}
	return fmt.Sprintf("unknown:%T", err)
}

// one observation of a real error value: where it was seen (wrap = it went through wrapIfConnectionClosed, as a
// return value of TCP()/UDP() or probed on the close reason of a killed connection; connect = it ended a
// connection attempt, inside ConnectError), its kind, and whether it was / is wrapped as ClosedError
type c16KindObs struct {
	Site   string `json:"site"`
	Kind   string `json:"kind"`
	Closed bool   `json:"closed"`
}

func (h *c16Hist) noteKindLocked(o c16KindObs) {
	for _, x := range h.kinds {
		if x == o {
			return
		}
	}
	h.kinds = append(h.kinds, o)
}

// what a return value of TCP() / UDP() / the constructor tells about error kinds ("" = nothing)
func c16RetKind(err error) (o c16KindObs, kind string) {
	if err == nil {
		return o, ""
	}
	if ce, ok := err.(coreErrs.ClosedError); ok {
		if ce.Err == nil {
			return o, "" // rc.closed / a closed UDP session manager: no quic-go error inside
		}
		k := c16Kind(ce.Err)
		return c16KindObs{"wrap", k, true}, k
	}
	var ce coreErrs.ConnectError
	if errors.As(err, &ce) {
		k := c16Kind(ce.Err)
		return c16KindObs{"connect", k, false}, k
	}
	var ae coreErrs.AuthError
	var de coreErrs.DialError
	if errors.Is(err, errC16Cfg) || errors.Is(err, errC16New) || errors.As(err, &ae) || errors.As(err, &de) {
		return o, ""
	}
	// came back as it was: wrapIfConnectionClosed (or whoever) held it for recoverable
	k := c16Kind(err)
	return c16KindObs{"wrap", k, false}, k
}

// The classification table of the working tree: wrapIfConnectionClosed on one value of every kind.
func c16KindTable() (table string, bad []string) {
	var rows []string
	for i, r := range c16Kinds {
		_, closed := wrapIfConnectionClosed(r.sample).(coreErrs.ClosedError)
		rows = append(rows, fmt.Sprintf("(%d%%nat, %v)", i, closed))
		if k := c16Kind(r.sample); k != r.name {
			bad = append(bad, fmt.Sprintf("harness: sample of kind %s is recognised as %s", r.name, k))
		}
		if r.terminal && !closed {
			bad = append(bad, fmt.Sprintf("reconnect on loss: the terminal connection error %T (kind %s) is classified as recoverable by wrapIfConnectionClosed: "+
				"a connection that ends this way is never dropped, closed or replaced", r.sample, r.name))
		}
	}
	return "[" + strings.Join(rows, "; ") + "]", bad
}

func kind0(k string) string {
	if k == "udp" {
		return "udp"
	}
	return "tcp"
}

// current underlying client (nil if none)
func (h *c16Hist) cur() *clientImpl {
	h.rc.m.Lock()
	defer h.rc.m.Unlock()
	if cl, ok := h.rc.client.(*clientImpl); ok {
		return cl
	}
	return nil
}

// cur() for a controller that must not wait for rc.m (a held call may own it): known=false if the
// mutex stayed taken
func (h *c16Hist) curTry() (cl *clientImpl, known bool) {
	for i := 0; i < 50; i++ {
		if h.rc.m.TryLock() {
			c, _ := h.rc.client.(*clientImpl)
			h.rc.m.Unlock()
			return c, true
		}
		if h.anyHeld() {
			return nil, false
		}
		time.Sleep(200 * time.Microsecond)
	}
	return nil, false
}

func (h *c16Hist) anyHeld() bool {
	h.mu.Lock()
	defer h.mu.Unlock()
	for g := 0; g < c16NG; g++ {
		if h.held[g] != "" {
			return true
		}
	}
	return false
}

// called on the goroutine of a call from inside configFunc / ConnFactory.New: park here if the script
// asked for it, until the controller opens the hold
func (h *c16Hist) holdAt(stage string) {
	g := h.who()
	if g < 0 {
		return
	}
	h.mu.Lock()
	k := -1
	for i, x := range h.holds[g] {
		if x == stage {
			k = i
			break
		}
	}
	if k < 0 {
		h.mu.Unlock()
		return
	}
	h.holds[g] = append(append([]string{}, h.holds[g][:k]...), h.holds[g][k+1:]...)
	h.held[g] = stage
	ch := h.holdCh[g]
	h.logLocked(c16Ev{E: "hold", G: g, R: stage})
	h.mu.Unlock()
	<-ch
}

// open the hold g is parked at (its later holds stay); if g is not parked, cancel its holds
func (h *c16Hist) open(g int) {
	h.mu.Lock()
	if h.held[g] != "" {
		h.logLocked(c16Ev{E: "open", G: g, R: h.held[g]})
		h.held[g] = ""
		h.holdCh[g] <- struct{}{}
	} else {
		h.holds[g] = nil
	}
	h.mu.Unlock()
}

func (h *c16Hist) openAll() {
	if !h.conc {
		return
	}
	h.mu.Lock()
	for g := 0; g < c16NG; g++ {
		h.holds[g] = nil
		if h.held[g] != "" {
			h.logLocked(c16Ev{E: "open", G: g, R: h.held[g]})
			h.held[g] = ""
			h.holdCh[g] <- struct{}{}
		}
	}
	h.mu.Unlock()
}

// is goroutine id waiting for rc.m (state sync.Mutex.Lock, entered from a method of the
// reconnectable client) in this dump of all goroutines?
func c16OnRcMutex(dump string, id int64) bool {
	if id <= 0 {
		return false
	}
	hdr := "goroutine " + strconv.FormatInt(id, 10) + " ["
	i := 0
	if !strings.HasPrefix(dump, hdr) {
		i = strings.Index(dump, "\n"+hdr)
		if i < 0 {
			return false
		}
		i++
	}
	blk := dump[i:]
	if j := strings.Index(blk, "\n\n"); j >= 0 {
		blk = blk[:j]
	}
	lines := strings.Split(blk, "\n")
	st := strings.TrimPrefix(lines[0], hdr)
	if !strings.HasPrefix(st, "sync.Mutex.Lock") && !strings.HasPrefix(st, "semacquire") {
		return false
	}
	for _, ln := range lines[1:] {
		if strings.HasPrefix(ln, "\t") {
			continue
		}
		if strings.HasPrefix(ln, "internal/sync.") || strings.HasPrefix(ln, "sync.") || strings.HasPrefix(ln, "runtime.") ||
			strings.HasPrefix(ln, "internal/runtime") {
			continue
		}
		return strings.Contains(ln, "(*reconnectableClientImpl).")
	}
	return false
}

// wait until every call in flight (and a Close in flight) is finished, parked inside the server's
// dial, parked at a hold, or - while somebody is parked at a hold - queued on rc.m
func (h *c16Hist) settle() {
	deadline := time.Now().Add(20 * time.Second)
	var deadSince time.Time
	var buf []byte
	for spin := 0; ; spin++ {
		var pend []int64
		anyHeld := false
		h.mu.Lock()
		for g := 0; g < c16NG; g++ {
			if h.held[g] != "" {
				anyHeld = true
			}
			if !h.busy[g] {
				continue
			}
			select {
			case <-h.done[g]:
				h.busy[g] = false
				h.isParked[g] = false
				continue
			default:
			}
			if h.isParked[g] || h.held[g] != "" {
				continue
			}
			select {
			case <-h.parked[g]:
				h.isParked[g] = true
				continue
			default:
			}
			pend = append(pend, h.goid[g])
		}
		if h.closerBusy {
			select {
			case <-h.closerDone:
				h.closerBusy = false
			default:
				pend = append(pend, h.closerGoid)
			}
		}
		h.mu.Unlock()
		if len(pend) == 0 {
			return
		}
		if anyHeld && spin >= 3 {
			if buf == nil {
				buf = make([]byte, 8<<20)
			}
			dump := vCanonNames(string(buf[:runtime.Stack(buf, true)]))
			all := true
			for _, id := range pend {
				if !c16OnRcMutex(dump, id) {
					all = false
					break
				}
			}
			// the holds cannot have changed (only this goroutine opens them)
			if all {
				return
			}
		}
		if h.dead.Load() {
			if deadSince.IsZero() {
				deadSince = time.Now()
			} else if time.Since(deadSince) > time.Second {
				return // see waitCh
			}
		}
		if time.Now().After(deadline) {
			h.fail("harness: calls in flight did not settle")
			return
		}
		if spin < 10 {
			time.Sleep(300 * time.Microsecond)
		} else {
			time.Sleep(3 * time.Millisecond)
		}
	}
}

// rc.Close() on its own goroutine (it may have to queue on rc.m behind a held call)
func (h *c16Hist) closeAsync() {
	if h.closerBusy {
		h.openAll()
		h.waitCloser()
	}
	h.mu.Lock()
	h.closeBegun = true
	h.nClose++
	h.closerBusy = true
	h.closerGoid = 0
	h.closerDone = make(chan struct{})
	done := h.closerDone
	nth := h.nClose
	for o := 0; o < c16NG; o++ {
		if h.busy[o] {
			h.startSeqOK[o] = false
		}
	}
	h.logLocked(c16Ev{E: "closebegin"})
	h.mu.Unlock()
	h.lastQuiet = false
	go func() {
		id := c16Goid()
		h.mu.Lock()
		h.closerGoid = id
		h.mu.Unlock()
		defer close(done)
		if h.guard(fmt.Sprintf("Close() number %d", nth), func() { _ = h.rc.Close() }) {
			h.log(c16Ev{E: "closeend", R: "panic"})
			return
		}
		h.mu.Lock()
		h.rcClosed = true
		h.logLocked(c16Ev{E: "closeend"})
		h.mu.Unlock()
	}()
}

func (h *c16Hist) waitCloser() {
	if !h.closerBusy {
		return
	}
	switch h.waitCh(h.closerDone, 15*time.Second) {
	case 0:
		h.closerBusy = false
	case 1:
		h.fail("harness: timeout waiting for Close")
	}
}

// After a panicked call: let everything that is still parked go and give the calls in flight a short
// while to come back; whoever does not (the panic may have left rc.m locked) is left behind, without a
// harness-timeout entry of its own: the panic is the verdict.
func (h *c16Hist) abandon() {
	h.mu.Lock()
	for g := 0; g < c16NG; g++ {
		h.holds[g] = nil
		if h.held[g] != "" {
			h.held[g] = ""
			select {
			case h.holdCh[g] <- struct{}{}:
			default:
			}
		}
		if h.busy[g] && h.gates[g] != nil {
			select {
			case h.gates[g] <- "ok":
			default:
			}
		}
	}
	h.mu.Unlock()
	deadline := time.Now().Add(2 * time.Second)
	for g := 0; g < c16NG; g++ {
		if !h.busy[g] {
			continue
		}
		select {
		case <-h.done[g]:
		case <-time.After(time.Until(deadline)):
		}
		h.busy[g] = false
		h.isParked[g] = false
	}
	if h.closerBusy {
		select {
		case <-h.closerDone:
		case <-time.After(2 * time.Second):
		}
		h.closerBusy = false
	}
}

func (h *c16Hist) openSids() []int {
	var o []int
	for _, s := range h.socks {
		if s.closes == 0 {
			o = append(o, s.sid)
		}
	}
	return o
}

func (h *c16Hist) anyBusy() bool {
	if h.closerBusy {
		return true
	}
	for g := 0; g < c16NG; g++ {
		if h.busy[g] {
			return true
		}
	}
	return false
}

// quiescent point: census verdict + log
func (h *c16Hist) quiet() {
	if h.anyBusy() {
		h.lastQuiet = false
		return
	}
	h.lastQuiet = true
	h.mu.Lock()
	o := h.openSids()
	if len(o) > 1 {
		h.why = append(h.why, fmt.Sprintf("census: %d factory sockets open at a quiescent point (sids %v of %d created)", len(o), o, len(h.socks)))
	}
	if len(o) == 1 && o[0] != len(h.socks)-1 {
		h.why = append(h.why, fmt.Sprintf("census: open socket %d is not the most recent one (%d created)", o[0], len(h.socks)))
	}
	if h.rcClosed && len(o) > 0 {
		h.why = append(h.why, fmt.Sprintf("census: sockets %v still open after Close", o))
	}
	for _, sk := range h.socks {
		if sk.lost && sk.seen && sk.closes == 0 {
			h.why = append(h.why, fmt.Sprintf("census: socket %d of the connection that was lost (%s, terminal error kind %q) is still open at a quiescent point after a call has come back from that client: the dead client was not dropped and closed",
				sk.sid, sk.lostHow, sk.lostKind))
		}
	}
	if o == nil {
		o = []int{}
	}
	h.logLocked(c16Ev{E: "quiet", O: o})
	h.mu.Unlock()
}

func (h *c16Hist) startCall(g int, kind, mode string, hold []string) {
	seq := h.lastQuiet && !h.closerBusy
	ssid := -1
	var cl *clientImpl
	if h.conc {
		var known bool
		if cl, known = h.curTry(); !known {
			ssid = -2 // rc.m is taken by a held call: the current client cannot be read
		}
	} else {
		cl = h.cur()
	}
	if cl != nil {
		if sk, ok := cl.pktConn.(*c16Sock); ok {
			ssid = sk.sid
		}
	}
	h.mu.Lock()
	h.startSid[g] = ssid
	h.startNsk[g] = len(h.socks)
	h.lostAtSt[g] = false
	h.kindAtSt[g] = ""
	if ssid >= 0 && ssid < len(h.socks) && h.socks[ssid].lost {
		h.lostAtSt[g] = true
		h.kindAtSt[g] = fmt.Sprintf("%s, terminal error kind %q", h.socks[ssid].lostHow, h.socks[ssid].lostKind)
	}
	h.holds[g] = append([]string{}, hold...)
	h.held[g] = ""
	h.holdCh[g] = make(chan struct{}, 1)
	h.goid[g] = 0
	h.callSeq[g]++
	cseq := h.callSeq[g]
	for o := 0; o < c16NG; o++ {
		if o != g && h.busy[o] {
			h.startSeqOK[o] = false
			seq = false
		}
	}
	h.busy[g] = true
	h.isParked[g] = false
	h.done[g] = make(chan struct{})
	h.gates[g] = make(chan string, 1)
	h.parked[g] = make(chan struct{}, 1)
	h.cfgAtStart[g] = h.ncfg
	h.noFaultAtSt[g] = true
	for _, f := range h.faults {
		if f != "ok" {
			h.noFaultAtSt[g] = false
		}
	}
	h.startSeqOK[g] = seq && (h.lastRet == "" || h.lastRetSeq)
	h.prevRetAtSt[g] = h.lastRet
	closedBefore := h.rcClosed
	h.mu.Unlock()
	h.lastQuiet = false
	done := h.done[g]
	go func() {
		c16Goids.Store(c16Goid(), &c16Who{h, g})
		defer c16Goids.Delete(c16Goid())
		defer close(done)
		h.mu.Lock()
		h.goid[g] = c16Goid()
		h.logLocked(c16Ev{E: "start", G: g, N: cseq, K: map[bool]string{true: "udp", false: "tcp"}[kind == "udp"]})
		h.mu.Unlock()
		var err error
		what := fmt.Sprintf("TCP() number %d of goroutine %d", cseq, g)
		if kind == "udp" {
			what = fmt.Sprintf("UDP() number %d of goroutine %d", cseq, g)
		}
		if h.guard(what, func() {
			if kind == "udp" {
				var u HyUDPConn
				u, err = h.rc.UDP()
				if u != nil {
					_ = u.Close()
				}
			} else {
				var c net.Conn
				c, err = h.rc.TCP(fmt.Sprintf("c%d-%s-%d:80", g, mode, cseq))
				if c != nil {
					_ = c.Close()
				}
			}
		}) {
			// no return value to classify: the panic is the verdict, the sequential clauses do not apply
			h.mu.Lock()
			h.logLocked(c16Ev{E: "ret", G: g, R: "panic"})
			h.lastRet = "panic"
			h.lastRetSeq = false
			h.mu.Unlock()
			return
		}
		r := c16Class(err)
		ko, kname := c16RetKind(err)
		h.mu.Lock()
		h.logLocked(c16Ev{E: "ret", G: g, R: r, K: kname})
		if kname != "" {
			h.noteKindLocked(ko)
		}
		ncfg := h.ncfg - h.cfgAtStart[g]
		// Reconnect on loss, clause by clause, on calls that ran alone from a quiescent point:
		// (a) the call that finds the client whose connection was lost either reports the loss (ClosedError) or
		//     replaces the connection itself; it never comes back with anything else from the dead client
		//     (UDP() on a server without UDP support is answered before the connection is looked at)
		meetsLoss := h.startSeqOK[g] && h.lostAtSt[g] && !h.closeBegun && (kind != "udp" || h.cs.UDP)
		if meetsLoss && ncfg == 0 && r != "closed" {
			h.why = append(h.why, fmt.Sprintf("reconnect on loss: %s() on the client whose connection was lost (%s) returned %s (%T: %v) and made no "+
				"connection attempt: the loss is neither reported as ClosedError nor repaired", strings.ToUpper(kind0(kind)), h.kindAtSt[g], r, err, err))
		}
		if meetsLoss && h.startSid[g] >= 0 && h.startSid[g] < len(h.socks) {
			h.socks[h.startSid[g]].seen = true
		}
		// (b) the call after a reported loss connects again and, with a live server and nothing made to fail,
		//     succeeds on the fresh connection: the number of failing calls after a loss is bounded by one
		if h.startSeqOK[g] && h.prevRetAtSt[g] == "closed" && !closedBefore && !h.closeBegun && h.noFaultAtSt[g] &&
			mode == "ok" && (kind != "udp" || h.cs.UDP) && r != "ok" {
			h.why = append(h.why, fmt.Sprintf("reconnect on loss: the call after a ClosedError return, with the server up and no fault injected, returned %s (%T: %v), want success on a fresh connection",
				r, err, err))
		}
		if r == "closed" && !h.closeBegun {
			just, filled := false, false
			for _, sk := range h.socks {
				if sk.sid == h.startSid[g] || sk.sid >= h.startNsk[g] || h.startSid[g] == -2 {
					just = just || sk.lost
					filled = filled || sk.filled
				}
			}
			if !just && filled {
				h.why = append(h.why, "stream limit reached on a live connection was reported as ClosedError: the healthy connection was dropped (and closed) and the next call reconnects (client.go wrapIfConnectionClosed)")
			} else if !just {
				h.why = append(h.why, "call returned ClosedError although its connection was never lost and Close was not called")
			}
		}
		if closedBefore && r != "closed" {
			h.why = append(h.why, fmt.Sprintf("call started after Close returned %q, want closed error", r))
		}
		if h.startSeqOK[g] {
			// the call ran alone from a quiescent point
			switch h.prevRetAtSt[g] {
			case "closed", "cfgerr", "newerr", "hserr":
				if !closedBefore && ncfg != 1 && !h.rcClosed {
					h.why = append(h.why, fmt.Sprintf("call after a %s return evaluated configFunc %d times, want 1 (reconnect on loss)", h.prevRetAtSt[g], ncfg))
				}
			case "ok", "recov":
				if ncfg != 0 {
					h.why = append(h.why, fmt.Sprintf("call after a %s return evaluated configFunc %d times, want 0 (no reconnect)", h.prevRetAtSt[g], ncfg))
				}
			}
		}
		h.lastRet = r
		h.lastRetSeq = h.startSeqOK[g]
		h.mu.Unlock()
	}()
}

func (h *c16Hist) waitDone(g int, what string) bool {
	switch h.waitCh(h.done[g], 15*time.Second) {
	case 0:
		h.busy[g] = false
		h.isParked[g] = false
		return true
	case 1:
		h.fail("harness: timeout waiting for call of goroutine " + strconv.Itoa(g) + " (" + what + ")")
	}
	return false
}

func (h *c16Hist) waitParkedOrDone(g int) {
	end := time.Now().Add(15 * time.Second)
	for {
		select {
		case <-h.done[g]:
			h.busy[g] = false
			return
		case <-h.parked[g]:
			h.isParked[g] = true
			return
		case <-time.After(20 * time.Millisecond):
		}
		if h.dead.Load() {
			return
		}
		if time.Now().After(end) {
			h.fail("harness: timeout waiting for call of goroutine " + strconv.Itoa(g))
			return
		}
	}
}

func (h *c16Hist) release(g int, how string) {
	if !h.busy[g] {
		return
	}
	if h.conc {
		// waiting for one call to finish: nothing may stay parked in front of it
		h.openAll()
		h.settle()
		if !h.busy[g] {
			return
		}
	}
	if h.isParked[g] {
		select {
		case h.gates[g] <- how:
		default:
		}
	}
	h.waitDone(g, "release")
}

func (h *c16Hist) kill(how string) {
	if h.conc {
		h.openAll()
		h.settle()
		h.waitCloser()
	}
	cl := h.cur()
	if cl == nil || cl.conn.Context().Err() != nil {
		return
	}
	var sock *c16Sock
	if s, ok := cl.pktConn.(*c16Sock); ok {
		sock = s
	} else {
		h.fail("harness: client socket is not ours")
		return
	}
	var kp net.Conn
	if how == "srv" {
		if kp = h.waitKick(); kp == nil {
			h.fail("harness: kick stream never arrived")
			return
		}
	}
	h.mu.Lock()
	sock.lost = true
	sock.lostHow = how
	h.logLocked(c16Ev{E: "kill", Sid: sock.sid, R: how})
	h.mu.Unlock()
	limit := 10 * time.Second
	poke := false
	switch how {
	case "srv":
		// the server disconnects this client: CONNECTION_CLOSE with an application error
		h.kick.Store(true)
		go func() { _, _ = kp.Write([]byte{1}) }()
	case "sockclose":
		// the local socket is closed under the transport (interface gone, fd closed by somebody else)
		_ = sock.PacketConn.Close()
	case "idle":
		// the path dies silently: nothing arrives any more, the idle timeout has to notice
		sock.black.Store(true)
		limit = h.idleTimeout() + 15*time.Second
	case "reset":
		// the server process restarts: same address, same stateless reset key, no memory of its connections
		// and no CONNECTION_CLOSE.  With non-empty connection ids the client's next packet is answered by a
		// stateless reset; with the (default) zero-length ids of the Chrome fingerprint quic-go cannot
		// recognise resets and the idle timeout has to notice
		old := h.srv
		_ = old.Close()
		if err := h.startServer(h.srvAddr.(*net.UDPAddr)); err != nil {
			h.fail("harness: server restart: " + err.Error())
			return
		}
		poke = true
		limit = h.idleTimeout() + 15*time.Second
	default: // "sock": reading from the local socket fails
		sock.killed.Store(true)
		_ = sock.PacketConn.SetReadDeadline(time.Now())
	}
	end := time.After(limit)
wait:
	for {
		if poke {
			// something to answer: a datagram that is long enough to draw a stateless reset
			_ = cl.conn.SendDatagram(make([]byte, 300))
		}
		select {
		case <-cl.conn.Context().Done():
			break wait
		case <-end:
			h.fail("harness: client did not notice the kill (" + how + ")")
			break wait
		case <-time.After(50 * time.Millisecond):
		}
	}
	h.kick.Store(false)
	if cause := context.Cause(cl.conn.Context()); cl.conn.Context().Err() != nil && cause != nil {
		// what quic-go reports for this loss, and how the code under test classifies that very value
		k := c16Kind(cause)
		_, closed := wrapIfConnectionClosed(cause).(coreErrs.ClosedError)
		h.mu.Lock()
		sock.lostKind = k
		h.noteKindLocked(c16KindObs{"wrap", k, closed})
		h.logLocked(c16Ev{E: "lost", Sid: sock.sid, R: how, K: k})
		h.mu.Unlock()
	}
	if cl.udpSM != nil {
		for i := 0; i < 2000; i++ {
			cl.udpSM.mutex.RLock()
			c := cl.udpSM.closed
			cl.udpSM.mutex.RUnlock()
			if c {
				break
			}
			time.Sleep(time.Millisecond)
		}
	}
}

func (h *c16Hist) idleTimeout() time.Duration {
	if h.cs.Idle > 0 {
		return time.Duration(h.cs.Idle) * time.Second
	}
	return defaultMaxIdleTimeout
}

// kick stream of the most recent connection
func (h *c16Hist) waitKick() net.Conn {
	for i := 0; i < 2500; i++ {
		h.mu.Lock()
		p := h.kickPipes[h.nconn]
		h.mu.Unlock()
		if p != nil {
			return p
		}
		time.Sleep(2 * time.Millisecond)
	}
	return nil
}

func (h *c16Hist) fill() {
	if h.conc {
		h.openAll()
		h.settle()
		h.waitCloser()
	}
	cl := h.cur()
	if cl == nil {
		return
	}
	// make sure the kick stream is already there (it takes one slot)
	h.waitKick()
	// the credit of streams that earlier calls have closed may still be on its way back (MAX_STREAMS): the
	// limit counts as reached only when it has stayed reached over three attempts 40 ms apart
	stable := 0
	for i := 0; i < 4096 && stable < 3; i++ {
		s, err := cl.conn.OpenStream()
		if err != nil {
			stable++
			if stable < 3 {
				time.Sleep(40 * time.Millisecond)
			}
			continue
		}
		stable = 0
		h.streams = append(h.streams, s)
	}
	if stable >= 3 {
		if sk, ok := cl.pktConn.(*c16Sock); ok {
			h.mu.Lock()
			sk.filled = true
			h.mu.Unlock()
		}
		return
	}
	h.fail("harness: stream limit never reached")
}

func c16ServerTLS() server.TLSConfig {
	cert, err := tls.LoadX509KeyPair("../internal/integration_tests/test.crt", "../internal/integration_tests/test.key")
	if err != nil {
		panic(err)
	}
	return server.TLSConfig{Certificates: []tls.Certificate{cert}}
}

type c16Out struct {
	I    int     `json:"i"`
	Ok   bool    `json:"ok"`
	Why  string  `json:"why"`
	Evs  []c16Ev `json:"evs"`
	Gone bool    `json:"gone"` // eager constructor failed: no client object
	Nsk  int     `json:"nsock"`
	Cl   []int   `json:"closes"`
	Err  string  `json:"err,omitempty"`
	// a call into the code under test panicked (recovered by the harness): evs is the log up to there
	Panicked bool `json:"panicked,omitempty"`
	// kinds of the real error values seen in this history, and whether each was wrapped as ClosedError
	Kinds []c16KindObs `json:"kinds,omitempty"`
	// class case: the classification table of the working tree
	Table string `json:"table,omitempty"`
}

func c16Run(i int, c c16Case, tlsc server.TLSConfig) (out c16Out) {
	out.I = i
	h := &c16Hist{logging: true, kickPipes: map[int]net.Conn{}, lastQuiet: true, cs: c, tlsc: tlsc}
	if _, err := crand.Read(h.srvKey[:]); err != nil {
		out.Err = "rand: " + err.Error()
		return
	}
	if err := h.startServer(nil); err != nil {
		out.Err = err.Error()
		return
	}
	defer func() {
		_ = h.srv.Close()
		h.mu.Lock()
		fk := h.fakes
		h.mu.Unlock()
		for _, f := range fk {
			_ = f.Close()
		}
	}()

	if !c.Lazy && c.Init != "" {
		h.faults = append(h.faults, c.Init)
	}
	for _, st := range c.Steps {
		if len(st.Hold) > 0 || st.Op == "open" {
			h.conc = true
		}
	}
	h.log(c16Ev{E: "init", Ok: c.Lazy})
	var cli Client
	var err error
	if h.guard("NewReconnectableClient()", func() { cli, err = NewReconnectableClient(h.configFunc, h.connectedFunc, c.Lazy) }) {
		h.log(c16Ev{E: "initend", R: "panic"})
		out.Gone = true
	} else if h.log(c16Ev{E: "initend", R: c16Class(err)}); err != nil {
		out.Gone = true
		if ko, kname := c16RetKind(err); kname != "" {
			h.mu.Lock()
			h.noteKindLocked(ko)
			h.mu.Unlock()
		}
		if cli != nil {
			h.fail("constructor returned both a client and an error")
		}
		h.mu.Lock()
		if o := h.openSids(); len(o) > 0 {
			h.why = append(h.why, fmt.Sprintf("census: failed eager start left sockets %v open", o))
		}
		h.mu.Unlock()
	} else {
		h.rc = cli.(*reconnectableClientImpl)
		h.quiet()
		for _, st := range c.Steps {
			if h.dead.Load() {
				// a call panicked: the handle is unusable (the panic may have left rc.m locked), the history ends here
				break
			}
			switch st.Op {
			case "fault":
				h.mu.Lock()
				h.faults = append(h.faults, st.F...)
				h.mu.Unlock()
			case "call":
				if h.busy[st.G] {
					h.release(st.G, "ok")
				}
				h.startCall(st.G, st.Kind, st.Mode, st.Hold)
				if h.conc {
					h.settle()
				} else if st.Mode == "gate" && st.Kind != "udp" {
					h.waitParkedOrDone(st.G)
				} else {
					h.waitDone(st.G, "call")
				}
			case "release":
				h.release(st.G, st.How)
			case "await":
				h.release(st.G, "ok")
			case "kill":
				h.kill(st.How)
			case "fill":
				h.fill()
			case "open":
				// open the hold of one goroutine; everybody who was queued behind it moves on
				h.open(st.G)
				h.settle()
			case "close":
				if h.conc {
					h.closeAsync()
					h.settle()
					break
				}
				h.mu.Lock()
				h.closeBegun = true
				h.nClose++
				h.logLocked(c16Ev{E: "closebegin"})
				h.mu.Unlock()
				if h.guard(fmt.Sprintf("Close() number %d", h.nClose), func() { _ = h.rc.Close() }) {
					h.log(c16Ev{E: "closeend", R: "panic"})
					break
				}
				h.mu.Lock()
				h.rcClosed = true
				h.logLocked(c16Ev{E: "closeend"})
				h.mu.Unlock()
			case "burst":
				if h.conc {
					h.openAll()
					h.settle()
					h.waitCloser()
				}
				var gs []int
				for g := 0; g < st.N && g < c16NG; g++ {
					if h.busy[g] {
						h.release(g, "ok")
					}
				}
				wasQuiet := h.lastQuiet
				for g := 0; g < st.N && g < c16NG; g++ {
					h.lastQuiet = false // concurrent calls: no sequential verdict
					h.startCall(g, st.Kind, st.Mode, nil)
					gs = append(gs, g)
				}
				_ = wasQuiet
				for _, g := range gs {
					h.waitDone(g, "burst")
				}
			}
			if h.dead.Load() {
				break
			}
			h.quiet()
		}
		if h.dead.Load() {
			h.abandon()
		}
		// drain
		h.openAll()
		for g := 0; g < c16NG; g++ {
			if h.busy[g] {
				h.release(g, "ok")
			}
		}
		h.waitCloser()
		if !h.dead.Load() {
			h.quiet()
		}
		h.mu.Lock()
		// what the code guarantees about repeated closes (theorem C16_close_count_bound): a socket
		// is closed at most once plus once per rc.Close() call
		for _, sk := range h.socks {
			if int(sk.closes) > 1+h.nClose {
				h.why = append(h.why, fmt.Sprintf("socket %d was closed %d times with %d rc.Close() calls (the code closes a socket at most 1 + number of Close calls times)", sk.sid, sk.closes, h.nClose))
			}
		}
		h.logging = false
		h.mu.Unlock()
		// the final Close is a call like any other (a handle that already panicked may keep rc.m: do not wait for it for ever)
		fin := make(chan struct{})
		go func() {
			defer close(fin)
			h.guard("Close() at the end of the history", func() { _ = h.rc.Close() })
		}()
		if !h.dead.Load() {
			<-fin
		} else {
			select {
			case <-fin:
			case <-time.After(2 * time.Second):
			}
		}
	}
	h.mu.Lock()
	h.pmu.Lock()
	h.why = append(h.why, h.panicWhy...)
	out.Panicked = len(h.panicWhy) > 0
	h.pmu.Unlock()
	out.Evs = h.evs
	out.Kinds = h.kinds
	for _, k := range h.kinds {
		if strings.HasPrefix(k.Kind, "unknown:") {
			// not a verdict on the property: the enum of error kinds the model is stated over does not cover what
			// quic-go really returned (the driver reports it as a broken correspondence)
			continue
		}
		if id := c16KindID(k.Kind); id >= 0 && c16Kinds[id].terminal && k.Site == "wrap" && !k.Closed {
			h.why = append(h.why, fmt.Sprintf("reconnect on loss: the terminal connection error of kind %q, as quic-go really reported it in this history, is not classified as ClosedError", k.Kind))
		}
	}
	out.Nsk = len(h.socks)
	for _, sk := range h.socks {
		out.Cl = append(out.Cl, int(sk.closes))
	}
	seen := map[string]bool{}
	var why []string
	for _, w := range h.why {
		if !seen[w] {
			seen[w] = true
			why = append(why, w)
		}
	}
	out.Ok = len(why) == 0
	out.Why = strings.Join(why, "; ")
	// copy under the lock: a request that surfaces late on a server goroutine still registers its pipe
	pipes := make([]net.Conn, 0, len(h.kickPipes))
	for _, p := range h.kickPipes {
		pipes = append(pipes, p)
	}
	h.mu.Unlock()
	for _, p := range pipes {
		_ = p.Close()
	}
	return
}

// what the pinned quic-go really returns from OpenStream at the stream limit, classified by the
// code under test (true = wrapped as ClosedError)
func c16ProbeStreamLimit(tlsc server.TLSConfig) (isClosed bool, ok bool) {
	uc, err := net.ListenUDP("udp", &net.UDPAddr{IP: net.IPv4(127, 0, 0, 1)})
	if err != nil {
		return false, false
	}
	s, err := server.NewServer(&server.Config{TLSConfig: tlsc, Conn: uc, Authenticator: c16Auth{},
		QUICConfig: server.QUICConfig{MaxIncomingStreams: 8}})
	if err != nil {
		return false, false
	}
	go s.Serve()
	defer s.Close()
	c, _, err := NewClient(&Config{ServerAddr: uc.LocalAddr(), Auth: "good", TLSConfig: TLSConfig{InsecureSkipVerify: true}})
	if err != nil {
		return false, false
	}
	defer c.Close()
	cl := c.(*clientImpl)
	for i := 0; i < 4096; i++ {
		if _, err := cl.conn.OpenStream(); err != nil {
			if cl.conn.Context().Err() != nil {
				return false, false
			}
			_, isClosed = wrapIfConnectionClosed(err).(coreErrs.ClosedError)
			return isClosed, true
		}
	}
	return false, false
}

func TestVerifC16(t *testing.T) {
	// classification facts the model relies on (client.go: wrapIfConnectionClosed)
	tlsc := c16ServerTLS()
	slClosed, probed := c16ProbeStreamLimit(tlsc)
	if !probed {
		t.Fatal("stream-limit probe failed")
	}
	_, eofClosed := wrapIfConnectionClosed(io.EOF).(coreErrs.ClosedError)
	_, appClosed := wrapIfConnectionClosed(&quic.ApplicationError{ErrorCode: 0x107, Remote: true}).(coreErrs.ClosedError)
	_, idleClosed := wrapIfConnectionClosed(&quic.IdleTimeoutError{}).(coreErrs.ClosedError)
	b := func(x bool) string {
		if x {
			return "true"
		}
		return "false"
	}
	table, tableBad := c16KindTable()
	vParams(t, [][3]string{
		{"c16_kind_closed", "raw", table},
		{"c16_nonpermanent_count", "nat", strconv.Itoa(len(nonPermanentErrors))},
		{"c16_streamlimit_is_closed", "bool", b(slClosed)},
		{"c16_eof_is_closed", "bool", b(eofClosed)},
		{"c16_remote_close_is_closed", "bool", b(appClosed)},
		{"c16_idle_timeout_is_closed", "bool", b(idleClosed)},
	})
	raw := vReadCases(t)
	w := vOpenOut(t, "VERIF_OUT")
	defer w.Close()
	// Crash safety: a record is written (and flushed) as soon as its history is finished, carrying its case
	// index, and the index of every history is appended to $VERIF_OUT.started before it starts.  If the process
	// dies all the same (a panic on a goroutine of the code under test that no harness frame can recover, a
	// fatal error), the driver sees which histories were in flight and runs those again one per process.
	var wmu sync.Mutex
	started, _ := os.OpenFile(os.Getenv("VERIF_OUT")+".started", os.O_CREATE|os.O_TRUNC|os.O_WRONLY|os.O_APPEND, 0o644)
	if started != nil {
		defer started.Close()
	}
	emit := func(o c16Out) {
		if o.Err != "" {
			o.Ok = false
			o.Why = "harness error: " + o.Err
		}
		wmu.Lock()
		w.Emit(o)
		w.w.Flush()
		wmu.Unlock()
	}
	workers := 8
	if v := os.Getenv("VERIF_C16_WORKERS"); v != "" {
		workers, _ = strconv.Atoi(v)
	}
	var wg sync.WaitGroup
	idx := make(chan int)
	for k := 0; k < workers; k++ {
		wg.Add(1)
		go func() {
			defer wg.Done()
			for i := range idx {
				var c c16Case
				if err := json.Unmarshal(raw[i], &c); err != nil {
					emit(c16Out{I: i, Err: "bad case: " + err.Error()})
					continue
				}
				if c.K == "class" {
					// every terminal connection error of the enum must be classified as ClosedError
					emit(c16Out{I: i, Ok: len(tableBad) == 0, Why: strings.Join(tableBad, "; "), Table: table})
					continue
				}
				if started != nil {
					wmu.Lock()
					fmt.Fprintf(started, "%d\n", i)
					wmu.Unlock()
				}
				var o c16Out
				if p, msg := vCatch(func() { o = c16Run(i, c, tlsc) }); p {
					o = c16Out{I: i, Err: "the harness itself panicked: " + msg}
				}
				emit(o)
			}
		}()
	}
	for i := range raw {
		idx <- i
	}
	close(idx)
	wg.Wait()
}
