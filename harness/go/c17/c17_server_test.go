//go:build verif

package integration_tests

// C17 harness, SERVER side of the clause "sniffing is transparent to the proxied flow": what core/server does with
// the bytes a request hook hands back (server.go handleTCPRequest: hook -> log -> dial -> write the putback to the
// target -> relay, core/server/copy.go).  A real server.NewServer and a real client.NewClient over loopback QUIC, a
// RequestHook that takes exactly `put` bytes (0 .. > 256 KiB, the sniffer's HTTP limit) off the stream and hands them
// back for replay (optionally rewriting the request address), with and without a TrafficLogger (copyTwoWayEx vs the
// io.Copy fast path), fast open on and off, a slow dial, data flowing down as well.
//
// Every run ends deterministically: the client writes its whole aperiodic payload (put ++ rest), optionally reads
// the bytes the target sent, and closes its side; the target never ends by itself, so the server's Up direction ends
// on the client's EOF and the server tears the relay down (closes the target connection).  Judged then:
//   - what the target holds is a prefix of what the client wrote (at every moment), and ALL of it once the server has
//     closed the target connection after the client's EOF;
//   - the target was dialled at the address the hook left in *reqAddr;
//   - with a logger: StreamStats.Tx == bytes the target received, every byte approved by LogTraffic was forwarded and
//     every byte forwarded behind the putback was approved; rx likewise for the other direction.
// The boundary observations (sizes of the target's Write calls, LogTraffic arguments, StreamStats) are emitted for
// the replay against the Coq model (model/C17_Putback.v).  Infrastructure trouble is a "skip", never a verdict; a run
// that does not end in time is judged on the prefix clause first.

import (
	"bytes"
	"encoding/json"
	"errors"
	"fmt"
	"io"
	"net"
	"strconv"
	"strings"
	"sync"
	"testing"
	"time"

	"github.com/apernet/hysteria/core/v2/client"
	"github.com/apernet/hysteria/core/v2/server"
)

type c17sCase struct {
	K         string  `json:"k"`
	Logger    bool    `json:"logger"`
	FastOpen  bool    `json:"fastopen"`
	Put       int     `json:"put"`   // bytes the hook takes off the stream and hands back
	SentP     [][]any `json:"sentp"` // what the client writes (put ++ rest), as pieces
	Chunk     int     `json:"chunk"` // size of the client's Write calls
	Rw        bool    `json:"rw"`    // the hook rewrites the request address
	DialDelay int     `json:"dial_delay"`
	Down      int     `json:"down"` // bytes the target sends (at once, then it stays silent)
}

func c17sBytes(parts [][]any) []byte {
	var out []byte
	for _, q := range parts {
		switch q[0].(string) {
		case "l":
			out = append(out, vUnhex(q[1].(string))...)
		case "gd":
			out = append(out, vGenData(uint64(q[1].(float64)), uint64(q[2].(float64)), int(q[3].(float64)))...)
		case "rep":
			out = append(out, bytes.Repeat([]byte{byte(q[1].(float64))}, int(q[2].(float64)))...)
		default:
			panic("c17s: unknown stream piece")
		}
	}
	return out
}

// per-case state shared by the hook, the outbound, the logger and the judge
type c17sState struct {
	mu       sync.Mutex
	idx      int
	c        c17sCase
	hookRead []byte // what the hook read (copy)
	hookErr  string
	dialAddr []string
	writes   []int // sizes of the target's Write calls, in order
	got      bytes.Buffer
	logs     [][2]uint64 // LogTraffic(tx, rx) in call order
	badLog   string
	stats    *server.StreamStats
	traced   int
	down     []byte
	closed   chan struct{}
	closeOne sync.Once
	untraced chan struct{}
	untrOne  sync.Once
}

func (s *c17sState) Read(p []byte) (int, error) {
	s.mu.Lock()
	if len(s.down) > 0 {
		n := copy(p, s.down)
		s.down = s.down[n:]
		s.mu.Unlock()
		return n, nil
	}
	s.mu.Unlock()
	<-s.closed // nothing more to say; the target never ends by itself
	return 0, errors.New("target closed")
}

func (s *c17sState) Write(p []byte) (int, error) {
	select {
	case <-s.closed:
		return 0, errors.New("target closed")
	default:
	}
	s.mu.Lock()
	s.writes = append(s.writes, len(p))
	s.got.Write(p)
	s.mu.Unlock()
	return len(p), nil
}
func (s *c17sState) Close() error                     { s.closeOne.Do(func() { close(s.closed) }); return nil }
func (s *c17sState) LocalAddr() net.Addr              { return &net.TCPAddr{} }
func (s *c17sState) RemoteAddr() net.Addr             { return &net.TCPAddr{} }
func (s *c17sState) SetDeadline(time.Time) error      { return nil }
func (s *c17sState) SetReadDeadline(time.Time) error  { return nil }
func (s *c17sState) SetWriteDeadline(time.Time) error { return nil }

type c17sEnv struct {
	mu     sync.Mutex
	cur    *c17sState
	srv    server.Server
	cl     client.Client
	logger bool
}

func (e *c17sEnv) state(addr string) *c17sState {
	e.mu.Lock()
	defer e.mu.Unlock()
	if e.cur == nil {
		return nil
	}
	for _, pre := range []string{"c17s-", "r17s-"} {
		if strings.HasPrefix(addr, pre) {
			rest := addr[len(pre):]
			if k := strings.IndexByte(rest, '.'); k > 0 {
				if n, err := strconv.Atoi(rest[:k]); err == nil && n == e.cur.idx {
					return e.cur
				}
			}
		}
	}
	return nil
}

// the hook: stands in for the sniffer - consumes the first `put` bytes of the stream and hands exactly those back
func (e *c17sEnv) Check(isUDP bool, reqAddr string) bool {
	return !isUDP && strings.HasPrefix(reqAddr, "c17s-")
}

func (e *c17sEnv) TCP(stream server.HyStream, reqAddr *string) ([]byte, error) {
	s := e.state(*reqAddr)
	if s == nil {
		return nil, nil
	}
	buf := make([]byte, s.c.Put)
	_ = stream.SetReadDeadline(time.Now().Add(15 * time.Second))
	n, err := io.ReadFull(stream, buf)
	_ = stream.SetReadDeadline(time.Time{})
	s.mu.Lock()
	s.hookRead = append([]byte(nil), buf[:n]...)
	if err != nil {
		s.hookErr = err.Error()
	}
	s.mu.Unlock()
	if s.c.Rw {
		*reqAddr = "r17s-" + strconv.Itoa(s.idx) + ".example:8443"
	}
	return buf[:n], nil
}
func (e *c17sEnv) UDP(data []byte, reqAddr *string) error { return nil }

// the outbound
func (e *c17sEnv) Dial(reqAddr string) (net.Conn, error) {
	s := e.state(reqAddr)
	if s == nil {
		return nil, errors.New("c17s: no such case")
	}
	if s.c.DialDelay > 0 {
		time.Sleep(time.Duration(s.c.DialDelay) * time.Millisecond)
	}
	s.mu.Lock()
	s.dialAddr = append(s.dialAddr, reqAddr)
	s.mu.Unlock()
	return s, nil
}

type c17sOutbound struct{ e *c17sEnv }

func (o c17sOutbound) TCP(reqAddr string) (net.Conn, error)          { return o.e.Dial(reqAddr) }
func (o c17sOutbound) UDP(reqAddr string) (server.UDPConn, error) { return nil, errors.New("no udp") }
func (o c17sOutbound) CheckUDP(reqAddr string) error              { return nil }

type c17sAuth struct{}

func (c17sAuth) Authenticate(addr net.Addr, auth string, tx uint64) (bool, string) { return true, "u17" }

// the traffic logger (cases run one after the other on an environment: calls belong to the current case)
type c17sLogger struct{ e *c17sEnv }

func (l c17sLogger) curState() *c17sState {
	l.e.mu.Lock()
	defer l.e.mu.Unlock()
	return l.e.cur
}

func (l c17sLogger) LogTraffic(id string, tx, rx uint64) bool {
	if s := l.curState(); s != nil {
		s.mu.Lock()
		if id != "u17" || (tx > 0) == (rx > 0) {
			s.badLog = fmt.Sprintf("LogTraffic(%q,%d,%d)", id, tx, rx)
		}
		s.logs = append(s.logs, [2]uint64{tx, rx})
		s.mu.Unlock()
	}
	return true
}
func (l c17sLogger) LogOnlineState(id string, online bool) {}
func (l c17sLogger) TraceStream(stream server.HyStream, stats *server.StreamStats) {
	if s := l.curState(); s != nil {
		s.mu.Lock()
		s.stats = stats
		s.traced++
		s.mu.Unlock()
	}
}
func (l c17sLogger) UntraceStream(stream server.HyStream) {
	if s := l.curState(); s != nil {
		s.untrOne.Do(func() { close(s.untraced) })
	}
}

func c17sNewEnv(logger, fastOpen bool) (*c17sEnv, error) {
	udpConn, err := net.ListenUDP("udp", &net.UDPAddr{IP: net.IPv4(127, 0, 0, 1), Port: 0})
	if err != nil {
		return nil, fmt.Errorf("listen: %w", err)
	}
	e := &c17sEnv{logger: logger}
	cfg := &server.Config{TLSConfig: serverTLSConfig(), Conn: udpConn, Outbound: c17sOutbound{e}, Authenticator: c17sAuth{}, RequestHook: e}
	if logger {
		cfg.TrafficLogger = c17sLogger{e}
	}
	s, err := server.NewServer(cfg)
	if err != nil {
		udpConn.Close()
		return nil, fmt.Errorf("server: %w", err)
	}
	go s.Serve()
	type cr struct {
		cl  client.Client
		err error
	}
	ch := make(chan cr, 1)
	go func() {
		cl, _, err := client.NewClient(&client.Config{ServerAddr: udpConn.LocalAddr(), TLSConfig: client.TLSConfig{InsecureSkipVerify: true}, FastOpen: fastOpen})
		ch <- cr{cl, err}
	}()
	select {
	case r := <-ch:
		if r.err != nil {
			s.Close()
			return nil, fmt.Errorf("client: %w", r.err)
		}
		e.srv, e.cl = s, r.cl
		return e, nil
	case <-time.After(20 * time.Second):
		s.Close()
		return nil, errors.New("client: no handshake within 20 s")
	}
}

func (e *c17sEnv) close() {
	if e.cl != nil {
		e.cl.Close()
	}
	if e.srv != nil {
		e.srv.Close()
	}
}

var c17sEnvs = map[[2]bool]*c17sEnv{}

// returns true when the environment may be used for the next case
func c17sRun(idx int, c c17sCase, res map[string]any) (reusable bool) {
	skip := func(why string, err error) {
		res["skip"] = fmt.Sprintf("%s: %v", why, err)
		res["ok"] = true
		res["why"] = ""
	}
	fail := func(f string, a ...any) {
		if _, done := res["ok"]; done && res["ok"] == false {
			return
		}
		res["ok"] = false
		res["detail"] = fmt.Sprintf(f, a...)
		res["why"] = c17sStable(fmt.Sprintf(f, a...))
	}
	key := [2]bool{c.Logger, c.FastOpen}
	e := c17sEnvs[key]
	if e == nil {
		var err error
		e, err = c17sNewEnv(c.Logger, c.FastOpen)
		if err != nil {
			skip("environment", err)
			return false
		}
		c17sEnvs[key] = e
	}
	sent := c17sBytes(c.SentP)
	if c.Put > len(sent) {
		panic("c17s: putback longer than the stream")
	}
	down := vGenData(7, uint64(idx), c.Down)
	st := &c17sState{idx: idx, c: c, down: append([]byte(nil), down...), closed: make(chan struct{}), untraced: make(chan struct{})}
	e.mu.Lock()
	e.cur = st
	e.mu.Unlock()
	defer func() {
		e.mu.Lock()
		e.cur = nil
		e.mu.Unlock()
	}()
	addr := "c17s-" + strconv.Itoa(idx) + ".example:80"
	type tcpRes struct {
		conn net.Conn
		err  error
	}
	tch := make(chan tcpRes, 1)
	go func() {
		cn, err := e.cl.TCP(addr)
		tch <- tcpRes{cn, err}
	}()
	var conn net.Conn
	select {
	case r := <-tch:
		if r.err != nil {
			skip("TCP()", r.err)
			return false
		}
		conn = r.conn
	case <-time.After(20 * time.Second):
		skip("TCP()", errors.New("no response within 20 s"))
		return false
	}
	// the client writes everything, in Write calls of c.Chunk bytes
	wdone := make(chan error, 1)
	go func() {
		chunk := c.Chunk
		if chunk <= 0 {
			chunk = len(sent)
		}
		for off := 0; off < len(sent); off += chunk {
			end := min(off+chunk, len(sent))
			if n, err := conn.Write(sent[off:end]); err != nil || n != end-off {
				wdone <- fmt.Errorf("write at %d: n=%d %v", off, n, err)
				return
			}
		}
		wdone <- nil
	}()
	held := func() ([]byte, []int) {
		st.mu.Lock()
		defer st.mu.Unlock()
		return append([]byte(nil), st.got.Bytes()...), append([]int(nil), st.writes...)
	}
	prefixOK := func(got []byte) bool { return len(got) <= len(sent) && bytes.Equal(got, sent[:len(got)]) }
	var werr error
	wroteAll := false
	select {
	case werr = <-wdone:
		wroteAll = werr == nil
	case <-time.After(30 * time.Second):
		werr = errors.New("client writes did not finish within 30 s")
	}
	if !wroteAll {
		conn.Close()
		got, _ := held()
		res["got"] = len(got)
		if !prefixOK(got) {
			fail("target received %d bytes that are not a prefix of the %d the client wrote (putback %d)", len(got), len(sent), c.Put)
			return false
		}
		skip("client write", werr)
		return false
	}
	// the bytes the target sent
	var recv []byte
	recvComplete := true
	if c.Down > 0 {
		recv = make([]byte, c.Down)
		conn.SetReadDeadline(time.Now().Add(15 * time.Second))
		n, err := io.ReadFull(conn, recv)
		recv = recv[:n]
		recvComplete = err == nil
	}
	// the client finishes first
	conn.Close()
	tornDown := false
	select {
	case <-st.closed:
		tornDown = true
	case <-time.After(15*time.Second + time.Duration(c.DialDelay)*time.Millisecond):
	}
	untraced := !c.Logger
	if tornDown && c.Logger {
		select {
		case <-st.untraced:
			untraced = true
		case <-time.After(5 * time.Second):
		}
	}
	got, writes := held()
	st.mu.Lock()
	hookRead, hookErr, dialAddr, logs, badLog, stats, traced := st.hookRead, st.hookErr, st.dialAddr, st.logs, st.badLog, st.stats, st.traced
	st.mu.Unlock()
	res["got"], res["gotdg"], res["writes"], res["torn"], res["recv"] = len(got), vDigest(got), writes, tornDown, len(recv)
	res["gotpfx"] = prefixOK(got)
	res["hookn"] = len(hookRead)
	res["dial"] = dialAddr
	// prefix clauses first: they hold at every moment of every run
	if !prefixOK(got) {
		d := c17sFirstDiff(got, sent)
		k := bytes.Index(sent, got[d:min(len(got), d+32)])
		fail("target received %d bytes that are not a prefix of the %d the client wrote (putback %d bytes, logger %v, fast open %v; the first difference is at offset %d, what arrived there is found at offset %d of what was sent)",
			len(got), len(sent), c.Put, c.Logger, c.FastOpen, d, k)
	}
	if len(recv) > len(down) || !bytes.Equal(recv, down[:len(recv)]) {
		fail("client received %d bytes that are not a prefix of the %d the target sent", len(recv), len(down))
	}
	if res["ok"] == false {
		return false
	}
	if hookErr != "" || !bytes.Equal(hookRead, sent[:c.Put]) {
		// the harness's own hook did not get its bytes: nothing to judge the server on
		skip("hook", fmt.Errorf("read %d of %d bytes: %s", len(hookRead), c.Put, hookErr))
		return false
	}
	if !tornDown {
		skip("teardown", fmt.Errorf("target connection still open 15 s after the client closed, holding %d of %d bytes", len(got), len(sent)))
		return false
	}
	if len(got) != len(sent) {
		fail("the client wrote %d bytes (the hook took the first %d and handed them back for replay) and closed; the server closed the target connection after delivering %d bytes (logger %v, fast open %v): %d bytes of the flow never reached the target",
			len(sent), c.Put, len(got), c.Logger, c.FastOpen, len(sent)-len(got))
	}
	want := "c17s-" + strconv.Itoa(idx) + ".example:80"
	if c.Rw {
		want = "r17s-" + strconv.Itoa(idx) + ".example:8443"
	}
	if len(dialAddr) != 1 || dialAddr[0] != want {
		fail("target dialled at %v, the hook left %q", dialAddr, want)
	}
	if c.Down > 0 && recvComplete && !bytes.Equal(recv, down) {
		fail("client received %d of the %d bytes the target sent", len(recv), len(down))
	}
	if c.Logger {
		var ltx, lrx uint64
		ups := []uint64{}
		for _, l := range logs {
			ltx += l[0]
			lrx += l[1]
			if l[0] > 0 {
				ups = append(ups, l[0])
			}
		}
		res["ltx"], res["lrx"], res["uplogs"] = ltx, lrx, ups
		if badLog != "" {
			fail("bad logger arguments: %s", badLog)
		}
		if stats == nil || traced != 1 {
			fail("TraceStream called %d times for one stream", traced)
		} else {
			res["stx"], res["srx"] = stats.Tx.Load(), stats.Rx.Load()
			if !untraced {
				fail("stream not untraced 5 s after the relay was torn down")
			}
			if stats.Tx.Load() != uint64(len(got)) {
				fail("StreamStats.Tx = %d, the target received %d bytes (putback %d)", stats.Tx.Load(), len(got), c.Put)
			}
			if recvComplete && stats.Rx.Load() < uint64(len(recv)) {
				fail("StreamStats.Rx = %d, the client received %d bytes", stats.Rx.Load(), len(recv))
			}
		}
		if ltx > uint64(len(got)) {
			fail("LogTraffic approved tx=%d, the target received only %d bytes", ltx, len(got))
		}
		if ltx+uint64(c.Put) < uint64(len(got)) {
			fail("LogTraffic approved tx=%d, but %d bytes were forwarded behind the %d-byte putback", ltx, len(got)-c.Put, c.Put)
		}
		if recvComplete && lrx < uint64(len(recv)) {
			fail("LogTraffic approved rx=%d, the client received %d bytes", lrx, len(recv))
		}
	}
	if _, done := res["ok"]; !done {
		res["ok"] = true
		res["why"] = ""
	}
	return res["ok"] == true
}

func c17sFirstDiff(a, b []byte) int {
	n := min(len(a), len(b))
	for i := 0; i < n; i++ {
		if a[i] != b[i] {
			return i
		}
	}
	return n
}

func c17sStable(s string) string {
	out := make([]byte, 0, len(s))
	prev := false
	for i := 0; i < len(s); i++ {
		if s[i] >= '0' && s[i] <= '9' {
			if !prev {
				out = append(out, '#')
			}
			prev = true
			continue
		}
		prev = false
		out = append(out, s[i])
	}
	return string(out)
}

func TestVerifC17Server(t *testing.T) {
	out := vOpenOut(t, "VERIF_OUT")
	defer out.Close()
	defer func() {
		for _, e := range c17sEnvs {
			e.close()
		}
	}()
	for i, raw := range vReadCases(t) {
		var c c17sCase
		if err := json.Unmarshal(raw, &c); err != nil {
			t.Fatal(err)
		}
		res := map[string]any{"i": i, "k": c.K}
		reusable := false
		panicked, msg := vCatch(func() { reusable = c17sRun(i, c, res) })
		if panicked {
			res["ok"] = false
			res["why"] = "panic: " + msg
			res["panic"] = true
		}
		if !reusable {
			key := [2]bool{c.Logger, c.FastOpen}
			if e := c17sEnvs[key]; e != nil {
				e.close()
				delete(c17sEnvs, key)
			}
		}
		out.Emit(res)
	}
}
