//go:build verif

package sniff

// C17 harness: runs Sniffer.TCP on a scripted stream, Sniffer.UDP / ReadCryptoPayload /
// ParseInitialHeader on datagrams (built here with an independent QUIC Initial sealer, or raw)
// and Sniffer.Check of /repo's working tree on the cases in $VERIF_IN.  Writes the raw
// observations (for the comparison with the Coq model), the answers of the library oracles the
// model is parameterised by (http.ReadRequest, utls, AES header protection, AEAD, ParseIP, Atoi),
// computed here independently of the code under test, and the property verdict evaluated on the
// implementation alone.

import (
	"bufio"
	"bytes"
	"crypto/aes"
	"crypto/cipher"
	"crypto/sha256"
	"encoding/binary"
	"encoding/json"
	"errors"
	"io"
	"net"
	"net/http"
	"os"
	"runtime"
	"strconv"
	"strings"
	"sync"
	"testing"
	"time"

	quicgo "github.com/apernet/quic-go"
	"github.com/apernet/quic-go/quicvarint"
	utls "github.com/refraction-networking/utls"
	"golang.org/x/crypto/hkdf"

	quicInternal "github.com/apernet/hysteria/extras/v2/sniff/internal/quic"
	"github.com/apernet/hysteria/extras/v2/utils"
)

// ---------------------------------------------------------------- scripted stream

type c17Ev struct {
	data []byte
	err  int // 0 none, 1 io.EOF, 2 deadline exceeded, 3 other
}

type c17Stream struct {
	evs    []c17Ev
	sizes  []int
	dl     []bool // one entry per SetReadDeadline call: true = non-zero time
	dlFail bool
}

var errC17Other = errors.New("stream reset")

func c17Err(e int) error {
	switch e {
	case 1:
		return io.EOF
	case 2:
		return os.ErrDeadlineExceeded
	case 3:
		return errC17Other
	}
	return nil
}

func (s *c17Stream) StreamID() quicgo.StreamID { return 0 }

func (s *c17Stream) Read(b []byte) (int, error) {
	s.sizes = append(s.sizes, len(b))
	if len(s.evs) == 0 {
		return 0, io.EOF
	}
	ev := &s.evs[0]
	if len(b) < len(ev.data) {
		n := copy(b, ev.data)
		ev.data = ev.data[n:]
		return n, nil
	}
	n := copy(b, ev.data)
	err := c17Err(ev.err)
	if ev.err == 0 {
		s.evs = s.evs[1:]
	} else {
		ev.data = nil
	}
	return n, err
}

func (s *c17Stream) Write(p []byte) (int, error) { return len(p), nil }
func (s *c17Stream) Close() error                { return nil }
func (s *c17Stream) SetReadDeadline(t time.Time) error {
	s.dl = append(s.dl, !t.IsZero())
	if s.dlFail && !t.IsZero() {
		return errC17Other
	}
	return nil
}
func (s *c17Stream) SetWriteDeadline(t time.Time) error { return nil }
func (s *c17Stream) SetDeadline(t time.Time) error      { return nil }

// ---------------------------------------------------------------- cases

type c17Build struct {
	Ver    uint32          `json:"ver"`
	KeyVer *uint32         `json:"keyver"`
	Dcid   string          `json:"dcid"`
	Scid   string          `json:"scid"`
	Token  string          `json:"token"`
	PnLen  int             `json:"pnlen"`
	Pn     uint32          `json:"pn"`
	Frames [][]interface{} `json:"frames"`
	First  *int            `json:"first"`  // first byte before protection (default c0|type<<4|pnlen-1)
	LenAdd int             `json:"lenadd"` // added to the Length field
	LenW   int             `json:"lenw"`   // width of the Length varint (default 2)
	NoTok  bool            `json:"notok"`  // omit the token field
	Sni    *string         `json:"sni"`    // the server name in the ClientHello the frames were cut from (absent: none)
}

type c17Case struct {
	K      string     `json:"k"`
	Sent   string     `json:"sent"`
	SentP  [][]any    `json:"sentp"` // a long stream as pieces: ["l",hex] | ["gd",a,b,n] | ["rep",byte,n]
	Evs    [][2]int   `json:"evs"`
	Addr   string     `json:"addr"` // hex
	DlFail bool       `json:"dlfail"`
	Build  *c17Build  `json:"build"`
	Hex    string     `json:"hex"`
	Mut    [][]string `json:"mut"`
	Rw     bool       `json:"rw"`
	TCP    *[][2]int  `json:"tcp"`
	UDP    *[][2]int  `json:"udp"`
	IsUDP  bool       `json:"isudp"`
	Items  []c17Case  `json:"items"` // tcpseq: the hooked streams
	Hist   [][2]int   `json:"hist"`  // tcpseq: (0,i) sniff stream i, (1,i) look at stream i's replay
	Conc   bool       `json:"conc"`  // tcpseq: sniff all streams concurrently
}

func TestVerifC17(t *testing.T) {
	vParams(t, [][3]string{
		{"SniffMaxHTTPHeaderBytes", "N", strconv.Itoa(sniffMaxHTTPHeaderBytes)},
		{"QuicV1", "N", strconv.FormatUint(uint64(quicInternal.V1), 10)},
		{"QuicV2", "N", strconv.FormatUint(uint64(quicInternal.V2), 10)},
	})
	out := vOpenOut(t, "VERIF_OUT")
	defer out.Close()
	for i, raw := range vReadCases(t) {
		var c c17Case
		if err := json.Unmarshal(raw, &c); err != nil {
			t.Fatal(err)
		}
		res := map[string]any{"i": i, "k": c.K}
		switch c.K {
		case "tcp":
			c17TCP(c, res)
		case "tcpseq":
			c17TCPSeq(c, res)
		case "udp":
			c17UDP(c, res)
		case "check":
			c17Check(c, res)
		default:
			t.Fatalf("unknown case kind %q", c.K)
		}
		out.Emit(res)
	}
}

func c17Letters3(b []byte) bool {
	if len(b) < 3 {
		return false
	}
	for _, x := range b[:3] {
		if !((x >= 'A' && x <= 'Z') || (x >= 'a' && x <= 'z')) {
			return false
		}
	}
	return true
}

func c17TLSish(b []byte) bool {
	return len(b) >= 3 && (b[0] == 0x16 || b[0] == 0x17) && b[1] == 3 && b[2] <= 9
}

// independent parses of the bytes the sniffer consumed
func c17HTTPHost(b []byte) (string, bool) {
	req, err := http.ReadRequest(bufio.NewReader(bytes.NewReader(b)))
	if err != nil || req == nil {
		return "", false
	}
	return req.Host, true
}

func c17SNI(b []byte) (string, bool) {
	var ch *utls.PubClientHelloMsg
	p, _ := vCatch(func() { ch = utls.UnmarshalClientHello(b) })
	if p || ch == nil {
		return "", false
	}
	return ch.ServerName, true
}

func c17HostPart(h string) string {
	host, _, err := net.SplitHostPort(h)
	if err != nil {
		return h
	}
	return host
}

// one hooked TCP stream: the scripted stream, the call, and what it handed back.  The replay slice is
// kept exactly as Sniffer.TCP returned it (no copy): core/server writes it to the target only after it
// has logged and dialled, so its contents must still be the client's bytes whenever it is looked at
// later - in particular after other hooked streams have been sniffed.
type c17TCPRun struct {
	c      c17Case
	sent   []byte
	st     *c17Stream
	addr0  string
	addr   string
	replay []byte // as returned
	early  []byte // copy taken right after the call returned
	err    error
	p      bool
	msg    string
}

func c17Sent(c c17Case) []byte {
	if len(c.SentP) == 0 {
		return vUnhex(c.Sent)
	}
	var out []byte
	for _, q := range c.SentP {
		switch q[0].(string) {
		case "l":
			out = append(out, vUnhex(q[1].(string))...)
		case "gd":
			out = append(out, vGenData(uint64(q[1].(float64)), uint64(q[2].(float64)), int(q[3].(float64)))...)
		case "rep":
			out = append(out, bytes.Repeat([]byte{byte(q[1].(float64))}, int(q[2].(float64)))...)
		default:
			panic("c17: unknown stream piece")
		}
	}
	return out
}

func c17TCPStart(c c17Case) *c17TCPRun {
	sent := c17Sent(c)
	st := &c17Stream{dlFail: c.DlFail}
	off := 0
	for _, e := range c.Evs {
		st.evs = append(st.evs, c17Ev{data: append([]byte(nil), sent[off:off+e[0]]...), err: e[1]})
		off += e[0]
	}
	if off != len(sent) {
		panic("c17: events do not cover the stream")
	}
	addr0 := string(vUnhex(c.Addr))
	return &c17TCPRun{c: c, sent: sent, st: st, addr0: addr0, addr: addr0}
}

func (r *c17TCPRun) sniff(sn *Sniffer) {
	r.p, r.msg = vCatch(func() { r.replay, r.err = sn.TCP(r.st, &r.addr) })
	r.early = append([]byte(nil), r.replay...)
}

func c17TCP(c c17Case, res map[string]any) {
	r := c17TCPStart(c)
	r.sniff(&Sniffer{Timeout: time.Second})
	r.judge(res)
}

// a history of several hooked streams on one Sniffer: Hist lists sniff (0,i) and look-at-the-replay
// (1,i) events; streams never looked at are looked at when the history is over.  Conc: all streams are
// sniffed by concurrent goroutines (each reads its own replay as soon as its call returns, while the
// others are still sniffing - under -race this is where a write to a handed-back slice shows), then
// every replay is looked at once more.
func c17TCPSeq(c c17Case, res map[string]any) {
	sn := &Sniffer{Timeout: time.Second}
	runs := make([]*c17TCPRun, len(c.Items))
	for i := range c.Items {
		runs[i] = c17TCPStart(c.Items[i])
	}
	items := make([]map[string]any, len(runs))
	sniffed := make([]bool, len(runs))
	later := make([]int, len(runs)) // sniffs of other streams between this stream's sniff and its judgement
	judge := func(i int) {
		if items[i] != nil || !sniffed[i] {
			return
		}
		items[i] = map[string]any{}
		runs[i].judge(items[i])
	}
	if c.Conc {
		var wg sync.WaitGroup
		start := make(chan struct{})
		for i := range runs {
			wg.Add(1)
			go func(r *c17TCPRun) {
				defer wg.Done()
				<-start
				r.sniff(sn)
				runtime.Gosched()
				r.early = append(r.early[:0], r.replay...) // the consumer reading what it was handed
			}(runs[i])
			sniffed[i] = true
			later[i] = len(runs) - 1
		}
		close(start)
		wg.Wait()
	} else {
		for _, h := range c.Hist {
			i := h[1]
			if i < 0 || i >= len(runs) {
				continue
			}
			if h[0] == 0 && !sniffed[i] {
				runs[i].sniff(sn)
				sniffed[i] = true
				for j := range runs {
					if j != i && sniffed[j] && items[j] == nil {
						later[j]++
					}
				}
			} else if h[0] == 1 {
				judge(i)
			}
		}
	}
	for i := range runs {
		if !sniffed[i] {
			runs[i].sniff(sn)
			sniffed[i] = true
		}
	}
	for i := range runs {
		judge(i)
	}
	res["items"] = items
	ok, why := true, ""
	for i, it := range items {
		if it["ok"] != true && ok {
			ok = false
			why = "stream " + strconv.Itoa(i) + " of " + strconv.Itoa(len(items)) + " (replay looked at after " +
				strconv.Itoa(later[i]) + " other hooked stream(s) were sniffed): " + it["why"].(string)
		}
	}
	res["ok"] = ok
	res["why"] = why
}

func (r *c17TCPRun) judge(res map[string]any) {
	c, sent, st, addr0, addr, replay, err := r.c, r.sent, r.st, r.addr0, r.addr, r.replay, r.err
	p, msg := r.p, r.msg
	res["panic"] = p
	if p {
		res["ok"] = false
		res["why"] = "panic: " + msg
		return
	}
	// remaining script
	var rem []byte
	remEvs := make([][2]int, 0, len(st.evs))
	for _, e := range st.evs {
		rem = append(rem, e.data...)
		remEvs = append(remEvs, [2]int{len(e.data), e.err})
	}
	res["rn"] = len(replay)
	rprefix := len(replay) <= len(sent) && bytes.Equal(replay, sent[:len(replay)])
	res["rprefix"] = rprefix
	if !rprefix {
		res["replay"] = vHex(replay)
	}
	res["rem"] = remEvs
	res["remn"] = len(rem)
	rsuffix := len(rem) <= len(sent) && bytes.Equal(rem, sent[len(sent)-len(rem):])
	res["remsuffix"] = rsuffix
	if !rsuffix {
		res["remx"] = vHex(rem)
	}
	res["addr2"] = vHex([]byte(addr))
	res["err"] = err != nil
	res["sizes"] = st.sizes
	res["dl"] = st.dl
	// oracle answers, computed independently on the bytes the sniffer took from the stream
	// (= the bytes handed back, unless an error was returned and nothing is handed back)
	seen := replay
	if err != nil && rsuffix {
		seen = sent[:len(sent)-len(rem)]
	}
	var allowed *string
	if hh, ok := c17HTTPHost(seen); ok {
		res["hhost"] = vHex([]byte(hh))
		if c17Letters3(seen) && hh != "" {
			h := c17HostPart(hh)
			allowed = &h
		}
	}
	if len(seen) >= 5 {
		if s, ok := c17SNI(seen[5:]); ok {
			res["sni"] = vHex([]byte(s))
			cl := int(seen[3])<<8 | int(seen[4])
			if c17TLSish(seen) && len(seen) == 5+cl && s != "" {
				allowed = &s
			}
		}
	}
	// property verdict on the implementation alone
	ok, why := true, ""
	fail := func(s string) {
		if ok {
			ok, why = false, s
		}
	}
	_, port0, splitErr := net.SplitHostPort(addr0)
	if err != nil {
		// the server closes the stream: only legitimate when the deadline could not be set or the
		// request address has no port to keep
		if !c.DlFail && splitErr == nil {
			fail("TCP returned an error on a stream with a well-formed request address")
		}
		if addr != addr0 {
			fail("address changed although an error was returned")
		}
	} else {
		if !bytes.Equal(append(append([]byte(nil), replay...), rem...), sent) {
			if bytes.Equal(append(append([]byte(nil), r.early...), rem...), sent) {
				fail("replay ++ unread != sent: the replay slice was written after Sniffer.TCP returned it")
			} else {
				fail("replay ++ unread != sent")
			}
		}
		if addr != addr0 {
			if splitErr != nil {
				fail("address without a port was rewritten")
			} else {
				if !strings.HasSuffix(addr, ":"+port0) {
					fail("port changed")
				}
				if allowed == nil {
					fail("address rewritten although no Host / server name is present in the bytes read")
				} else if addr != net.JoinHostPort(*allowed, port0) {
					fail("address rewritten to something else than the Host / server name present")
				}
			}
		}
		if len(st.dl) < 2 || st.dl[len(st.dl)-1] {
			fail("read deadline not reset after sniffing")
		}
	}
	res["ok"] = ok
	res["why"] = why
}

// ---------------------------------------------------------------- QUIC Initial sealer / opener (independent of the code under test)

var (
	c17SaltV1 = []byte{0x38, 0x76, 0x2c, 0xf7, 0xf5, 0x59, 0x34, 0xb3, 0x4d, 0x17, 0x9a, 0xe6, 0xa4, 0xc8, 0x0c, 0xad, 0xcc, 0xbb, 0x7f, 0x0a}
	c17SaltV2 = []byte{0x0d, 0xed, 0xe3, 0xde, 0xf7, 0x00, 0xa6, 0xdb, 0x81, 0x93, 0x81, 0xbe, 0x6e, 0x26, 0x9d, 0xcb, 0xf9, 0xbd, 0x2e, 0xd9}
)

const (
	c17V1 = 0x1
	c17V2 = 0x6b3343cf
)

func c17ExpandLabel(secret []byte, label string, n int) []byte {
	var b []byte
	b = append(b, byte(n>>8), byte(n))
	b = append(b, byte(6+len(label)))
	b = append(b, "tls13 "...)
	b = append(b, label...)
	b = append(b, 0)
	out := make([]byte, n)
	if _, err := io.ReadFull(hkdf.Expand(sha256.New, secret, b), out); err != nil {
		panic(err)
	}
	return out
}

type c17Keys struct {
	aead cipher.AEAD
	iv   []byte
	hp   cipher.Block
}

func c17ClientKeys(ver uint32, dcid []byte) *c17Keys {
	salt := c17SaltV1
	kl, il, hl := "quic key", "quic iv", "quic hp"
	if ver == c17V2 {
		salt = c17SaltV2
		kl, il, hl = "quicv2 key", "quicv2 iv", "quicv2 hp"
	}
	initial := hkdf.Extract(sha256.New, dcid, salt)
	cs := c17ExpandLabel(initial, "client in", 32)
	blk, _ := aes.NewCipher(c17ExpandLabel(cs, kl, 16))
	aead, _ := cipher.NewGCM(blk)
	hp, _ := aes.NewCipher(c17ExpandLabel(cs, hl, 16))
	return &c17Keys{aead: aead, iv: c17ExpandLabel(cs, il, 12), hp: hp}
}

func (k *c17Keys) nonce(pn int64) []byte {
	n := make([]byte, 12)
	binary.BigEndian.PutUint64(n[4:], uint64(pn))
	for i := range n {
		n[i] ^= k.iv[i]
	}
	return n
}

func c17VarintW(v uint64, w int) []byte {
	switch w {
	case 1:
		return []byte{byte(v)}
	case 2:
		return []byte{byte(v>>8) | 0x40, byte(v)}
	case 4:
		return []byte{byte(v>>24) | 0x80, byte(v >> 16), byte(v >> 8), byte(v)}
	}
	return []byte{byte(v>>56) | 0xc0, byte(v >> 48), byte(v >> 40), byte(v >> 32), byte(v >> 24), byte(v >> 16), byte(v >> 8), byte(v)}
}

func c17Frames(fr [][]interface{}) []byte {
	var pt []byte
	num := func(x interface{}) uint64 {
		if s, ok := x.(string); ok {
			v, err := strconv.ParseUint(s, 10, 64)
			if err != nil {
				panic(err)
			}
			return v
		}
		return uint64(x.(float64))
	}
	for _, f := range fr {
		switch f[0].(string) {
		case "c": // crypto frame: offset, data
			d := vUnhex(f[2].(string))
			pt = append(pt, 0x06)
			pt = quicvarint.Append(pt, num(f[1]))
			pt = quicvarint.Append(pt, uint64(len(d)))
			pt = append(pt, d...)
		case "cl": // crypto frame with an explicit (possibly lying) length: offset, length, data
			d := vUnhex(f[3].(string))
			pt = append(pt, 0x06)
			pt = quicvarint.Append(pt, num(f[1]))
			pt = quicvarint.Append(pt, num(f[2]))
			pt = append(pt, d...)
		case "p":
			pt = append(pt, make([]byte, int(num(f[1])))...)
		case "g":
			pt = append(pt, 0x01)
		case "r":
			pt = append(pt, vUnhex(f[1].(string))...)
		}
	}
	return pt
}

func c17BuildInitial(b *c17Build) []byte {
	dcid, scid, token := vUnhex(b.Dcid), vUnhex(b.Scid), vUnhex(b.Token)
	pnLen := b.PnLen
	if pnLen < 1 || pnLen > 4 {
		pnLen = 2
	}
	typ := 0
	if b.Ver == c17V2 {
		typ = 1
	}
	first := 0xc0 | typ<<4 | (pnLen - 1)
	if b.First != nil {
		first = *b.First&0xfc | (pnLen - 1)
	}
	pt := c17Frames(b.Frames)
	lw := b.LenW
	if lw == 0 {
		lw = 2
	}
	hdr := []byte{byte(first)}
	hdr = binary.BigEndian.AppendUint32(hdr, b.Ver)
	hdr = append(hdr, byte(len(dcid)))
	hdr = append(hdr, dcid...)
	hdr = append(hdr, byte(len(scid)))
	hdr = append(hdr, scid...)
	if !b.NoTok {
		hdr = quicvarint.Append(hdr, uint64(len(token)))
		hdr = append(hdr, token...)
	}
	hdr = append(hdr, c17VarintW(uint64(pnLen+len(pt)+16+b.LenAdd), lw)...)
	pnOff := len(hdr)
	for i := pnLen - 1; i >= 0; i-- {
		hdr = append(hdr, byte(b.Pn>>(8*uint(i))))
	}
	kv := b.Ver
	if b.KeyVer != nil {
		kv = *b.KeyVer
	}
	keys := c17ClientKeys(kv, dcid)
	ct := keys.aead.Seal(nil, keys.nonce(int64(b.Pn)), pt, hdr)
	pkt := append(append([]byte(nil), hdr...), ct...)
	if len(pkt) >= pnOff+20 {
		mask := make([]byte, 16)
		keys.hp.Encrypt(mask, pkt[pnOff+4:pnOff+20])
		if pkt[0]&0x80 != 0 {
			pkt[0] ^= mask[0] & 0x0f
		} else {
			pkt[0] ^= mask[0] & 0x1f
		}
		for i := 0; i < pnLen; i++ {
			pkt[pnOff+i] ^= mask[1+i]
		}
	}
	return pkt
}

// c17Oracle opens the packet independently (own header walk, crypto from the standard library)
// and records the two crypto oracle queries and answers the model will make.
func c17Oracle(data []byte, res map[string]any) {
	r := bytes.NewReader(data)
	rb := func() (byte, bool) { b, err := r.ReadByte(); return b, err == nil }
	first, ok := rb()
	if !ok {
		return
	}
	vb := make([]byte, 4)
	if _, err := io.ReadFull(r, vb); err != nil {
		return
	}
	ver := binary.BigEndian.Uint32(vb)
	if ver != c17V1 && ver != c17V2 {
		return
	}
	dl, ok := rb()
	if !ok {
		return
	}
	dcid := make([]byte, dl)
	if _, err := io.ReadFull(r, dcid); err != nil && dl > 0 {
		return
	}
	sl, ok := rb()
	if !ok {
		return
	}
	if _, err := io.ReadFull(r, make([]byte, sl)); err != nil && sl > 0 {
		return
	}
	ipt := byte(0)
	if ver == c17V2 {
		ipt = 1
	}
	if (first>>4)&3 == ipt {
		tl, err := quicvarint.Read(r)
		if err != nil || tl > uint64(r.Len()) {
			return
		}
		r.Seek(int64(tl), io.SeekCurrent)
	}
	length, err := quicvarint.Read(r)
	if err != nil {
		return
	}
	off := len(data) - r.Len()
	n := uint64(off) + length
	if length == 0 || n > uint64(len(data)) || n < uint64(off+20) {
		return
	}
	pkt := append([]byte(nil), data[:n]...)
	keys := c17ClientKeys(ver, dcid)
	sample := pkt[off+4 : off+20]
	mask := make([]byte, 16)
	keys.hp.Encrypt(mask, sample)
	res["q_ver"] = ver
	res["q_dcid"] = vHex(dcid)
	res["q_sample"] = vHex(sample)
	res["a_mask"] = vHex(mask)
	if pkt[0]&0x80 != 0 {
		pkt[0] ^= mask[0] & 0x0f
	} else {
		pkt[0] ^= mask[0] & 0x1f
	}
	pnLen := int(pkt[0]&3) + 1
	pn := int64(0)
	for i := 0; i < pnLen; i++ {
		pkt[off+i] ^= mask[1+i]
		pn = pn<<8 | int64(pkt[off+i])
	}
	// RFC 9000 A.3 with largest = 2
	expected := int64(3)
	win := int64(1) << (uint(pnLen) * 8)
	hwin := win / 2
	cand := (expected &^ (win - 1)) | pn
	if cand <= expected-hwin && cand < (1<<62)-win {
		cand += win
	} else if cand > expected+hwin && cand >= win {
		cand -= win
	}
	hdr := pkt[:off+pnLen]
	ct := pkt[off+pnLen:]
	res["q_pn"] = cand
	res["q_ad"] = vHex(hdr)
	res["q_ctn"] = len(ct)
	res["q_ctdg"] = vDigest(ct)
	pt, err := keys.aead.Open(nil, keys.nonce(cand), ct, hdr)
	if err != nil {
		res["a_ok"] = false
		res["a_out"] = vHex(make([]byte, len(ct)-16))
	} else {
		res["a_ok"] = true
		res["a_out"] = vHex(pt)
	}
}

// ---------------------------------------------------------------- reference reading of the CRYPTO stream a datagram carries

type c17RefFrame struct {
	off  uint64
	data []byte
}

// c17RefVarint: RFC 9000 section 16, written out here (not the library the code under test uses)
func c17RefVarint(b []byte) (uint64, int, bool) {
	if len(b) == 0 {
		return 0, 0, false
	}
	n := 1 << (b[0] >> 6)
	if len(b) < n {
		return 0, 0, false
	}
	v := uint64(b[0] & 0x3f)
	for i := 1; i < n; i++ {
		v = v<<8 | uint64(b[i])
	}
	return v, n, true
}

// c17RefFrames walks the plaintext of an Initial (as opened by c17Oracle, independently of the code under
// test): PADDING and PING are skipped, CRYPTO frames collected; anything else, or a frame that does not fit,
// makes the packet unusable for sniffing.
func c17RefFrames(pt []byte) ([]c17RefFrame, bool) {
	var frs []c17RefFrame
	for len(pt) > 0 {
		typ, n, ok := c17RefVarint(pt)
		if !ok {
			return nil, false
		}
		pt = pt[n:]
		if typ == 0 || typ == 1 {
			continue
		}
		if typ != 6 {
			return nil, false
		}
		off, n1, ok1 := c17RefVarint(pt)
		if !ok1 {
			return nil, false
		}
		ln, n2, ok2 := c17RefVarint(pt[n1:])
		if !ok2 || ln > uint64(len(pt)-n1-n2) {
			return nil, false
		}
		pt = pt[n1+n2:]
		frs = append(frs, c17RefFrame{off, append([]byte(nil), pt[:ln]...)})
		pt = pt[ln:]
	}
	return frs, true
}

// c17RefStream: the stretch of the CRYPTO stream that is really present in the datagram.
// One frame: its data.  Several frames: they must cover the stream from offset 0 to the highest end without a
// hole (overlaps that agree are fine); hole = [from, to) is the first stretch that is in no frame.
// present == nil: nothing usable (no frame, a hole, overlapping frames that disagree).
func c17RefStream(frs []c17RefFrame) (present []byte, hole bool, from, to uint64) {
	if len(frs) == 0 {
		return nil, false, 0, 0
	}
	if len(frs) == 1 {
		return frs[0].data, false, 0, 0
	}
	s := append([]c17RefFrame(nil), frs...)
	for i := 1; i < len(s); i++ { // insertion sort by offset
		for j := i; j > 0 && s[j].off < s[j-1].off; j-- {
			s[j], s[j-1] = s[j-1], s[j]
		}
	}
	var run []byte
	for _, f := range s {
		if f.off > uint64(len(run)) {
			return nil, true, uint64(len(run)), f.off
		}
		for i, x := range f.data {
			p := f.off + uint64(i)
			if p < uint64(len(run)) {
				if run[p] != x {
					return nil, false, 0, 0
				}
			} else {
				run = append(run, x)
			}
		}
	}
	return run, false, 0, 0
}

func c17UDP(c c17Case, res map[string]any) {
	var data []byte
	if c.Build != nil {
		data = c17BuildInitial(c.Build)
	} else {
		data = vUnhex(c.Hex)
	}
	for _, m := range c.Mut {
		switch m[0] {
		case "trunc":
			n, _ := strconv.Atoi(m[1])
			if n < len(data) {
				data = data[:n]
			}
		case "flip":
			i, _ := strconv.Atoi(m[1])
			x, _ := strconv.Atoi(m[2])
			if len(data) > 0 {
				data[i%len(data)] ^= byte(x)
			}
		case "set":
			i, _ := strconv.Atoi(m[1])
			x, _ := strconv.Atoi(m[2])
			if i < len(data) {
				data[i] = byte(x)
			}
		case "app":
			data = append(data, vUnhex(m[1])...)
		}
	}
	data = append([]byte(nil), data...)
	data = data[:len(data):len(data)]
	orig := append([]byte(nil), data...)
	res["data"] = vHex(orig)
	addr0 := string(vUnhex(c.Addr))
	ok, why := true, ""
	fail := func(s string) {
		if ok {
			ok, why = false, s
		}
	}
	// ParseInitialHeader
	{
		d := append([]byte(nil), orig...)
		var hdr *quicInternal.Header
		var off int64
		var err error
		p, msg := vCatch(func() { hdr, off, err = quicInternal.ParseInitialHeader(d) })
		if p {
			res["hdr_panic"] = true
			fail("ParseInitialHeader panic: " + msg)
		} else if err != nil || hdr == nil {
			res["hdr_err"] = true
		} else {
			res["hdr"] = map[string]any{"ver": hdr.Version, "dcid": vHex(hdr.DestConnectionID), "scid": vHex(hdr.SrcConnectionID),
				"token": vHex(hdr.Token), "len": hdr.Length, "off": off}
		}
		if !bytes.Equal(d, orig) {
			fail("ParseInitialHeader modified the packet")
		}
	}
	// ReadCryptoPayload
	var plRef []byte
	plOK := false
	{
		d := append([]byte(nil), orig...)
		var pl []byte
		var err error
		p, msg := vCatch(func() { pl, err = quicInternal.ReadCryptoPayload(d) })
		if p {
			res["pl_panic"] = true
			fail("ReadCryptoPayload panic: " + msg)
		} else if err != nil {
			res["pl_err"] = true
		} else {
			res["pl"] = vHex(pl)
			plRef, plOK = pl, true
		}
		if !bytes.Equal(d, orig) {
			fail("ReadCryptoPayload modified the packet")
		}
	}
	c17Oracle(orig, res)
	// reference answer: the server name in the CRYPTO bytes this datagram really carries, from the harness's own
	// opening of the packet and its own walk over the frames (nothing of the code under test involved)
	var refAllowed *string
	refHole, refFrom, refTo, refOpened := false, uint64(0), uint64(0), false
	if aok, _ := res["a_ok"].(bool); aok {
		refOpened = true
		if frs, fok := c17RefFrames(vUnhex(res["a_out"].(string))); fok {
			var present []byte
			present, refHole, refFrom, refTo = c17RefStream(frs)
			res["ref_frames"] = len(frs)
			if refHole {
				res["ref_hole"] = []uint64{refFrom, refTo}
			}
			if len(present) >= 4 && present[0] == 1 {
				if s, ok2 := c17SNI(present); ok2 && s != "" {
					refAllowed = &s
					res["ref_sni"] = vHex([]byte(s))
				}
			}
		}
	}
	var allowed *string
	if plOK {
		if s, ok2 := c17SNI(plRef); ok2 {
			res["sni"] = vHex([]byte(s))
			if len(plRef) >= 4 && plRef[0] == 1 && s != "" {
				allowed = &s
			}
		}
	}
	// Sniffer.UDP on the very slice the server forwards next
	addr := addr0
	sn := &Sniffer{Timeout: time.Second}
	var err error
	p, msg := vCatch(func() { err = sn.UDP(data, &addr) })
	res["panic"] = p
	if p {
		fail("Sniffer.UDP panic: " + msg)
	}
	same := bytes.Equal(data, orig)
	res["same"] = same
	if !same {
		res["after"] = vHex(data)
		nd := 0
		for i := range data {
			if data[i] != orig[i] {
				nd++
			}
		}
		fail("Sniffer.UDP modified the datagram (" + strconv.Itoa(nd) + " of " + strconv.Itoa(len(orig)) + " bytes differ)")
	}
	res["addr2"] = vHex([]byte(addr))
	res["err"] = err != nil
	_, port0, splitErr := net.SplitHostPort(addr0)
	if err != nil && splitErr == nil {
		fail("UDP returned an error with a well-formed request address")
	}
	if addr != addr0 {
		if splitErr != nil {
			fail("address without a port was rewritten")
		} else {
			if !strings.HasSuffix(addr, ":"+port0) {
				fail("port changed")
			}
			if allowed == nil {
				fail("address rewritten although no server name is present in the packet")
			} else if addr != net.JoinHostPort(*allowed, port0) {
				fail("address rewritten to something else than the server name present")
			}
			// ... and against the reference reading of the datagram
			newHost := strings.TrimSuffix(addr, ":"+port0)
			detail := func(d string) { res["detail"] = "rewritten to " + strconv.Quote(newHost) + ": " + d }
			switch {
			case !refOpened:
				detail("the harness's own opening of the datagram fails")
				fail("address rewritten although the datagram does not open as a QUIC Initial")
			case refHole:
				detail("bytes " + strconv.FormatUint(refFrom, 10) + ".." + strconv.FormatUint(refTo, 10) + " of the CRYPTO stream are in no frame of the datagram")
				if c.Build != nil && c.Build.Sni != nil && addr != net.JoinHostPort(*c.Build.Sni, port0) {
					fail("address rewritten from truncated input (the CRYPTO frames of the datagram leave a hole below the highest frame) to a host name that is not in the datagram")
				}
				fail("address rewritten from truncated input: the CRYPTO frames of the datagram leave a hole below the highest frame")
			case refAllowed == nil:
				detail("no ClientHello with a server name in the CRYPTO bytes present")
				fail("address rewritten although the CRYPTO bytes the datagram carries hold no server name")
			case addr != net.JoinHostPort(*refAllowed, port0):
				detail("the CRYPTO bytes present name " + strconv.Quote(*refAllowed))
				fail("address rewritten to something else than the server name in the CRYPTO bytes the datagram carries")
			}
			if c.Build != nil && (c.Build.Sni == nil || addr != net.JoinHostPort(*c.Build.Sni, port0)) {
				want := "no server name"
				if c.Build.Sni != nil {
					want = strconv.Quote(*c.Build.Sni)
				}
				if _, has := res["detail"]; !has {
					detail("the ClientHello the harness cut the frames from names " + want)
				}
				fail("address rewritten to something else than the server name of the ClientHello the harness cut the frames from")
			}
		}
	}
	res["ok"] = ok
	res["why"] = why
}

// ---------------------------------------------------------------- Check

func c17Union(p *[][2]int) utils.PortUnion {
	if p == nil {
		return nil
	}
	u := make(utils.PortUnion, 0, len(*p))
	for _, r := range *p {
		u = append(u, utils.PortRange{Start: uint16(r[0]), End: uint16(r[1])})
	}
	return u
}

func c17Check(c c17Case, res map[string]any) {
	addr := string(vUnhex(c.Addr))
	sn := &Sniffer{Timeout: time.Second, RewriteDomain: c.Rw, TCPPorts: c17Union(c.TCP), UDPPorts: c17Union(c.UDP)}
	var r bool
	p, msg := vCatch(func() { r = sn.Check(c.IsUDP, addr) })
	res["panic"] = p
	if p {
		res["ok"] = false
		res["why"] = "panic: " + msg
		return
	}
	res["res"] = r
	// oracle answers and the independent expectation
	host, port, err := net.SplitHostPort(addr)
	exp := true
	if strings.HasPrefix(addr, "@") {
		exp = false
	}
	if err != nil {
		res["split_err"] = true
		exp = false
	} else {
		res["host"] = vHex([]byte(host))
		res["port"] = vHex([]byte(port))
		res["join"] = vHex([]byte(net.JoinHostPort(host, port)))
		isip := net.ParseIP(host) != nil
		res["isip"] = isip
		if !c.Rw && !isip {
			exp = false
		}
		n, aerr := strconv.Atoi(port)
		if aerr != nil {
			res["atoi_err"] = true
			exp = false
		} else {
			res["atoi"] = strconv.Itoa(n)
			u := c17Union(c.TCP)
			if c.IsUDP {
				u = c17Union(c.UDP)
			}
			// the filter sees the low 16 bits of the parsed number (uint16 conversion in Check)
			if u != nil && !u.Contains(uint16(n)) {
				exp = false
			}
		}
	}
	ok, why := true, ""
	if r != exp {
		ok, why = false, "Check returned "+strconv.FormatBool(r)+" where the filter rules say "+strconv.FormatBool(exp)
	}
	res["ok"] = ok
	res["why"] = why
}
