//go:build verif

package http

// C18 harness, HTTP proxy part: runs Server.dispatch of /repo's working tree on scripted client byte
// streams (serialised requests, optional pipelined tail, arbitrary chunking) with a recording
// client.Client; also drives cachedConn.Read directly with arbitrary read sizes.

import (
	"bufio"
	"bytes"
	"encoding/json"
	"errors"
	"io"
	"net"
	"net/http"
	"strconv"
	"strings"
	"sync"
	"testing"
	"time"
	"unicode"

	"github.com/apernet/hysteria/core/v2/client"
)

type c18Log struct {
	mu sync.Mutex
	ev []map[string]any
}

func (l *c18Log) add(e map[string]any) {
	l.mu.Lock()
	l.ev = append(l.ev, e)
	l.mu.Unlock()
}

type c18Conn struct {
	log    *c18Log
	mu     sync.Mutex
	chunks [][]byte
	closed bool
	peer   net.IP // the client's address (nil: 127.0.0.1)
}

func (c *c18Conn) Read(p []byte) (int, error) {
	c.mu.Lock()
	defer c.mu.Unlock()
	if c.closed {
		return 0, net.ErrClosed
	}
	if len(c.chunks) == 0 {
		return 0, io.EOF
	}
	h := c.chunks[0]
	if len(h) <= len(p) {
		copy(p, h)
		c.chunks = c.chunks[1:]
		return len(h), nil
	}
	copy(p, h[:len(p)])
	c.chunks[0] = h[len(p):]
	return len(p), nil
}

func (c *c18Conn) Write(p []byte) (int, error) {
	if c.log != nil && bytes.HasPrefix(p, []byte("HTTP/")) && len(p) >= 12 {
		st, _ := strconv.Atoi(string(p[9:12]))
		c.log.add(map[string]any{"t": "reply", "st": st})
	}
	return len(p), nil
}

func (c *c18Conn) Close() error {
	c.mu.Lock()
	c.closed = true
	c.mu.Unlock()
	if c.log != nil {
		c.log.add(map[string]any{"t": "close"})
	}
	return nil
}
func (c *c18Conn) LocalAddr() net.Addr { return &net.TCPAddr{IP: net.IPv4(127, 0, 0, 1), Port: 8080} }
func (c *c18Conn) RemoteAddr() net.Addr {
	if c.peer != nil {
		return &net.TCPAddr{IP: c.peer, Port: 40000}
	}
	return &net.TCPAddr{IP: net.IPv4(127, 0, 0, 1), Port: 40000}
}
func (c *c18Conn) SetDeadline(t time.Time) error      { return nil }
func (c *c18Conn) SetReadDeadline(t time.Time) error  { return nil }
func (c *c18Conn) SetWriteDeadline(t time.Time) error { return nil }

// upstream: records what it is sent.  A tunnel upstream (dialled by handleConnect) never answers.  A
// plain upstream (dialled by net/http's Transport for handleRequest) answers the forwarded request once
// its header block and the body its Content-Length declares have arrived, with an empty response of the
// status the request names (X-Verif-Status, else the configured one) and Connection: close; bytes that
// are not an HTTP request (a TLS ClientHello of an https:// target) end the connection at once.
type c18Up struct {
	mu     sync.Mutex
	got    []byte
	status int
	plain  bool
	resp   []byte
	sent   bool
	wake   chan struct{}
	done   chan struct{}
	once   sync.Once
}

func (u *c18Up) Read(p []byte) (int, error) {
	for {
		u.mu.Lock()
		if len(u.resp) > 0 {
			n := copy(p, u.resp)
			u.resp = u.resp[n:]
			u.mu.Unlock()
			return n, nil
		}
		u.mu.Unlock()
		select {
		case <-u.wake:
		case <-u.done:
			return 0, io.EOF
		}
	}
}

func (u *c18Up) Write(p []byte) (int, error) {
	u.mu.Lock()
	u.got = append(u.got, p...)
	if u.plain && !u.sent && len(u.got) > 0 {
		if c := u.got[0]; c < 'A' || c > 'Z' {
			// not a request line: hang up
			u.sent = true
			u.mu.Unlock()
			u.Close()
			return len(p), nil
		}
		if k := bytes.Index(u.got, []byte("\r\n\r\n")); k >= 0 {
			head := u.got[:k+2]
			need, st := 0, u.status
			for _, ln := range bytes.Split(head, []byte("\r\n")) {
				l := strings.ToLower(string(ln))
				if v, ok := strings.CutPrefix(l, "content-length:"); ok {
					need, _ = strconv.Atoi(strings.TrimSpace(v))
				}
				if v, ok := strings.CutPrefix(l, "x-verif-status:"); ok {
					if n, err := strconv.Atoi(strings.TrimSpace(v)); err == nil {
						st = n
					}
				}
			}
			if len(u.got) >= k+4+need {
				u.sent = true
				u.resp = []byte("HTTP/1.1 " + strconv.Itoa(st) + " X\r\nContent-Length: 0\r\nConnection: close\r\n\r\n")
				select {
				case u.wake <- struct{}{}:
				default:
				}
			}
		}
	}
	u.mu.Unlock()
	return len(p), nil
}
func (u *c18Up) Close() error                       { u.once.Do(func() { close(u.done) }); return nil }
func (u *c18Up) LocalAddr() net.Addr                { return &net.TCPAddr{} }
func (u *c18Up) RemoteAddr() net.Addr               { return &net.TCPAddr{} }
func (u *c18Up) SetDeadline(t time.Time) error      { return nil }
func (u *c18Up) SetReadDeadline(t time.Time) error  { return nil }
func (u *c18Up) SetWriteDeadline(t time.Time) error { return nil }

type c18Client struct {
	log    *c18Log
	dialOK bool
	status []int
	mu     sync.Mutex
	mode   string // "connect" / "plain": which handler announced itself last (EventLogger)
	ups    []*c18Up
}

func (m *c18Client) TCP(addr string) (net.Conn, error) {
	m.log.add(map[string]any{"t": "tcp", "addr": vHex([]byte(addr))})
	if !m.dialOK {
		return nil, errors.New("dial failed")
	}
	m.mu.Lock()
	defer m.mu.Unlock()
	st := 200
	if len(m.status) > len(m.ups) {
		st = m.status[len(m.ups)]
	}
	u := &c18Up{done: make(chan struct{}), wake: make(chan struct{}, 1), status: st, plain: m.mode != "connect"}
	m.ups = append(m.ups, u)
	return u, nil
}
func (m *c18Client) UDP() (client.HyUDPConn, error) {
	m.log.add(map[string]any{"t": "udp"})
	return nil, errors.New("no udp")
}
func (m *c18Client) Close() error { return nil }

// EventLogger of the server under test: tells the scripted upstream whether the next dial belongs to
// handleConnect (tunnel) or to handleRequest (plain request forwarded by net/http's Transport)
func (m *c18Client) setMode(s string) { m.mu.Lock(); m.mode = s; m.mu.Unlock() }

type c18Events struct{ cl *c18Client }

func (e c18Events) ConnectRequest(addr net.Addr, reqAddr string)          { e.cl.setMode("connect") }
func (e c18Events) ConnectError(addr net.Addr, reqAddr string, err error) {}
func (e c18Events) HTTPRequest(addr net.Addr, reqURL string)              { e.cl.setMode("plain") }
func (e c18Events) HTTPError(addr net.Addr, reqURL string, err error)     {}

type c18HCase struct {
	K      string   `json:"k"`
	Auth   bool     `json:"auth"`
	User   string   `json:"user"`
	Pass   string   `json:"pass"`
	Dial   bool     `json:"dial"`
	Chunks []string `json:"chunks"`
	Status []int    `json:"status"` // status of the i-th successful upstream dial (plain requests)
	Tail   int      `json:"tail"`   // offset of the first byte behind the CONNECT header block, -1 = n/a
	Buf    string   `json:"buf"`    // wrap: buffered bytes
	Sizes  []int    `json:"sizes"`  // wrap: read sizes
	Peer   string   `json:"peer"`   // the client's IP address ("" = 127.0.0.1): the gate must not depend on it
}

func TestVerifC18HTTP(t *testing.T) {
	// code points (other than the ASCII letters themselves) that unicode.ToLower maps into "basic "
	extra := 0
	nextra := 0
	for r := rune(0x80); r <= unicode.MaxRune; r++ {
		l := unicode.ToLower(r)
		if l < 0x80 && bytes.ContainsRune([]byte("basic "), l) {
			extra = int(r)
			nextra++
		}
	}
	vParams(t, [][3]string{
		{"C18_lower_extra", "N", strconv.Itoa(extra)},
		{"C18_lower_extra_count", "N", strconv.Itoa(nextra)},
	})
	out := vOpenOut(t, "VERIF_OUT")
	defer out.Close()
	for i, raw := range vReadCases(t) {
		var c c18HCase
		if err := json.Unmarshal(raw, &c); err != nil {
			t.Fatal(err)
		}
		res := map[string]any{"i": i, "k": c.K}
		switch c.K {
		case "http":
			c18HTTP(t, c, res)
		case "cached":
			c18Cached(c, res)
		case "rhttp":
			// relay phase on scripted conns (c18_relay_http_test.go)
			c18RelayHTTP(t, raw, res)
		default:
			t.Fatalf("unknown kind %q", c.K)
		}
		out.Emit(res)
	}
}

// cachedConn.Read with arbitrary buffer sizes
func c18Cached(c c18HCase, res map[string]any) {
	conn := &c18Conn{}
	var all []byte
	buf := vUnhex(c.Buf)
	all = append(all, buf...)
	for _, h := range c.Chunks {
		b := vUnhex(h)
		conn.chunks = append(conn.chunks, b)
		all = append(all, b...)
	}
	cc := &cachedConn{Conn: conn, Buffer: *bytes.NewBuffer(append([]byte(nil), buf...))}
	var reads [][]any
	var got []byte
	eof := false
	for _, sz := range c.Sizes {
		p := make([]byte, sz)
		n, err := cc.Read(p)
		if err != nil && err != io.EOF {
			res["ok"] = false
			res["why"] = "unexpected error " + err.Error()
			return
		}
		got = append(got, p[:n]...)
		reads = append(reads, []any{vHex(p[:n]), err == io.EOF})
		if err == io.EOF {
			eof = true
			break
		}
	}
	res["reads"] = reads
	ok, why := true, ""
	if !bytes.HasPrefix(all, got) {
		ok, why = false, "bytes read through cachedConn are not a prefix of buffered ++ stream"
	}
	if eof && !bytes.Equal(all, got) {
		ok, why = false, "EOF before all bytes were delivered"
	}
	res["ok"] = ok
	res["why"] = why
}

// What net/http makes of the client's byte stream, obtained by running http.ReadRequest over the whole
// stream independently of the server under test: for every request up to (and including) the first
// CONNECT or the first parse error the fields dispatch / handleConnect / handleRequest look at.  The
// request-target form is classified the way ReadRequest itself does (CONNECT + not starting with "/"
// = authority-form).  h = stream offset of the first byte behind the CONNECT's header block (-1: the
// stream holds no CONNECT).  A plain request's body is consumed as the forwarding Transport does.
type c18CountReader struct {
	r io.Reader
	n int
}

func (c *c18CountReader) Read(p []byte) (int, error) {
	n, err := c.r.Read(p)
	c.n += n
	return n, err
}

func c18Form(method, uri string) string {
	if method == "CONNECT" {
		if strings.HasPrefix(uri, "/") {
			return "origin"
		}
		return "authority"
	}
	if uri == "*" {
		return "asterisk"
	}
	if strings.HasPrefix(uri, "/") {
		return "origin"
	}
	return "absolute"
}

func c18Preparse(stream []byte) (parsed []map[string]any, h int) {
	cr := &c18CountReader{r: bytes.NewReader(stream)}
	br := bufio.NewReader(cr)
	parsed = []map[string]any{}
	for {
		req, err := http.ReadRequest(br)
		if err != nil {
			return parsed, -1
		}
		p := map[string]any{
			"method": vHex([]byte(req.Method)), "uri": vHex([]byte(req.RequestURI)),
			"form":   c18Form(req.Method, req.RequestURI),
			"scheme": vHex([]byte(req.URL.Scheme)), "uhost": vHex([]byte(req.URL.Host)), "host": vHex([]byte(req.Host)),
			"opaque": vHex([]byte(req.URL.Opaque)), "proto": req.Proto,
			// the keep-alive condition of handleRequest, on the request as parsed
			"ka": req.ProtoAtLeast(1, 1) && (strings.ToLower(req.Header.Get("Proxy-Connection")) == "keep-alive" ||
				strings.ToLower(req.Header.Get("Connection")) == "keep-alive"),
			"st": 200,
		}
		if v, ok := req.Header["Proxy-Authorization"]; ok && len(v) > 0 {
			p["pauth"] = vHex([]byte(v[0]))
		}
		if n, err := strconv.Atoi(req.Header.Get("X-Verif-Status")); err == nil {
			p["st"] = n
		}
		parsed = append(parsed, p)
		if req.Method == "CONNECT" {
			return parsed, cr.n - br.Buffered()
		}
		_, _ = io.Copy(io.Discard, req.Body)
		_ = req.Body.Close()
	}
}

func c18HTTP(t *testing.T, c c18HCase, res map[string]any) {
	log := &c18Log{}
	var stream []byte
	conn := &c18Conn{log: log, peer: net.ParseIP(c.Peer)}
	for _, h := range c.Chunks {
		b := vUnhex(h)
		conn.chunks = append(conn.chunks, b)
		stream = append(stream, b...)
	}
	parsed, hoff := c18Preparse(stream)
	res["parsed"] = parsed
	res["h"] = hoff
	cl := &c18Client{log: log, dialOK: c.Dial, status: c.Status}
	s := &Server{HyClient: cl, AuthRealm: "verif", EventLogger: c18Events{cl}}
	user, pass := string(vUnhex(c.User)), string(vUnhex(c.Pass))
	if c.Auth {
		s.AuthFunc = func(u, p string) bool {
			ok := u == user && p == pass
			log.add(map[string]any{"t": "auth", "u": vHex([]byte(u)), "p": vHex([]byte(p)), "ok": ok})
			return ok
		}
	}
	done := make(chan string, 1)
	t0 := time.Now()
	defer func() { res["ms"] = time.Since(t0).Milliseconds() }()
	go func() {
		p, msg := vCatch(func() { s.dispatch(conn) })
		if p {
			done <- "panic: " + msg
		} else {
			done <- ""
		}
	}()
	select {
	case msg := <-done:
		if msg != "" {
			res["panic"] = true
			res["ok"] = false
			res["why"] = msg
			return
		}
	case <-time.After(30 * time.Second):
		res["ok"] = false
		res["why"] = "dispatch did not return after the client closed"
		res["hang"] = true
		return
	}
	log.mu.Lock()
	ev := append([]map[string]any(nil), log.ev...)
	log.mu.Unlock()
	// CONNECT relay = what the last upstream got, if that upstream was dialled by handleConnect
	var relay []byte
	isConnect := false
	cl.mu.Lock()
	ups := append([]*c18Up(nil), cl.ups...)
	cl.mu.Unlock()
	if n := len(ups); n > 0 {
		u := ups[n-1]
		u.mu.Lock()
		if !u.plain {
			isConnect = true
			relay = append([]byte(nil), u.got...)
		}
		u.mu.Unlock()
	}
	if isConnect {
		last := len(ev)
		for j := len(ev) - 1; j >= 0; j-- {
			if ev[j]["t"] == "close" {
				last = j
				break
			}
		}
		ne := append([]map[string]any(nil), ev[:last]...)
		ne = append(ne, map[string]any{"t": "relay", "hex": vHex(relay)})
		ne = append(ne, ev[last:]...)
		ev = ne
	}
	res["ev"] = ev
	ok, why := true, ""
	fail := func(s string) {
		if ok {
			ok, why = false, s
		}
	}
	// the property, on the implementation alone: every upstream open (HyClient.TCP, HyClient.UDP) belongs to a
	// request whose credentials AuthFunc accepted - an accepted AuthFunc call since the previous upstream open
	// (every request is gated separately), whatever the method and the form of the request-target
	accepted, opened, closes := 0, 0, 0
	credit := false
	for _, e := range ev {
		switch e["t"] {
		case "auth":
			credit = e["ok"] == true
			if e["ok"] == true {
				accepted++
			}
		case "tcp", "udp":
			opened++
			if c.Auth && opened > accepted {
				fail("upstream opened for a request that did not present accepted credentials")
			}
			if c.Auth && !credit {
				fail("upstream opened for a request that did not present accepted credentials (no accepted AuthFunc call since the previous upstream open)")
			}
			credit = false
		case "close":
			closes++
		}
	}
	if c.Auth && len(parsed) == 0 && opened > 0 {
		fail("upstream opened although the stream holds no well-formed request")
	}
	if closes != 1 {
		fail("client connection closed " + strconv.Itoa(closes) + " times")
	}
	if c.Tail >= 0 && hoff >= 0 && c.Tail != hoff {
		fail("harness: generator and net/http disagree on where the CONNECT header block ends")
	}
	tail := c.Tail
	if hoff >= 0 {
		tail = hoff
	}
	if isConnect && tail >= 0 && tail <= len(stream) && !bytes.Equal(relay, stream[tail:]) {
		fail("bytes pipelined behind the CONNECT header block did not reach the upstream unmodified")
	}
	res["ok"] = ok
	res["why"] = why
}
