//go:build verif

package proxymux

// C18 harness, shared-port part: drives a muxListener of /repo's working tree (newMuxListener over a
// fake base listener) inside a testing/synctest bubble with a history of stimuli - sub-listener
// registration and close, Accept calls, incoming connections, first byte / read error per connection -
// and records, at every quiescent point (synctest.Wait), what is observable at the boundary: Close
// calls on each fake connection, which sub-listener's Accept returned which connection, Accept errors.
// Also drives connWithOneByte.Read directly with arbitrary read sizes.
// A connection's first byte may be preceded by any number of zero-length reads (Read returns (0, nil),
// which io.Reader permits and record-oriented / wrapped transports produce): "fb"/"re" carry that count.

import (
	"bytes"
	"encoding/json"
	"errors"
	"fmt"
	"io"
	"net"
	"os"
	"os/exec"
	"regexp"
	"strconv"
	"strings"
	"sync"
	"testing"
	"testing/synctest"
	"time"
)

type c18MConn struct {
	id     int
	mu     sync.Mutex
	first  chan struct{} // closed when the first byte or the read error is available
	fb     byte
	ferr   bool
	gotFB  bool
	zeros  int // Read calls that still return (0, nil) before the first byte / the read error
	chunks [][]byte
	closes int
	closed chan struct{}
	rec    *bool // still recording closes (false during cleanup)
}

func (c *c18MConn) Read(p []byte) (int, error) {
	select {
	case <-c.first:
	case <-c.closed:
		return 0, net.ErrClosed
	}
	c.mu.Lock()
	defer c.mu.Unlock()
	if !c.gotFB && c.zeros > 0 {
		c.zeros--
		return 0, nil
	}
	if c.ferr {
		return 0, io.ErrUnexpectedEOF
	}
	if !c.gotFB {
		if len(p) == 0 {
			return 0, nil
		}
		c.gotFB = true
		p[0] = c.fb
		return 1, nil
	}
	if len(c.chunks) == 0 {
		return 0, io.EOF
	}
	h := c.chunks[0]
	if len(h) <= len(p) {
		copy(p, h)
		c.chunks = c.chunks[1:]
		return len(h), nil
	}
	copy(p, h[:len(p)])
	c.chunks[0] = h[len(p):]
	return len(p), nil
}
func (c *c18MConn) Write(p []byte) (int, error) { return len(p), nil }
func (c *c18MConn) Close() error {
	c.mu.Lock()
	if *c.rec {
		c.closes++
	}
	first := false
	select {
	case <-c.closed:
	default:
		first = true
	}
	if first {
		close(c.closed)
	}
	c.mu.Unlock()
	return nil
}
func (c *c18MConn) LocalAddr() net.Addr                { return &net.TCPAddr{} }
func (c *c18MConn) RemoteAddr() net.Addr               { return &net.TCPAddr{} }
func (c *c18MConn) SetDeadline(t time.Time) error      { return nil }
func (c *c18MConn) SetReadDeadline(t time.Time) error  { return nil }
func (c *c18MConn) SetWriteDeadline(t time.Time) error { return nil }

type c18Base struct {
	ch     chan net.Conn
	closed chan struct{}
	once   sync.Once
}

func (b *c18Base) Accept() (net.Conn, error) {
	select {
	case <-b.closed:
		return nil, net.ErrClosed
	case c := <-b.ch:
		return c, nil
	}
}
func (b *c18Base) Close() error   { b.once.Do(func() { close(b.closed) }); return nil }
func (b *c18Base) Addr() net.Addr { return &net.TCPAddr{IP: net.IPv4(127, 0, 0, 1), Port: 1080} }

type c18Op struct {
	Op string `json:"op"`
	A  int    `json:"a"`
	B  int    `json:"b"`
	Z  int    `json:"z"` // fb / re: zero-length reads before the first byte / the error
	W  bool   `json:"w"`
}

type c18MCase struct {
	K      string   `json:"k"`
	Ops    []c18Op  `json:"ops"`
	Rest   []string `json:"rest"`  // what every connection sends after its first byte
	Sizes  []int    `json:"sizes"` // read sizes the accepting side uses (then 7 until EOF)
	Buf    string   `json:"buf"`   // wrap: the detection byte
	Chunks []string `json:"chunks"`
}

func TestVerifC18Mux(t *testing.T) {
	vParams(t, [][3]string{})
	out := vOpenOut(t, "VERIF_OUT")
	defer out.Close()
	for i, raw := range vReadCases(t) {
		var c c18MCase
		if err := json.Unmarshal(raw, &c); err != nil {
			t.Fatal(err)
		}
		res := map[string]any{"i": i, "k": c.K}
		switch c.K {
		case "mux":
			synctest.Test(t, func(t *testing.T) { c18Mux(t, c, res) })
		case "onebyte":
			c18OneByte(c, res)
		case "muxd1":
			synctest.Test(t, func(t *testing.T) { c18MuxD1(t, res) })
		case "muxd2":
			c18MuxD2Parent(t, res)
		case "rmux":
			// relay phase behind the shared port (c18_relay_mux_test.go)
			c18RelayMux(t, raw, res)
		default:
			t.Fatalf("unknown kind %q", c.K)
		}
		out.Emit(res)
	}
}

// connWithOneByte.Read with arbitrary buffer sizes
func c18OneByte(c c18MCase, res map[string]any) {
	rec := false
	conn := &c18MConn{first: make(chan struct{}), closed: make(chan struct{}), gotFB: true, rec: &rec}
	close(conn.first)
	b := vUnhex(c.Buf)[0]
	all := []byte{b}
	for _, h := range c.Chunks {
		x := vUnhex(h)
		conn.chunks = append(conn.chunks, x)
		all = append(all, x...)
	}
	w := &connWithOneByte{Conn: conn, b: b}
	var reads [][]any
	var got []byte
	eof := false
	for _, sz := range c.Sizes {
		p := make([]byte, sz)
		n, err := w.Read(p)
		if err != nil && err != io.EOF {
			res["ok"] = false
			res["why"] = "unexpected error " + err.Error()
			return
		}
		got = append(got, p[:n]...)
		reads = append(reads, []any{vHex(p[:n]), err == io.EOF})
		if err == io.EOF {
			eof = true
			break
		}
	}
	res["reads"] = reads
	ok, why := true, ""
	if !bytes.HasPrefix(all, got) {
		ok, why = false, "bytes read through connWithOneByte are not a prefix of b :: stream"
	}
	if eof && !bytes.Equal(all, got) {
		ok, why = false, "EOF before all bytes were delivered"
	}
	res["ok"] = ok
	res["why"] = why
}

type c18SubRec struct {
	l       net.Listener
	socks   bool
	started int
	errs    int
	got     int
}

func c18Mux(t *testing.T, c c18MCase, res map[string]any) {
	var mu sync.Mutex
	rec := true
	base := &c18Base{ch: make(chan net.Conn), closed: make(chan struct{})}
	deleted := 0
	ml := newMuxListener(base, func() { mu.Lock(); deleted++; mu.Unlock() })
	var subs []*c18SubRec
	var conns []*c18MConn
	handed := map[int]int{}     // conn id -> sub index
	nhanded := map[int]int{}    // conn id -> number of Accept calls that returned it
	readback := map[int][]byte{} // conn id -> bytes read through the wrapper
	var handoffs [][2]int       // in order
	var rops [][]int            // resolved ops: [code, a, b] (+ zero-length reads for codes 6, 7)
	var snaps []map[string]any
	var wg sync.WaitGroup

	snapshot := func() {
		synctest.Wait()
		mu.Lock()
		cs := make([][]int, len(conns))
		for i, cn := range conns {
			cn.mu.Lock()
			h := -1
			if s, ok := handed[i]; ok {
				h = s
			}
			cs[i] = []int{cn.closes, h}
			cn.mu.Unlock()
		}
		ss := make([][]int, len(subs))
		for i, s := range subs {
			ss[i] = []int{s.errs, s.started - s.errs - s.got}
		}
		bc := false
		select {
		case <-base.closed:
			bc = true
		default:
		}
		ho := handoffs
		handoffs = nil
		snaps = append(snaps, map[string]any{"conns": cs, "subs": ss, "bclosed": bc, "handoffs": ho, "deleted": deleted})
		rops = append(rops, []int{9, len(snaps) - 1, 0})
		mu.Unlock()
	}

	doAccept := func(si int) {
		s := subs[si]
		mu.Lock()
		s.started++
		mu.Unlock()
		wg.Add(1)
		go func() {
			defer wg.Done()
			cn, err := s.l.Accept()
			mu.Lock()
			if err != nil {
				s.errs++
				mu.Unlock()
				return
			}
			s.got++
			id := -1
			if w, ok := cn.(*connWithOneByte); ok {
				if f, ok := w.Conn.(*c18MConn); ok {
					id = f.id
				}
			}
			if id >= 0 {
				handed[id] = si
				nhanded[id]++
				handoffs = append(handoffs, [2]int{id, si})
			}
			mu.Unlock()
			// the handler's side: read everything through the wrapper
			var got []byte
			sizes := append([]int(nil), c.Sizes...)
			for k := 0; k < 10000; k++ {
				sz := 7
				if k < len(sizes) {
					sz = sizes[k]
				}
				p := make([]byte, sz)
				n, err := cn.Read(p)
				got = append(got, p[:n]...)
				if err != nil {
					break
				}
			}
			mu.Lock()
			if id >= 0 {
				readback[id] = got
			}
			mu.Unlock()
		}()
	}

	for _, op := range c.Ops {
		switch op.Op {
		case "ls", "lh":
			var l net.Listener
			var err error
			if op.Op == "ls" {
				l, err = ml.ListenSOCKS()
			} else {
				l, err = ml.ListenHTTP()
			}
			code := 0
			if err != nil {
				code = 3
				if errors.Is(err, ErrProtocolInUse) {
					code = 1
				} else if errors.Is(err, net.ErrClosed) {
					code = 2
				}
			} else {
				mu.Lock()
				subs = append(subs, &c18SubRec{l: l, socks: op.Op == "ls"})
				mu.Unlock()
			}
			k := 1
			if op.Op == "ls" {
				k = 0
			}
			rops = append(rops, []int{k, code, 0})
		case "sc":
			if len(subs) == 0 {
				continue
			}
			si := op.A % len(subs)
			subs[si].l.Close()
			rops = append(rops, []int{2, si, 0})
		case "ac":
			if len(subs) == 0 {
				continue
			}
			si := op.A % len(subs)
			doAccept(si)
			rops = append(rops, []int{3, si, 0})
		case "acall":
			for si := range subs {
				for r := 0; r < len(conns)+1; r++ {
					doAccept(si)
					rops = append(rops, []int{3, si, 0})
				}
			}
		case "in":
			cn := &c18MConn{id: len(conns), first: make(chan struct{}), closed: make(chan struct{}), rec: &rec}
			for _, h := range c.Rest {
				cn.chunks = append(cn.chunks, vUnhex(h))
			}
			select {
			case base.ch <- cn:
				mu.Lock()
				conns = append(conns, cn)
				mu.Unlock()
				rops = append(rops, []int{4, 0, 0})
			case <-base.closed:
				rops = append(rops, []int{5, 0, 0})
			}
		case "fb", "re":
			// the op.A-th connection that has not yet produced a first byte or an error
			var cand []int
			for i, cn := range conns {
				select {
				case <-cn.first:
				default:
					cand = append(cand, i)
				}
			}
			if len(cand) == 0 {
				continue
			}
			ci := cand[op.A%len(cand)]
			cn := conns[ci]
			cn.mu.Lock()
			cn.zeros = op.Z
			if op.Op == "fb" {
				cn.fb = byte(op.B)
				rops = append(rops, []int{6, ci, op.B, op.Z})
			} else {
				cn.ferr = true
				rops = append(rops, []int{7, ci, 0, op.Z})
			}
			cn.mu.Unlock()
			close(cn.first)
		case "w":
		default:
			t.Fatalf("unknown op %q", op.Op)
		}
		if op.W || op.Op == "w" {
			snapshot()
		}
	}
	snapshot()

	// ---- verdict at the final quiescent point, on the implementation alone
	ok, why := true, ""
	fail := func(s string) {
		if ok {
			ok, why = false, s
		}
	}
	mu.Lock()
	var rest []byte
	for _, h := range c.Rest {
		rest = append(rest, vUnhex(h)...)
	}
	liveOfKind := func(socks bool) bool {
		// is some sub-listener of that kind registered, open and accepting at the end
		for _, s := range subs {
			if s.socks == socks {
				select {
				case <-s.l.(*subListener).closeChan:
				default:
					return true
				}
			}
		}
		return false
	}
	_ = liveOfKind
	for i, cn := range conns {
		cn.mu.Lock()
		started := false
		select {
		case <-cn.first:
			started = true
		default:
		}
		si, isHanded := handed[i]
		id := strconv.Itoa(i)
		if nhanded[i] > 1 {
			fail("conn " + id + " returned by more than one Accept")
		}
		if cn.closes > 1 {
			fail("conn " + id + " closed more than once by the mux")
		}
		if isHanded && cn.closes > 0 {
			fail("conn " + id + " both handed over and closed by the mux")
		}
		if isHanded {
			if !started || cn.ferr {
				fail("conn " + id + " handed over without a first byte")
			}
			if subs[si].socks != (cn.fb == 5) {
				fail("conn " + id + " handed to the wrong protocol handler for its first byte")
			}
			want := append([]byte{cn.fb}, rest...)
			if !bytes.Equal(readback[i], want) {
				fail("conn " + id + ": handler did not read first byte + stream unmodified")
			}
		}
		if started && !isHanded && cn.closes == 0 {
			fail("conn " + id + " sent its first byte / failed but was neither handed over nor closed")
		}
		if !started && (isHanded || cn.closes > 0) {
			// before any byte: only a mux shutdown may close it - never observed to happen; flag hand-over
			if isHanded {
				fail("conn " + id + " handed over before its first byte")
			}
		}
		cn.mu.Unlock()
	}
	mu.Unlock()

	// ---- cleanup (not recorded)
	mu.Lock()
	rec = false
	mu.Unlock()
	for _, s := range subs {
		s.l.Close()
	}
	base.Close()
	for _, cn := range conns {
		cn.Close()
	}
	synctest.Wait()
	wg.Wait()

	res["rops"] = rops
	res["snaps"] = snaps
	kinds := make([]bool, len(subs))
	for i, s := range subs {
		kinds[i] = s.socks
	}
	res["kinds"] = kinds
	// what each handler read through the wrapper (evidence for the replay file; not compared in Coq)
	rb := map[string]string{}
	mu.Lock()
	for id, got := range readback {
		rb[strconv.Itoa(id)] = vHex(got)
	}
	mu.Unlock()
	res["readback"] = rb
	res["ok"] = ok
	res["why"] = why
}

// D1 (fixed by 2cea45c): a connection is accepted from the base listener while mainLoop is already in
// its deferred exit (deleteFunc takes the manager mutex in production, so the window is real).
// Schedule of atomic sections: ListenSOCKS; MlSnap; SubClose 0; MlSeeClose; MlCheck; Incoming; MlExitA; AlDrop.
func c18MuxD1(t *testing.T, res map[string]any) {
	rec := true
	base := &c18Base{ch: make(chan net.Conn), closed: make(chan struct{})}
	cn := &c18MConn{id: 0, first: make(chan struct{}), closed: make(chan struct{}), rec: &rec, fb: 5}
	close(cn.first)
	fed := false
	ml := newMuxListener(base, func() {
		select {
		case base.ch <- cn:
			fed = true
		case <-base.closed:
		}
	})
	sl, err := ml.ListenSOCKS()
	if err != nil {
		t.Fatal(err)
	}
	synctest.Wait()
	sl.Close()
	synctest.Wait()
	cn.mu.Lock()
	closes := cn.closes
	cn.mu.Unlock()
	res["fed"] = fed
	res["closes"] = closes
	ok, why := true, ""
	if fed && closes != 1 {
		ok, why = false, "connection accepted from the base listener during mux shutdown was closed "+strconv.Itoa(closes)+" times and never handed over"
	}
	res["ok"] = ok
	res["why"] = why
	rec = false
	base.Close()
	cn.Close()
	synctest.Wait()
}

// D2 (fixed by c413452): ListenSOCKS lands between mainLoop's idle decision and its cleanup, and a
// dispatch selects the late sub-listener.  Before the fix the cleanup closed that sub-listener's
// acceptChan under the blocked sender: "send on closed channel" in the dispatch goroutine, which
// kills the process - so the scenario runs in a child process.
func c18MuxD2Parent(t *testing.T, res map[string]any) {
	cmd := exec.Command(os.Args[0], "-test.run=^TestVerifC18MuxD2Child$", "-test.count=1")
	cmd.Env = append(os.Environ(), "VERIF_C18_D2CHILD=1")
	outb, err := cmd.CombinedOutput()
	out := string(outb)
	m := regexp.MustCompile(`C18D2 listen=(\d+) closes=(\d+) handed=(\d+)`).FindStringSubmatch(out)
	ok, why := true, ""
	if err != nil || m == nil {
		ok = false
		why = "late registration during mux shutdown: child run failed"
		if i := strings.Index(out, "panic:"); i >= 0 {
			line := out[i:]
			if j := strings.IndexByte(line, '\n'); j >= 0 {
				line = line[:j]
			}
			why = "late registration during mux shutdown: " + line
		}
		res["crash"] = true
	} else {
		lc, _ := strconv.Atoi(m[1])
		cl, _ := strconv.Atoi(m[2])
		hd, _ := strconv.Atoi(m[3])
		res["listen"] = lc
		res["closes"] = cl
		res["handed"] = hd
		if cl+hd != 1 {
			ok, why = false, "connection dispatched during mux shutdown was neither handed over nor closed exactly once"
		}
	}
	res["ok"] = ok
	res["why"] = why
}

func TestVerifC18MuxD2Child(t *testing.T) {
	if os.Getenv("VERIF_C18_D2CHILD") != "1" {
		t.Skip("child of the C18 mux harness")
	}
	synctest.Test(t, func(t *testing.T) {
		rec := true
		base := &c18Base{ch: make(chan net.Conn), closed: make(chan struct{})}
		cn := &c18MConn{id: 0, first: make(chan struct{}), closed: make(chan struct{}), rec: &rec, fb: 5}
		var ml *muxListener
		var s1 net.Listener
		lcode := -1
		ml = newMuxListener(base, func() {
			var err error
			s1, err = ml.ListenSOCKS()
			switch {
			case err == nil:
				lcode = 0
			case errors.Is(err, ErrProtocolInUse):
				lcode = 1
			case errors.Is(err, net.ErrClosed):
				lcode = 2
			default:
				lcode = 3
			}
			close(cn.first)
			time.Sleep(time.Millisecond) // lets cn's dispatch route and block before the cleanup continues
		})
		s0, err := ml.ListenSOCKS()
		if err != nil {
			t.Fatal(err)
		}
		synctest.Wait()
		base.ch <- cn
		synctest.Wait()
		s0.Close()
		time.Sleep(time.Second)
		synctest.Wait()
		handed := 0
		if s1 != nil {
			done := make(chan struct{})
			go func() {
				if c, err := s1.Accept(); err == nil && c != nil {
					handed = 1
				}
				close(done)
			}()
			synctest.Wait()
			s1.Close()
			<-done
		}
		cn.mu.Lock()
		closes := cn.closes
		cn.mu.Unlock()
		fmt.Printf("C18D2 listen=%d closes=%d handed=%d\n", lcode, closes, handed)
		rec = false
		base.Close()
		cn.Close()
		synctest.Wait()
	})
}
