//go:build verif

package http

// C18 harness, relay phase of the HTTP inbound (handleConnect, behind dispatch / cachedConn) on scripted
// conns: see c18_relay_common_test.go.tmpl.

import (
	"encoding/json"
	"net"
	"testing"

	"github.com/apernet/hysteria/core/v2/client"
)

func c18RelayHTTP(t *testing.T, raw json.RawMessage, res map[string]any) {
	c18RelayCase(t, raw, res, func(c c18RCase, conn net.Conn, hy client.Client, auth func(u, p string) bool) func() {
		s := &Server{HyClient: hy, AuthFunc: auth, AuthRealm: "verif"}
		l := c18RListen(conn)
		go func() { _ = s.Serve(l) }()
		return func() { _ = l.Close() }
	})
}
