//go:build verif

package proxymux

// C18 harness, relay phase behind the shared SOCKS5/HTTP port: a muxListener over a fake base listener
// with both protocols registered, the real socks5.Server / http.Server accepting from its sub-listeners;
// the scripted client conn comes in through the base listener, so the inbound sees it wrapped in
// connWithOneByte (and, for CONNECT with pipelined bytes, in cachedConn on top).  See
// c18_relay_common_test.go.tmpl.

import (
	"encoding/json"
	"net"
	"testing"

	hyhttp "github.com/apernet/hysteria/app/v2/internal/http"
	"github.com/apernet/hysteria/app/v2/internal/socks5"
	"github.com/apernet/hysteria/core/v2/client"
)

func c18RelayMux(t *testing.T, raw json.RawMessage, res map[string]any) {
	c18RelayCase(t, raw, res, func(c c18RCase, conn net.Conn, hy client.Client, auth func(u, p string) bool) func() {
		base := &c18Base{ch: make(chan net.Conn), closed: make(chan struct{})}
		ml := newMuxListener(base, func() {})
		ls, err := ml.ListenSOCKS()
		if err != nil {
			t.Fatal(err)
		}
		lh, err := ml.ListenHTTP()
		if err != nil {
			t.Fatal(err)
		}
		ss := &socks5.Server{HyClient: hy, AuthFunc: auth}
		hs := &hyhttp.Server{HyClient: hy, AuthFunc: auth, AuthRealm: "verif"}
		go func() { _ = ss.Serve(ls) }()
		go func() { _ = hs.Serve(lh) }()
		go func() {
			select {
			case base.ch <- conn:
			case <-base.closed:
			}
		}()
		return func() {
			_ = ls.Close()
			_ = lh.Close()
		}
	})
}
