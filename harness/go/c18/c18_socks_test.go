//go:build verif

package socks5

// C18 harness, SOCKS5 part: runs Server.dispatch of /repo's working tree on scripted client byte
// streams (every Read sees the next chunk of the script; an empty chunk is a zero-length read; the
// end of the script is EOF) with a recording client.Client, and writes the ordered boundary log
// (bytes written to the client, AuthFunc calls, TCP()/UDP() calls, Close) for the comparison with the
// Coq model, plus the property verdict evaluated on the implementation alone.

import (
	"bytes"
	"encoding/json"
	"errors"
	"io"
	"net"
	"strconv"
	"sync"
	"testing"
	"time"

	txsocks "github.com/txthinking/socks5"

	"github.com/apernet/hysteria/core/v2/client"
)

type c18Log struct {
	mu sync.Mutex
	ev []map[string]any
}

func (l *c18Log) add(e map[string]any) {
	l.mu.Lock()
	l.ev = append(l.ev, e)
	l.mu.Unlock()
}

// scripted local client
type c18Conn struct {
	log    *c18Log
	mu     sync.Mutex
	chunks [][]byte
	closed bool
	peer   net.IP // the client's address (nil: 127.0.0.1)
}

func (c *c18Conn) Read(p []byte) (int, error) {
	c.mu.Lock()
	defer c.mu.Unlock()
	if c.closed {
		return 0, net.ErrClosed
	}
	if len(c.chunks) == 0 {
		return 0, io.EOF
	}
	h := c.chunks[0]
	if len(h) <= len(p) {
		copy(p, h)
		c.chunks = c.chunks[1:]
		return len(h), nil
	}
	copy(p, h[:len(p)])
	c.chunks[0] = h[len(p):]
	return len(p), nil
}

func (c *c18Conn) Write(p []byte) (int, error) {
	c.log.add(map[string]any{"t": "reply", "hex": vHex(p)})
	return len(p), nil
}

func (c *c18Conn) Close() error {
	c.mu.Lock()
	c.closed = true
	c.mu.Unlock()
	c.log.add(map[string]any{"t": "close"})
	return nil
}
func (c *c18Conn) LocalAddr() net.Addr { return &net.TCPAddr{IP: net.IPv4(127, 0, 0, 1), Port: 1080} }
func (c *c18Conn) RemoteAddr() net.Addr {
	if c.peer != nil {
		return &net.TCPAddr{IP: c.peer, Port: 40000}
	}
	return &net.TCPAddr{IP: net.IPv4(127, 0, 0, 1), Port: 40000}
}
func (c *c18Conn) SetDeadline(t time.Time) error      { return nil }
func (c *c18Conn) SetReadDeadline(t time.Time) error  { return nil }
func (c *c18Conn) SetWriteDeadline(t time.Time) error { return nil }

// upstream connection returned by the mock client: records what the relay writes, never sends
type c18Up struct {
	mu   sync.Mutex
	got  []byte
	done chan struct{}
	once sync.Once
}

func (u *c18Up) Read(p []byte) (int, error) { <-u.done; return 0, io.EOF }
func (u *c18Up) Write(p []byte) (int, error) {
	u.mu.Lock()
	u.got = append(u.got, p...)
	u.mu.Unlock()
	return len(p), nil
}
func (u *c18Up) Close() error                       { u.once.Do(func() { close(u.done) }); return nil }
func (u *c18Up) LocalAddr() net.Addr                { return &net.TCPAddr{} }
func (u *c18Up) RemoteAddr() net.Addr               { return &net.TCPAddr{} }
func (u *c18Up) SetDeadline(t time.Time) error      { return nil }
func (u *c18Up) SetReadDeadline(t time.Time) error  { return nil }
func (u *c18Up) SetWriteDeadline(t time.Time) error { return nil }

type c18UDP struct {
	done chan struct{}
	once sync.Once
}

func (u *c18UDP) Receive() ([]byte, string, error) { <-u.done; return nil, "", io.EOF }
func (u *c18UDP) Send([]byte, string) error        { return nil }
func (u *c18UDP) Close() error                     { u.once.Do(func() { close(u.done) }); return nil }

type c18Client struct {
	log    *c18Log
	dialOK bool
	udpOK  bool
	up     *c18Up
}

func (m *c18Client) TCP(addr string) (net.Conn, error) {
	m.log.add(map[string]any{"t": "tcp", "addr": vHex([]byte(addr))})
	if !m.dialOK {
		return nil, errors.New("dial failed")
	}
	m.up = &c18Up{done: make(chan struct{})}
	return m.up, nil
}

func (m *c18Client) UDP() (client.HyUDPConn, error) {
	m.log.add(map[string]any{"t": "udp"})
	if !m.udpOK {
		return nil, errors.New("udp failed")
	}
	return &c18UDP{done: make(chan struct{})}, nil
}
func (m *c18Client) Close() error { return nil }

type c18SCase struct {
	K      string   `json:"k"`
	Auth   bool     `json:"auth"`
	User   string   `json:"user"`
	Pass   string   `json:"pass"`
	DUDP   bool     `json:"dudp"`
	Dial   bool     `json:"dial"`
	UDP    bool     `json:"udp"`
	Chunks []string `json:"chunks"`
	Tail   int      `json:"tail"` // offset of the first byte behind a well-formed CONNECT request, -1 = n/a
	Peer   string   `json:"peer"` // the client's IP address ("" = 127.0.0.1): the gate must not depend on it
}

func TestVerifC18Socks(t *testing.T) {
	vParams(t, [][3]string{
		{"C18_socks_ver", "N", strconv.Itoa(int(txsocks.Ver))},
		{"C18_socks_userpass_ver", "N", strconv.Itoa(int(txsocks.UserPassVer))},
		{"C18_method_none", "N", strconv.Itoa(int(txsocks.MethodNone))},
		{"C18_method_userpass", "N", strconv.Itoa(int(txsocks.MethodUsernamePassword))},
		{"C18_method_unsupported", "N", strconv.Itoa(int(txsocks.MethodUnsupportAll))},
		{"C18_cmd_connect", "N", strconv.Itoa(int(txsocks.CmdConnect))},
		{"C18_cmd_udp", "N", strconv.Itoa(int(txsocks.CmdUDP))},
		{"C18_atyp_v4", "N", strconv.Itoa(int(txsocks.ATYPIPv4))},
		{"C18_atyp_domain", "N", strconv.Itoa(int(txsocks.ATYPDomain))},
		{"C18_atyp_v6", "N", strconv.Itoa(int(txsocks.ATYPIPv6))},
		{"C18_rep_success", "N", strconv.Itoa(int(txsocks.RepSuccess))},
		{"C18_rep_server_failure", "N", strconv.Itoa(int(txsocks.RepServerFailure))},
		{"C18_rep_host_unreachable", "N", strconv.Itoa(int(txsocks.RepHostUnreachable))},
		{"C18_rep_cmd_not_supported", "N", strconv.Itoa(int(txsocks.RepCommandNotSupported))},
		{"C18_userpass_ok", "N", strconv.Itoa(int(txsocks.UserPassStatusSuccess))},
		{"C18_userpass_fail", "N", strconv.Itoa(int(txsocks.UserPassStatusFailure))},
	})
	out := vOpenOut(t, "VERIF_OUT")
	defer out.Close()
	for i, raw := range vReadCases(t) {
		var c c18SCase
		if err := json.Unmarshal(raw, &c); err != nil {
			t.Fatal(err)
		}
		res := map[string]any{"i": i, "k": c.K}
		if c.K == "rsocks" {
			// relay phase on scripted conns (c18_relay_socks_test.go)
			c18RelaySocks(t, raw, res)
		} else {
			c18Socks(t, c, res)
		}
		out.Emit(res)
	}
}

func c18Socks(t *testing.T, c c18SCase, res map[string]any) {
	log := &c18Log{}
	var stream []byte
	conn := &c18Conn{log: log, peer: net.ParseIP(c.Peer)}
	for _, h := range c.Chunks {
		b := vUnhex(h)
		conn.chunks = append(conn.chunks, b)
		stream = append(stream, b...)
	}
	cl := &c18Client{log: log, dialOK: c.Dial, udpOK: c.UDP}
	s := &Server{HyClient: cl, DisableUDP: c.DUDP}
	user, pass := string(vUnhex(c.User)), string(vUnhex(c.Pass))
	if c.Auth {
		s.AuthFunc = func(u, p string) bool {
			ok := u == user && p == pass
			log.add(map[string]any{"t": "auth", "u": vHex([]byte(u)), "p": vHex([]byte(p)), "ok": ok})
			return ok
		}
	}
	done := make(chan string, 1)
	go func() {
		p, msg := vCatch(func() { s.dispatch(conn) })
		if p {
			done <- "panic: " + msg
		} else {
			done <- ""
		}
	}()
	select {
	case msg := <-done:
		if msg != "" {
			res["panic"] = true
			res["ok"] = false
			res["why"] = msg
			return
		}
	case <-time.After(20 * time.Second):
		res["ok"] = false
		res["why"] = "dispatch did not return after the client closed"
		res["hang"] = true
		return
	}
	log.mu.Lock()
	ev := append([]map[string]any(nil), log.ev...)
	log.mu.Unlock()
	// canonical event list: the relay bytes are inserted before the final close
	var relay []byte
	if cl.up != nil {
		cl.up.mu.Lock()
		relay = append([]byte(nil), cl.up.got...)
		cl.up.mu.Unlock()
		last := len(ev)
		for j := len(ev) - 1; j >= 0; j-- {
			if ev[j]["t"] == "close" {
				last = j
				break
			}
		}
		ne := append([]map[string]any(nil), ev[:last]...)
		ne = append(ne, map[string]any{"t": "relay", "hex": vHex(relay)})
		ne = append(ne, ev[last:]...)
		ev = ne
	}
	res["ev"] = ev
	// ---- property verdict on the implementation alone
	ok, why := true, ""
	fail := func(s string) {
		if ok {
			ok, why = false, s
		}
	}
	// gate clause, on the boundary log alone and for every client (also one that keeps sending after a
	// refusal such as 05 FF): with AuthFunc configured, no HyClient.TCP / HyClient.UDP call unless an
	// AuthFunc call on this connection has returned true before it
	accepted := false
	refused := false // the server has answered "no acceptable methods" (05 FF) or USER/PASS failure (01 01)
	closes := 0
	for _, e := range ev {
		switch e["t"] {
		case "reply":
			if h, _ := e["hex"].(string); h == "05ff" || h == "0101" {
				refused = true
			}
		case "auth":
			if e["ok"] == true {
				accepted = true
			}
		case "tcp", "udp":
			if c.Auth && !accepted {
				if refused {
					fail("upstream " + e["t"].(string) + " opened for a client the server had just refused (05 FF / 01 01) and that never presented accepted credentials")
				} else {
					fail("upstream " + e["t"].(string) + " opened before any accepted USER/PASS")
				}
			}
		case "close":
			closes++
		}
	}
	if closes != 1 {
		fail("client connection closed " + strconv.Itoa(closes) + " times")
	}
	if cl.up != nil && c.Tail >= 0 && c.Tail <= len(stream) && !bytes.Equal(relay, stream[c.Tail:]) {
		fail("bytes behind the request did not reach the upstream unmodified")
	}
	res["ok"] = ok
	res["why"] = why
}
