//go:build verif

package udphop

// C19 harness (package udphop, injected by -overlay).
//
//   k=pu    utils.ParsePortUnion / Normalize / Ports / Contains on an expression string
//   k=norm  PortUnion.Normalize / Ports / Contains on an arbitrary range list (reversed ranges included)
//   k=ival  HopIntervalConfig.normalized and nextHopInterval
//   k=hop   a udpHopPacketConn inside a testing/synctest bubble with fake sockets: timer-driven and direct
//           hops racing writers, readers, deadline/buffer setters, packet arrivals and Close.  Everything that
//           happens at the socket boundary is appended to one log (one mutex, one sequence) which the Coq side
//           replays through the LTS; the verdict of the property is also computed here, on the log alone.
//           The fake sockets can be scripted to FAIL: Close() of chosen sockets returns an error (the socket is
//           closed all the same, as close(2) does), chosen Set* calls return an error.  What must hold after Close()
//           has returned does not depend on any of that.
//           Receivers: the fake socket logs "X k" when its ReadFrom hands the permanent closed error to socket k's
//           receiver (the one way a recvLoop ends), the injector logs "N k q" when the whole bubble has come to rest and a
//           datagram still sits in open socket k's buffer (nobody is in ReadFrom on it; q = len(recvQueue)).  Overflow
//           episodes (ops "burst" / "drainq"): the reader falls behind until the queue is full and more datagrams meet
//           it (their loss is allowed), the reader catches up, and whatever arrives afterwards on an open socket of
//           {prev,cur} must be taken and come out of ReadFrom in order: an overflow costs the packets that met the
//           full queue and nothing else.
//           Server address: the hop address of a history is "<host form>:<ports>" with the host written as an IPv4
//           literal, a bracketed IPv6 literal, an IPv4-mapped IPv6 literal, a zone-scoped literal or a host name answered
//           by an in-memory DNS server (net.DefaultResolver is pointed at it while the harness resolves; A only, AAAA only,
//           both).  Every WriteTo that reaches a fake socket records its full destination: the port, whether the IP is
//           the server's (net.IP.Equal with what net.ResolveIPAddr returns for the same host, zone not contradicting it)
//           and an index into the table of distinct (IP bytes, zone) destinations seen, which the Coq side compares with
//           the model's Addrs[addrIndex].  conn.Addrs is compared with {server IP : port | port in the set} as well.
//           Datagrams handed to the receivers come from the server: source = (server IP, the port that was the conn's target
//           while the receiving socket was the current one): the server answers from the port it was spoken to on, so what
//           arrives on the previous socket after a hop carries the PREVIOUS target port, and must be delivered all the same.
//   k=addr  ResolveUDPHopAddr / addrs() alone on "<host form>:<ports>", malformed hosts and port expressions included:
//           error class, IP (Equal to the reference resolution and to the address the generator wrote down
//           independently), Ports = the set in ascending order, addrs() = exactly one (server IP, port) per port.

import (
	"context"
	"encoding/binary"
	"encoding/hex"
	"encoding/json"
	"errors"
	"fmt"
	"math/rand"
	"net"
	"os"
	"strconv"
	"strings"
	"sync"
	"sync/atomic"
	"testing"
	"testing/synctest"
	"time"

	"github.com/apernet/hysteria/extras/v2/utils"
)

type c19Op struct {
	T    int64  `json:"t"` // fake-clock offset in ms
	W    int    `json:"w"` // worker
	Op   string `json:"op"`
	V    int64  `json:"v"`
	Role string `json:"role"`
}

type c19Case struct {
	K      string   `json:"k"`
	S      string   `json:"s"` // hex of the expression bytes
	Probe  []int    `json:"probe"`
	Ranges [][2]int `json:"ranges"`
	Min    int64    `json:"min"`
	Max    int64    `json:"max"`
	N      int      `json:"n"`
	// hop
	Ports  string  `json:"ports"`
	Seed   int64   `json:"seed"`
	Fail   []int   `json:"fail"` // ordinals of ListenUDPFunc calls that fail (0 = the constructor's)
	Ops    []c19Op `json:"ops"`
	End    int64   `json:"end"`   // ms: the main goroutine's closing phase starts here
	Drain  bool    `json:"drain"` // read the queue empty before the final Close (if the conn is still open then)
	NoEnd  bool    `json:"noend"` // the ops contain their own close; the main goroutine still closes (no-op) at End
	Workers int    `json:"workers"`
	CErr   []int   `json:"cerr"` // ids of the sockets whose Close() returns an error (the socket still gets closed)
	SErr   []int   `json:"serr"` // ordinals (over the whole history) of the sockets' Set* calls that return an error
	Blk    bool    `json:"blk"`  // park one more ReadFrom right before the final Close
	// server address (hop and addr cases).  A hop case without "hp" is an old replay file: 127.0.0.1
	HP     *string                 `json:"hp"`     // host part as written, brackets included
	Host   string                  `json:"host"`   // the bare host the generator meant (what SplitHostPort must give back)
	DNS    map[string][2][]string  `json:"dns"`    // name (lower case, trailing dot) -> A records, AAAA records
	Exp    []string                `json:"exp"`    // hex of the addresses the host stands for, written down by the generator (any of them)
	ExpErr string                  `json:"experr"` // what the generator expects of the host part: ok | split | resolve | ref (= ask the reference)
	Form   string                  `json:"form"`
}

func TestVerifC19(t *testing.T) {
	vParams(t, [][3]string{
		{"packetQueueSize", "nat", strconv.Itoa(packetQueueSize)},
		{"defaultHopInterval", "Z", strconv.FormatInt(int64(defaultHopInterval), 10)},
		{"minHopInterval", "Z", strconv.FormatInt(c19MinInterval(), 10)},
	})
	out := vOpenOut(t, "VERIF_OUT")
	defer out.Close()
	for i, raw := range vReadCases(t) {
		var c c19Case
		if err := json.Unmarshal(raw, &c); err != nil {
			t.Fatal(err)
		}
		res := map[string]any{"i": i, "k": c.K}
		if c.K == "hop" {
			// a panic in one of the conn's own goroutines kills the process: leave a marker naming the case
			_ = os.WriteFile(os.Getenv("VERIF_OUT")+".cur", []byte(strconv.Itoa(i)), 0o644)
		}
		switch c.K {
		case "pu":
			c19PU(c, res)
		case "norm":
			c19Norm(c, res)
		case "ival":
			c19Ival(c, res)
		case "hop":
			c19Hop(t, c, res)
		case "addr":
			c19Addr(c, res)
		default:
			t.Fatalf("unknown case kind %q", c.K)
		}
		out.Emit(res)
	}
	_ = os.Remove(os.Getenv("VERIF_OUT") + ".cur")
}

// smallest accepted Min (binary search on the implementation; the proofs take it as a parameter)
func c19MinInterval() int64 {
	lo, hi := int64(1), int64(3600*time.Second)
	for lo < hi {
		mid := (lo + hi) / 2
		_, err := HopIntervalConfig{Min: time.Duration(mid), Max: time.Duration(hi)}.normalized()
		if err == nil {
			hi = mid
		} else {
			lo = mid + 1
		}
	}
	return lo
}

// ------------------------------------------------------------------ port unions

// c19Ref: the denotation of an expression, computed by an independent scanner:
// expr := "all" | "*" | item ("," item)* ; item := num | num "-" num ; num := [0-9]+ with value <= 65535.
func c19Ref(s string) (set []bool, valid bool) {
	set = make([]bool, 65536)
	if s == "all" || s == "*" {
		for i := range set {
			set[i] = true
		}
		return set, true
	}
	pos := 0
	num := func() (int, bool) {
		start := pos
		v := 0
		for pos < len(s) && s[pos] >= '0' && s[pos] <= '9' {
			if v <= 65535 {
				v = v*10 + int(s[pos]-'0')
			}
			pos++
		}
		if pos == start || v > 65535 {
			return 0, false
		}
		return v, true
	}
	for {
		a, ok := num()
		if !ok {
			return nil, false
		}
		b := a
		if pos < len(s) && s[pos] == '-' {
			pos++
			b, ok = num()
			if !ok {
				return nil, false
			}
		}
		if a > b {
			a, b = b, a
		}
		for p := a; p <= b; p++ {
			set[p] = true
		}
		if pos == len(s) {
			return set, true
		}
		if s[pos] != ',' {
			return nil, false
		}
		pos++
	}
}

// order-sensitive checksum without modular arithmetic (cheap in Coq's N): a = sum (p+1), b = sum of the running a's
func c19PortsHash(ps []uint16) [2]uint64 {
	var a, b uint64
	for _, p := range ps {
		a += uint64(p) + 1
		b += a
	}
	return [2]uint64{a, b}
}

// verdict for a union against a reference set
func c19CheckUnion(u utils.PortUnion, ref []bool, wf bool) (bool, string) {
	if wf {
		for i, r := range u {
			if r.Start > r.End {
				return false, "normalized range with start > end"
			}
			if i > 0 && uint32(u[i-1].End)+1 >= uint32(r.Start) {
				return false, "normalized ranges not sorted / overlapping / adjacent"
			}
		}
	}
	ps := u.Ports()
	j := 0
	for p := 0; p < 65536; p++ {
		if ref[p] {
			if j >= len(ps) || int(ps[j]) != p {
				return false, "Ports() misses or misorders port " + strconv.Itoa(p)
			}
			j++
		}
		if u.Contains(uint16(p)) != ref[p] {
			return false, "Contains(" + strconv.Itoa(p) + ") differs from the denotation"
		}
	}
	if j != len(ps) {
		return false, "Ports() lists a port outside the denotation or twice"
	}
	return true, ""
}

func c19Dump(u utils.PortUnion, probe []int, res map[string]any) {
	norm := make([][2]int, 0, len(u))
	for _, r := range u {
		norm = append(norm, [2]int{int(r.Start), int(r.End)})
	}
	res["norm"] = norm
	ps := u.Ports()
	res["np"] = len(ps)
	h := c19PortsHash(ps)
	res["pa"] = h[0]
	res["pb"] = h[1]
	cont := make([]int, 0, len(probe))
	for _, p := range probe {
		if u.Contains(uint16(p)) {
			cont = append(cont, 1)
		} else {
			cont = append(cont, 0)
		}
	}
	res["cont"] = cont
}

func c19PU(c c19Case, res map[string]any) {
	sb, _ := hex.DecodeString(c.S)
	s := string(sb)
	var u utils.PortUnion
	p, msg := vCatch(func() { u = utils.ParsePortUnion(s) })
	if p {
		res["panic"] = true
		res["ok"] = false
		res["why"] = "panic: " + msg
		return
	}
	res["nil"] = u == nil
	c19Dump(u, c.Probe, res)
	ref, valid := c19Ref(s)
	ok, why := true, ""
	if valid != (u != nil) {
		ok = false
		if valid {
			why = "well-formed expression rejected"
		} else {
			why = "malformed expression accepted"
		}
	} else if valid {
		ok, why = c19CheckUnion(u, ref, true)
	}
	// the same through ResolveUDPHopAddr (literal IP: no resolver involved)
	if ok {
		plain := true
		for i := 0; i < len(s); i++ {
			if s[i] == ':' || s[i] == '[' || s[i] == ']' {
				plain = false
			}
		}
		if plain {
			a, err := ResolveUDPHopAddr("127.0.0.1:" + s)
			if (err == nil) != valid {
				ok, why = false, "ResolveUDPHopAddr accepts/rejects differently from the grammar"
			} else if err == nil {
				if !a.IP.Equal(net.IPv4(127, 0, 0, 1)) {
					ok, why = false, "ResolveUDPHopAddr changed the IP"
				}
				as, _ := a.addrs()
				if len(as) != len(a.Ports) {
					ok, why = false, "addrs() length differs from Ports"
				}
				j := 0
				for pp := 0; pp < 65536 && ok; pp++ {
					if ref[pp] {
						if j >= len(as) {
							ok, why = false, "addrs() misses a port"
							break
						}
						ua := as[j].(*net.UDPAddr)
						if ua.Port != pp || !ua.IP.Equal(a.IP) {
							ok, why = false, "addrs() entry is not (server IP, next port of the set)"
						}
						j++
					}
				}
				if ok && j != len(as) {
					ok, why = false, "addrs() has an address outside the set"
				}
			}
		}
	}
	res["ok"] = ok
	res["why"] = why
}

func c19Norm(c c19Case, res map[string]any) {
	u := utils.PortUnion{}
	ref := make([]bool, 65536)
	wf := true
	for _, r := range c.Ranges {
		u = append(u, utils.PortRange{Start: uint16(r[0]), End: uint16(r[1])})
		if r[0] > r[1] {
			wf = false
		}
		for p := r[0]; p <= r[1]; p++ {
			ref[p] = true
		}
	}
	var n utils.PortUnion
	p, msg := vCatch(func() { n = u.Normalize() })
	if p {
		res["panic"] = true
		res["ok"] = false
		res["why"] = "panic: " + msg
		return
	}
	res["nil"] = false
	c19Dump(n, c.Probe, res)
	ok, why := c19CheckUnion(n, ref, wf)
	res["ok"] = ok
	res["why"] = why
}

// ------------------------------------------------------------------ hop interval

func c19Ival(c c19Case, res map[string]any) {
	cfg := HopIntervalConfig{Min: time.Duration(c.Min), Max: time.Duration(c.Max)}
	n, err := cfg.normalized()
	res["err"] = err != nil
	res["nmin"] = int64(n.Min)
	res["nmax"] = int64(n.Max)
	ok, why := true, ""
	draws := []int64{}
	if err == nil {
		if !(n.Min >= 5*time.Second && n.Min <= n.Max) {
			ok, why = false, "normalized interval outside 5s <= min <= max"
		}
		if c.Min == 0 && c.Max == 0 {
			if n.Min != 30*time.Second || n.Max != 30*time.Second {
				ok, why = false, "default interval is not 30s"
			}
		} else if n != cfg {
			ok, why = false, "normalized changed an explicit configuration"
		}
		u := &udpHopPacketConn{HopInterval: n}
		p, msg := vCatch(func() {
			for i := 0; i < c.N; i++ {
				d := u.nextHopInterval()
				if i < 6 {
					draws = append(draws, int64(d))
				}
				if d < n.Min || d > n.Max {
					ok, why = false, "nextHopInterval outside [min,max]"
				}
			}
		})
		if p {
			ok, why = false, "panic: "+msg
			res["panic"] = true
		}
	} else {
		if c.Min == 0 && c.Max == 0 {
			ok, why = false, "default configuration rejected"
		}
		if c.Min >= int64(5*time.Second) && c.Max >= c.Min {
			ok, why = false, "valid configuration rejected"
		}
	}
	res["draws"] = draws
	res["ok"] = ok
	res["why"] = why
}

// ------------------------------------------------------------------ server address

// in-memory DNS server behind net.Resolver.Dial: answers A / AAAA questions from a table, NXDOMAIN for every other name
type c19DNSConn struct {
	recs map[string][2][]string
	resp chan []byte
}

func (c *c19DNSConn) Write(q []byte) (int, error) {
	if len(q) < 12 {
		return len(q), nil
	}
	pos := 12
	var labels []string
	for pos < len(q) && q[pos] != 0 {
		l := int(q[pos])
		if l >= 64 || pos+1+l > len(q) {
			return len(q), nil
		}
		labels = append(labels, string(q[pos+1:pos+1+l]))
		pos += 1 + l
	}
	if pos+5 > len(q) {
		return len(q), nil
	}
	qend := pos + 5
	qtype := binary.BigEndian.Uint16(q[pos+1:])
	name := strings.ToLower(strings.Join(labels, ".")) + "."
	r := make([]byte, 0, 512)
	r = append(r, q[0], q[1], 0x81, 0x80, 0, 1, 0, 0, 0, 0, 0, 0)
	r = append(r, q[12:qend]...)
	rec, ok := c.recs[name]
	if !ok {
		r[3] = 0x83
	} else {
		var ips []string
		if qtype == 1 {
			ips = rec[0]
		} else if qtype == 28 {
			ips = rec[1]
		}
		n := 0
		for _, s := range ips {
			ip := net.ParseIP(s)
			b := []byte(ip.To16())
			if qtype == 1 {
				b = []byte(ip.To4())
			}
			if b == nil {
				continue
			}
			r = append(r, 0xc0, 12, byte(qtype>>8), byte(qtype), 0, 1, 0, 0, 0, 60, 0, byte(len(b)))
			r = append(r, b...)
			n++
		}
		binary.BigEndian.PutUint16(r[6:], uint16(n))
	}
	select {
	case c.resp <- r:
	default:
	}
	return len(q), nil
}

func (c *c19DNSConn) Read(b []byte) (int, error) {
	select {
	case r := <-c.resp:
		return copy(b, r), nil
	case <-time.After(5 * time.Second):
		return 0, errors.New("fake dns: no query to answer")
	}
}
func (c *c19DNSConn) ReadFrom(b []byte) (int, net.Addr, error) {
	n, err := c.Read(b)
	return n, &net.UDPAddr{}, err
}
func (c *c19DNSConn) WriteTo(b []byte, _ net.Addr) (int, error) { return c.Write(b) }
func (c *c19DNSConn) Close() error                              { return nil }
func (c *c19DNSConn) LocalAddr() net.Addr                       { return &net.UDPAddr{} }
func (c *c19DNSConn) RemoteAddr() net.Addr                      { return &net.UDPAddr{} }
func (c *c19DNSConn) SetDeadline(time.Time) error               { return nil }
func (c *c19DNSConn) SetReadDeadline(time.Time) error           { return nil }
func (c *c19DNSConn) SetWriteDeadline(time.Time) error          { return nil }

// run f with net.DefaultResolver pointed at the in-memory server (names not in the table do not exist)
func c19WithDNS(recs map[string][2][]string, f func()) {
	old := net.DefaultResolver
	net.DefaultResolver = &net.Resolver{PreferGo: true, Dial: func(ctx context.Context, network, address string) (net.Conn, error) {
		return &c19DNSConn{recs: recs, resp: make(chan []byte, 4)}, nil
	}}
	defer func() { net.DefaultResolver = old }()
	f()
}

type c19Srv struct {
	full    string // the hop address string handed to ResolveUDPHopAddr
	addr    *UDPHopAddr
	errk    string // "" | split | resolve | port | other : class of ResolveUDPHopAddr's error
	refk    string // "" | split | resolve : class of the reference's error (net.SplitHostPort, then net.ResolveIPAddr on the host)
	refHost string
	refIP   net.IP // the server IP "as resolved"
	refZone string
	panicked bool
	pmsg    string
}

func c19ErrClass(err error) string {
	if err == nil {
		return ""
	}
	var pe InvalidPortError
	if errors.As(err, &pe) {
		return "port"
	}
	var ae *net.AddrError
	if errors.As(err, &ae) {
		return "split"
	}
	var de *net.DNSError
	if errors.As(err, &de) {
		return "resolve"
	}
	return "other"
}

// resolve "<hp>:<ports>" twice under the same in-memory DNS: by the reference (SplitHostPort + ResolveIPAddr, the two library
// calls the model takes as given) and by ResolveUDPHopAddr
func c19Resolve(hp, ports string, dns map[string][2][]string) *c19Srv {
	r := &c19Srv{full: hp + ":" + ports}
	c19WithDNS(dns, func() {
		h, _, err := net.SplitHostPort(r.full)
		if err != nil {
			r.refk = "split"
		} else {
			r.refHost = h
			ra, err := net.ResolveIPAddr("ip", h)
			if err != nil {
				r.refk = "resolve"
			} else {
				r.refIP, r.refZone = ra.IP, ra.Zone
			}
		}
		r.panicked, r.pmsg = vCatch(func() {
			a, err := ResolveUDPHopAddr(r.full)
			r.addr, r.errk = a, c19ErrClass(err)
			if err == nil && a == nil {
				r.errk = "other"
			}
		})
	})
	return r
}

func c19ZoneOK(z, ref string) bool { return z == "" || z == ref }

// one (IP bytes, zone) table per case: the distinct destinations seen
type c19Dests struct {
	tab [][2]string
	idx map[[2]string]int
}

func (d *c19Dests) index(ip net.IP, zone string) int {
	if d.idx == nil {
		d.idx = map[[2]string]int{}
	}
	k := [2]string{hex.EncodeToString(ip), hex.EncodeToString([]byte(zone))}
	if i, ok := d.idx[k]; ok {
		return i
	}
	d.idx[k] = len(d.tab)
	d.tab = append(d.tab, k)
	return len(d.tab) - 1
}

func (d *c19Dests) table() [][2]string {
	if d.tab == nil {
		return [][2]string{}
	}
	return d.tab
}

// the list must be exactly one *net.UDPAddr (server IP, port) per port of ports, in that order; dests collects what is there
func c19CheckAddrList(as []net.Addr, ports []uint16, ip net.IP, zone string, dests *c19Dests) (bool, string) {
	ok, why := true, ""
	if len(as) != len(ports) {
		ok, why = false, "address list has "+strconv.Itoa(len(as))+" entries for "+strconv.Itoa(len(ports))+" ports"
	}
	for j, a := range as {
		ua, isUDP := a.(*net.UDPAddr)
		if !isUDP || ua == nil {
			if ok {
				ok, why = false, "address list entry is not a *net.UDPAddr"
			}
			continue
		}
		if dests != nil {
			dests.index(ua.IP, ua.Zone)
		}
		if !ok {
			continue
		}
		if !ua.IP.Equal(ip) {
			// (addresses are kept out of the message: one kind of failure, one message; the entry is in the table of destinations)
			ok, why = false, "address list entry for port "+strconv.Itoa(ua.Port)+" does not carry the server IP"
		} else if !c19ZoneOK(ua.Zone, zone) {
			ok, why = false, "address list entry carries a zone the server address does not have"
		} else if j < len(ports) && ua.Port != int(ports[j]) {
			ok, why = false, "address list entry "+strconv.Itoa(j)+" has port "+strconv.Itoa(ua.Port)+", the set's next port is "+strconv.Itoa(int(ports[j]))
		}
	}
	return ok, why
}

// verdict on ResolveUDPHopAddr's result (implementation alone): error class, IP, PortStr, Ports, addrs()
func c19SrvVerdict(c c19Case, r *c19Srv, dests *c19Dests) (bool, string) {
	if r.panicked {
		return false, "panic: " + r.pmsg
	}
	ref, valid := c19Ref(c.Ports)
	want := r.refk
	if want == "" && !valid {
		want = "port"
	}
	if r.errk != want {
		if want == "" {
			return false, "ResolveUDPHopAddr rejects a well-formed hop address (" + r.errk + " error)"
		}
		if r.errk == "" {
			return false, "ResolveUDPHopAddr accepts a hop address it must reject (" + want + " error expected)"
		}
		return false, "ResolveUDPHopAddr fails with a " + r.errk + " error where a " + want + " error is due"
	}
	if want != "" {
		return true, ""
	}
	a := r.addr
	if !a.IP.Equal(r.refIP) {
		return false, "ResolveUDPHopAddr's IP is not the resolved server IP"
	}
	// (the addresses the generator wrote down for the host validate the reference, see c19Premise: where the reference agrees with
	// them, an IP equal to the reference's is one of them)
	if a.PortStr != c.Ports {
		return false, "PortStr is not the port expression"
	}
	j := 0
	for p := 0; p < 65536; p++ {
		if ref[p] {
			if j >= len(a.Ports) || int(a.Ports[j]) != p {
				return false, "Ports misses or misorders port " + strconv.Itoa(p)
			}
			j++
		}
	}
	if j != len(a.Ports) {
		return false, "Ports lists a port outside the set or twice"
	}
	var as []net.Addr
	var err error
	if p, msg := vCatch(func() { as, err = a.addrs() }); p {
		return false, "panic: " + msg
	}
	if err != nil {
		return false, "addrs() failed"
	}
	return c19CheckAddrList(as, a.Ports, r.refIP, r.refZone, dests)
}

// what the generator wrote down about the host part against what the reference says (a broken premise of the case, not a
// verdict on the code: reported in the output, counted by the driver)
func c19Premise(c c19Case, r *c19Srv) string {
	switch c.ExpErr {
	case "ok":
		if r.refk != "" {
			return "reference fails (" + r.refk + ") on a host the generator takes for valid"
		}
	case "split", "resolve":
		if r.refk != c.ExpErr {
			return "reference gives '" + r.refk + "' where the generator expects a " + c.ExpErr + " error"
		}
	}
	if r.refk == "" {
		if c.Host != r.refHost {
			return "SplitHostPort gives host " + r.refHost + ", the generator meant " + c.Host
		}
		if len(c.Exp) > 0 {
			hit := false
			for _, e := range c.Exp {
				b, _ := hex.DecodeString(e)
				if r.refIP.Equal(net.IP(b)) {
					hit = true
				}
			}
			if !hit {
				return "reference resolves the host to " + r.refIP.String() + ", none of the generator's addresses"
			}
		}
	}
	return ""
}

func c19SrvDump(r *c19Srv, res map[string]any) {
	res["refk"] = r.refk
	res["rip"] = hex.EncodeToString(r.refIP)
	res["rzone"] = hex.EncodeToString([]byte(r.refZone))
	res["errk"] = r.errk
	if r.addr != nil {
		res["ip"] = hex.EncodeToString(r.addr.IP)
	} else {
		res["ip"] = ""
	}
}

func c19Addr(c c19Case, res map[string]any) {
	hp := ""
	if c.HP != nil {
		hp = *c.HP
	}
	r := c19Resolve(hp, c.Ports, c.DNS)
	dests := &c19Dests{}
	ok, why := c19SrvVerdict(c, r, dests)
	c19SrvDump(r, res)
	res["premise"] = c19Premise(c, r)
	if r.panicked {
		res["panic"] = true
	}
	// raw observations for the model: Ports and the ports of addrs() as order-sensitive checksums, the distinct (IP, zone) of addrs()
	np, na := 0, 0
	var ph, ah [2]uint64
	if r.addr != nil && !r.panicked {
		np = len(r.addr.Ports)
		ph = c19PortsHash(r.addr.Ports)
		vCatch(func() {
			as, _ := r.addr.addrs()
			na = len(as)
			aps := make([]uint16, 0, len(as))
			for _, a := range as {
				if ua, isUDP := a.(*net.UDPAddr); isUDP && ua != nil && ua.Port >= 0 && ua.Port <= 65535 {
					aps = append(aps, uint16(ua.Port))
				}
			}
			if len(aps) != len(as) {
				na = -1
			}
			ah = c19PortsHash(aps)
		})
	}
	res["np"], res["pa"], res["pb"] = np, ph[0], ph[1]
	res["na"], res["aa"], res["ab"] = na, ah[0], ah[1]
	res["dtab"] = dests.table()
	res["ok"] = ok
	res["why"] = why
}

// ------------------------------------------------------------------ hop harness

type c19Timeout struct{}

func (c19Timeout) Error() string   { return "i/o timeout (fake)" }
func (c19Timeout) Timeout() bool   { return true }
func (c19Timeout) Temporary() bool { return true }

type c19SockErr struct{}

func (c19SockErr) Error() string { return "socket call failed (scripted)" }

type c19In struct {
	pkt     int64
	timeout bool
	port    int // source port of the datagram
}

type c19World struct {
	mu       sync.Mutex
	cond     *sync.Cond
	log      [][]any
	socks    []*c19Sock
	listens  int
	fail     map[int]bool
	cerr     map[int]bool // sockets whose Close() reports an error
	serr     map[int]bool // ordinals of Set* calls that report an error
	nsets    int
	injSem   chan struct{} // one injection at a time; a channel made inside the bubble, so that waiting for it is durable
	orphan   int           // sockets found open with nobody reading them (a datagram was never taken)
	closeRet bool // some conn.Close() call has returned
	lateListen bool // ListenUDPFunc was called after some conn.Close() call had returned
	inRead   int  // ReadFrom calls entered (RS) and not yet returned (R)
	nextPkt  int64
	nextWr   int64
	nextRid  int
	srvIP    net.IP   // the server IP as resolved by the reference
	srvZone  string
	dests    c19Dests // distinct (IP bytes, zone) destinations of the socket writes
}

func (w *c19World) ev(e ...any) { w.log = append(w.log, e) } // caller holds w.mu

type c19Sock struct {
	w           *c19World
	id          int
	open        bool
	closes      int
	inbox       []c19In
	handed      int // packets handed to the receiver so far
	entryHanded int // value of handed at the receiver's latest ReadFrom entry
	pushed      int
	dead        bool // ReadFrom has returned a permanent error: the receiver goroutine exits and never comes back
	srcPort     int  // the server port this socket's traffic was last addressed to (-1: not known)
}

func (s *c19Sock) ReadFrom(b []byte) (int, net.Addr, error) {
	w := s.w
	w.mu.Lock()
	defer w.mu.Unlock()
	s.entryHanded = s.handed
	w.cond.Broadcast()
	for {
		if !s.open {
			if !s.dead {
				w.ev("X", s.id) // the permanent error is handed to the receiver: the one way its loop ends
			}
			s.dead = true
			w.cond.Broadcast()
			return 0, nil, net.ErrClosed
		}
		if len(s.inbox) > 0 {
			in := s.inbox[0]
			s.inbox = s.inbox[1:]
			s.handed++
			if in.timeout {
				w.ev("T", s.id)
				return 0, nil, c19Timeout{}
			}
			w.ev("A", s.id, in.pkt)
			binary.BigEndian.PutUint64(b, uint64(in.pkt))
			// the datagram comes from the server: its IP, and the port this socket's packets were addressed to (the server
			// answers from the port it was spoken to on), which after a hop is NOT the conn's current target any more
			return 8, &net.UDPAddr{IP: append(net.IP(nil), w.srvIP...), Port: in.port}, nil
		}
		w.cond.Wait()
	}
}

func (s *c19Sock) WriteTo(b []byte, addr net.Addr) (int, error) {
	w := s.w
	w.mu.Lock()
	defer w.mu.Unlock()
	ua, _ := addr.(*net.UDPAddr)
	port, ipok, di := -1, 0, -1
	if ua != nil {
		port = ua.Port
		// the destination is the server: same IP (net.IP.Equal: 4-byte and 16-byte forms of one IPv4 address are equal),
		// and no zone the server address does not have
		if ua.IP.Equal(w.srvIP) && c19ZoneOK(ua.Zone, w.srvZone) {
			ipok = 1
		}
		di = w.dests.index(ua.IP, ua.Zone)
	}
	var d int64 = -1
	if len(b) == 8 {
		d = int64(binary.BigEndian.Uint64(b))
	}
	w.ev("W", s.id, port, d, ipok, di)
	if !s.open {
		return 0, net.ErrClosed
	}
	if ua != nil {
		s.srcPort = port
	}
	return len(b), nil
}

func (s *c19Sock) Close() error {
	w := s.w
	w.mu.Lock()
	defer w.mu.Unlock()
	s.closes++
	was := s.open
	s.open = false
	// a failing Close still releases the socket (like close(2) reporting EIO): the call is counted and the socket is gone
	inj := was && w.cerr[s.id]
	w.ev("C", s.id, c19B(inj))
	w.cond.Broadcast()
	if !was {
		return net.ErrClosed
	}
	if inj {
		return c19SockErr{}
	}
	return nil
}

func c19B(b bool) int {
	if b {
		return 1
	}
	return 0
}

func (s *c19Sock) LocalAddr() net.Addr { return &net.UDPAddr{IP: net.IPv4(127, 0, 0, 1), Port: 10000 + s.id} }

func c19T(t time.Time) int64 {
	if t.IsZero() {
		return 0
	}
	return t.Unix()
}

func (s *c19Sock) set(kind string, v int64) error {
	w := s.w
	w.mu.Lock()
	defer w.mu.Unlock()
	inj := w.serr[w.nsets]
	w.nsets++
	w.ev("S", s.id, kind, v, c19B(inj))
	if !s.open {
		return net.ErrClosed
	}
	if inj {
		return c19SockErr{}
	}
	return nil
}
func (s *c19Sock) SetDeadline(t time.Time) error      { return s.set("dl", c19T(t)) }
func (s *c19Sock) SetReadDeadline(t time.Time) error  { return s.set("rdl", c19T(t)) }
func (s *c19Sock) SetWriteDeadline(t time.Time) error { return s.set("wdl", c19T(t)) }
func (s *c19Sock) SetReadBuffer(n int) error          { return s.set("rb", int64(n)) }
func (s *c19Sock) SetWriteBuffer(n int) error         { return s.set("wb", int64(n)) }

func (w *c19World) listen() (net.PacketConn, error) {
	w.mu.Lock()
	defer w.mu.Unlock()
	n := w.listens
	w.listens++
	if w.closeRet {
		w.lateListen = true
	}
	if w.fail[n] {
		w.ev("L", 0, -1)
		return nil, errors.New("listen failed (scripted)")
	}
	s := &c19Sock{w: w, id: len(w.socks), open: true, srcPort: -1}
	w.socks = append(w.socks, s)
	w.ev("L", 1, s.id)
	return s, nil
}

func c19SockID(pc net.PacketConn) int {
	if pc == nil {
		return -1
	}
	if s, ok := pc.(*c19Sock); ok && s != nil {
		return s.id
	}
	return -1
}

// snapshot of the conn's fields, atomically with respect to every locked section
func (w *c19World) snap(u *udpHopPacketConn, quiescent bool) {
	u.connMutex.RLock()
	w.mu.Lock()
	q := -1
	if quiescent {
		q = len(u.recvQueue)
	}
	cl := 0
	if u.closed {
		cl = 1
	}
	nopen := 0
	for _, s := range w.socks {
		if s.open {
			nopen++
		}
	}
	w.ev("SN", c19SockID(u.prevConn), c19SockID(u.currentConn), u.addrIndex, cl, q, nopen)
	w.mu.Unlock()
	u.connMutex.RUnlock()
}

// inject one datagram (or a read timeout) into the socket currently playing `role`; returns after the
// receiver has taken it and come back for the next one (so queue order = order of the "A" log entries).
// The "A"/"T" entry is made when the receiver takes the datagram, i.e. before it offers it to recvQueue; if the
// socket is closed in between (a hop or Close racing the arrival) the receiver still delivers what it holds, so the
// injector keeps waiting until the receiver is back in ReadFrom (or has exited) and does not go by the socket's state:
// otherwise the next injected datagram could overtake this one on its way into the queue.
//
// If the whole bubble comes to rest (only then does the fake clock move) and the datagram still has not been taken
// although the queue has room, nobody is reading that open socket: the injector gives up and that becomes a verdict
// (the datagram arrived on an open socket and will never be delivered) instead of a wait without end.
func (w *c19World) inject(u *udpHopPacketConn, role string, timeout bool) {
	w.injSem <- struct{}{}
	defer func() { <-w.injSem }()
	u.connMutex.RLock()
	id := -1
	curID, target := c19SockID(u.currentConn), -1
	if u.addrIndex >= 0 && u.addrIndex < len(u.Addrs) {
		if ua, isUDP := u.Addrs[u.addrIndex].(*net.UDPAddr); isUDP && ua != nil {
			target = ua.Port
		}
	}
	switch role {
	case "cur":
		id = c19SockID(u.currentConn)
	case "prev":
		id = c19SockID(u.prevConn)
	case "old":
		id = c19SockID(u.prevConn) - 1
	}
	u.connMutex.RUnlock()
	w.mu.Lock()
	defer w.mu.Unlock()
	if curID >= 0 && curID < len(w.socks) && w.socks[curID].srcPort < 0 {
		w.socks[curID].srcPort = target // the port addressed while that socket was (seen as) the current one
	}
	if id < 0 || id >= len(w.socks) {
		return
	}
	s := w.socks[id]
	if !s.open {
		w.ev("D", s.id) // datagram for a closed socket: dropped by the (fake) kernel
		return
	}
	in := c19In{timeout: timeout, port: s.srcPort}
	if in.port < 0 {
		in.port = target // nothing is known about that socket's traffic: the most favourable source there is
	}
	if !timeout {
		in.pkt = w.nextPkt
		w.nextPkt++
	}
	s.inbox = append(s.inbox, in)
	s.pushed++
	mine := s.pushed
	w.cond.Broadcast()
	gaveUp := false
	tm := time.AfterFunc(time.Millisecond, func() {
		w.mu.Lock()
		gaveUp = true
		w.cond.Broadcast()
		w.mu.Unlock()
	})
	defer tm.Stop()
	for !s.dead && s.entryHanded < mine {
		if gaveUp {
			if s.open && s.pushed-s.handed > 0 {
				// the system is at rest and the datagram is still in the socket's buffer: nobody is in ReadFrom on it
				w.ev("N", s.id, len(u.recvQueue))
				if len(u.recvQueue) < packetQueueSize {
					w.orphan++
				}
			}
			return
		}
		w.cond.Wait()
	}
}

func c19Hop(t *testing.T, c c19Case, res map[string]any) {
	if c.HP == nil {
		// a replay file from before histories carried a server address
		hp := "127.0.0.1"
		c.HP, c.Host, c.ExpErr, c.Exp = &hp, hp, "ok", []string{"7f000001"}
	}
	srv := c19Resolve(*c.HP, c.Ports, c.DNS)
	c19SrvDump(srv, res)
	res["premise"] = c19Premise(c, srv)
	ref, valid := c19Ref(c.Ports)
	if !valid || srv.refk != "" {
		t.Fatalf("bad hop case: address %q is not a valid hop address by the reference", srv.full)
	}
	w := &c19World{fail: map[int]bool{}, cerr: map[int]bool{}, serr: map[int]bool{}, srvIP: srv.refIP, srvZone: srv.refZone}
	sok, swhy := c19SrvVerdict(c, srv, nil)
	if srv.addr == nil || srv.errk != "" || srv.panicked {
		// no hop address to build a conn from: that alone is the verdict
		res["noaddr"] = true
		res["log"] = w.log
		res["census"] = [][2]int{}
		res["dtab"] = w.dests.table()
		res["ok"] = false
		res["why"] = swhy
		if srv.panicked {
			res["panic"] = true
		}
		return
	}
	addr := srv.addr
	refPorts := make([]uint16, 0, 16)
	for p := 0; p < 65536; p++ {
		if ref[p] {
			refPorts = append(refPorts, uint16(p))
		}
	}
	// a hop address that is wrong in some other way (IP, Ports, the list of addrs()): the verdict is negative already; the
	// history is run all the same and shows where the packets go
	w.cond = sync.NewCond(&w.mu)
	for _, f := range c.Fail {
		w.fail[f] = true
	}
	for _, f := range c.CErr {
		w.cerr[f] = true
	}
	for _, f := range c.SErr {
		w.serr[f] = true
	}
	drainedAll := false
	bodyPanic := false
	census := [][2]int{}
	var verdictOK = true
	var why string
	var vmu sync.Mutex
	fail := func(s string) {
		vmu.Lock()
		if verdictOK {
			verdictOK, why = false, s
		}
		vmu.Unlock()
	}
	if !sok {
		fail("hop address: " + swhy)
	}
	ctorErr := false
	panicked, pmsg := vCatch(func() {
		synctest.Test(t, func(t *testing.T) {
			rand.Seed(c.Seed)
			w.injSem = make(chan struct{}, 1)
			pc, err := NewUDPHopPacketConn(addr, HopIntervalConfig{Min: time.Duration(c.Min), Max: time.Duration(c.Max)}, w.listen)
			if err != nil {
				ctorErr = true
				return
			}
			u := pc.(*udpHopPacketConn)
			// the conn's address list: exactly one (server IP, port) per port of the set
			if aok, awhy := c19CheckAddrList(u.Addrs, refPorts, srv.refIP, srv.refZone, nil); !aok {
				fail("conn.Addrs: " + awhy)
			}
			var wg sync.WaitGroup
			// shut the conn down by force if its own Close has not done so (hopLoop and blocked readers would
			// otherwise keep the bubble alive for ever); reports whether that was necessary
			forceShut := func() (forced bool) {
				u.connMutex.Lock()
				defer u.connMutex.Unlock()
				select {
				case <-u.closeChan:
				default:
					forced = true
					close(u.closeChan)
				}
				u.closed = true
				return forced
			}
			// a panic in the bubble's main goroutine becomes a verdict; everything is then shut down so the bubble can end
			defer func() {
				if r := recover(); r != nil {
					fail("panic: " + fmt.Sprint(r))
					bodyPanic = true
					vCatch(func() { _ = u.Close() })
					vCatch(func() { forceShut() })
					w.mu.Lock()
					for _, s := range w.socks {
						s.open = false
					}
					w.cond.Broadcast()
					w.mu.Unlock()
					wg.Wait()
				}
			}()
			w.snap(u, false)
			start := time.Now()
			byW := map[int][]c19Op{}
			for _, op := range c.Ops {
				byW[op.W] = append(byW[op.W], op)
			}
			doWrite := func() {
				w.mu.Lock()
				id := w.nextWr
				w.nextWr++
				closedBefore := w.closeRet
				w.mu.Unlock()
				var b [8]byte
				binary.BigEndian.PutUint64(b[:], uint64(id))
				n, err := u.WriteTo(b[:], &net.UDPAddr{IP: net.IPv4(1, 2, 3, 4), Port: 9})
				if errors.Is(err, net.ErrClosed) && n == 0 {
					w.mu.Lock()
					w.ev("WC")
					w.mu.Unlock()
				} else if err != nil || n != 8 {
					fail("WriteTo returned an unexpected result")
				} else if closedBefore {
					fail("WriteTo succeeded after Close had returned")
				}
			}
			// ReadFrom calls are made one at a time (a channel semaphore: blocking on it is durable in the bubble), so
			// that the order of the "R" entries is the order in which the packets left the queue
			readSem := make(chan struct{}, 1)
			doRead := func() {
				readSem <- struct{}{}
				defer func() { <-readSem }()
				w.mu.Lock()
				closedBefore := w.closeRet
				rid := w.nextRid
				w.nextRid++
				w.ev("RS", rid)
				w.inRead++
				w.mu.Unlock()
				var b [64]byte
				n, a, err := u.ReadFrom(b[:])
				w.mu.Lock()
				w.inRead--
				switch {
				case err == nil:
					var id int64 = -1
					if n == 8 {
						id = int64(binary.BigEndian.Uint64(b[:8]))
					}
					w.ev("R", "pkt", id, rid)
					if a != u.Addr {
						w.mu.Unlock()
						fail("ReadFrom reports a source other than the hop address")
						w.mu.Lock()
					}
					if closedBefore {
						w.mu.Unlock()
						fail("ReadFrom returned a packet after Close had returned")
						w.mu.Lock()
					}
				case errors.Is(err, net.ErrClosed):
					w.ev("R", "closed", int64(0), rid)
				default:
					var ne net.Error
					if errors.As(err, &ne) && ne.Timeout() {
						w.ev("R", "timeout", int64(0), rid)
						if closedBefore {
							w.mu.Unlock()
							fail("ReadFrom returned a stale timeout after Close had returned")
							w.mu.Lock()
						}
					} else {
						w.ev("R", "other", int64(0), rid)
					}
				}
				w.mu.Unlock()
			}
			doClose := func() {
				w.mu.Lock()
				before := w.closeRet
				w.mu.Unlock()
				err := u.Close()
				w.mu.Lock()
				if before {
					w.ev("CL2")
					if err != nil {
						w.mu.Unlock()
						fail("second Close returned an error")
						w.mu.Lock()
					}
				} else {
					// the value returned by a Close that may have been the closing one (compared with the model's)
					w.ev("CLR", c19B(err != nil))
				}
				w.closeRet = true
				// Close has returned, whatever it returned and whatever the sockets' own Close calls reported:
				// every socket ever opened is closed from here on
				for _, s := range w.socks {
					if s.open {
						w.mu.Unlock()
						fail("socket " + strconv.Itoa(s.id) + " still open after Close returned")
						w.mu.Lock()
						break
					}
				}
				w.mu.Unlock()
			}
			// a ReadFrom that must not block (the conn is closed): made on a goroutine of its own so that a ReadFrom
			// that does block becomes a verdict instead of a hang
			readStuck := false
			probeRead := func() {
				if readStuck {
					return
				}
				done := make(chan struct{})
				wg.Add(1)
				go func() {
					defer wg.Done()
					doRead()
					close(done)
				}()
				synctest.Wait()
				select {
				case <-done:
				default:
					readStuck = true
					fail("ReadFrom blocks after Close had returned")
				}
			}
			// a ReadFrom that must not block because the queue holds an item for it (the reader catching up): made on a goroutine
			// of its own and given until the whole bubble is at rest (only then does the fake clock move).  A ReadFrom that is
			// still blocked then has thrown away what was queued, or will never see it: that is a verdict, and the reader stops
			// catching up; a plain doRead would sit there for ever while the hop timer keeps the bubble alive.  The blocked call
			// keeps the read semaphore until Close wakes it.
			var drainStuck atomic.Bool
			boundedRead := func() bool {
				if drainStuck.Load() {
					return false
				}
				done := make(chan struct{})
				wg.Add(1)
				go func() {
					defer wg.Done()
					doRead()
					close(done)
				}()
				rest := time.NewTimer(time.Millisecond)
				defer rest.Stop()
				select {
				case <-done:
					return true
				case <-rest.C:
					drainStuck.Store(true)
					fail("ReadFrom blocks although the receive queue held a packet for it: queued packets were discarded, not delivered")
					return false
				}
			}
			tm := func(v int64) time.Time {
				if v == 0 {
					return time.Time{}
				}
				return time.Unix(v, 0)
			}
			run := func(op c19Op) {
				switch op.Op {
				case "write":
					doWrite()
				case "read":
					doRead()
				case "close":
					doClose()
				case "hop":
					u.hop(0)
				case "snap":
					w.snap(u, false)
				case "inject":
					w.inject(u, op.Role, false)
				case "burst":
					// the reader has fallen behind: V datagrams in a row on one socket role
					for i := int64(0); i < op.V; i++ {
						w.inject(u, op.Role, false)
					}
				case "drainq":
					// the reader catches up: read until V items are left in the queue
					for n := len(u.recvQueue) - int(op.V); n > 0; n-- {
						if !boundedRead() {
							break
						}
					}
				case "timeout":
					w.inject(u, op.Role, true)
				case "dl":
					_ = u.SetDeadline(tm(op.V))
				case "rdl":
					_ = u.SetReadDeadline(tm(op.V))
				case "wdl":
					_ = u.SetWriteDeadline(tm(op.V))
				case "rb":
					_ = u.SetReadBuffer(int(op.V))
				case "wb":
					_ = u.SetWriteBuffer(int(op.V))
				case "local":
					if la, ok := u.LocalAddr().(*net.UDPAddr); !ok || la.Port < 10000 {
						fail("LocalAddr is not a fake socket's address")
					}
				}
			}
			for _, ops := range byW {
				wg.Add(1)
				go func(ops []c19Op) {
					defer wg.Done()
					for _, op := range ops {
						d := time.Duration(op.T)*time.Millisecond - time.Since(start)
						if d > 0 {
							time.Sleep(d)
						}
						if p, msg := vCatch(func() { run(op) }); p {
							fail("panic in " + op.Op + ": " + msg)
						}
					}
				}(ops)
			}
			// closing phase
			d := time.Duration(c.End)*time.Millisecond - time.Since(start)
			if d > 0 {
				time.Sleep(d)
			}
			synctest.Wait()
			w.snap(u, true)
			drained := c.Drain && !w.closeRet
			if drained {
				for n := len(u.recvQueue); n > 0; n-- {
					if !boundedRead() {
						break
					}
				}
				synctest.Wait()
				w.snap(u, true)
				drainedAll = !drainStuck.Load()
			}
			if c.Blk && !w.closeRet {
				// one more ReadFrom parked in its select (or served from the queue) when Close comes
				wg.Add(1)
				go func() {
					defer wg.Done()
					doRead()
				}()
				synctest.Wait()
			}
			doClose()
			synctest.Wait()
			// every ReadFrom that was blocked when Close came has been woken (all of them: they run one at a time)
			w.mu.Lock()
			parked := w.inRead
			w.mu.Unlock()
			if parked > 0 {
				readStuck = true
				fail("a ReadFrom blocked at the time of Close was not woken by Close")
			}
			w.snap(u, true)
			listensBefore := w.listens
			for i := 0; i < 2; i++ {
				u.hop(0)
				w.mu.Lock()
				w.ev("HN")
				w.mu.Unlock()
			}
			if w.listens != listensBefore {
				fail("a hop after Close called ListenUDPFunc")
			}
			for i := 0; i < 3; i++ {
				doWrite()
				probeRead()
			}
			// no hop timer is left behind: let more than two full hop intervals pass on the fake clock
			iv := time.Duration(c.Max)
			if iv <= 0 {
				iv = defaultHopInterval
			}
			time.Sleep(2*iv + time.Second)
			synctest.Wait()
			if w.listens != listensBefore {
				fail("a hop timer fired after Close and called ListenUDPFunc")
			}
			doClose()
			run(c19Op{Op: "rb", V: 777})
			w.snap(u, true)
			// a Close that returned without shutting the conn down leaves hopLoop and blocked readers behind: shut
			// it down by force so that the bubble can end (the verdict is already negative by then)
			if forceShut() {
				fail("Close returned but ReadFrom and the hop timer were never told to stop")
			}
			wg.Wait()
			synctest.Wait()
			// final census; then release the receivers of any leaked socket so that the bubble can end
			w.mu.Lock()
			for _, s := range w.socks {
				o := 0
				if s.open {
					o = 1
				}
				census = append(census, [2]int{o, s.closes})
				s.open = false
			}
			w.cond.Broadcast()
			w.mu.Unlock()
		})
	})
	if bodyPanic {
		panicked, pmsg = true, strings.TrimPrefix(why, "panic: ")
	}
	if panicked {
		res["panic"] = true
		res["ok"] = false
		res["why"] = "panic: " + pmsg
		res["log"] = w.log
		res["dtab"] = w.dests.table()
		return
	}
	res["ctor_err"] = ctorErr
	res["dtab"] = w.dests.table()
	res["log"] = w.log
	res["nports"] = len(addr.Ports)
	res["census"] = census
	// ---------------- verdict on the log alone
	if ctorErr {
		if !w.fail[0] {
			fail("constructor failed although listen succeeded")
		}
		if len(w.socks) != 0 {
			fail("constructor failed but a socket was created")
		}
	} else {
		newest := -1
		nopen := 0
		open := map[int]bool{}
		closedSeen := false
		arrived := []int64{}
		readPk := []int64{}
		droppedFull := false
		hadFull := false
		qlen := 0
		for _, e := range w.log {
			switch e[0].(string) {
			case "L":
				if e[1].(int) == 1 {
					newest = e[2].(int)
					open[newest] = true
					nopen++
					if closedSeen {
						fail("socket opened after Close")
					}
				}
			case "C":
				k := e[1].(int)
				if !open[k] {
					fail("socket " + strconv.Itoa(k) + " closed twice")
				} else {
					open[k] = false
					nopen--
				}
			case "W":
				if e[1].(int) != newest {
					fail("write sent from socket " + strconv.Itoa(e[1].(int)) + " although " + strconv.Itoa(newest) + " is the newest")
				}
				p := e[2].(int)
				if p < 0 || p > 65535 || !ref[p] {
					fail("write to port " + strconv.Itoa(p) + " outside the configured set")
				}
				if e[4].(int) != 1 {
					fail("write to an IP other than the server's")
				}
				if closedSeen {
					fail("socket write after Close")
				}
			case "SN":
				prev, cur, idx, cl, no := e[1].(int), e[2].(int), e[3].(int), e[4].(int), e[6].(int)
				if cl == 1 {
					closedSeen = true
					if no != 0 {
						fail("a socket is still open after Close")
					}
				} else {
					if no > 2 {
						fail(strconv.Itoa(no) + " sockets open between hops")
					}
					want := 1
					if prev >= 0 {
						want = 2
					}
					if no != want || cur < 0 || !open[cur] || (prev >= 0 && !open[prev]) || cur != newest {
						fail("open sockets are not exactly {prev,cur} / cur is not the newest")
					}
					if idx < 0 || idx >= len(addr.Ports) {
						fail("address index out of range")
					}
				}
			case "A":
				if qlen < packetQueueSize {
					arrived = append(arrived, e[2].(int64))
					qlen++
				} else {
					droppedFull = true
					hadFull = true
				}
			case "T":
				if qlen < packetQueueSize {
					arrived = append(arrived, -2)
					qlen++
				}
			case "N":
				// (log only) at rest, a datagram sat in the buffer of a socket that the log shows open, and by the log's
				// own count the queue had room: the receiver of that socket has stopped although the socket is open.
				// An overflow may cost the packets that met the full queue, nothing after the reader caught up.
				if k := e[1].(int); open[k] && qlen < packetQueueSize {
					if hadFull {
						fail("after the queue had been full and was read down again, a datagram on open socket " + strconv.Itoa(k) + " is never taken: its receiver stopped at the overflow")
					} else {
						fail("a datagram on open socket " + strconv.Itoa(k) + " is never taken although the queue has room: no receiver is reading it")
					}
				}
			case "R":
				switch e[1].(string) {
				case "pkt":
					readPk = append(readPk, e[2].(int64))
					qlen--
				case "timeout":
					readPk = append(readPk, -2)
					qlen--
				case "other":
					fail("ReadFrom returned an unknown error")
				}
			}
		}
		_ = droppedFull
		// reads return the arrivals in order, nothing invented, nothing duplicated
		if len(readPk) > len(arrived) {
			fail("more packets read than arrived")
		} else {
			for i := range readPk {
				if readPk[i] != arrived[i] {
					fail("packets not delivered in arrival order (or a packet was lost)")
					break
				}
			}
			if drainedAll && len(readPk) != len(arrived) {
				fail("a packet that arrived on an open socket was not delivered")
			}
		}
		if w.lateListen {
			fail("ListenUDPFunc called after Close had returned")
		}
		if w.orphan > 0 {
			fail("a datagram arrived on an open socket that nobody reads (no receiver was started for it): never delivered")
		}
		for id, sc := range census {
			if sc[0] == 1 {
				fail("socket " + strconv.Itoa(id) + " left open after Close")
			}
			if sc[1] != 1 {
				fail("socket " + strconv.Itoa(id) + " closed " + strconv.Itoa(sc[1]) + " times")
			}
		}
	}
	res["ok"] = verdictOK
	res["why"] = why
}
