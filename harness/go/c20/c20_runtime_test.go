//go:build verif

package cmd

// C20 harness, runtime stage: socket ownership in the realm server runtime of app/cmd/server.go.
//
// The existing C20 harness (extras/realm) drives the PunchPacketConn demultiplexer alone.  This one
// drives the code that OWNS the socket: startRealmServerRuntime (startup STUN discovery on the
// socket itself, registration), then - with a QUIC-side reader looping on PunchPacketConn.ReadFrom
// exactly as the QUIC server does once fillRealmConn has handed the conn over - the session
// goroutines (heartbeat, events stream, punch responses) and the re-registration path after a
// lost session (registerWithBackoff: STUN refresh, Register with back-off), against
//   * a real UDP socket on 127.0.0.1:0 (wrapped only to LOG who calls ReadFrom / SetReadDeadline),
//   * fake STUN servers on 127.0.0.1:0 (scripted: answer, answer late, never answer, duplicate),
//   * an httptest rendezvous server (scripted register / heartbeat / events / connects replies),
//   * a sender socket that injects a stream of datagrams (QUIC-like, near-STUN, punch packets of an
//     attempt nobody registered = all must reach the reader; STUN binding responses and punch
//     packets of a registered attempt = must be withheld), in bursts placed INSIDE every STUN
//     round trip and every rendezvous request, plus a background trickle.
//
// Verdict on the implementation alone: what the QUIC-side ReadFrom returned is, byte for byte and
// in order, exactly the sequence of non-STUN non-punch datagrams that were sent while it was
// serving (none missing = none consumed by anybody else, none twice, none altered), nothing that
// had to be withheld came out, and ReadFrom never failed (a read deadline armed on the shared
// socket by another party makes it fail with a timeout).  The raw-socket log (who read which
// datagram in which phase, who set deadlines) is written out for the Coq socket-ownership model.

import (
	"bytes"
	"context"
	"encoding/binary"
	"encoding/hex"
	"encoding/json"
	"errors"
	"fmt"
	"io"
	"net"
	"net/http"
	"net/http/httptest"
	"reflect"
	"runtime"
	"strings"
	"sync"
	"sync/atomic"
	"testing"
	"time"
	"unsafe"

	"go.uber.org/zap"

	"github.com/apernet/hysteria/extras/v2/realm"
)

type c20rtDg struct {
	Hex  string `json:"hex"`
	Kind string `json:"kind"` // quic | near-stun | punch-foreign | random (pass) ; stun | punch (withheld)
}

type c20rtStun struct {
	Mode  string `json:"mode"`  // ok | drop | fast | dupe | wrongtx
	Burst int    `json:"burst"` // datagrams injected between the request and the answer
	Map   int    `json:"map"`   // which mapped address the answer carries
}

type c20rtEv struct {
	Mode   string `json:"mode"`   // hold | gone | unauth | fail | drop | punch
	Expire bool   `json:"expire"` // punch: the cached STUN result is older than the cache TTL (time has passed)
	HoldMs int    `json:"hold_ms"` // punch: the stream drops after this long (0 = stays open until the session ends)
}

type c20rtCase struct {
	K       string        `json:"k"`
	StunTmo int           `json:"stun_tmo_ms"`
	HbMs    int           `json:"hb_ms"`
	TTL     int           `json:"ttl"`
	PunchMs int           `json:"punch_ms"`
	Stun    [][]c20rtStun `json:"stun"` // per STUN server, per request (beyond the list: ok, burst 0)
	Reg     []string      `json:"reg"`  // replies to successive Register calls: ok | fail | fatal (beyond: ok)
	Hb      [][]string    `json:"hb"`   // per session, replies to successive heartbeats: ok | fail | gone | unauth (beyond: ok)
	Ev      [][]c20rtEv   `json:"ev"`   // per session, successive events requests (beyond: hold)
	Meta    [2]string     `json:"meta"` // attempt registered on the conn for the whole run
	RtMeta  [2]string     `json:"rtmeta"`
	RtPunch []string      `json:"rtpunch"` // punch packets of the attempt the runtime itself registers (either fate is fine)
	Dg      []c20rtDg     `json:"dg"`      // the stream, in sending order
	Early   []string      `json:"early"`   // datagrams sent during startup, before anything serves
	EndRegs int           `json:"end_regs"`
	TailHb  int           `json:"tail_hb"`
	Trickle int           `json:"trickle"`
	TrickMs int           `json:"trickle_ms"`
	BReg    int           `json:"b_reg"`
	BHb     int           `json:"b_hb"`
	BEv     int           `json:"b_ev"`
	Final   int           `json:"final"`
}

// ---------------------------------------------------------------- raw socket log

type c20rtRead struct {
	Who     string `json:"who"`  // quic | via (PunchPacketConn.ReadFrom, not the QUIC side) | direct (the raw socket)
	Site    string `json:"site"` // quic | startup | reregister | connect | other
	Fn      string `json:"fn"`
	Hex     string `json:"hex"`
	Port    int    `json:"port"`
	Serving bool   `json:"serving"`
	Err     string `json:"err,omitempty"`
}

type c20rtDl struct {
	Who     string `json:"who"`
	Site    string `json:"site"`
	Fn      string `json:"fn"`
	Zero    bool   `json:"zero"`
	Serving bool   `json:"serving"`
	At      int    `json:"at"` // number of raw reads logged before it
}

type c20rtSock struct {
	*net.UDPConn
	mu      sync.Mutex
	reads   []c20rtRead
	dls     []c20rtDl
	serving atomic.Bool
	closed  atomic.Bool
}

const c20rtQuicFn = "c20rtQuicLoop"

// who is calling: read off the call stack, never off /repo's data structures
func c20rtCaller() (who, site, fn string) {
	pcs := make([]uintptr, 48)
	n := runtime.Callers(3, pcs)
	frames := runtime.CallersFrames(pcs[:n])
	quic, via, inRun := false, false, false
	site = "other"
	for {
		f, more := frames.Next()
		name := vCanonNames(f.Function)
		switch {
		case strings.Contains(name, "cmd.c20rtRun"):
			inRun = true // the harness calls startRealmServerRuntime synchronously: whatever it reads is the startup's doing
		case strings.Contains(name, c20rtQuicFn):
			quic = true
		case strings.Contains(name, "PunchPacketConn).ReadFrom"):
			via = true
		case strings.Contains(name, "/app/") && strings.Contains(name, "/cmd."):
			short := name[strings.LastIndex(name, "/cmd.")+5:]
			if strings.Contains(short, "c20rt") {
				break
			}
			if fn == "" {
				fn = strings.NewReplacer("(", "", ")", "", "*", "").Replace(short)
			}
			switch {
			case strings.Contains(short, "startRealmServerRuntime"):
				site = "startup"
			case strings.Contains(short, "registerWithBackoff"):
				if site == "other" {
					site = "reregister"
				}
			case strings.Contains(short, "connectAddrs") || strings.Contains(short, ").respond"):
				if site == "other" {
					site = "connect"
				}
			}
		}
		if !more {
			break
		}
	}
	if inRun && site == "other" {
		site = "startup"
	}
	switch {
	case quic:
		return "quic", "quic", fn
	case via:
		return "via", site, fn
	}
	return "direct", site, fn
}

func (s *c20rtSock) ReadFrom(p []byte) (int, net.Addr, error) {
	n, addr, err := s.UDPConn.ReadFrom(p)
	if s.closed.Load() {
		return n, addr, err
	}
	who, site, fn := c20rtCaller()
	e := c20rtRead{Who: who, Site: site, Fn: fn, Serving: s.serving.Load()}
	if err != nil {
		e.Err = c20rtErrClass(err)
	} else {
		e.Hex = hex.EncodeToString(p[:n])
		if ua, ok := addr.(*net.UDPAddr); ok {
			e.Port = ua.Port
		}
	}
	s.mu.Lock()
	s.reads = append(s.reads, e)
	s.mu.Unlock()
	return n, addr, err
}

func (s *c20rtSock) noteDeadline(t time.Time) {
	who, site, fn := c20rtCaller()
	s.mu.Lock()
	s.dls = append(s.dls, c20rtDl{Who: who, Site: site, Fn: fn, Zero: t.IsZero(), Serving: s.serving.Load(), At: len(s.reads)})
	s.mu.Unlock()
}

func (s *c20rtSock) SetReadDeadline(t time.Time) error {
	if !s.closed.Load() {
		s.noteDeadline(t)
	}
	return s.UDPConn.SetReadDeadline(t)
}

func (s *c20rtSock) SetDeadline(t time.Time) error {
	if !s.closed.Load() {
		s.noteDeadline(t)
	}
	return s.UDPConn.SetDeadline(t)
}

func c20rtErrClass(err error) string {
	var ne net.Error
	switch {
	case errors.Is(err, net.ErrClosed):
		return "closed"
	case errors.As(err, &ne) && ne.Timeout():
		return "timeout"
	}
	return "other"
}

// ---------------------------------------------------------------- the QUIC side

type c20rtQuic struct {
	mu   sync.Mutex
	got  [][]byte
	from []int
	errs []string
	wake chan struct{}
	// pass-kind datagrams of the stream by their bytes -> ordinal; maxOrd = 1 + the highest ordinal seen.  One sender
	// socket, one receiving socket: what is below maxOrd has left the socket buffer (taken by somebody).
	ord    map[string]int
	maxOrd int
}

// the QUIC server's receive loop as far as the socket is concerned: one goroutine, one reused
// buffer, ReadFrom on the conn that fillRealmConn hands over
func c20rtQuicLoop(pc net.PacketConn, q *c20rtQuic, stop *atomic.Bool, done chan struct{}) {
	defer close(done)
	buf := make([]byte, 2048)
	for {
		n, addr, err := pc.ReadFrom(buf)
		if stop.Load() {
			return
		}
		q.mu.Lock()
		if err != nil {
			cls := c20rtErrClass(err)
			if len(q.errs) < 64 {
				q.errs = append(q.errs, cls)
			}
			q.mu.Unlock()
			if cls == "closed" || len(q.errs) >= 64 {
				return
			}
			time.Sleep(time.Millisecond)
			continue
		}
		q.got = append(q.got, append([]byte(nil), buf[:n]...))
		port := -1
		if ua, ok := addr.(*net.UDPAddr); ok {
			port = ua.Port
		}
		q.from = append(q.from, port)
		if o, ok := q.ord[string(buf[:n])]; ok && o+1 > q.maxOrd {
			q.maxOrd = o + 1
		}
		q.mu.Unlock()
		select {
		case q.wake <- struct{}{}:
		default:
		}
	}
}

// ---------------------------------------------------------------- sender

type c20rtSender struct {
	mu      sync.Mutex
	sock    *net.UDPConn
	to      *net.UDPAddr
	dg      [][]byte
	kinds   []string
	next    int // next index of dg to send
	passSnt int // pass-kind datagrams sent so far
	q       *c20rtQuic
	serving *atomic.Bool
	stalls  int
	endSent bool
}

func c20rtPass(kind string) bool { return kind != "stun" && kind != "punch" }

// at most `win` datagrams the QUIC side has not been seen to take or skip: the socket buffer never overflows
func (s *c20rtSender) window() {
	deadline := time.Now().Add(6 * time.Second)
	for {
		s.q.mu.Lock()
		got := s.q.maxOrd
		s.q.mu.Unlock()
		if s.passSnt-got < 40 || time.Now().After(deadline) {
			if s.passSnt-got >= 40 {
				s.stalls++
				s.q.mu.Lock()
				s.q.maxOrd = s.passSnt // what is outstanding is gone: go on
				s.q.mu.Unlock()
			}
			return
		}
		select {
		case <-s.q.wake:
		case <-time.After(20 * time.Millisecond):
		}
	}
}

func (s *c20rtSender) burst(n int, pace time.Duration) {
	if n <= 0 || !s.serving.Load() {
		return
	}
	s.mu.Lock()
	defer s.mu.Unlock()
	for i := 0; i < n && s.next < len(s.dg) && !s.endSent; i++ {
		if c20rtPass(s.kinds[s.next]) {
			s.window()
			s.passSnt++
		}
		_, _ = s.sock.WriteToUDP(s.dg[s.next], s.to)
		s.next++
		if pace > 0 {
			time.Sleep(pace)
		}
	}
}

func (s *c20rtSender) raw(p []byte) {
	s.mu.Lock()
	_, _ = s.sock.WriteToUDP(p, s.to)
	s.mu.Unlock()
}

// ---------------------------------------------------------------- STUN

const c20rtCookie = 0x2112A442

func c20rtBindingSuccess(txID []byte, k int) []byte {
	b := make([]byte, 32)
	binary.BigEndian.PutUint16(b[0:2], 0x0101)
	binary.BigEndian.PutUint16(b[2:4], 12)
	binary.BigEndian.PutUint32(b[4:8], c20rtCookie)
	copy(b[8:20], txID)
	binary.BigEndian.PutUint16(b[20:22], 0x0020)
	binary.BigEndian.PutUint16(b[22:24], 8)
	b[25] = 0x01
	binary.BigEndian.PutUint16(b[26:28], uint16(4000+k)^uint16(c20rtCookie>>16))
	ip := binary.BigEndian.Uint32([]byte{203, 0, 113, byte(10 + k%200)})
	binary.BigEndian.PutUint32(b[28:32], ip^c20rtCookie)
	return b
}

type c20rtWorld struct {
	c       c20rtCase
	snd     *c20rtSender
	serving *atomic.Bool
	early   [][]byte

	mu        sync.Mutex
	stunCalls []int
	stunServ  int // requests seen while serving
	regCalls  int
	sessions  int
	fatal     bool
	hbCalls   map[int]int
	evCalls   map[int]int
	connects  int
	done      chan struct{}
	doneOnce  sync.Once
	over      chan struct{} // closed when the case is being torn down
	rt        atomic.Pointer[realmServerRuntime]
	expired   int
}

func (w *c20rtWorld) stunServer(idx int, sock *net.UDPConn) {
	buf := make([]byte, 1500)
	for {
		n, from, err := sock.ReadFromUDP(buf)
		if err != nil {
			return
		}
		if n < 20 || binary.BigEndian.Uint16(buf[0:2]) != 0x0001 || binary.BigEndian.Uint32(buf[4:8]) != c20rtCookie {
			continue
		}
		tx := append([]byte(nil), buf[8:20]...)
		w.mu.Lock()
		k := w.stunCalls[idx]
		w.stunCalls[idx]++
		step := c20rtStun{Mode: "ok"}
		if idx < len(w.c.Stun) && k < len(w.c.Stun[idx]) {
			step = w.c.Stun[idx][k]
		}
		serving := w.serving.Load()
		if serving {
			w.stunServ++
		}
		w.mu.Unlock()
		go func() {
			if !serving {
				// startup: nobody serves yet; whatever arrives now may be dropped by the discovery
				if idx == 0 && k == 0 {
					for _, e := range w.early {
						w.snd.raw(e)
					}
				}
			} else if step.Mode == "fast" {
				_, _ = sock.WriteToUDP(c20rtBindingSuccess(tx, step.Map), from)
				w.snd.burst(step.Burst, time.Millisecond)
				return
			} else {
				w.snd.burst(step.Burst, time.Millisecond)
			}
			switch step.Mode {
			case "drop":
				if !serving {
					_, _ = sock.WriteToUDP(c20rtBindingSuccess(tx, step.Map), from) // startup always gets its answer
				}
			case "dupe":
				_, _ = sock.WriteToUDP(c20rtBindingSuccess(tx, step.Map), from)
				_, _ = sock.WriteToUDP(c20rtBindingSuccess(tx, step.Map), from)
			case "wrongtx":
				other := append([]byte(nil), tx...)
				other[3] ^= 0x55
				_, _ = sock.WriteToUDP(c20rtBindingSuccess(other, step.Map+1), from)
				w.snd.burst(step.Burst/2, time.Millisecond)
				_, _ = sock.WriteToUDP(c20rtBindingSuccess(tx, step.Map), from)
			default:
				_, _ = sock.WriteToUDP(c20rtBindingSuccess(tx, step.Map), from)
			}
		}()
	}
}

// ---------------------------------------------------------------- rendezvous

func (w *c20rtWorld) sessionOf(r *http.Request) int {
	tok := strings.TrimPrefix(r.Header.Get("Authorization"), "Bearer ")
	var k int
	if _, err := fmt.Sscanf(tok, "c20rt-sess-%d", &k); err != nil {
		return -1
	}
	return k
}

func (w *c20rtWorld) checkDone() {
	// under w.mu
	last := w.sessions - 1
	if w.fatal || (w.sessions >= w.c.EndRegs && w.hbCalls[last] >= w.c.TailHb) {
		w.doneOnce.Do(func() { close(w.done) })
	}
}

func c20rtStatus(rw http.ResponseWriter, code int, name string) {
	rw.Header().Set("Content-Type", "application/json")
	rw.WriteHeader(code)
	_, _ = rw.Write([]byte(`{"error":"` + name + `","message":"scripted"}`))
}

func (w *c20rtWorld) handler(rw http.ResponseWriter, r *http.Request) {
	_, _ = io.Copy(io.Discard, r.Body)
	parts := strings.Split(strings.Trim(r.URL.Path, "/"), "/")
	if len(parts) < 2 || parts[0] != "v1" || parts[1] != "c20rt" {
		http.NotFound(rw, r)
		return
	}
	sub := strings.Join(parts[2:], "/")
	switch {
	case r.Method == http.MethodPost && sub == "":
		w.mu.Lock()
		k := w.regCalls
		w.regCalls++
		reply := "ok"
		if k < len(w.c.Reg) {
			reply = w.c.Reg[k]
		}
		w.mu.Unlock()
		w.snd.burst(w.c.BReg, time.Millisecond)
		switch reply {
		case "fail":
			c20rtStatus(rw, 500, "internal")
		case "fatal":
			w.mu.Lock()
			w.fatal = true
			w.checkDone()
			w.mu.Unlock()
			c20rtStatus(rw, 400, "bad_request")
		default:
			w.mu.Lock()
			s := w.sessions
			w.sessions++
			w.checkDone()
			w.mu.Unlock()
			rw.Header().Set("Content-Type", "application/json")
			_, _ = fmt.Fprintf(rw, `{"session_id":"c20rt-sess-%d","ttl":%d}`, s, w.c.TTL)
		}
	case r.Method == http.MethodPost && sub == "heartbeat":
		s := w.sessionOf(r)
		w.mu.Lock()
		cur := w.sessions - 1
		k := w.hbCalls[s]
		w.hbCalls[s]++
		reply := "ok"
		if s >= 0 && s < len(w.c.Hb) && k < len(w.c.Hb[s]) {
			reply = w.c.Hb[s][k]
		}
		if s != cur {
			reply = "gone"
		}
		w.checkDone()
		w.mu.Unlock()
		w.snd.burst(w.c.BHb, time.Millisecond)
		switch reply {
		case "fail":
			c20rtStatus(rw, 500, "internal")
		case "gone":
			c20rtStatus(rw, 404, "not_found")
		case "unauth":
			c20rtStatus(rw, 401, "unauthorized")
		default:
			rw.Header().Set("Content-Type", "application/json")
			_, _ = fmt.Fprintf(rw, `{"ttl":%d}`, w.c.TTL)
		}
	case r.Method == http.MethodGet && sub == "events":
		s := w.sessionOf(r)
		w.mu.Lock()
		cur := w.sessions - 1
		k := w.evCalls[s]
		w.evCalls[s]++
		step := c20rtEv{Mode: "hold"}
		if s >= 0 && s < len(w.c.Ev) && k < len(w.c.Ev[s]) {
			step = w.c.Ev[s][k]
		}
		if s != cur {
			step = c20rtEv{Mode: "gone"}
		}
		w.mu.Unlock()
		w.snd.burst(w.c.BEv, time.Millisecond)
		switch step.Mode {
		case "gone":
			c20rtStatus(rw, 404, "not_found")
			return
		case "unauth":
			c20rtStatus(rw, 401, "unauthorized")
			return
		case "fail":
			c20rtStatus(rw, 500, "internal")
			return
		}
		rw.Header().Set("Content-Type", "text/event-stream")
		rw.WriteHeader(200)
		fl, _ := rw.(http.Flusher)
		_, _ = rw.Write([]byte(": hello\n\n"))
		if fl != nil {
			fl.Flush()
		}
		if step.Mode == "drop" {
			return
		}
		if step.Mode == "punch" {
			if step.Expire {
				if rt := w.rt.Load(); rt != nil {
					w.mu.Lock()
					w.expired += c20rtExpireCache(rt)
					w.mu.Unlock()
				}
			}
			ev := map[string]any{"addresses": []string{w.snd.sock.LocalAddr().String()}, "nonce": w.c.RtMeta[0], "obfs": w.c.RtMeta[1]}
			b, _ := json.Marshal(ev)
			_, _ = rw.Write([]byte("event: punch\ndata: " + string(b) + "\n\n"))
			if fl != nil {
				fl.Flush()
			}
		}
		var drop <-chan time.Time
		if step.Mode == "punch" && step.HoldMs > 0 {
			drop = time.After(time.Duration(step.HoldMs) * time.Millisecond)
		}
		select {
		case <-r.Context().Done():
		case <-w.over:
		case <-drop:
		}
	case r.Method == http.MethodPost && strings.HasPrefix(sub, "connects/"):
		w.mu.Lock()
		w.connects++
		w.mu.Unlock()
		w.snd.burst(w.c.BEv, time.Millisecond)
		go func() {
			// the peer's hello packets: the runtime registers the attempt right after this request
			for i, h := range w.c.RtPunch {
				time.Sleep(time.Duration(15+10*i) * time.Millisecond)
				if b, err := hex.DecodeString(h); err == nil {
					w.snd.raw(b)
				}
			}
		}()
		rw.WriteHeader(204)
	case r.Method == http.MethodDelete && sub == "":
		rw.WriteHeader(204)
	default:
		http.NotFound(rw, r)
	}
}

// "ten seconds later": the runtime's cached STUN result is stale.  The cache is a time.Time next to
// a mutex in the runtime struct; found by type so that a renamed field does not break the harness.
func c20rtExpireCache(rt *realmServerRuntime) int {
	v := reflect.ValueOf(rt).Elem()
	var mu *sync.Mutex
	for i := 0; i < v.NumField(); i++ {
		if f := v.Field(i); f.Type() == reflect.TypeOf(sync.Mutex{}) && mu == nil {
			mu = (*sync.Mutex)(unsafe.Pointer(f.UnsafeAddr()))
		}
	}
	if mu != nil {
		mu.Lock()
		defer mu.Unlock()
	}
	n := 0
	for i := 0; i < v.NumField(); i++ {
		if f := v.Field(i); f.Type() == reflect.TypeOf(time.Time{}) {
			*(*time.Time)(unsafe.Pointer(f.UnsafeAddr())) = time.Time{}
			n++
		}
	}
	return n
}

// ---------------------------------------------------------------- one case

func c20rtRun(c c20rtCase, res map[string]any) {
	sockU, err := net.ListenUDP("udp4", &net.UDPAddr{IP: net.IPv4(127, 0, 0, 1)})
	if err != nil {
		res["skip"] = "listen: " + err.Error()
		return
	}
	_ = sockU.SetReadBuffer(4 << 20)
	sock := &c20rtSock{UDPConn: sockU}
	defer func() { sock.closed.Store(true); _ = sockU.Close() }()
	punchConn, err := realm.NewPunchPacketConn(sock, 0)
	if err != nil {
		res["skip"] = "NewPunchPacketConn: " + err.Error()
		return
	}
	if err := punchConn.AddPunchAttempt("c20rt-attempt", realm.PunchMetadata{Nonce: c.Meta[0], Obfs: c.Meta[1]}); err != nil {
		res["skip"] = "AddPunchAttempt: " + err.Error()
		return
	}

	sndSock, err := net.ListenUDP("udp4", &net.UDPAddr{IP: net.IPv4(127, 0, 0, 1)})
	if err != nil {
		res["skip"] = "listen: " + err.Error()
		return
	}
	defer sndSock.Close()
	go func() { // hello / ack packets the runtime sends to the "peer"
		b := make([]byte, 2048)
		for {
			if _, _, err := sndSock.ReadFromUDP(b); err != nil {
				return
			}
		}
	}()

	q := &c20rtQuic{wake: make(chan struct{}, 1), ord: map[string]int{}}
	snd := &c20rtSender{sock: sndSock, to: sockU.LocalAddr().(*net.UDPAddr), q: q, serving: &sock.serving}
	for _, d := range c.Dg {
		b, err := hex.DecodeString(d.Hex)
		if err != nil {
			res["skip"] = "bad case"
			return
		}
		snd.dg = append(snd.dg, b)
		snd.kinds = append(snd.kinds, d.Kind)
		if c20rtPass(d.Kind) {
			q.ord[string(b)] = len(q.ord)
		}
	}
	w := &c20rtWorld{c: c, snd: snd, serving: &sock.serving, hbCalls: map[int]int{}, evCalls: map[int]int{},
		done: make(chan struct{}), over: make(chan struct{})}
	for _, e := range c.Early {
		b, _ := hex.DecodeString(e)
		w.early = append(w.early, b)
	}

	nstun := len(c.Stun)
	if nstun == 0 {
		nstun = 1
	}
	var stunAddrs []string
	w.stunCalls = make([]int, nstun)
	for i := 0; i < nstun; i++ {
		ss, err := net.ListenUDP("udp4", &net.UDPAddr{IP: net.IPv4(127, 0, 0, 1)})
		if err != nil {
			res["skip"] = "listen: " + err.Error()
			return
		}
		defer ss.Close()
		stunAddrs = append(stunAddrs, ss.LocalAddr().String())
		go w.stunServer(i, ss)
	}

	srv := httptest.NewServer(http.HandlerFunc(w.handler))
	defer func() {
		close(w.over)
		srv.CloseClientConnections()
		srv.Close()
	}()
	addr, err := realm.ParseAddr("realm+http://c20rt-token@" + strings.TrimPrefix(srv.URL, "http://") + "/c20rt")
	if err != nil {
		res["skip"] = "ParseAddr: " + err.Error()
		return
	}

	cfg := &serverConfig{}
	cfg.Realm = serverConfigRealm{
		STUNServers:       stunAddrs,
		STUNTimeout:       time.Duration(c.StunTmo) * time.Millisecond,
		PunchTimeout:      time.Duration(c.PunchMs) * time.Millisecond,
		HeartbeatInterval: time.Duration(c.HbMs) * time.Millisecond,
		IPMode:            "v4",
	}
	ctx, cancel := context.WithCancel(context.Background())
	defer cancel()

	// ---- startup: fillRealmConn's order - the runtime is started BEFORE the conn is handed to QUIC
	var rt *realmServerRuntime
	for try := 0; ; try++ {
		rt, err = cfg.startRealmServerRuntime(ctx, cancel, addr, punchConn, realm.AddrFamilyIPv4)
		if err == nil {
			break
		}
		if try == 2 || ctx.Err() != nil {
			res["skip"] = "startup failed: " + c20rtErrText(err)
			return
		}
	}
	w.rt.Store(rt)

	// ---- serving
	var stop atomic.Bool
	readerDone := make(chan struct{})
	sock.serving.Store(true)
	go c20rtQuicLoop(punchConn, q, &stop, readerDone)

	trickleDone := make(chan struct{})
	go func() {
		defer close(trickleDone)
		for i := 0; i < c.Trickle; i++ {
			select {
			case <-w.done:
				return
			case <-time.After(time.Duration(c.TrickMs) * time.Millisecond):
			}
			snd.burst(1, 0)
		}
	}()

	stalled := ""
	select {
	case <-w.done:
	case <-time.After(90 * time.Second):
		w.mu.Lock()
		stalled = fmt.Sprintf("the runtime did not get through the scripted history within 90 s (register calls %d, sessions %d)", w.regCalls, w.sessions)
		w.mu.Unlock()
	}
	<-trickleDone
	time.Sleep(30 * time.Millisecond) // let a re-registration that has just been answered settle
	snd.burst(c.Final, time.Millisecond)

	// ---- the end marker: the last pass-kind datagram of the stream
	snd.mu.Lock()
	snd.endSent = true
	nsent := snd.next
	snd.mu.Unlock()
	endMark := append([]byte{0x41}, []byte("c20rt-end-of-stream-marker")...)
	for try := 0; try < 3; try++ {
		snd.raw(endMark)
		deadline := time.After(4 * time.Second)
		seen := false
	wait:
		for {
			q.mu.Lock()
			for _, g := range q.got {
				if bytes.Equal(g, endMark) {
					seen = true
				}
			}
			q.mu.Unlock()
			if seen {
				break wait
			}
			select {
			case <-q.wake:
			case <-time.After(25 * time.Millisecond):
			case <-deadline:
				break wait
			}
		}
		if seen {
			break
		}
	}

	// ---- teardown
	sock.mu.Lock()
	reads := append([]c20rtRead(nil), sock.reads...)
	dls := append([]c20rtDl(nil), sock.dls...)
	sock.mu.Unlock()
	q.mu.Lock()
	got := append([][]byte(nil), q.got...)
	from := append([]int(nil), q.from...)
	qerrs := append([]string(nil), q.errs...)
	q.mu.Unlock()
	stop.Store(true)
	sock.closed.Store(true)
	_ = rt.Close()
	_ = sockU.Close()
	select {
	case <-readerDone:
	case <-time.After(5 * time.Second):
	}

	// ---- verdict on the implementation alone
	sndPort := sndSock.LocalAddr().(*net.UDPAddr).Port
	early := map[string]bool{}
	for _, e := range w.early {
		early[string(e)] = true
	}
	dontcare := map[string]bool{string(endMark): true}
	for _, h := range c.RtPunch {
		if b, err := hex.DecodeString(h); err == nil {
			dontcare[string(b)] = true
		}
	}
	var want [][]byte
	var wantIdx []int
	for i := 0; i < nsent; i++ {
		if c20rtPass(snd.kinds[i]) {
			want = append(want, snd.dg[i])
			wantIdx = append(wantIdx, i)
		}
	}
	var have [][]byte
	var gotHex []string
	badFrom := -1
	for i, g := range got {
		gotHex = append(gotHex, hex.EncodeToString(g))
		if early[string(g)] || dontcare[string(g)] {
			continue
		}
		if from[i] != sndPort && badFrom < 0 {
			badFrom = i
		}
		have = append(have, g)
	}
	ok, why := true, ""
	fail := func(s string) {
		if ok {
			ok, why = false, s
		}
	}
	// who took a datagram that QUIC did not get
	taker := func(b []byte) string {
		h := hex.EncodeToString(b)
		for _, r := range reads {
			if r.Hex == h && r.Who != "quic" {
				return fmt.Sprintf("; the socket handed it to a second reader: %s read (%s, in %s) while QUIC was serving=%v", r.Who, r.Fn, r.Site, r.Serving)
			}
		}
		return ""
	}
	kindIdx := map[string]int{}
	for i := 0; i < nsent; i++ {
		kindIdx[string(snd.dg[i])] = i
	}
	j := 0
	for i := 0; i < len(want) && ok; i++ {
		if j < len(have) && bytes.Equal(have[j], want[i]) {
			j++
			continue
		}
		// is it further on (then something unexpected came first) or missing?
		found := -1
		for k := j; k < len(have) && k < j+400; k++ {
			if bytes.Equal(have[k], want[i]) {
				found = k
				break
			}
		}
		if found < 0 {
			missing := 0
			seen := map[string]bool{}
			for _, g := range have {
				seen[string(g)] = true
			}
			for _, x := range want {
				if !seen[string(x)] {
					missing++
				}
			}
			fail(fmt.Sprintf("a datagram that is neither a STUN response nor a punch packet of a registered attempt, sent to the realm socket while QUIC was serving, never came out of the QUIC-side ReadFrom: datagram %d of the stream (kind %s, %d bytes); %d of %d such datagrams withheld from QUIC%s",
				wantIdx[i], snd.kinds[wantIdx[i]], len(want[i]), missing, len(want), taker(want[i])))
		} else {
			x := have[j]
			if idx, known := kindIdx[string(x)]; known && !c20rtPass(snd.kinds[idx]) {
				fail(fmt.Sprintf("datagram %d of the stream (kind %s: must be withheld) came out of the QUIC-side ReadFrom", idx, snd.kinds[idx]))
			} else if known {
				fail(fmt.Sprintf("the QUIC-side ReadFrom returned datagram %d of the stream out of order or twice (expected datagram %d next)", idx, wantIdx[i]))
			} else {
				fail(fmt.Sprintf("the QUIC-side ReadFrom returned a datagram (%d bytes) that was never sent: altered in transit through the conn", len(x)))
			}
		}
	}
	if ok && j < len(have) {
		x := have[j]
		if idx, known := kindIdx[string(x)]; known && !c20rtPass(snd.kinds[idx]) {
			fail(fmt.Sprintf("datagram %d of the stream (kind %s: must be withheld) came out of the QUIC-side ReadFrom", idx, snd.kinds[idx]))
		} else if known {
			fail(fmt.Sprintf("the QUIC-side ReadFrom returned datagram %d of the stream twice", idx))
		} else {
			fail(fmt.Sprintf("the QUIC-side ReadFrom returned a datagram (%d bytes) that was never sent", len(x)))
		}
	}
	if badFrom >= 0 {
		fail("the QUIC-side ReadFrom reported a wrong source address for a datagram of the stream")
	}
	if len(qerrs) > 0 {
		who := ""
		for _, d := range dls {
			if d.Serving && !d.Zero && d.Who != "quic" {
				who = fmt.Sprintf("; a read deadline was armed on the shared socket by %s (%s, in %s) while QUIC was serving", d.Who, d.Fn, d.Site)
				break
			}
		}
		fail(fmt.Sprintf("the QUIC-side ReadFrom failed %d time(s) (first: %s) although nobody closed the socket%s", len(qerrs), qerrs[0], who))
	}
	if stalled != "" {
		fail(stalled)
	}
	seenEnd := false
	for _, g := range got {
		if bytes.Equal(g, endMark) {
			seenEnd = true
		}
	}
	if !seenEnd {
		fail("the end-of-stream marker sent after the history never came out of the QUIC-side ReadFrom (sent three times, 12 s)")
	}

	w.mu.Lock()
	res["regcalls"], res["sessions"], res["fatal"] = w.regCalls, w.sessions, w.fatal
	res["stuncalls"], res["stunserving"], res["connects"], res["expired"] = w.stunCalls, w.stunServ, w.connects, w.expired
	hb := 0
	for _, n := range w.hbCalls {
		hb += n
	}
	res["heartbeats"] = hb
	w.mu.Unlock()
	res["nsent"], res["npass"], res["nhave"] = nsent, len(want), len(have)
	res["got"], res["qerrs"], res["stalls"] = gotHex, qerrs, snd.stalls
	res["reads"], res["dls"] = reads, dls
	res["sndport"] = sndPort
	res["ok"], res["why"] = ok, why
}

func c20rtErrText(err error) string {
	s := err.Error()
	if len(s) > 200 {
		s = s[:200]
	}
	return s
}

func TestVerifC20Runtime(t *testing.T) {
	if logger == nil {
		logger = zap.NewNop()
	}
	raw := vReadCases(t)
	out := vOpenOut(t, "VERIF_OUT")
	defer out.Close()
	results := make([]map[string]any, len(raw))
	sem := make(chan struct{}, 6)
	var wg sync.WaitGroup
	for i, r := range raw {
		var c c20rtCase
		res := map[string]any{"i": i, "k": "rt"}
		results[i] = res
		if err := json.Unmarshal(r, &c); err != nil {
			res["ok"], res["why"] = false, "bad case: "+err.Error()
			continue
		}
		wg.Add(1)
		sem <- struct{}{}
		go func() {
			defer wg.Done()
			defer func() { <-sem }()
			if p, msg := vCatch(func() { c20rtRun(c, res) }); p {
				res["panic"], res["ok"], res["why"] = true, false, "panic in the realm server runtime: "+msg
			}
			if _, has := res["ok"]; !has {
				res["ok"], res["why"] = true, ""
			}
		}()
	}
	wg.Wait()
	for _, res := range results {
		out.Emit(res)
	}
}
