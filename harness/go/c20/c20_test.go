//go:build verif

package realm

// C20 harness: runs EncodePunchPacket / DecodePunchPacket, PunchPacketConn (AddPunchAttempt,
// RemovePunchAttempt, ReadFrom, Events, STUNEvents) and ServerPuncher (addAttempt, removeAttempt,
// dispatch) of /repo's working tree on the cases in $VERIF_IN.  Writes the raw outputs (compared
// with the Coq model) and the property verdict evaluated on the implementation alone.

import (
	"bytes"
	"context"
	"crypto/sha256"
	"encoding/hex"
	"encoding/json"
	"errors"
	"fmt"
	"net"
	"net/netip"
	"os"
	"reflect"
	"runtime"
	"sort"
	"strconv"
	"strings"
	"sync"
	"sync/atomic"
	"testing"
	"testing/synctest"
	"time"

	"github.com/pion/stun/v3"
)

type c20Addr struct {
	Udp  bool   `json:"udp"`
	Ip   string `json:"ip"` // hex
	Port int    `json:"port"`
}

type c20Pkt struct {
	Err  bool    `json:"err"`
	Hex  string  `json:"hex"`
	Addr c20Addr `json:"addr"`
	Att  int     `json:"att"` // conc cases: index of the attempt the packet was built for, -1 = none
}

type c20Op struct {
	Op    string   `json:"op"`
	Id    string   `json:"id"`
	Nonce string   `json:"nonce"`
	Obfs  string   `json:"obfs"`
	Pkts  []c20Pkt `json:"pkts"`
	End   string   `json:"end"`  // rend: "timeout" | "cancel" (how a Respond that is still waiting is ended)
	Tick  int      `json:"tick"` // rstart: hello ticker periods to let pass once Respond is blocked
	// rstart: the remaining arguments of Respond (absent = one usable IPv4 peer, 400 ms / 50 ms, any family)
	Peers []string `json:"peers"` // peer candidates as netip.AddrPort text, "" = the zero AddrPort; nil = default
	Fam   int      `json:"fam"`   // PunchConfig.Family
	Tmo   *int64   `json:"tmo"`   // PunchConfig.Timeout in ms (may be 0 or negative)
	Itv   *int64   `json:"itv"`   // PunchConfig.Interval in ms (may be 0 or negative)
}

type c20Want struct {
	Ok  bool `json:"ok"`
	Ty  int  `json:"ty"`
	Pad int  `json:"pad"`
}

type c20Case struct {
	K     string   `json:"k"`
	Ty    int      `json:"ty"`
	Nonce string   `json:"nonce"`
	Obfs  string   `json:"obfs"`
	Hex   string   `json:"hex"`
	Want  *c20Want `json:"want"`
	Cap   int      `json:"cap"`
	Buf   int      `json:"buf"`
	Ops   []c20Op  `json:"ops"`
	// conc
	Metas [][2]string `json:"metas"`
	Mut   [][2]int    `json:"mut"` // [op(1=add,0=rm), attempt index]
	Pkts  []c20Pkt    `json:"pkts"`
	Yield int         `json:"yield"`
	At    []int       `json:"at"` // conc: mutator op j starts once packet At[j] has been handed to the reader
}

type c20Other struct{ s string }

func (a c20Other) Network() string { return "other" }
func (a c20Other) String() string  { return a.s }

func (a c20Addr) build() net.Addr {
	if !a.Udp {
		return c20Other{s: a.Ip + ":" + strconv.Itoa(a.Port)}
	}
	ip, _ := hex.DecodeString(a.Ip)
	return &net.UDPAddr{IP: net.IP(ip), Port: a.Port}
}

// independent transcription of "what address does the event carry" (netip only)
func (a c20Addr) addrPort() (netip.AddrPort, bool) {
	if !a.Udp {
		return netip.AddrPort{}, false
	}
	ip, _ := hex.DecodeString(a.Ip)
	if a.Port <= 0 || a.Port > 65535 {
		return netip.AddrPort{}, false
	}
	var ad netip.Addr
	switch len(ip) {
	case 4:
		ad = netip.AddrFrom4([4]byte(ip))
	case 16:
		ad = netip.AddrFrom16([16]byte(ip))
		if ad.Is4In6() {
			b := ad.As16()
			ad = netip.AddrFrom4([4]byte(b[12:]))
		}
	default:
		return netip.AddrPort{}, false
	}
	return netip.AddrPortFrom(ad, uint16(a.Port)), true
}

func c20ErrClass(err error) string {
	s := err.Error()
	switch {
	case strings.HasSuffix(s, "packet too short"):
		return "short"
	case strings.HasSuffix(s, "packet too long"):
		return "long"
	case strings.HasSuffix(s, "invalid nonce"), strings.HasSuffix(s, "invalid obfs"),
		strings.HasSuffix(s, "invalid nonce length"), strings.HasSuffix(s, "invalid obfs length"):
		return "meta"
	case strings.HasSuffix(s, "bad magic"), strings.HasSuffix(s, "unknown packet type"), strings.HasSuffix(s, "nonce mismatch"):
		return "invalid"
	}
	return "anyerr"
}

// the STUN oracle: pion called directly (not through the repo's parseSTUNBindingResponse)
func c20StunOracle(p []byte) (bool, netip.AddrPort) {
	if !stun.IsMessage(p) {
		return false, netip.AddrPort{}
	}
	m := stun.New()
	if err := stun.Decode(p, m); err != nil {
		return false, netip.AddrPort{}
	}
	if m.Type != stun.BindingSuccess {
		return false, netip.AddrPort{}
	}
	conv := func(ip net.IP, port int) (bool, netip.AddrPort) {
		if port <= 0 || port > 65535 {
			return false, netip.AddrPort{}
		}
		if v4 := ip.To4(); v4 != nil {
			return true, netip.AddrPortFrom(netip.AddrFrom4([4]byte(v4)), uint16(port))
		}
		if v6 := ip.To16(); v6 != nil {
			return true, netip.AddrPortFrom(netip.AddrFrom16([16]byte(v6)), uint16(port))
		}
		return false, netip.AddrPort{}
	}
	var x stun.XORMappedAddress
	if x.GetFrom(m) == nil {
		return conv(x.IP, x.Port)
	}
	var ma stun.MappedAddress
	if ma.GetFrom(m) == nil {
		return conv(ma.IP, ma.Port)
	}
	return false, netip.AddrPort{}
}

func TestVerifC20(t *testing.T) {
	magic := "(cons Coq.Init.Byte.x" + hex.EncodeToString(punchMagic[:1])
	for _, b := range punchMagic[1:] {
		magic += " (cons Coq.Init.Byte.x" + hex.EncodeToString([]byte{b})
	}
	magic += " nil" + strings.Repeat(")", len(punchMagic))
	vParams(t, [][3]string{
		{"MaxPunchPadding", "nat", strconv.Itoa(MaxPunchPadding)},
		{"punchSaltLen", "nat", strconv.Itoa(punchSaltLen)},
		{"punchHeaderLen", "nat", strconv.Itoa(punchHeaderLen)},
		{"punchMinWireLen", "nat", strconv.Itoa(punchMinWireLen)},
		{"punchMaxWireLen", "nat", strconv.Itoa(punchMaxWireLen)},
		{"PunchNonceSize", "nat", strconv.Itoa(PunchNonceSize)},
		{"PunchObfsKeySize", "nat", strconv.Itoa(PunchObfsKeySize)},
		{"PunchPacketHello", "N", strconv.Itoa(int(PunchPacketHello))},
		{"PunchPacketAck", "N", strconv.Itoa(int(PunchPacketAck))},
		{"defaultPunchEventBuffer", "nat", strconv.Itoa(defaultPunchEventBuffer)},
		{"defaultServerPunchEventBuffer", "nat", strconv.Itoa(defaultServerPunchEventBuffer)},
		{"defaultPunchTimeout", "Z", strconv.FormatInt(int64(defaultPunchTimeout), 10)},
		{"defaultPunchInterval", "Z", strconv.FormatInt(int64(defaultPunchInterval), 10)},
		{"punchMagic", "raw", magic},
	})
	out := vOpenOut(t, "VERIF_OUT")
	defer out.Close()
	for i, raw := range vReadCases(t) {
		var c c20Case
		if err := json.Unmarshal(raw, &c); err != nil {
			t.Fatal(err)
		}
		res := map[string]any{"i": i, "k": c.K}
		switch c.K {
		case "enc":
			c20Enc(c, res)
		case "dec":
			c20Dec(c, res)
		case "demux":
			p, msg := vCatch(func() { c20Demux(c, res) })
			if p {
				res["panic"] = true
				res["ok"] = false
				res["why"] = "panic in PunchPacketConn: " + msg
			}
		case "server":
			p, msg := vCatch(func() { synctest.Test(t, func(t *testing.T) { c20Server(c, res) }) })
			if p {
				res["panic"] = true
				res["ok"] = false
				res["why"] = "panic in ServerPuncher: " + msg
			}
		case "conc":
			c20Conc(c, res)
		default:
			t.Fatalf("unknown case kind %q", c.K)
		}
		out.Emit(res)
	}
}

// ---------------------------------------------------------------- codec

func c20Enc(c c20Case, res map[string]any) {
	meta := PunchMetadata{Nonce: c.Nonce, Obfs: c.Obfs}
	var pkt []byte
	var err error
	p, msg := vCatch(func() { pkt, err = EncodePunchPacket(PunchPacketType(c.Ty), meta) })
	if p {
		res["panic"] = true
		res["ok"] = false
		res["why"] = "panic in EncodePunchPacket: " + msg
		return
	}
	nonce, e1 := hex.DecodeString(c.Nonce)
	key, e2 := hex.DecodeString(c.Obfs)
	valid := e1 == nil && e2 == nil && len(nonce) == 16 && len(key) == 32 && (c.Ty == 1 || c.Ty == 2)
	if err != nil {
		res["err"] = c20ErrClass(err)
		res["ok"] = !valid
		res["why"] = ""
		if valid {
			res["why"] = "EncodePunchPacket failed on valid input: " + err.Error()
		}
		return
	}
	res["hex"] = vHex(pkt)
	ok, why := true, ""
	fail := func(s string) {
		if ok {
			ok, why = false, s
		}
	}
	if !valid {
		fail("EncodePunchPacket accepted an unknown type or malformed metadata")
	} else {
		if len(pkt) < 33 || len(pkt) > 33+1024 {
			fail("encoded length outside 33..1057")
		} else {
			// independent unmasking with crypto/sha256
			h := sha256.Sum256(append(append([]byte(nil), key...), pkt[:8]...))
			plain := make([]byte, len(pkt)-8)
			for i := range plain {
				plain[i] = pkt[8+i] ^ h[i%32]
			}
			if !bytes.Equal(plain[:8], []byte("HYRLMv1\x00")) || int(plain[8]) != c.Ty || !bytes.Equal(plain[9:25], nonce) {
				fail("unmasked header is not magic|type|nonce")
			}
		}
		var d PunchPacket
		var derr error
		p2, msg2 := vCatch(func() { d, derr = DecodePunchPacket(pkt, meta) })
		if p2 {
			fail("panic in DecodePunchPacket: " + msg2)
		} else if derr != nil {
			fail("encoded packet does not decode under its own metadata: " + derr.Error())
		} else if int(d.Type) != c.Ty || d.PaddingLength != len(pkt)-33 {
			fail("round trip changed type or padding length")
		}
	}
	res["ok"] = ok
	res["why"] = why
}

func c20Dec(c c20Case, res map[string]any) {
	meta := PunchMetadata{Nonce: c.Nonce, Obfs: c.Obfs}
	pkt := vUnhex(c.Hex)
	orig := append([]byte(nil), pkt...)
	var d PunchPacket
	var err error
	p, msg := vCatch(func() { d, err = DecodePunchPacket(pkt, meta) })
	if p {
		res["panic"] = true
		res["ok"] = false
		res["why"] = "panic in DecodePunchPacket: " + msg
		return
	}
	ok, why := true, ""
	if err != nil {
		res["err"] = c20ErrClass(err)
		if c.Want != nil && c.Want.Ok {
			ok, why = false, "packet built for this metadata is rejected: "+err.Error()
		}
	} else {
		res["ty"] = int(d.Type)
		res["pad"] = d.PaddingLength
		if c.Want != nil && !c.Want.Ok {
			ok, why = false, "packet that was not encoded under this metadata (or was damaged) decodes"
		} else if c.Want != nil && (c.Want.Ty != int(d.Type) || c.Want.Pad != d.PaddingLength) {
			ok, why = false, "decoded type/padding differ from what was encoded"
		}
	}
	if ok && !bytes.Equal(pkt, orig) {
		ok, why = false, "DecodePunchPacket modified the caller's packet"
	}
	res["ok"] = ok
	res["why"] = why
}

// ---------------------------------------------------------------- scripted PacketConn

var (
	errC20End      = errors.New("c20: script exhausted")
	errC20Injected = errors.New("c20: injected read error")
)

type c20Item struct {
	err  bool
	data []byte
	addr net.Addr
}

type c20Conn struct {
	q    []c20Item
	pos  int
	hook func(next int) // called on entry of every ReadFrom
}

func (c *c20Conn) ReadFrom(p []byte) (int, net.Addr, error) {
	if c.hook != nil {
		c.hook(c.pos)
	}
	if c.pos >= len(c.q) {
		return 0, nil, errC20End
	}
	it := c.q[c.pos]
	c.pos++
	n := copy(p, it.data)
	if it.err {
		return n, it.addr, errC20Injected
	}
	return n, it.addr, nil
}
func (c *c20Conn) WriteTo(p []byte, addr net.Addr) (int, error) { return len(p), nil }
func (c *c20Conn) Close() error                                 { return nil }
func (c *c20Conn) LocalAddr() net.Addr {
	return &net.UDPAddr{IP: net.IPv4(127, 0, 0, 1), Port: 4433}
}

// net.PacketConn
type c20NetConn struct{ *c20Conn }

func (c20NetConn) SetDeadline(time.Time) error      { return nil }
func (c20NetConn) SetReadDeadline(time.Time) error  { return nil }
func (c20NetConn) SetWriteDeadline(time.Time) error { return nil }

func c20Trunc(b []byte, n int) []byte {
	if len(b) > n {
		return b[:n]
	}
	return b
}

type c20Ret struct {
	Dg   uint64 `json:"dg"`
	Port int    `json:"port"`
	Err  bool   `json:"err"`
}

type c20Ev struct {
	Id   string `json:"id"`
	Ip   string `json:"ip"`
	Port int    `json:"port"`
	Ty   int    `json:"ty"`
	Pad  int    `json:"pad"`
}

func c20EvOf(ev PunchPacketEvent) c20Ev {
	return c20Ev{Id: ev.AttemptID, Ip: vHex(ev.From.Addr().AsSlice()), Port: int(ev.From.Port()), Ty: int(ev.Packet.Type), Pad: ev.Packet.PaddingLength}
}

func c20Load(pkts []c20Pkt, buf int) []c20Item {
	items := make([]c20Item, len(pkts))
	for i, k := range pkts {
		items[i] = c20Item{err: k.Err, data: vUnhex(k.Hex), addr: k.Addr.build()}
	}
	return items
}

func c20Demux(c c20Case, res map[string]any) {
	base := &c20Conn{}
	wrapped, err := NewPunchPacketConn(c20NetConn{base}, c.Cap)
	if err != nil {
		res["ok"] = false
		res["why"] = "NewPunchPacketConn failed: " + err.Error()
		return
	}
	capv := c.Cap
	if capv <= 0 {
		capv = 16
	}
	ok, why := true, ""
	fail := func(s string) {
		if ok {
			ok, why = false, s
		}
	}
	shadow := map[string]PunchMetadata{}
	type pend struct {
		pk    c20Pkt
		data  []byte
		ids   map[string]bool
		opIdx int
	}
	var evQ []pend   // expected queued punch events (in order), bounded by capv
	var stQ [][]byte // expected queued stun datagrams
	var stAddr []netip.AddrPort
	opsOut := make([]map[string]any, 0, len(c.Ops))
	for oi, op := range c.Ops {
		o := map[string]any{"op": op.Op}
		switch op.Op {
		case "add":
			meta := PunchMetadata{Nonce: op.Nonce, Obfs: op.Obfs}
			e := wrapped.AddPunchAttempt(op.Id, meta)
			o["ok"] = e == nil
			n, e1 := hex.DecodeString(op.Nonce)
			k, e2 := hex.DecodeString(op.Obfs)
			valid := op.Id != "" && e1 == nil && e2 == nil && len(n) == 16 && len(k) == 32
			if valid != (e == nil) {
				fail(fmt.Sprintf("op %d: AddPunchAttempt accepted=%v but the attempt is valid=%v", oi, e == nil, valid))
			}
			if e == nil {
				shadow[op.Id] = meta
			}
		case "rm":
			wrapped.RemovePunchAttempt(op.Id)
			delete(shadow, op.Id)
		case "pkts":
			items := c20Load(op.Pkts, c.Buf)
			base.q, base.pos = items, 0
			// expectations, computed with the implementation's own decoder over the shadow registry
			type exp struct {
				idx  int
				isEr bool
			}
			var expect []exp
			stuns := make([]bool, len(items))
			for i, it := range items {
				data := c20Trunc(it.data, c.Buf)
				if it.err {
					expect = append(expect, exp{i, true})
					continue
				}
				isStun, sa := c20StunOracle(data)
				stuns[i] = isStun
				if isStun {
					if len(stQ) < capv {
						stQ = append(stQ, data)
						stAddr = append(stAddr, sa)
					}
					continue
				}
				ids := map[string]bool{}
				if _, aok := op.Pkts[i].Addr.addrPort(); aok {
					for id, m := range shadow {
						if _, e := DecodePunchPacket(data, m); e == nil {
							ids[id] = true
						}
					}
				}
				if len(ids) > 0 {
					if len(evQ) < capv {
						evQ = append(evQ, pend{pk: op.Pkts[i], data: data, ids: ids, opIdx: oi})
					}
					continue
				}
				expect = append(expect, exp{i, false})
			}
			o["stun"] = stuns
			var rets []c20Ret
			ei := 0
			buf := make([]byte, c.Buf) // one read buffer for the whole batch, as a QUIC read loop uses it
			for guard := 0; guard <= len(items)+1; guard++ {
				for bi := range buf {
					buf[bi] = 0xEE
				}
				n, addr, rerr := wrapped.ReadFrom(buf)
				if rerr == errC20End {
					break
				}
				idx := base.pos - 1
				it := items[idx]
				if rerr != nil {
					rets = append(rets, c20Ret{Err: true})
					if rerr != errC20Injected || addr != it.addr || n != len(c20Trunc(it.data, c.Buf)) {
						fail(fmt.Sprintf("op %d: error return of the wrapped conn was altered", oi))
					}
				} else {
					rets = append(rets, c20Ret{Dg: vDigest(buf[:n]), Port: op.Pkts[idx].Addr.Port})
					if !bytes.Equal(buf[:n], c20Trunc(it.data, c.Buf)) {
						fail(fmt.Sprintf("op %d packet %d: returned bytes differ from the datagram", oi, idx))
					}
					if addr != it.addr {
						fail(fmt.Sprintf("op %d packet %d: returned with a different source address", oi, idx))
					}
				}
				if ei >= len(expect) || expect[ei].idx != idx || expect[ei].isEr != (rerr != nil) {
					if ei < len(expect) && expect[ei].idx < idx {
						fail(fmt.Sprintf("op %d packet %d: withheld from the reader although it is neither a STUN response nor a punch packet of a registered attempt", oi, expect[ei].idx))
					} else {
						fail(fmt.Sprintf("op %d packet %d: returned to the reader although it is a STUN response / punch packet of a registered attempt", oi, idx))
					}
					// resynchronise
					for ei < len(expect) && expect[ei].idx <= idx {
						ei++
					}
				} else {
					ei++
				}
			}
			if ei < len(expect) {
				fail(fmt.Sprintf("op %d packet %d: withheld from the reader although it is neither a STUN response nor a punch packet of a registered attempt", oi, expect[ei].idx))
			}
			if rets == nil {
				rets = []c20Ret{}
			}
			o["ret"] = rets
		case "drain":
			evs := []c20Ev{}
			for {
				var ev PunchPacketEvent
				got := false
				select {
				case ev = <-wrapped.Events():
					got = true
				default:
				}
				if !got {
					break
				}
				e := c20EvOf(ev)
				evs = append(evs, e)
				k := len(evs) - 1
				if k >= len(evQ) {
					fail(fmt.Sprintf("op %d: unexpected punch event %+v", oi, e))
					continue
				}
				x := evQ[k]
				ap, _ := x.pk.Addr.addrPort()
				if !x.ids[ev.AttemptID] {
					fail(fmt.Sprintf("op %d: event names attempt %q under which the packet does not decode", oi, ev.AttemptID))
				} else if ev.From != ap {
					fail(fmt.Sprintf("op %d: event source %v, packet came from %v", oi, ev.From, ap))
				} else if d, derr := DecodePunchPacket(x.data, shadowAt(c, x.opIdx, ev.AttemptID)); derr != nil || d != ev.Packet {
					fail(fmt.Sprintf("op %d: event packet %+v differs from the decoded packet", oi, ev.Packet))
				}
			}
			if len(evs) < len(evQ) {
				fail(fmt.Sprintf("op %d: %d punch event(s) missing", oi, len(evQ)-len(evs)))
			}
			evQ = nil
			sts := []uint64{}
			for {
				var ev STUNPacketEvent
				got := false
				select {
				case ev = <-wrapped.STUNEvents():
					got = true
				default:
				}
				if !got {
					break
				}
				raw := []byte(nil)
				if ev.Message != nil {
					raw = ev.Message.Raw
				}
				sts = append(sts, vDigest(raw))
				k := len(sts) - 1
				if k >= len(stQ) {
					fail(fmt.Sprintf("op %d: unexpected STUN event", oi))
				} else if !bytes.Equal(raw, stQ[k]) || ev.Addr != stAddr[k] {
					fail(fmt.Sprintf("op %d: STUN event %d does not carry the datagram / mapped address", oi, k))
				}
			}
			if len(sts) < len(stQ) {
				fail(fmt.Sprintf("op %d: %d STUN event(s) missing", oi, len(stQ)-len(sts)))
			}
			stQ, stAddr = nil, nil
			o["evs"] = evs
			o["stuns"] = sts
		}
		opsOut = append(opsOut, o)
	}
	res["ops"] = opsOut
	res["ok"] = ok
	res["why"] = why
}

// metadata registered under id when op opIdx ran (replays the adds of the case)
func shadowAt(c c20Case, opIdx int, id string) PunchMetadata {
	var m PunchMetadata
	for i := 0; i <= opIdx && i < len(c.Ops); i++ {
		op := c.Ops[i]
		if op.Op == "add" && op.Id == id && op.Id != "" {
			mm := PunchMetadata{Nonce: op.Nonce, Obfs: op.Obfs}
			if _, _, err := decodePunchMetadata(mm); err == nil {
				m = mm
			}
		}
	}
	return m
}

// ---------------------------------------------------------------- ServerPuncher

const (
	c20RespondTimeout  = 400 * time.Millisecond
	c20RespondInterval = 50 * time.Millisecond
)

type c20Resp struct {
	r   PunchResult
	err error
}

// a ServerPuncher.Respond call that is waiting in its select (at most one at a time per history)
type c20Flight struct {
	id       string
	meta     PunchMetadata
	done     chan c20Resp
	cancel   context.CancelFunc
	finished bool // Respond has returned with a punch packet
	resp     c20Resp
	timeout  time.Duration // effective timeout of the call
}

// which exit Respond took, as a small enum
func c20RespondErrClass(err error) string {
	if err == nil {
		return ""
	}
	s := err.Error()
	switch {
	case errors.Is(err, ErrInvalidPunchAttempt) && strings.HasSuffix(s, "id is required"):
		return "id"
	case errors.Is(err, ErrInvalidPunchAttempt) && strings.HasSuffix(s, "duplicate id"):
		return "dup"
	case errors.Is(err, ErrInvalidPunchConfig) && strings.HasSuffix(s, "no compatible peer addresses"):
		return "cand"
	case errors.Is(err, ErrInvalidPunchConfig) && strings.HasSuffix(s, "timeout must not be negative"):
		return "timeout"
	case errors.Is(err, ErrInvalidPunchConfig) && strings.HasSuffix(s, "interval must be positive"):
		return "interval"
	case errors.Is(err, ErrPunchTimeout):
		return "punchtimeout"
	case errors.Is(err, context.Canceled):
		return "canceled"
	case c20ErrClass(err) == "meta":
		return "meta"
	}
	return "other"
}

// c20Server runs a history of ServerPuncher inside a synctest bubble.  Ops:
//
//	add / rm      addAttempt / removeAttempt called directly (other attempts in progress)
//	rstart        Respond(id, peers, meta, config) started in its own goroutine, under a context that
//	              is NOT derived from the puncher's, and observed once it is blocked or has returned
//	              (validation exits, duplicate id); calls that return at once may be made while
//	              another Respond waits
//	pstop         the lifetime context given to NewServerPuncher is cancelled and the dispatch
//	              goroutine is left to return; everything else (the conn, Responds in flight) goes on
//	pkts          datagrams read through the PunchPacketConn (the QUIC read loop); before each
//	              underlying read everything the previous datagram triggered has settled
//	              (dispatch, Respond returning through its deferred removeAttempt)
//	rend          the Respond in flight is observed to its end (timeout or cancellation if it is
//	              still waiting)
//	take          drain the channel of an attempt registered by add
//
// The verdict uses a shadow registry keyed by the exact id string the caller passed, the
// implementation's own decoder and pion: a datagram must be withheld iff it is a STUN response or
// decodes (from a usable source) under an attempt that is registered at that moment; everything
// else must come out of ReadFrom byte-identical, with its address, in order.  In particular the
// punch packets of an attempt whose Respond has returned - through ANY of its exits - must reach
// the reader, and its id must be free again.  After every op both registries are inspected
// directly: PunchPacketConn.attempts must hold exactly the attempts of the calls that are still in
// progress (addAttempt not yet removed, Respond waiting), ServerPuncher.attempts nothing else.
func c20Server(c c20Case, res map[string]any) {
	base := &c20Conn{}
	wrapped, err := NewPunchPacketConn(c20NetConn{base}, c.Cap)
	if err != nil {
		res["ok"] = false
		res["why"] = err.Error()
		return
	}
	ctx, cancel := context.WithCancel(context.Background())
	sp, err := NewServerPuncher(ctx, wrapped)
	if err != nil {
		cancel()
		res["ok"] = false
		res["why"] = err.Error()
		return
	}
	defer func() { cancel(); synctest.Wait() }()
	alive := true                             // the puncher's lifetime context has not been cancelled
	base.hook = func(int) { synctest.Wait() } // the dispatcher has forwarded everything before the next datagram
	ok, why := true, ""
	fail := func(s string) {
		if ok {
			ok, why = false, s
		}
	}
	chans := map[string]<-chan PunchPacketEvent{} // channels of the attempts registered by add
	metas := map[string]PunchMetadata{}           // shadow registry: exact id string -> metadata (add ops and the Respond in flight)
	expectQ := map[string][]c20Pkt{}              // datagrams expected in each attempt's channel
	var fl *c20Flight
	// attempts that were registered and are over: id -> (metadata, how it ended); only used to word a failure
	type c20Gone struct {
		meta PunchMetadata
		how  string
	}
	gone := map[string]c20Gone{}
	metaValid := func(m PunchMetadata) bool {
		n, e1 := hex.DecodeString(m.Nonce)
		k, e2 := hex.DecodeString(m.Obfs)
		return e1 == nil && e2 == nil && len(n) == 16 && len(k) == 32
	}
	takeAll := func(oi int, id string) []c20Ev {
		evs := []c20Ev{}
		ch := chans[id]
		for ch != nil {
			got := false
			select {
			case ev := <-ch:
				got = true
				evs = append(evs, c20EvOf(ev))
				if ev.AttemptID != id {
					fail(fmt.Sprintf("op %d: channel of attempt %q received an event of attempt %q", oi, id, ev.AttemptID))
				}
			default:
			}
			if !got {
				break
			}
		}
		if _, amb := expectQ["\x00ambiguous"]; !amb && ch != nil {
			want := expectQ[id]
			if len(want) != len(evs) {
				fail(fmt.Sprintf("op %d: attempt %q received %d event(s), expected %d", oi, id, len(evs), len(want)))
			} else {
				for i := range want {
					ap, _ := want[i].Addr.addrPort()
					if evs[i].Port != int(ap.Port()) {
						fail(fmt.Sprintf("op %d: attempt %q event %d comes from another datagram", oi, id, i))
					}
				}
			}
		}
		expectQ[id] = nil
		return evs
	}
	// both registries, read directly, against the shadow registry
	checkRegs := func(oi int) {
		wrapped.mu.RLock()
		// read through reflection: the registry's value type is an internal representation (PunchMetadata today;
		// a struct caching decoded keys next to it would be just as good) - only ids and the metadata are compared
		onConn := make(map[string]PunchMetadata, len(wrapped.attempts))
		metaKnown := true
		for it := reflect.ValueOf(wrapped.attempts).MapRange(); it.Next(); {
			m, ok := vC20MetaOf(it.Value())
			if !ok {
				metaKnown = false
			}
			onConn[it.Key().String()] = m
		}
		wrapped.mu.RUnlock()
		sp.mu.Lock()
		onSp := make([]string, 0, len(sp.attempts))
		for id := range sp.attempts {
			onSp = append(onSp, id)
		}
		sp.mu.Unlock()
		ids := make([]string, 0, len(onConn))
		for id := range onConn {
			ids = append(ids, id)
		}
		sort.Strings(ids)
		for _, id := range ids {
			sm, reg := metas[id]
			if g, was := gone[id]; !reg && was {
				fail(fmt.Sprintf("op %d: after %s its attempt %q is still registered on the PunchPacketConn", oi, g.how, id))
			} else if !reg {
				fail(fmt.Sprintf("op %d: attempt %q is registered on the PunchPacketConn although no call in progress registered it", oi, id))
			} else if metaKnown && sm != onConn[id] {
				fail(fmt.Sprintf("op %d: attempt %q is registered on the PunchPacketConn under other metadata than its call passed", oi, id))
			}
		}
		want := make([]string, 0, len(metas))
		for id := range metas {
			want = append(want, id)
		}
		sort.Strings(want)
		for _, id := range want {
			if _, on := onConn[id]; !on {
				fail(fmt.Sprintf("op %d: attempt %q of a call in progress is missing from the PunchPacketConn registry", oi, id))
			}
		}
		sort.Strings(onSp)
		for _, id := range onSp {
			if _, reg := metas[id]; reg {
				continue
			}
			if g, was := gone[id]; was {
				fail(fmt.Sprintf("op %d: after %s its id %q is still held by ServerPuncher.attempts", oi, g.how, id))
			} else {
				fail(fmt.Sprintf("op %d: id %q is held by ServerPuncher.attempts although no call in progress registered it", oi, id))
			}
		}
	}
	opsOut := make([]map[string]any, 0, len(c.Ops))
	for oi, op := range c.Ops {
		o := map[string]any{"op": op.Op}
		switch op.Op {
		case "pstop":
			cancel()
			synctest.Wait() // the dispatch goroutine has seen ctx.Done() and returned
			alive = false
		case "add":
			meta := PunchMetadata{Nonce: op.Nonce, Obfs: op.Obfs}
			ch, e := sp.addAttempt(op.Id, meta)
			o["ok"] = e == nil
			_, dup := metas[op.Id]
			valid := op.Id != "" && metaValid(meta) && !dup
			if g, was := gone[op.Id]; was && valid && e != nil {
				fail(fmt.Sprintf("op %d: attempt id %q cannot be registered again after %s: %v", oi, op.Id, g.how, e))
			} else if valid != (e == nil) {
				fail(fmt.Sprintf("op %d: addAttempt(%q) accepted=%v, expected %v (an id is in use iff exactly this string is registered)", oi, op.Id, e == nil, valid))
			}
			if e == nil {
				chans[op.Id] = ch
				metas[op.Id] = meta
				expectQ[op.Id] = nil
				delete(gone, op.Id)
			}
		case "rm":
			o["evs"] = takeAll(oi, op.Id) // observe what is waiting before the channel is dropped
			sp.removeAttempt(op.Id)
			if m, was := metas[op.Id]; was {
				gone[op.Id] = c20Gone{m, "removeAttempt(" + strconv.Quote(op.Id) + ")"}
			}
			delete(chans, op.Id)
			delete(metas, op.Id)
			delete(expectQ, op.Id)
		case "rstart":
			meta := PunchMetadata{Nonce: op.Nonce, Obfs: op.Obfs}
			local := []netip.AddrPort{netip.MustParseAddrPort("127.0.0.1:4433")}
			peers := []netip.AddrPort{netip.MustParseAddrPort("192.0.2.7:40000")}
			if op.Peers != nil {
				peers = make([]netip.AddrPort, 0, len(op.Peers))
				for _, ps := range op.Peers {
					if ps == "" {
						peers = append(peers, netip.AddrPort{})
					} else {
						peers = append(peers, netip.MustParseAddrPort(ps))
					}
				}
			}
			cfg := PunchConfig{Timeout: c20RespondTimeout, Interval: c20RespondInterval, Family: AddrFamily(op.Fam)}
			if op.Tmo != nil {
				cfg.Timeout = time.Duration(*op.Tmo) * time.Millisecond
			}
			if op.Itv != nil {
				cfg.Interval = time.Duration(*op.Itv) * time.Millisecond
			}
			// oracle for the model: how many candidates the repo's address selection yields
			o["ncand"] = len(candidatePunchAddrs(local, peers, effectiveFamily(cfg.Family, wrapped.LocalAddr())))
			// expected exit, by an independent reading of the arguments (the socket is 127.0.0.1)
			compat := 0
			for _, a := range peers {
				if !a.IsValid() || a.Port() == 0 {
					continue
				}
				if (op.Fam != 2 && a.Addr().Is4()) || (op.Fam == 2 && a.Addr().Is6()) {
					compat++
				}
			}
			_, dup := metas[op.Id]
			want := ""
			switch {
			case op.Id == "":
				want = "the id is empty"
			case !metaValid(meta):
				want = "the metadata is malformed"
			case compat == 0:
				want = "no peer candidate is compatible with the socket"
			case cfg.Timeout < 0:
				want = "the timeout is negative"
			case cfg.Interval < 0:
				want = "the interval is negative"
			case dup:
				want = "the id is in use"
			}
			// the Respond context is the caller's: it does not end with the puncher's lifetime context
			rctx, rcancel := context.WithCancel(context.Background())
			f := &c20Flight{id: op.Id, meta: meta, done: make(chan c20Resp, 1), cancel: rcancel, timeout: cfg.Timeout}
			if f.timeout == 0 {
				f.timeout = defaultPunchTimeout
			}
			interval := cfg.Interval
			if interval == 0 {
				interval = defaultPunchInterval
			}
			go func() {
				r, e := sp.Respond(rctx, f.id, local, peers, meta, cfg)
				f.done <- c20Resp{r, e}
			}()
			synctest.Wait()
			select {
			case r := <-f.done:
				rcancel()
				o["ok"] = false
				o["err"] = c20RespondErrClass(r.err)
				if r.err == nil {
					fail(fmt.Sprintf("op %d: Respond(%q) returned success before any datagram arrived", oi, op.Id))
				} else if g, was := gone[op.Id]; was && want == "" {
					fail(fmt.Sprintf("op %d: attempt id %q cannot be used by Respond again after %s: %v", oi, op.Id, g.how, r.err))
				} else if want == "" {
					fail(fmt.Sprintf("op %d: Respond(%q) rejected a valid attempt whose id is not in use: %v", oi, op.Id, r.err))
				}
				if !dup && r.err != nil { // this call is over and never owned a registration (a duplicate leaves the owner's alone)
					gone[op.Id] = c20Gone{meta, "Respond(" + strconv.Quote(op.Id) + ") has returned (" + r.err.Error() + ")"}
				}
			default:
				o["ok"] = true
				if want != "" {
					fail(fmt.Sprintf("op %d: Respond(%q) registered its attempt and waits although %s", oi, op.Id, want))
				}
				if fl != nil || want != "" { // not part of the history: end it at once
					if fl != nil && want == "" {
						fail(fmt.Sprintf("op %d: harness: a Respond is already waiting", oi))
					}
					rcancel()
					synctest.Wait()
					<-f.done
					if !dup {
						gone[op.Id] = c20Gone{meta, "Respond(" + strconv.Quote(op.Id) + ") has returned (cancelled)"}
					}
					break
				}
				metas[op.Id] = meta
				delete(gone, op.Id)
				fl = f
				if op.Tick > 0 { // let the hello ticker fire; Respond must keep waiting
					time.Sleep(time.Duration(op.Tick) * interval)
					synctest.Wait()
					select {
					case r := <-f.done:
						f.done <- r
						fail(fmt.Sprintf("op %d: Respond(%q) returned before its timeout although no datagram arrived", oi, op.Id))
					default:
					}
				}
			}
		case "rend":
			switch {
			case fl == nil:
				o["res"] = "none"
			case fl.finished:
				o["res"] = "ok"
				o["ev"] = c20Ev{Id: fl.id, Ip: vHex(fl.resp.r.PeerAddr.Addr().AsSlice()), Port: int(fl.resp.r.PeerAddr.Port()),
					Ty: int(fl.resp.r.Packet.Type), Pad: fl.resp.r.Packet.PaddingLength}
			default:
				if op.End == "cancel" {
					fl.cancel()
				} else {
					time.Sleep(fl.timeout + time.Millisecond)
				}
				synctest.Wait()
				select {
				case r := <-fl.done:
					if r.err == nil {
						fail(fmt.Sprintf("op %d: Respond(%q) returned success although no punch packet of its attempt arrived", oi, fl.id))
					} else if op.End == "cancel" && !errors.Is(r.err, context.Canceled) {
						fail(fmt.Sprintf("op %d: cancelled Respond returned %v", oi, r.err))
					} else if op.End != "cancel" && !errors.Is(r.err, ErrPunchTimeout) {
						fail(fmt.Sprintf("op %d: timed-out Respond returned %v", oi, r.err))
					}
				default:
					fail(fmt.Sprintf("op %d: Respond(%q) did not return after %s", oi, fl.id, op.End))
				}
				delete(metas, fl.id) // the deferred removeAttempt(attemptID)
				gone[fl.id] = c20Gone{fl.meta, "Respond(" + strconv.Quote(fl.id) + ") has returned (" + op.End + ")"}
				o["res"] = "noevent"
			}
			if fl != nil {
				fl.cancel()
				fl = nil
			}
		case "pkts":
			items := c20Load(op.Pkts, c.Buf)
			base.q, base.pos = items, 0
			stuns := make([]bool, len(items))
			expPass := make([]bool, len(items)) // must the datagram come out of ReadFrom, by the shadow registry at the time it is read
			flHit := make([]bool, len(items))   // decodes under the attempt of the Respond in flight
			flOnly := make([]bool, len(items))  // ... and under no other registered attempt
			// everything datagram `prev` triggered has happened
			settle := func(prev int) {
				synctest.Wait()
				if fl == nil || fl.finished {
					return
				}
				select {
				case r := <-fl.done:
					fl.finished, fl.resp = true, r
					delete(metas, fl.id) // the deferred removeAttempt(attemptID)
					gone[fl.id] = c20Gone{fl.meta, "Respond(" + strconv.Quote(fl.id) + ") has returned"}
					switch {
					case r.err != nil:
						fail(fmt.Sprintf("op %d: Respond(%q) failed while waiting: %v", oi, fl.id, r.err))
					case !alive:
						fail(fmt.Sprintf("op %d: Respond(%q) returned with an event although the dispatch goroutine has stopped", oi, fl.id))
					case prev < 0 || !flHit[prev]:
						fail(fmt.Sprintf("op %d: Respond(%q) returned although the last datagram (%d) is not a punch packet of its attempt", oi, fl.id, prev))
					default:
						ap, _ := op.Pkts[prev].Addr.addrPort()
						d, derr := DecodePunchPacket(c20Trunc(items[prev].data, c.Buf), fl.meta)
						if derr != nil || r.r.PeerAddr != ap || r.r.Packet != d {
							fail(fmt.Sprintf("op %d: Respond(%q) result %+v does not describe datagram %d", oi, fl.id, r.r, prev))
						}
					}
				default:
					if prev >= 0 && flOnly[prev] {
						fail(fmt.Sprintf("op %d: Respond(%q) did not return although datagram %d is a punch packet of its attempt", oi, fl.id, prev))
					}
				}
			}
			evaluate := func(i int) {
				it := items[i]
				data := c20Trunc(it.data, c.Buf)
				if it.err {
					expPass[i] = true
					return
				}
				if s, _ := c20StunOracle(data); s {
					stuns[i] = true
					return
				}
				hit, nhit := "", 0
				if _, aok := op.Pkts[i].Addr.addrPort(); aok {
					for id, m := range metas {
						if _, e := DecodePunchPacket(data, m); e == nil {
							hit = id
							nhit++
							if fl != nil && !fl.finished && id == fl.id {
								flHit[i] = true
							}
						}
					}
				}
				switch {
				case nhit == 0:
					expPass[i] = true
				case !alive:
					// still withheld (the attempt is registered on the conn); nobody forwards the event
				case nhit == 1 && flHit[i]:
					flOnly[i] = true
				case nhit == 1:
					if len(expectQ[hit]) < defaultServerPunchEventBuffer {
						expectQ[hit] = append(expectQ[hit], op.Pkts[i])
					}
				default:
					expectQ["\x00ambiguous"] = append(expectQ["\x00ambiguous"], op.Pkts[i])
				}
			}
			base.hook = func(next int) {
				settle(next - 1)
				if next < len(items) {
					evaluate(next)
				}
			}
			rets := []c20Ret{}
			withheldBad := func(lo, hi int) { // datagrams lo..hi-1 did not come out of ReadFrom
				for j := lo; j < hi; j++ {
					if !expPass[j] {
						continue
					}
					for id, g := range gone {
						if _, e := DecodePunchPacket(c20Trunc(items[j].data, c.Buf), g.meta); e == nil {
							fail(fmt.Sprintf("op %d packet %d: after %s a late punch packet of attempt %q is still withheld from the reader", oi, j, g.how, id))
						}
					}
					fail(fmt.Sprintf("op %d packet %d: withheld from the reader although it is neither a STUN response nor a punch packet of an attempt that is registered at that moment", oi, j))
				}
			}
			last := -1
			buf := make([]byte, c.Buf)
			for guard := 0; guard <= len(items)+1; guard++ {
				for bi := range buf {
					buf[bi] = 0xEE
				}
				n, addr, rerr := wrapped.ReadFrom(buf)
				if rerr == errC20End {
					break
				}
				idx := base.pos - 1
				it := items[idx]
				withheldBad(last+1, idx)
				last = idx
				if rerr != nil {
					rets = append(rets, c20Ret{Err: true})
					if rerr != errC20Injected || addr != it.addr || n != len(c20Trunc(it.data, c.Buf)) {
						fail(fmt.Sprintf("op %d: error return of the wrapped conn was altered", oi))
					}
					continue
				}
				rets = append(rets, c20Ret{Dg: vDigest(buf[:n]), Port: op.Pkts[idx].Addr.Port})
				if !expPass[idx] {
					fail(fmt.Sprintf("op %d packet %d: returned to the reader although it is a STUN response / punch packet of a registered attempt", oi, idx))
				}
				if !bytes.Equal(buf[:n], c20Trunc(it.data, c.Buf)) {
					fail(fmt.Sprintf("op %d packet %d: returned bytes differ from the datagram", oi, idx))
				}
				if addr != it.addr {
					fail(fmt.Sprintf("op %d packet %d: returned with a different source address", oi, idx))
				}
			}
			withheldBad(last+1, len(items))
			base.hook = func(int) { synctest.Wait() }
			synctest.Wait()
			o["stun"] = stuns
			o["ret"] = rets
		case "take":
			o["evs"] = takeAll(oi, op.Id)
		}
		checkRegs(oi)
		opsOut = append(opsOut, o)
	}
	if fl != nil {
		fl.cancel()
	}
	res["ops"] = opsOut
	res["ok"] = ok
	res["why"] = why
}

// ---------------------------------------------------------------- concurrent registration/removal while reading

type c20Stamp struct {
	S int64 `json:"s"`
	E int64 `json:"e"`
}

func c20Conc(c c20Case, res map[string]any) {
	var clock, delivered atomic.Int64
	delivered.Store(-1)
	base := &c20Conn{}
	wrapped, err := NewPunchPacketConn(c20NetConn{base}, len(c.Pkts)+1)
	if err != nil {
		res["ok"] = false
		res["why"] = err.Error()
		return
	}
	items := c20Load(c.Pkts, c.Buf)
	base.q = items
	pst := make([]c20Stamp, len(items))
	for i := range pst {
		pst[i] = c20Stamp{-1, -1}
	}
	cur := -1
	closeCur := func() {
		if cur >= 0 {
			pst[cur].E = clock.Add(1)
			cur = -1
		}
	}
	base.hook = func(next int) {
		closeCur()
		for i := 0; i < c.Yield; i++ {
			runtime.Gosched()
		}
		if next < len(items) {
			pst[next].S = clock.Add(1)
			cur = next
		}
		delivered.Store(int64(next))
	}
	mst := make([]c20Stamp, len(c.Mut))
	var wg sync.WaitGroup
	wg.Add(1)
	start := make(chan struct{})
	go func() {
		defer wg.Done()
		<-start
		for i, m := range c.Mut {
			id := "att-" + strconv.Itoa(m[1])
			for i < len(c.At) && delivered.Load() < int64(c.At[i]) && delivered.Load() < int64(len(items)) {
				runtime.Gosched()
			}
			mst[i].S = clock.Add(1)
			if m[0] == 1 {
				_ = wrapped.AddPunchAttempt(id, PunchMetadata{Nonce: c.Metas[m[1]][0], Obfs: c.Metas[m[1]][1]})
			} else {
				wrapped.RemovePunchAttempt(id)
			}
			mst[i].E = clock.Add(1)
			for j := 0; j < c.Yield; j++ {
				runtime.Gosched()
			}
		}
	}()
	passed := make([]bool, len(items))
	ok, why := true, ""
	fail := func(s string) {
		if ok {
			ok, why = false, s
		}
	}
	close(start)
	for guard := 0; guard <= len(items)+1; guard++ {
		buf := make([]byte, c.Buf)
		n, addr, rerr := wrapped.ReadFrom(buf)
		if rerr != nil {
			break
		}
		idx := base.pos - 1
		closeCur()
		passed[idx] = true
		if !bytes.Equal(buf[:n], c20Trunc(items[idx].data, c.Buf)) || addr != items[idx].addr {
			fail(fmt.Sprintf("packet %d: returned bytes or address differ", idx))
		}
	}
	wg.Wait()
	evid := make([]string, len(items))
	for {
		got := false
		select {
		case ev := <-wrapped.Events():
			got = true
			k := int(ev.From.Port()) - 20000
			if k < 0 || k >= len(items) {
				fail("event from an unknown source port")
			} else {
				evid[k] = ev.AttemptID
			}
		default:
		}
		if !got {
			break
		}
	}
	// implementation-only verdict by real-time intervals
	for i, pk := range c.Pkts {
		if pst[i].S < 0 {
			continue
		}
		if passed[i] == (evid[i] != "") {
			fail(fmt.Sprintf("packet %d: passed=%v but event=%q", i, passed[i], evid[i]))
		}
		if pk.Att < 0 {
			if !passed[i] {
				fail(fmt.Sprintf("packet %d: withheld although it belongs to no attempt", i))
			}
			continue
		}
		if !passed[i] && evid[i] != "att-"+strconv.Itoa(pk.Att) {
			fail(fmt.Sprintf("packet %d: reported under attempt %q, built for att-%d", i, evid[i], pk.Att))
		}
		// state of the attempt: definitely registered / definitely absent / unknown over the packet's window
		defReg, defAbs := true, true
		state := 0 // 0 absent, 1 registered (after completed ops)
		for j, m := range c.Mut {
			if m[1] != pk.Att {
				continue
			}
			if mst[j].E < pst[i].S { // completed before the packet was delivered
				state = m[0]
				continue
			}
			if mst[j].S > pst[i].E { // started after the packet was done
				break
			}
			defReg, defAbs = false, false // overlaps
		}
		if state == 1 {
			defAbs = false
		} else {
			defReg = false
		}
		if defReg && passed[i] {
			fail(fmt.Sprintf("packet %d: handed to QUIC although its attempt was registered during the whole read", i))
		}
		if defAbs && !passed[i] {
			fail(fmt.Sprintf("packet %d: withheld although its attempt was removed (or never added) during the whole read", i))
		}
	}
	res["passed"] = passed
	res["evid"] = evid
	res["pst"] = pst
	res["mst"] = mst
	res["ok"] = ok
	res["why"] = why
	_ = os.Stderr
}


// vC20MetaOf extracts the PunchMetadata of a registry entry whatever the entry's representation is: the value itself,
// a pointer to it, or a struct (or pointer to struct) with exactly one field of type PunchMetadata.
func vC20MetaOf(v reflect.Value) (PunchMetadata, bool) {
	mt := reflect.TypeOf(PunchMetadata{})
	for v.Kind() == reflect.Pointer || v.Kind() == reflect.Interface {
		if v.IsNil() {
			return PunchMetadata{}, false
		}
		v = v.Elem()
	}
	read := func(x reflect.Value) PunchMetadata {
		var m PunchMetadata
		mv := reflect.ValueOf(&m).Elem()
		for i := 0; i < mt.NumField(); i++ {
			if mt.Field(i).Type.Kind() == reflect.String {
				mv.Field(i).SetString(x.Field(i).String())
			}
		}
		return m
	}
	if v.Type() == mt {
		return read(v), true
	}
	if v.Kind() == reflect.Struct {
		found := -1
		for i := 0; i < v.NumField(); i++ {
			if v.Field(i).Type() == mt {
				if found >= 0 {
					return PunchMetadata{}, false
				}
				found = i
			}
		}
		if found >= 0 {
			return read(v.Field(found)), true
		}
	}
	return PunchMetadata{}, false
}
