#!/usr/bin/env python3
"""Run a check against a property-PRESERVING change (a benign refactor written by an independent sub-agent).

usage: tools/benign.py <PID> <P|Q|R>
  input : /tmp/mut/<PID>.r6.out/{X.diff, X.json}   (or, when re-running, /verif/benign/<PID>-<X>/patch.diff)
  steps : scratch worktree of /repo at HEAD (outside /repo and /verif) -> apply diff -> builds -> run ./check <PID>
          against the patched worktree (VERIF_REPO) -> record in /verif/benign/<PID>-<X>/{patch.diff, meta.json}.
  expected: exit 0, no VIOLATION line (the property still holds). Anything else is a false alarm of the machinery
  unless the "benign" change turns out to change behaviour (then it is reclassified by hand in meta.json).
"""
import json
import os
import shutil
import subprocess
import sys
import time

V = os.path.dirname(os.path.dirname(os.path.abspath(__file__)))


def sh(cmd, cwd=None, env=None, timeout=3600):
    e = dict(os.environ)
    e["GOPROXY"] = "off"
    e.pop("GOFLAGS", None)
    if env:
        e.update(env)
    p = subprocess.run(cmd, shell=True, cwd=cwd, env=e, capture_output=True, text=True, timeout=timeout)
    return p.returncode, p.stdout + p.stderr


def main():
    pid, x = sys.argv[1], sys.argv[2]
    d = os.path.join(V, "benign", "%s-%s" % (pid, x))
    src = "/tmp/mut/%s.r6.out" % pid
    if os.path.exists("%s/%s.diff" % (src, x)):
        diff = "%s/%s.diff" % (src, x)
        meta = json.load(open("%s/%s.json" % (src, x)))
    else:
        diff = os.path.join(d, "patch.diff")
        meta = json.load(open(os.path.join(d, "meta.json")))["agent_meta"]
    wt = "/tmp/seedwt/%s-%s" % (pid, x)
    os.makedirs("/tmp/seedwt", exist_ok=True)
    sh("git -C /repo worktree remove --force %s" % wt)
    rc, out = sh("git -C /repo worktree add --detach %s HEAD" % wt)
    assert rc == 0, out
    rec = {"property": pid, "variant": x, "repo_head": sh("git -C /repo rev-parse --short HEAD")[1].strip(),
           "ran_at": time.strftime("%Y-%m-%dT%H:%M:%SZ", time.gmtime())}
    try:
        rc, out = sh("git apply %s" % diff, cwd=wt)
        rec["applies_at_head"] = rc == 0
        if rc != 0:
            rec["apply_error"] = out[-500:]
            print(json.dumps(rec, indent=1))
            return 1
        mods = [m for m in ("core", "extras", "app") if sh("git status --porcelain %s" % m, cwd=wt)[1].strip()]
        rec["modules"] = mods
        ok = True
        for m in mods:
            rcb, outb = sh("go build ./... && go test -count=1 -vet=off -run '^$' ./... 2>&1 | tail -3", cwd=os.path.join(wt, m), timeout=1800)
            ok = ok and rcb == 0 and "FAIL" not in outb and "cannot" not in outb
        rec["builds"] = ok
        t0 = time.time()
        rcx, outx = sh("./check %s --tier quick" % pid, cwd=V, env={"VERIF_REPO": wt}, timeout=3000)
        lines = [l for l in outx.splitlines() if l.startswith("VIOLATION") or l.startswith("  what:") or l.startswith("KNOWN-FINDING")]
        rec["check_exit"] = rcx
        rec["check_lines"] = [l[:400] for l in lines[:8]]
        rec["check_wall_s"] = round(time.time() - t0, 1)
        rec["quiet"] = rcx == 0 and not any(l.startswith("VIOLATION") for l in lines)
        if not rec["quiet"]:
            rec["check_tail"] = outx[-3000:]
    finally:
        sh("git -C /repo worktree remove --force %s" % wt)
        sh("git -C /repo worktree prune")
    os.makedirs(d, exist_ok=True)
    if os.path.abspath(diff) != os.path.abspath(os.path.join(d, "patch.diff")):
        shutil.copy(diff, os.path.join(d, "patch.diff"))
    old = {}
    if os.path.exists(os.path.join(d, "meta.json")):
        old = json.load(open(os.path.join(d, "meta.json")))
    hist = old.get("history", [])
    if old.get("what_i_ran"):
        hist.append({k: old["what_i_ran"].get(k) for k in ("ran_at", "check_exit", "quiet", "check_lines")})
    m = {"property": pid, "kind": meta.get("kind"), "change": meta.get("summary"), "why_preserving": meta.get("why_preserving"),
         "expected": "check exits 0 with no VIOLATION line", "agent_meta": meta, "what_i_ran": rec, "history": hist}
    if "reclassified" in old:
        m["reclassified"] = old["reclassified"]
    json.dump(m, open(os.path.join(d, "meta.json"), "w"), indent=1)
    print(json.dumps({k: rec.get(k) for k in ("applies_at_head", "builds", "check_exit", "quiet", "check_lines", "check_wall_s")}, indent=1))
    return 0


if __name__ == "__main__":
    sys.exit(main())
