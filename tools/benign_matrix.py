#!/usr/bin/env python3
"""Run SEVERAL properties' checks against ONE property-preserving change (cross-property false-alarm test).

usage: tools/benign_matrix.py <benign-id e.g. C06-P> <PID> [<PID> ...]
Appends one JSON line per (patch, property) to /verif/benign/matrix.jsonl and prints it.
"""
import json
import os
import subprocess
import sys
import time

V = os.path.dirname(os.path.dirname(os.path.abspath(__file__)))


def sh(cmd, cwd=None, env=None, timeout=3600):
    e = dict(os.environ)
    e["GOPROXY"] = "off"
    e.pop("GOFLAGS", None)
    if env:
        e.update(env)
    p = subprocess.run(cmd, shell=True, cwd=cwd, env=e, capture_output=True, text=True, timeout=timeout)
    return p.returncode, p.stdout + p.stderr


def main():
    bid = sys.argv[1]
    pids = sys.argv[2:]
    diff = os.path.join(V, "benign", bid, "patch.diff")
    wt = "/tmp/seedwt/mx-%s" % bid
    os.makedirs("/tmp/seedwt", exist_ok=True)
    sh("git -C /repo worktree remove --force %s" % wt)
    rc, out = sh("git -C /repo worktree add --detach %s HEAD" % wt)
    assert rc == 0, out
    try:
        rc, out = sh("git apply %s" % diff, cwd=wt)
        assert rc == 0, out
        for pid in pids:
            t0 = time.time()
            rcx, outx = sh("./check %s --tier quick" % pid, cwd=V, env={"VERIF_REPO": wt}, timeout=3000)
            lines = [l[:400] for l in outx.splitlines() if l.startswith("VIOLATION") or l.startswith("  what:")]
            rec = {"patch": bid, "property": pid, "exit": rcx, "quiet": rcx == 0 and not lines, "lines": lines[:6],
                   "wall_s": round(time.time() - t0, 1), "at": time.strftime("%Y-%m-%dT%H:%M:%SZ", time.gmtime())}
            with open(os.path.join(V, "benign", "matrix.jsonl"), "a") as f:
                f.write(json.dumps(rec) + "\n")
            print(json.dumps(rec), flush=True)
    finally:
        sh("git -C /repo worktree remove --force %s" % wt)
        sh("git -C /repo worktree prune")
    return 0


if __name__ == "__main__":
    sys.exit(main())
