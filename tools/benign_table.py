#!/usr/bin/env python3
"""benign/README.md: one line per property-preserving change and what the property's check said about it."""
import glob, json, os
V = os.path.dirname(os.path.dirname(os.path.abspath(__file__)))
rows = []
for d in sorted(glob.glob(os.path.join(V, "benign", "C*-*"))):
    m = json.load(open(os.path.join(d, "meta.json")))
    r = m["what_i_ran"]
    first = next((l for l in r.get("check_lines", []) if l.startswith("  what:")), "")
    res = "quiet (exit 0)" if r.get("quiet") else ("VIOLATION no-failing-input-found" if any("no-failing-input-found" in l for l in r.get("check_lines", [])) else "VIOLATION")
    rows.append("| %s | %s | %s | %s | %s |" % (os.path.basename(d), m.get("kind") or "", (m.get("change") or "").replace("\n", " ").replace("|", "/")[:220],
                                         res, first.replace("|", "/")[8:200]))
print("# Property-preserving changes (false-alarm test)\n")
print("Written by independent sub-agents from the property text only (brief: three behaviour-preserving changes per property in the anchored code:")
print("P structural, Q naming / internal representation, R perf / defensive / documentation); `tools/benign.py <ID> <P|Q|R>` applies one to a scratch")
print("worktree and runs `./check <ID>`; expected: exit 0 and no VIOLATION line. `matrix.jsonl`: other properties' checks against the same patches.\n")
q = sum(1 for x in rows if "quiet" in x)
print("%d changes, %d quiet.\n" % (len(rows), q))
print("| id | kind | change | check | first report |\n|---|---|---|---|---|")
print("\n".join(rows))
mx = os.path.join(V, "benign", "matrix.jsonl")
if os.path.exists(mx):
    recs = [json.loads(l) for l in open(mx) if l.strip()]
    print("\n## Cross-property runs\n\n%d runs, %d quiet.\n" % (len(recs), sum(1 for r in recs if r["quiet"])))
    print("| patch | property checked | exit | quiet |\n|---|---|---|---|")
    for r in recs:
        print("| %s | %s | %s | %s |" % (r["patch"], r["property"], r["exit"], r["quiet"]))
