#!/usr/bin/env python3
"""Regenerate /verif/MANIFEST.json from the per-property modules (vlib/props/Cxx.py)."""
import importlib
import json
import os
import sys

V = os.path.dirname(os.path.dirname(os.path.abspath(__file__)))
sys.path.insert(0, V)

props = [json.loads(l) for l in open(os.path.join(V, "properties.jsonl")) if l.strip()]
checks, na = [], []
PENDING = {}
pend_path = os.path.join(V, "tools", "not_applicable.json")
if os.path.exists(pend_path):
    PENDING = json.load(open(pend_path))
for p in props:
    pid = p["id"]
    path = os.path.join(V, "vlib", "props", pid + ".py")
    mod = None
    if os.path.exists(path):
        mod = importlib.import_module("vlib.props." + pid)
    claimed_ids = set(open(os.path.join(V, "tools", "claimed.txt")).read().split())
    if mod is None or pid not in claimed_ids:
        na.append({"property_id": pid, "reason": PENDING.get(pid, "check not built yet in this round; planned as in DESIGN.md section 4 %s" % pid)})
        continue
    checks.append({
        "property_id": pid,
        "quick_cmd": "./check %s --tier quick" % pid,
        "thorough_cmd": "./check %s --tier thorough" % pid,
        "evidence_file": "evidence/%s.json" % pid,
        "replay_cmd_template": "./check %s --replay {path}" % pid,
        "engine": "coq-model+correspondence",
        "level_claimed": {"category": getattr(mod, "LEVEL", "proof"), "text": mod.LEVEL_TEXT, "design_ref": mod.DESIGN_REF},
        "level_note": mod.LEVEL_NOTE,
        "technique": mod.TECHNIQUE,
    })
man = {
    "version": 1,
    "setup_cmd": "./check --setup",
    "hooks": {
        "guard": "verif",
        "enable": "go test -tags verif -overlay <generated overlay.json>: harness files live in /verif/harness/go and are injected as *_test.go files of the target package; nothing in /repo is changed for instrumentation",
        "baseline_off_cmd": "for m in app core extras; do (cd /repo/$m && GOPROXY=off go test -json -vet=off -count=1 -timeout 25m ./...); done",
        "source_commits": [],
        "add_only": True,
    },
    "engines": [{"name": "coq-model+correspondence", "path": "check",
                 "serves_properties": [c["property_id"] for c in checks],
                 "kind_free_text": "Coq 8.16.1 development under coq/ (model, proof, props) + Go overlay harnesses + python driver vlib/"}],
    "checks": checks,
    "notes": "Defects named in the properties were repaired in /repo with separate 'fix:' commits (see known_findings.jsonl).",
    "not_applicable": na,
}
json.dump(man, open(os.path.join(V, "MANIFEST.json"), "w"), indent=1)
print("claimed:", [c["property_id"] for c in checks])
print("not claimed:", [n["property_id"] for n in na])
