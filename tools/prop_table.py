#!/usr/bin/env python3
"""Markdown table of the current state per property: theorems, quick-tier evaluations, axioms, wall time (from evidence/*.json),
Coq lines per property, seeded changes caught."""
import glob, json, os, re
V = os.path.dirname(os.path.dirname(os.path.abspath(__file__)))
props = [json.loads(l) for l in open(os.path.join(V, "properties.jsonl")) if l.strip()]
print("| id | theorems | Coq lines (model/proof/corr) | quick-tier evaluations | axioms | quick wall (s) | seeded caught |")
print("|---|---|---|---|---|---|---|")
for p in props:
    pid = p["id"]
    th = len(re.findall(r"^\s*Theorem\s", open(os.path.join(V, "coq", "props", pid + ".v")).read(), re.M))
    lines = {}
    for d in ("model", "proof", "corr"):
        lines[d] = sum(len(open(f).read().splitlines()) for f in glob.glob(os.path.join(V, "coq", d, pid + "_*.v")))
    ev = json.load(open(os.path.join(V, "evidence", pid + ".json")))
    cov = ev["coverage"]
    ax = [t for t in cov.get("trusted_base", []) if t.startswith("axioms reported")]
    ax = ax[0].split(":", 1)[1].strip() if ax else "?"
    if ax.startswith("none"):
        ax = "none"
    elif len(ax) > 60:
        ax = ax[:57] + "..."
    seeds = sorted(glob.glob(os.path.join(V, "seeded", pid + "-*", "meta.json")))
    caught = sum(1 for s in seeds if json.load(open(s))["what_i_ran"].get("detected_with_concrete_replay"))
    print("| %s | %d | %d / %d / %d | %s | %s | %s | %d/%d |" % (pid, th, lines["model"], lines["proof"], lines["corr"], cov.get("evaluations"), ax,
                                                               ev.get("wall_s"), caught, len(seeds)))
