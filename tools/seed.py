#!/usr/bin/env python3
"""Confirm and install a seeded property-breaking change produced by an independent sub-agent.

usage: tools/seed.py <PID> <A|B> [--suite] [--no-check]
  input : /tmp/mut/<PID>.out/{A.diff, A_demo_test.go, A.json}
  steps : scratch worktree of /repo at HEAD (outside /repo and /verif) -> demo passes on the clean tree ->
          apply diff -> builds -> demo fails -> (--suite) module test suite has no new failures vs baseline ->
          run ./check <PID> against the patched worktree (VERIF_REPO) -> record everything in
          /verif/seeded/<PID>-<x>/{patch.diff, demo_test.go, meta.json}; the worktree is removed afterwards.
"""
import json
import os
import re
import shutil
import subprocess
import sys
import time

V = os.path.dirname(os.path.dirname(os.path.abspath(__file__)))


def sh(cmd, cwd=None, env=None, timeout=3600):
    e = dict(os.environ)
    e["GOPROXY"] = "off"
    e.pop("GOFLAGS", None)
    if env:
        e.update(env)
    p = subprocess.run(cmd, shell=True, cwd=cwd, env=e, capture_output=True, text=True, timeout=timeout)
    return p.returncode, p.stdout + p.stderr


def failing_tests(out):
    return sorted(set(re.findall(r"^--- FAIL: (\S+)", out, re.M)) | set(re.findall(r"^FAIL\s+(\S+)", out, re.M)))


def main():
    pid, x = sys.argv[1], sys.argv[2]
    suite = "--suite" in sys.argv
    nocheck = "--no-check" in sys.argv
    src = "/tmp/mut/%s.out" % pid if x in ("A", "B") else ("/tmp/mut/%s.r2.out" % pid if x in ("C", "D") else ("/tmp/mut/%s.r3.out" % pid if x in ("E", "F") else ("/tmp/mut/%s.r4.out" % pid if x in ("G", "H") else "/tmp/mut/%s.r5.out" % pid)))
    inst = os.path.join(V, "seeded", "%s-%s" % (pid, x))
    if not os.path.exists("%s/%s.json" % (src, x)) and os.path.exists(os.path.join(inst, "meta.json")):
        # the sub-agent's delivery under /tmp is gone (new session): re-run from the installed copy
        src = "/tmp/seedwt/in-%s-%s" % (pid, x)
        os.makedirs(src, exist_ok=True)
        shutil.copy(os.path.join(inst, "patch.diff"), "%s/%s.diff" % (src, x))
        shutil.copy(os.path.join(inst, "demo_test.go"), "%s/%s_demo_test.go" % (src, x))
        json.dump(json.load(open(os.path.join(inst, "meta.json")))["what_i_ran"]["agent_meta"], open("%s/%s.json" % (src, x), "w"))
    meta = json.load(open("%s/%s.json" % (src, x)))
    wt = "/tmp/seedwt/%s-%s" % (pid, x)
    os.makedirs("/tmp/seedwt", exist_ok=True)
    sh("git -C /repo worktree remove --force %s" % wt)
    rc, out = sh("git -C /repo worktree add --detach %s HEAD" % wt)
    assert rc == 0, out
    rec = {"property": pid, "variant": x, "agent_meta": meta, "repo_head": sh("git -C /repo rev-parse --short HEAD")[1].strip(),
           "confirmed_at": time.strftime("%Y-%m-%dT%H:%M:%SZ", time.gmtime())}
    try:
        module = meta["module"]
        pkgdir = meta["package_dir"]
        demo_dst = os.path.join(wt, pkgdir, meta["demo_file_name"])
        shutil.copy("%s/%s_demo_test.go" % (src, x), demo_dst)
        run = meta["demo_run"]
        # private network namespace: some demos live in packages that bind fixed loopback ports
        run = "unshare -rn bash -c 'ip link set lo up; %s'" % run.replace("'", "'\\''")
        rc0, out0 = sh(run, cwd=os.path.join(wt, module), timeout=900)
        rec["demo_on_clean_tree"] = "pass" if rc0 == 0 else "FAIL"
        rc, out = sh("git apply %s/%s.diff" % (src, x), cwd=wt)
        rec["applies_at_head"] = rc == 0
        if rc != 0:
            rec["apply_error"] = out[-500:]
            print(json.dumps(rec, indent=1))
            return 1
        rcb, outb = sh("go build ./... && go vet -vettool=/bin/true ./... 2>/dev/null; go test -count=1 -vet=off -run '^$' ./... 2>&1 | tail -3",
                       cwd=os.path.join(wt, module), timeout=1800)
        rec["builds"] = "FAIL" not in outb and "cannot" not in outb
        rc1, out1 = sh(run, cwd=os.path.join(wt, module), timeout=900)
        rec["demo_with_change"] = "fail" if rc1 != 0 else "PASSES(unexpected)"
        rec["demo_failure_excerpt"] = "\n".join(l for l in out1.splitlines() if "FAIL" in l or "demo" in l.lower())[:1500]
        os.remove(demo_dst)
        if suite:
            # suite on patched tree vs suite on clean HEAD (/repo itself is clean HEAD)
            rcs, outs = sh("go test -count=1 -vet=off -timeout 25m ./... 2>&1", cwd=os.path.join(wt, module), timeout=3000)
            rcc, outc = sh("go test -count=1 -vet=off -timeout 25m ./... 2>&1", cwd=os.path.join("/repo", module), timeout=3000)
            fs, fc = failing_tests(outs), failing_tests(outc)
            rec["suite_failures_with_change"] = fs
            rec["suite_failures_clean"] = fc
            rec["suite_new_failures"] = [t for t in fs if t not in fc]
        if not nocheck:
            t0 = time.time()
            rcx, outx = sh("./check %s --tier quick" % pid, cwd=V, env={"VERIF_REPO": wt}, timeout=3000)
            viol = [l for l in outx.splitlines() if l.startswith("VIOLATION") or l.startswith("  what:")]
            rec["check_exit"] = rcx
            rec["check_lines"] = viol[:6]
            rec["check_wall_s"] = round(time.time() - t0, 1)
            rec["detected"] = rcx == 1 and any(l.startswith("VIOLATION") for l in viol)
            rec["detected_with_concrete_replay"] = rec["detected"] and not any("no-failing-input-found" in l for l in viol if l.startswith("VIOLATION"))
    finally:
        sh("git -C /repo worktree remove --force %s" % wt)
        sh("git -C /repo worktree prune")
    d = os.path.join(V, "seeded", "%s-%s" % (pid, x))
    os.makedirs(d, exist_ok=True)
    shutil.copy("%s/%s.diff" % (src, x), os.path.join(d, "patch.diff"))
    shutil.copy("%s/%s_demo_test.go" % (src, x), os.path.join(d, "demo_test.go"))
    m = {"property": pid, "breaks": meta.get("summary"), "needs_to_manifest": meta.get("needs"),
         "why_suite_passes": meta.get("why_tests_pass"), "demo": {"package_dir": pkgdir, "file_name": meta["demo_file_name"], "run": run},
         "what_i_ran": rec}
    try:  # keep the suite confirmation of an earlier run (tools/seed_suite.py) when a check is merely re-run
        prev = json.load(open(os.path.join(d, "meta.json")))
        if "suite" in prev.get("what_i_ran", {}) and "suite" not in rec:
            rec["suite"] = prev["what_i_ran"]["suite"]
    except Exception:
        pass
    json.dump(m, open(os.path.join(d, "meta.json"), "w"), indent=1)
    print(json.dumps({k: rec.get(k) for k in ("demo_on_clean_tree", "applies_at_head", "builds", "demo_with_change", "suite_new_failures",
                                              "check_exit", "check_lines", "detected", "detected_with_concrete_replay")}, indent=1))
    return 0


if __name__ == "__main__":
    sys.exit(main())
