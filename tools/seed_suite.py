#!/usr/bin/env python3
"""Confirm 'still passes the existing tests' for installed seeded changes: run the touched module's suite on a scratch worktree
with the patch, compare the failing set with the same run on a clean scratch worktree at HEAD (cached per module and HEAD).
usage: tools/seed_suite.py <seeded-id> [...]      (core: private netns, -skip Stress, as the stress tests take >20 min)"""
import json, os, re, subprocess, sys, time
V = os.path.dirname(os.path.dirname(os.path.abspath(__file__)))

def sh(cmd, cwd=None, timeout=7200):
    e = dict(os.environ); e["GOPROXY"] = "off"; e.pop("GOFLAGS", None)
    p = subprocess.run(cmd, shell=True, cwd=cwd, env=e, capture_output=True, text=True, timeout=timeout)
    return p.returncode, p.stdout + p.stderr

def suite(wt, module):
    inner = "cd %s/%s && go test -count=1 -vet=off -skip Stress -timeout 40m ./... 2>&1" % (wt, module)
    rc, out = sh("unshare -rn bash -c 'ip link set lo up; %s'" % inner)
    fails = sorted(set(re.findall(r"^--- FAIL: (\S+)", out, re.M)) | set(re.findall(r"^(?:FAIL|panic:.*)\s+(github\S+)", out, re.M)))
    oks = sorted(set(re.findall(r"^ok\s+(\S+)", out, re.M)))
    return fails, oks, out

def main():
    head = sh("git -C /repo rev-parse --short HEAD")[1].strip()
    cache = os.path.join(V, "run", "suite_baseline_%s.json" % head)
    base = json.load(open(cache)) if os.path.exists(cache) else {}
    for sid in sys.argv[1:]:
        d = os.path.join(V, "seeded", sid)
        m = json.load(open(os.path.join(d, "meta.json")))
        patch = open(os.path.join(d, "patch.diff")).read()
        modules = sorted(set(re.findall(r"^diff --git a/(app|core|extras)/", patch, re.M)))
        wt = "/tmp/seedwt/suite-%s" % sid
        sh("git -C /repo worktree remove --force %s" % wt)
        sh("git -C /repo worktree add --detach %s HEAD" % wt)
        res = {}
        try:
            for mod in modules:
                if mod not in base:
                    f, o, _ = suite(wt, mod)          # clean tree first
                    base[mod] = {"fails": f, "oks": o}
                    json.dump(base, open(cache, "w"))
            rc, out = sh("git apply %s" % os.path.join(d, "patch.diff"), cwd=wt)
            assert rc == 0, out
            for mod in modules:
                t = time.time()
                f, o, out = suite(wt, mod)
                new = [x for x in f if x not in base[mod]["fails"]]
                lost = [x for x in base[mod]["oks"] if x not in o]
                # re-run new failures once in isolation (timing-flaky tests)
                still = []
                for x in new:
                    if x.startswith("github"):
                        still.append(x); continue
                    rc2, out2 = sh("unshare -rn bash -c 'ip link set lo up; cd %s/%s && go test -count=1 -vet=off -run \"^%s$\" ./... 2>&1'" % (wt, mod, x.split("/")[0]))
                    if re.search(r"^--- FAIL", out2, re.M):
                        still.append(x)
                res[mod] = {"failing_with_change": f, "failing_on_clean_head": base[mod]["fails"], "new_failures": new,
                            "new_failures_after_isolated_rerun": still, "packages_ok_lost": lost, "wall_s": round(time.time() - t)}
        finally:
            sh("git -C /repo worktree remove --force %s" % wt); sh("git -C /repo worktree prune")
        m["what_i_ran"]["suite"] = {"repo_head": head, "cmd": "unshare -rn; go test -count=1 -vet=off -skip Stress ./... in each touched module (scratch worktree)", "modules": res}
        json.dump(m, open(os.path.join(d, "meta.json"), "w"), indent=1)
        print(sid, {k: (v["new_failures_after_isolated_rerun"], v["packages_ok_lost"]) for k, v in res.items()}, flush=True)

if __name__ == "__main__":
    main()
