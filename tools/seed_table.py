#!/usr/bin/env python3
"""Print the markdown table of seeded changes and which check catches them (from seeded/*/meta.json)."""
import glob, json, os
V = os.path.dirname(os.path.dirname(os.path.abspath(__file__)))
rows = []
for d in sorted(glob.glob(os.path.join(V, "seeded", "*"))):
    mp = os.path.join(d, "meta.json")
    if not os.path.exists(mp):
        continue
    m = json.load(open(mp))
    r = m["what_i_ran"]
    what = (m.get("breaks") or "").split(". ")[0][:150]
    det = "yes, concrete replay" if r.get("detected_with_concrete_replay") else ("yes, no-failing-input-found" if r.get("detected") else "**missed**")
    line = ""
    for l in r.get("check_lines") or []:
        if l.strip().startswith("what:"):
            line = l.strip()[5:].strip()[:110]
            break
    rows.append("| %s | %s | %s | %s |" % (os.path.basename(d), what.replace("|", "/"), det, line.replace("|", "/")))
print("| seeded change | what it does | caught by `./check %s` | first report |" % "<id>")
print("|---|---|---|---|")
print("\n".join(rows))
