"""Shared pieces of the C01 / C02 checks (one model, one Go harness environment):
boundary log -> Coq events, and the driver (common.run_case_check plus a second Go package for the
unexported padding range, and -race at the thorough tier)."""
import json
import os
import time

from vlib import common

PKG = "internal/integration_tests"
PKGNAME = "integration_tests"
ENV_FILES = {"zz_verif_c01env_test.go": "c01/env_test.go"}
PARAMS_NAME = "ParamsC01"
HEADER = ("From Hy Require Import gen.ParamsC01 model.C01_ServerAuth corr.C01_Corr.\n"
          "Local Open Scope N_scope.\n")
UNKNOWN_CONN = 99


# Interning: every distinct string / request / response literal is defined once per cases file
# (literals dominate the cost of a cases file; boundary logs repeat the same few strings a lot).
_INTERN = {}
_DEFS = []


def intern(prefix, typ, text):
    key = (typ, text)
    n = _INTERN.get(key)
    if n is None:
        n = "%s_%d" % (prefix, len(_DEFS))
        _INTERN[key] = n
        _DEFS.append((n, typ, text))
    return n


def cb(s):
    if isinstance(s, str):
        s = s.encode("utf-8", "surrogateescape")
    if len(s) <= 2:
        return common.coq_bytes(s)
    return intern("S", "str", common.coq_bytes(s))


def defs_for(texts):
    """definitions (in creation order = dependency order) of every interned name reachable from texts."""
    import re
    pat = re.compile(r"\b[SRQH]_\d+\b")
    byname = {n: (i, typ, text) for i, (n, typ, text) in enumerate(_DEFS)}
    need, stack = set(), []
    for t in texts:
        stack += pat.findall(t)
    while stack:
        n = stack.pop()
        if n in need:
            continue
        need.add(n)
        stack += pat.findall(byname[n][2])
    # top-level definitions (a chain of let-ins makes elaboration quadratic: every implicit argument under it
    # is an evar created in a context holding all the lets)
    return "".join("Definition %s : %s := %s.\n" % (n, byname[n][1], byname[n][2]) for n in sorted(need, key=lambda n: byname[n][0]))


def eval_cases(ctx, prefix, header, terms, shards=4, timeout=900):
    """like common.eval_cases, with the interned definitions each shard needs put in front."""
    if not terms:
        return True, [], ""
    if len(terms) > 60:
        shards = 12
    ns = max(1, min(shards, len(terms)))
    groups = [terms[si::ns] for si in range(ns)]
    texts = [header + defs_for(g) + "\nDefinition cases : list case := [\n" + ";\n".join(g) + "\n].\n" + common.CASES_TAIL for g in groups]
    res = common.coq_eval_shards(ctx, prefix, texts, timeout)
    mism = []
    for si, (rc, out, err) in enumerate(res):
        n, mm = common.parse_mismatches(out)
        if rc != 0 or mm is None or n != len(groups[si]):
            return False, mism, "shard %d: rc=%s count=%s expected=%s err=%s" % (si, rc, n, len(groups[si]), (err or out)[-1500:])
        mism += [j * ns + si for j in mm]
    return True, sorted(mism), ""


def req_term(e, tag):
    return "(mkReq %s %s %s %s %s %d)" % (cb(e.get("m", "")), cb(e.get("h", "")), cb(e.get("p", "")),
                                          cb(e.get("auth", "")), cb(e.get("ccrx", "")), tag)


def hdr_term(h):
    items = []
    for k, v in h:
        if k == "Hysteria-Padding" and v.startswith("#"):
            items.append("(%s, pad_of %d)" % (cb(k), int(v[1:])))
        else:
            items.append("(%s, %s)" % (cb(k), cb(v)))
    return intern("H", "list (str * str)", "[" + ";".join(items) + "]")


def resp_term(status, hdr, body_hex):
    return intern("R", "response", "(mkResp %d %s %s)" % (max(status, 0), hdr_term(hdr or []), cb(bytes.fromhex(body_hex or ""))))


def conn(c):
    return c if isinstance(c, int) and c >= 0 else UNKNOWN_CONN


def log_to_events(log, conc=False, life=False):
    """-> (events: list of Coq terms of type ev, table: list of Coq response terms (the oracle)).

    conc=False: at most one request per connection is in flight at any time (the request an authcall / authret / masq /
    resp entry belongs to is the connection's current one; HttpReq is placed where the client sent the request).

    conc=True: requests of one connection may be in flight concurrently.  The `req` entry is the CLIENT sending; the
    model's HttpReq action of an auth request is the handler getting authMutex, so it is placed at the first thing the
    boundary shows of that: the Authenticate call carrying its credentials, or (answered without a call) its response.
    A request that is not an auth request takes no lock: its HttpReq stays where it was sent.  An auth request that is
    answered while another one is inside Authenticate therefore makes the action sequence one the model refuses
    (step (HttpReq c r) = None while in_auth (s c) <> None)."""
    resp_by = {}
    for x in log:
        if x["k"] == "resp":
            resp_by[(x["c"], x.get("rid", 0))] = x
    table = []
    cur = {}
    ev = []
    info = {}        # conc: (c, rid) -> request record, in sending order
    inmutex = {}     # conc: c -> the record of the auth request inside Authenticate / whose verdict was the last one
    for x in log:
        k = x["k"]
        c = conn(x.get("c", -1))
        if k == "req":
            tag = len(table)
            rp = resp_by.get((x["c"], x.get("rid", 0)))
            padn = 0
            if rp is not None:
                table.append(resp_term(rp.get("ost", 0), rp.get("ohdr"), rp.get("obody")))
                for hk, hv in rp.get("hdr") or []:
                    if hk == "Hysteria-Padding" and hv.startswith("#"):
                        padn = int(hv[1:])
            else:
                table.append("resp0")
            rt = req_term(x, tag)
            cur[c] = (x, tag, rt, padn)
            act = "EAct (HttpReq %d %s (pad_of %d))" % (c, rt, padn)
            if conc:
                d = {"x": x, "tag": tag, "rt": rt, "padn": padn, "act": act, "emitted": False, "answered": False, "masq": False, "c": c}
                info[(c, x.get("rid", 0))] = d
                if x.get("af"):
                    continue            # deferred
                d["emitted"] = True
            ev.append(act)
        elif k == "authcall":
            if conc:
                d = next((d for d in info.values() if d["c"] == c and d["x"].get("af") and not d["emitted"] and not d["answered"]
                          and d["x"].get("auth", "") == x.get("auth", "")), None)
                if d is not None:
                    ev.append(d["act"])
                    d["emitted"] = True
                    inmutex[c] = d
            ev.append("EObs (ObsAuthCall %d %s %s)" % (c, cb(x.get("auth", "")), x.get("rx", "0")))
        elif k == "authret":
            if conc:
                padn = inmutex[c]["padn"] if c in inmutex else 0
            else:
                padn = cur[c][3] if c in cur else 0
            ev.append("EAct (AuthVerdict %d %s %s (pad_of %d))" % (c, "true" if x.get("ok") else "false", cb(x.get("id", "")), padn))
        elif k == "masq":
            if conc:
                same = lambda d: (d["c"] == c and not d["answered"] and not d["masq"] and d["emitted"] and d["x"].get("m", "") == x.get("m", "")
                                  and d["x"].get("h", "") == x.get("h", "") and d["x"].get("p", "") == x.get("p", ""))
                d = inmutex[c] if c in inmutex and same(inmutex[c]) else next((d for d in info.values() if same(d)), None)
                if d is not None:
                    d["masq"] = True
                q, tag = (d["x"], d["tag"]) if d is not None else ({}, 0)
            else:
                q, tag = (cur[c][0], cur[c][1]) if c in cur else ({}, 0)
            e2 = {"m": x.get("m", ""), "h": x.get("h", ""), "p": x.get("p", ""), "auth": q.get("auth", ""), "ccrx": q.get("ccrx", "")}
            ev.append("EObs (ObsMasq %d %s)" % (c, req_term(e2, tag)))
        elif k == "resp":
            if conc:
                d = info.get((c, x.get("rid", 0)))
                if d is not None and not d["emitted"]:
                    ev.append(d["act"])
                    d["emitted"] = True
                if d is not None:
                    d["answered"] = True
                rt = d["rt"] if d is not None else req_term({}, 0)
            else:
                rt = cur[c][2] if c in cur else req_term({}, 0)
            ev.append("EObs (ObsResp %d %s %s)" % (c, rt, resp_term(x.get("status", 0), x.get("hdr"), x.get("body"))))
        elif k == "online":
            ev.append("EObs (ObsOnline %d %s %s)" % (c, cb(x.get("id", "")), "true" if x.get("ok") else "false"))
        elif k == "connect":
            ev.append("EObs (ObsConnect %d %s %s)" % (c, cb(x.get("id", "")), x.get("rx", "0")))
        elif k == "disconnect":
            ev.append("EObs (ObsDisconnect %d %s)" % (c, cb(x.get("id", ""))))
        elif k == "stream":
            ft = x.get("ft", 0)
            ev.append("EAct (Stream %d %s %s)" % (c, "None" if ft < 0 else "(Some %d)" % ft, cb(x.get("addr", ""))))
        elif k == "outtcp":
            ev.append("EAct (TcpDial %d %s)" % (c, cb(x.get("addr", ""))))
            ev.append("EObs (ObsOutboundTCP %d %s)" % (c, cb(x.get("addr", ""))))
        elif k == "relay":
            ev.append("EAct (TcpRelay %d %s %d)" % (c, cb(x.get("addr", "")), x.get("n", 0)))
            ev.append("EObs (ObsRelay %d %d)" % (c, x.get("n", 0)))
        elif k == "dgram":
            ev.append("EAct (Datagram %d %s)" % (c, cb(x.get("addr", ""))))
        elif k == "outudp":
            ev.append("EAct (UdpRecv %d %s)" % (c, cb(x.get("addr", ""))))
            ev.append("EObs (ObsOutboundUDP %d %s)" % (c, cb(x.get("addr", ""))))
        elif k == "udpwrite":
            ev.append("EAct (UdpRelay %d %s %d)" % (c, cb(x.get("addr", "")), x.get("n", 0)))
            ev.append("EObs (ObsRelay %d %d)" % (c, x.get("n", 0)))
        elif k == "close":
            ev.append("EAct (ConnClosed %d)" % c)
        elif k == "open" and life:
            ev.append("@open %d" % c)      # the accept of a new connection (lifecycle LTS: LAccept); not an event of the base LTS
        # open (life=False), streamres, dgramreply, evtcp, evudp, checkudp, dgramerr, pol, window, release: client-side / C06-C08 / harness detail,
        # judged by the Go verdict
    return ev, table


def cfg_term(cfg):
    return "(mkCfg %s %s %d %d)" % ("true" if cfg["udp"] else "false", "true" if cfg["ignbw"] else "false",
                                    cfg["maxtx"], cfg["maxrx"])


def hist_term(cfg, nconn, log, life=False):
    ev, table = log_to_events(log, life=life)
    if life:
        # corr/C01L_Corr.v: the log with the accepts of new connections in place (LOpen c) - CLife
        ev = ["LOpen %s" % e[6:] if e.startswith("@open ") else "LEv (%s)" % e for e in ev]
    return "%s %s %d%%nat %s\n [%s]\n [%s]" % ("CLife" if life else "CHist", cfg_term(cfg), nconn, "true" if cfg["masq"] != 0 else "false",
                                                 ";\n  ".join(table), ";\n  ".join(ev))


def log_features(log):
    """coarse features of one boundary log, for the class histogram / non-triviality."""
    acc = set()
    f = set()
    pend, verdicts = {}, {}
    ids, emptyc = {}, set()
    ended_acc, fresh = set(), set()
    for x in log:
        k, c = x["k"], x.get("c")
        if k == "open" and ended_acc:
            fresh.add(c)
            f.add("connection-opened-after-an-accepted-connection-ended")
            if x.get("res"):
                f.add("connection-opened-from-the-socket-of-an-ended-connection")
        if k == "close" and c in acc:
            ended_acc.add(c)
        if c in fresh and c not in acc and ((k == "stream" and x.get("ft") == 0x401) or k == "dgram"):
            f.add("proxy-attempt-on-unaccepted-connection-opened-after-an-accepted-one-ended")
        if c in fresh and k == "authret" and x.get("ok"):
            f.add("accept-on-connection-opened-after-an-accepted-one-ended")
        if (k == "req" and not x.get("af") and x.get("m") == "POST" and x.get("p") == "/auth" and "hysteria" in (x.get("h") or "").lower()
                and (x.get("auth") or "").startswith("good")):
            f.add("near-miss-authority-with-acceptable-credentials")
        if k == "authcall":
            pend[c] = x.get("auth", "")
        if k == "authret" and c in pend:
            v = verdicts.setdefault(pend.pop(c), {})
            v.setdefault(bool(x.get("ok")), set()).add(c)
            if v.get(True) and v.get(False) and v[False] - v[True]:
                f.add("same-credential-accepted-on-one-connection-rejected-on-another")
        if k == "authret":
            if x.get("ok"):
                acc.add(c)
                f.add("accept")
                idc = ids.setdefault(x.get("id", ""), set())
                idc.add(c)
                if x.get("id", "") == "":
                    f.add("accepted-with-empty-id")
                    emptyc.add(c)
                if len(idc) > 1:
                    f.add("one-id-accepted-on-several-connections")
            else:
                f.add("reject")
        elif k == "authcall":
            pass
        elif k == "stream":
            if x.get("ft") == 0x401:
                f.add("proxy-stream-after-auth" if c in acc else "proxy-stream-before-auth")
            else:
                f.add("other-stream")
        elif k == "dgram":
            f.add("datagram-after-auth" if c in acc else "datagram-before-auth")
        elif k in ("outtcp", "outudp", "relay", "udpwrite"):
            f.add(k)
        elif k == "req" and c in acc and x.get("m") == "POST" and x.get("h") == "hysteria" and x.get("p") == "/auth":
            f.add("repeat-auth-on-authed")
            if c in emptyc:
                f.add("auth-request-after-accept-with-empty-id")
        elif k == "close":
            f.add("close-authed" if c in acc else "close-unauthed")
    return f


def proto_params(ctx):
    """unexported constants of package protocol (second Go package)."""
    parp = ctx.path("params_proto.json")
    if os.path.exists(parp):
        os.remove(parp)
    overlay = {"zz_verif_c01proto_test.go": "c01/protoparams_test.go",
               "zz_verif_util_test.go": common.make_util(ctx, "protocol")}
    rc, log = common.go_test(ctx, "core", "internal/protocol", overlay, "TestVerifC01Proto",
                             env={"VERIF_PARAMS": parp}, timeout=300)
    if rc != 0 or not os.path.exists(parp):
        return None, log
    return json.load(open(parp)), log


def parse_races(golog):
    """-> list of (signature, report text): one per `WARNING: DATA RACE` block; the signature is the pair of functions
    whose accesses race (top frames), e.g. server.(*h3sHandler).ProxyStreamHijacker+server.(*h3sHandler).ServeHTTP."""
    import re
    out = []
    for blk in golog.split("WARNING: DATA RACE")[1:]:
        blk = blk.split("==================")[0]
        funcs = []
        lines = blk.splitlines()
        for i, ln in enumerate(lines):
            if re.match(r"^(Write|Read|Previous write|Previous read) at ", ln) and i + 1 < len(lines):
                f = lines[i + 1].strip().split("/")[-1]
                f = re.sub(r"\(\)$", "", f)
                where = lines[i + 2].strip().split(" ")[0] if i + 2 < len(lines) else ""
                funcs.append((f, where))
        sig = "+".join(sorted(set(f for f, _ in funcs)))
        out.append((sig, funcs, blk.strip()[:2500]))
    return out


def run_check(ctx, spec):
    """common.run_case_check with: params merged from two Go packages, -race at the thorough tier,
    feature histogram printed, disagreement explanation."""
    import random
    from concurrent.futures import ThreadPoolExecutor
    rng = random.Random(ctx.seed)
    cases = spec.gen(rng, ctx.tier)
    violations = []
    race = ctx.tier == "thorough"
    with ThreadPoolExecutor(max_workers=2) as ex:
        fut = ex.submit(proto_params, ctx)
        t0 = time.time()
        ok, outs, params, golog = common.run_go_cases(ctx, spec.GO, cases, timeout=1500, race=race)
        ctx.say("go harness: %d cases in %.1fs%s" % (len(cases), time.time() - t0, " (-race)" if race else ""))
        pparams, plog = fut.result()
    races = parse_races(golog) if race else []
    if races:
        seen = set()
        for sig, funcs, text in races:
            if sig in seen:
                continue
            seen.add(sig)
            ctx.say("race detector: " + sig + "  " + ", ".join(w for _, w in funcs))
            violations.append({
                "what": "data race reported by go test -race between " + " and ".join("%s (%s)" % fw for fw in funcs),
                "replay": {"how": "go test -race of the %s harness (any history in which a proxy stream is dispatched on a connection "
                                  "after an accepting verdict on it)" % ctx.pid, "race_report": text},
                "fingerprint": "data-race:" + sig, "found_input": True})
        if len(outs) == len(cases):
            ok = True       # the harness ran to the end; the non-zero exit status is the race detector's
    if not ok or pparams is None:
        lg = golog if not ok else plog
        ctx.say("Go harness failed:\n" + lg[-3000:])
        violations.append({"what": "tie broken: Go harness for %s did not build/run against the current tree (%s)" % (ctx.pid, lg.strip()[-400:]),
                           "replay": {"broken": "go harness", "log": lg[-4000:]}, "found_input": False, "fingerprint": None})
        outs = outs if len(outs) == len(cases) else []
    if params is not None and pparams is not None:
        if common.write_params(PARAMS_NAME, [tuple(p) for p in params + pparams]):
            ctx.say("Params changed -> rebuilding dependants")
    proof_ok, pinfo = common.proof_stage(ctx, ctx.pid, extra_targets=spec.EXTRA_TARGETS)
    if not proof_ok:
        ctx.say("PROOF STAGE BROKEN: " + json.dumps({k: pinfo[k] for k in pinfo if k != "theorems"})[:3000])
    mism, corr_ok, corr_err, compared = [], True, "", 0
    if outs:
        terms, idxmap = [], []
        for i, (c, o) in enumerate(zip(cases, outs)):
            t = spec.to_coq(c, o)
            if t is not None:
                terms.append(t)
                idxmap.append(i)
        compared = len(terms)
        t1 = time.time()
        eok, mm, err = eval_cases(ctx, "cases", spec.HEADER, terms)
        ctx.say("coq evaluation of %d cases: %.1fs" % (len(terms), time.time() - t1))
        if not eok:
            corr_ok, corr_err = False, err
            ctx.say("CORRESPONDENCE EVALUATION FAILED: " + err)
        mism = [idxmap[j] for j in mm]
    hist, feats, nontriv = {}, {}, set()
    for c, o in zip(cases, outs):
        k = spec.klass(c, o)
        hist[k] = hist.get(k, 0) + 1
        for f in spec.features(c, o):
            feats[f] = feats.get(f, 0) + 1
        if hasattr(spec, "nontrivial_keys"):
            nontriv |= spec.nontrivial_keys(c, o)
        elif spec.nontrivial(c, o):
            nontriv.add(json.dumps(c, sort_keys=True))
        if o.get("ok") is False:
            violations.append({"what": "%s: %s" % (c.get("k"), o.get("why")), "replay": {"case": c, "impl": o},
                               "fingerprint": spec.fingerprint(c, o), "found_input": True})
    ctx.say("classes: " + json.dumps(hist, sort_keys=True))
    ctx.say("features (cases exhibiting each): " + json.dumps(feats, sort_keys=True))
    impl_bad = any(v.get("found_input") for v in violations)
    broken = []
    if not proof_ok:
        broken.append("proof obligation (%s)" % pinfo.get("broken_at", pinfo.get("forbidden", "assumptions")))
    if mism:
        broken.append("correspondence %s: the recorded boundary log is not a behaviour of the model on %d case(s)" % (spec.CORR_NAME, len(mism)))
    if not corr_ok:
        broken.append("correspondence evaluation (%s)" % corr_err[:200])
    if broken and not impl_bad:
        found = spec.search(ctx, [cases[i] for i in mism[:20]]) or []
        if found:
            violations += found
        else:
            violations.append({
                "what": "no longer shown to hold: " + "; ".join(broken),
                "replay": {"broken": broken, "proof": {k: pinfo.get(k) for k in ("broken_at", "build_log_tail", "forbidden", "theorems")},
                           "disagreeing_cases": [{"case": cases[i], "impl": outs[i]} for i in mism[:5]]},
                "fingerprint": None, "found_input": False})
    elif mism and impl_bad:
        ctx.say("model/implementation disagree on %d case(s) (implementation also violates the property directly)" % len(mism))

    def slim(o):
        o = {k: v for k, v in o.items() if k != "i"}
        if "log" in o:
            o["log"] = o["log"][:12]
        if "rs" in o:
            o["rs"] = o["rs"][:6]
        return o
    samples = [{"case": c, "impl": slim(o)} for c, o in list(zip(cases, outs))[:2]]
    evals = spec.count_evaluations(cases, outs) if hasattr(spec, "count_evaluations") else len(cases)
    cov = {"evaluations": evals, "cases": len(cases), "distinct_nontrivial": len(nontriv), "rule": spec.RULE,
           "samples": samples, "traces_validated_against_impl": compared, "model_impl_disagreements": len(mism),
           "input_classes": hist, "features": feats, "boundary_events": sum(len(o.get("log") or []) for o in outs),
           "race_detector": race}
    return common.finish(ctx, pinfo, cov, violations, spec.ASSUMPTIONS, trusted_extra=spec.TRUSTED)


def replay(ctx, spec, path):
    r = json.load(open(path))
    c = r["replay"].get("case")
    if not c:
        print("replay file names a broken obligation/correspondence, no concrete input:", r["what"])
        return 1
    ok, outs, _, log = common.run_go_cases(ctx, spec.GO, [c], tag="replay")
    for o in outs:
        print(json.dumps({k: v for k, v in o.items() if k not in ("log",)}, indent=1)[:4000])
        for x in o.get("log") or []:
            print("  ", json.dumps(x, separators=(",", ":"))[:300])
    return 0 if outs and outs[0].get("ok") else 1
