"""Shared machinery for the per-property checks (see DESIGN.md section 1).

A check = (1) run the Go harness built from /repo's current working tree (overlay, tag verif):
it dumps the constants the proofs depend on and runs the implementation on the generated cases;
(2) regenerate coq/gen/Params<ID>.v and rebuild the property's theorems (full .vo);
(3) evaluate the model on the same cases inside Coq (vm_compute) and compare;
(4) on any break, search for a concrete failing input with the property predicate evaluated on
the implementation; (5) known findings; (6) evidence.
"""
import fcntl
import hashlib
import json
import os
import re
import subprocess
import sys
import time
from concurrent.futures import ThreadPoolExecutor

VERIF = os.path.dirname(os.path.dirname(os.path.abspath(__file__)))
REPO = os.environ.get("VERIF_REPO", "/repo")
COQ = os.path.join(VERIF, "coq")
ALLOWED_AXIOMS = {
    # standard-library axioms that may appear (each is named in the trusted base when it does)
    "functional_extensionality_dep", "FunctionalExtensionality.functional_extensionality_dep",
    "ClassicalDedekindReals.sig_forall_dec", "ClassicalDedekindReals.sig_not_dec",
    "Classical_Prop.classic", "Eqdep.Eq_rect_eq.eq_rect_eq", "ProofIrrelevance.proof_irrelevance",
    "JMeq.JMeq_eq",
}
FORBIDDEN = re.compile(r"\b(Admitted|admit|Axiom|Parameter|Parameters|Conjecture|Axioms)\b|Unset Guard|bypass_check|type-in-type|Admit Obligations|impredicative-set")

KERNEL_TB = [
    "Coq 8.16.1 kernel incl. the vm_compute VM (models are evaluated and finite sweeps closed with it); native_compute not used",
    "hand-written Gallina model; tie to /repo = regenerated gen/Params*.v + this run's correspondence check (sampled, differential)",
    "python driver (writes cases files, parses `= []`), Go harness canonicalisation (error classes, digests)",
]


def go_env():
    env = dict(os.environ)
    env["GOPROXY"] = "off"
    env["GOFLAGS"] = ""
    env.pop("GOSUMDB", None)
    env.pop("GONOSUMDB", None)
    env["GOTOOLCHAIN"] = "auto"
    env.setdefault("GOCACHE", os.path.expanduser("~/.cache/go-build"))
    return env


class Ctx:
    def __init__(self, pid, tier, seed):
        self.pid = pid
        self.tier = tier
        self.seed = seed
        self.t0 = time.time()
        alt = "" if REPO == "/repo" else "@" + hashlib.sha1(REPO.encode()).hexdigest()[:8]
        self.rundir = os.path.join(VERIF, "run", pid + alt)
        os.makedirs(self.rundir, exist_ok=True)
        # runs against a scratch tree (VERIF_REPO, used for seeded changes) never touch the real evidence
        self.evidence_path = (os.path.join(VERIF, "evidence", pid + ".json") if not alt
                              else os.path.join(self.rundir, "evidence.json"))
        self.log = []
        self.notes = []

    def say(self, *a):
        msg = " ".join(str(x) for x in a)
        self.log.append(msg)
        print(msg, flush=True)

    def path(self, name):
        return os.path.join(self.rundir, name)


# ---------------------------------------------------------------- Go side

def _go_test_once(ctx, module, pkg, repl, run, env, timeout, race, extra, tagx=""):
    ov = {"Replace": dict(repl)}
    xov = os.environ.get("VERIF_EXTRA_OVERLAY")
    if xov:
        # self-test hook: run a check against a mutated copy of a source file without touching /repo
        ov["Replace"].update(json.load(open(xov)).get("Replace", {}))
    ovp = ctx.path("overlay_%s%s.json" % (hashlib.sha1((module + pkg + run).encode()).hexdigest()[:8], tagx))
    with open(ovp, "w") as f:
        json.dump(ov, f)
    cmd = ["go", "test", "-tags", "verif", "-overlay", ovp, "-run", "^" + run + "$", "-count=1",
           "-vet=off", "-timeout", "%ds" % timeout]
    if race:
        cmd.append("-race")
    if extra:
        cmd += extra
    cmd.append("./" + pkg)
    e = go_env()
    e["VERIF_SEED"] = str(ctx.seed)
    e["VERIF_TIER"] = ctx.tier
    if env:
        e.update({k: str(v) for k, v in env.items()})
    if "VERIF_RENAMES" not in e:
        # functions / types renamed anywhere in the tree under check (empty on the unchanged tree): harnesses that read
        # function names at run time (stack dumps, runtime.Callers) map them back with vCanonNames
        inv = _decl_renames_inverse()
        if inv:
            e["VERIF_RENAMES"] = json.dumps(inv)
    try:
        p = subprocess.run(cmd, cwd=os.path.join(REPO, module), env=e, capture_output=True, text=True,
                           timeout=timeout + 120)
        return p.returncode, p.stdout + p.stderr
    except subprocess.TimeoutExpired as ex:
        return 124, "TIMEOUT " + str(ex)


_DECL_INV = None


def _decl_renames_inverse():
    global _DECL_INV
    if _DECL_INV is None:
        try:
            infer_renames(".")
            _DECL_INV = {v: k for k, v in getattr(infer_renames, "decls", {}).items()}
        except Exception:  # pragma: no cover
            _DECL_INV = {}
    return _DECL_INV


def go_test(ctx, module, pkg, overlay, run, env=None, timeout=600, race=False, extra=None):
    """Run `go test` in REPO/<module> on ./<pkg> with harness files injected by -overlay.
    overlay: {file name inside the package dir: path relative to /verif/harness/go}.
    When the harness does not compile because the tree under check RENAMED unexported identifiers it uses, the harness
    is re-bound to the new names (see rebind_harness) and run again; on the unchanged tree this path is never taken."""
    repl = {}
    for dst, src in overlay.items():
        repl[os.path.join(REPO, module, pkg, dst)] = src if os.path.isabs(src) else os.path.join(VERIF, "harness", "go", src)
    rc, out = _go_test_once(ctx, module, pkg, repl, run, env, timeout, race, extra)
    if rc != 0 and "[build failed]" in out and os.environ.get("VERIF_NO_REBIND") != "1":
        try:
            rb = rebind_harness(ctx, module, pkg, repl, run, env, timeout, race, extra, out)
        except Exception as ex:  # pragma: no cover
            ctx.say("note: harness re-binding failed: %r" % (ex,))
            rb = None
        if rb is not None:
            return rb
    return rc, out


# ---- re-binding a harness after a rename of unexported identifiers in the tree under check

_GO_ERR = re.compile(r"^(/[^:\n]+\.go):(\d+):(\d+): (.*)$", re.M)
_IDENT = re.compile(r"[A-Za-z_][A-Za-z0-9_]*")
_GO_KEYWORDS = set("break default func interface select case defer go map struct chan else goto package switch const "
                   "fallthrough if range type continue for import return var nil true false".split())


def _tokens(line):
    return re.findall(r"[A-Za-z_][A-Za-z0-9_]*|\d+|\s+|.", line)


def infer_renames(module):
    """Identifier renames between the source the harnesses were written against (tools/harness_base.txt, else HEAD)
    and the working tree of REPO: pairs of removed/added lines of `git diff -U0` that are token-for-token equal
    except for identifiers vote for old->new; a name is taken only when its votes agree."""
    base = "HEAD"
    try:
        b = open(os.path.join(VERIF, "tools", "harness_base.txt")).read().strip()
        if b and subprocess.run(["git", "-C", REPO, "cat-file", "-e", b + "^{commit}"], capture_output=True).returncode == 0:
            base = b
    except Exception:
        pass
    p = subprocess.run(["git", "-C", REPO, "diff", "-U0", "--no-color", base, "--", module], capture_output=True, text=True)
    if p.returncode != 0:
        return {}
    votes = {}
    decls = {}
    rem, add = [], []

    def flush():
        if rem and len(rem) == len(add):
            for a, b2 in zip(rem, add):
                ta = [t for t in _tokens(a) if not t.isspace()]
                tb = [t for t in _tokens(b2) if not t.isspace()]
                if len(ta) != len(tb):
                    continue
                diffs = [(x, y) for x, y in zip(ta, tb) if x != y]
                if not diffs or not all(_IDENT.fullmatch(x) and _IDENT.fullmatch(y) and x not in _GO_KEYWORDS
                                        and y not in _GO_KEYWORDS for x, y in diffs):
                    continue
                for x, y in set(diffs):
                    votes.setdefault(x, {}).setdefault(y, 0)
                    votes[x][y] += 1
                if ta and ta[0] in ("func", "type"):
                    for x, y in set(diffs):
                        decls[x] = y
        rem.clear()
        add.clear()

    for line in p.stdout.splitlines():
        if line.startswith("@@") or line.startswith("diff "):
            flush()
        elif line.startswith("---") or line.startswith("+++"):
            continue
        elif line.startswith("-"):
            rem.append(line[1:])
        elif line.startswith("+"):
            add.append(line[1:])
    flush()
    # candidates per old name, most votes first (the compiler arbitrates between them in rebind_harness)
    infer_renames.decls = decls
    return {old: sorted(cands, key=lambda c: (-cands[c], c))[:4] for old, cands in votes.items()}


def rebind_harness(ctx, module, pkg, repl, run, env, timeout, race, extra, out):
    """The compiler names every place where the harness uses an identifier that no longer exists; each such place is
    rewritten to the name the tree under check renamed it to (infer_renames), in a copy of the harness file, and the
    build is retried (a few rounds: the compiler reports a limited number of errors at a time).  Returns (rc, out) of the
    run with the re-bound harness, or None when the failure is not (only) a rename - then the original failure stands."""
    ren = infer_renames(module)
    if not ren:
        return None
    rbdir = ctx.path("rebound_" + hashlib.sha1((module + pkg + run).encode()).hexdigest()[:8])
    os.makedirs(rbdir, exist_ok=True)
    cur = dict(repl)
    copies = {}   # original harness path -> path of its re-bound copy
    texts = {}    # original harness path -> current lines
    subs = {}     # (original path, line) -> [[original name, index of the candidate in use, current text]]
    used = {}
    extra2 = list(extra or []) + ["-gcflags=-e"]
    back = {}     # copy path -> original path
    for rnd in range(16):
        errs = _GO_ERR.findall(out)
        fixed = 0
        touched = set()
        seen = set()
        for path, ln, col, msg in errs:
            name = None
            for pat in (r"undefined: ([A-Za-z_][A-Za-z0-9_]*)$", r"has no field or method ([A-Za-z_][A-Za-z0-9_]*)\)",
                        r"unknown field ([A-Za-z_][A-Za-z0-9_]*) in struct literal",
                        r"undefined: [A-Za-z_][A-Za-z0-9_]*\.([A-Za-z_][A-Za-z0-9_]*)$"):
                m = re.search(pat, msg)
                if m:
                    name = m.group(1)
                    break
            if name is None:
                continue
            orig = back.get(path, path)
            if not any(os.path.abspath(s2) in (os.path.abspath(orig), os.path.abspath(copies.get(orig, orig))) for s2 in cur.values()):
                continue
            ln = int(ln)
            col = int(col)
            if (orig, ln, col, name) in seen:
                continue
            seen.add((orig, ln, col, name))
            if orig not in texts:
                texts[orig] = open(orig).read().split("\n")
            lines = texts[orig]
            if ln - 1 >= len(lines):
                continue
            line = lines[ln - 1]
            place = subs.setdefault((orig, ln), [])
            prev = next((e for e in place if e[2] == name), None)
            if prev is not None:
                # the candidate put here in an earlier round is not what the compiler wants: try the next one
                cands = ren.get(prev[0], [])
                if prev[1] + 1 >= len(cands):
                    continue
                newname = cands[prev[1] + 1]
                prev[1] += 1
                prev[2] = newname
                key = prev[0]
            elif name in ren:
                newname = ren[name][0]
                place.append([name, 0, newname])
                key = name
            else:
                continue
            rx = re.compile(r"\b%s\b" % re.escape(name))
            m = rx.search(line, max(0, col - 1)) or rx.search(line)
            if not m:
                continue
            lines[ln - 1] = line[:m.start()] + newname + line[m.end():]
            used[key] = newname
            fixed += 1
            touched.add(orig)
        if not fixed:
            return None
        for orig in touched:
            cp = copies.get(orig) or os.path.join(rbdir, "%s_%s" % (hashlib.sha1(orig.encode()).hexdigest()[:6], os.path.basename(orig)))
            with open(cp, "w") as f:
                f.write("\n".join(texts[orig]))
            copies[orig] = cp
            back[cp] = orig
            for d, s2 in list(cur.items()):
                if os.path.abspath(s2) in (os.path.abspath(orig), os.path.abspath(cp)):
                    cur[d] = cp
        # names observed at run time (stack dumps, runtime.Callers) are mapped back to the names the harness and the
        # model know: new -> old for renamed declarations and for every name re-bound above
        inv = dict(_decl_renames_inverse())
        inv.update({v: k for k, v in used.items()})
        env2 = dict(env or {})
        env2["VERIF_RENAMES"] = json.dumps(inv)
        rc, out = _go_test_once(ctx, module, pkg, cur, run, env2, timeout, race, extra2, tagx="_rb")
        if "[build failed]" not in out:
            msg = "harness for %s/%s re-bound to identifiers renamed in the tree under check: %s" % (
                module, pkg, ", ".join("%s->%s" % kv for kv in sorted(used.items())))
            ctx.say("note: " + msg)
            ctx.notes.append(msg)
            return rc, out
    return None


def read_jsonl(path):
    out = []
    if not os.path.exists(path):
        return out
    with open(path) as f:
        for line in f:
            line = line.strip()
            if line:
                out.append(json.loads(line))
    return out


def write_jsonl(path, rows):
    with open(path, "w") as f:
        for r in rows:
            f.write(json.dumps(r, separators=(",", ":")) + "\n")


# ---------------------------------------------------------------- Coq side

def coq_files():
    fs = []
    for d in ("lib", "gen", "model", "proof", "corr", "props"):
        dd = os.path.join(COQ, d)
        if os.path.isdir(dd):
            for n in sorted(os.listdir(dd)):
                if n.endswith(".v"):
                    fs.append(d + "/" + n)
    return fs


class CoqLock:
    def __enter__(self):
        os.makedirs(os.path.join(VERIF, "run"), exist_ok=True)
        self.f = open(os.path.join(VERIF, "run", ".coq.lock"), "w")
        fcntl.flock(self.f, fcntl.LOCK_EX)
        return self

    def __exit__(self, *a):
        fcntl.flock(self.f, fcntl.LOCK_UN)
        self.f.close()


def coq_prepare():
    """(Re)generate _CoqProject and Makefile when the file list changed. Caller holds CoqLock."""
    files = coq_files()
    base = open(os.path.join(COQ, "_CoqProject.in")).read()
    text = base + "\n".join(files) + "\n"
    cp = os.path.join(COQ, "_CoqProject")
    old = open(cp).read() if os.path.exists(cp) else ""
    if old != text or not os.path.exists(os.path.join(COQ, "Makefile")):
        with open(cp, "w") as f:
            f.write(text)
        subprocess.run(["coq_makefile", "-f", "_CoqProject", "-o", "Makefile"], cwd=COQ, check=True,
                       capture_output=True)


def coq_make(targets, timeout=1500, jobs=16):
    """Full .vo build of the given targets (relative to coq/). Returns (ok, log)."""
    with CoqLock():
        coq_prepare()
        cmd = ["timeout", str(timeout), "make", "-k", "-j%d" % jobs] + targets
        p = subprocess.run(cmd, cwd=COQ, capture_output=True, text=True)
        return p.returncode == 0, p.stdout[-6000:] + p.stderr[-6000:]


def write_params(name, params):
    """params: list of (ident, kind, value) with kind in N|Z|nat|bool|raw. Writes coq/gen/<name>.v if changed."""
    lines = ["(* GENERATED from /repo's working tree by the Go harness on every run; do not edit. *)",
             "From Coq Require Import NArith ZArith List.", "Import ListNotations.", ""]
    for ident, kind, val in params:
        if kind == "N":
            lines.append("Definition %s : N := %s%%N." % (ident, val))
        elif kind == "Z":
            lines.append("Definition %s : Z := (%s)%%Z." % (ident, val))
        elif kind == "nat":
            lines.append("Definition %s : nat := %s%%nat." % (ident, val))
        elif kind == "bool":
            lines.append("Definition %s : bool := %s." % (ident, "true" if val in (True, "true", 1, "1") else "false"))
        else:
            lines.append("Definition %s := %s." % (ident, val))
    text = "\n".join(lines) + "\n"
    p = os.path.join(COQ, "gen", name + ".v")
    with CoqLock():
        old = open(p).read() if os.path.exists(p) else None
        if old != text:
            with open(p, "w") as f:
                f.write(text)
            return True
    return False


def theorem_names(pid):
    src = open(os.path.join(COQ, "props", pid + ".v")).read()
    return re.findall(r"^\s*Theorem\s+([A-Za-z0-9_']+)", src, re.M)


def coqc_file(path, timeout=900):
    try:
        p = subprocess.run(["timeout", str(timeout), "coqc", "-Q", COQ, "Hy", "-w",
                            "-notation-overridden,-deprecated-hint-without-locality", path],
                           cwd=os.path.dirname(path), capture_output=True, text=True)
        return p.returncode, p.stdout, p.stderr
    except Exception as ex:  # pragma: no cover
        return 1, "", str(ex)


def coq_assumptions(ctx, pid, names):
    """Print Assumptions for each property theorem, from the compiled props/<pid>.vo.
    Returns {name: (closed: bool, axioms: [str], ok: bool)}."""
    body = "From Hy Require Import props.%s.\n" % pid
    for n in names:
        body += 'Goal True. idtac "@@THM %s". Abort.\nPrint Assumptions %s.\n' % (n, n)
    p = ctx.path("assum_%s.v" % pid)
    with open(p, "w") as f:
        f.write(body)
    rc, out, err = coqc_file(p, 300)
    res = {}
    if rc != 0:
        for n in names:
            res[n] = (False, ["<Print Assumptions failed: %s>" % err.strip()[-300:]], False)
        return res
    parts = re.split(r"@@THM (\S+)", out)
    for i in range(1, len(parts), 2):
        n, txt = parts[i], parts[i + 1]
        if "Closed under the global context" in txt:
            res[n] = (True, [], True)
        else:
            ax = [a for a in re.findall(r"^([A-Za-z0-9_.']+)\s*:", txt, re.M) if a != "Axioms"]
            ok = all(a in ALLOWED_AXIOMS or a.split(".")[-1] in ALLOWED_AXIOMS or
                     a.startswith(("PrimFloat.", "Uint63.", "FloatAxioms.", "PrimInt63.", "FloatOps.", "Sint63.")) for a in ax)
            res[n] = (False, ax, ok)
    for n in names:
        res.setdefault(n, (False, ["<missing>"], False))
    return res


def dep_closure(pid):
    """Files (relative to coq/) that props/<pid>.v and corr/<pid>_Corr.v transitively Require from Hy."""
    seen, todo = set(), ["props/%s.v" % pid]
    cd = os.path.join(COQ, "corr")
    if os.path.isdir(cd):
        todo += ["corr/" + n for n in os.listdir(cd) if n.startswith(pid + "_") and n.endswith(".v")]
    while todo:
        rel = todo.pop()
        if rel in seen or not os.path.exists(os.path.join(COQ, rel)):
            continue
        seen.add(rel)
        src = open(os.path.join(COQ, rel)).read()
        for m in re.finditer(r"From\s+Hy\s+Require\s+(?:Import\s+|Export\s+)?(.*?)\.(?=\s|$)", src, re.S):
            for mod in m.group(1).split():
                todo.append(mod.replace(".", "/") + ".v")
        for m in re.finditer(r"(?<!Hy\s)Require\s+(?:Import\s+|Export\s+)?(.*?)\.(?=\s|$)", src, re.S):
            for mod in m.group(1).split():
                if mod.startswith("Hy."):
                    todo.append(mod[3:].replace(".", "/") + ".v")
    return sorted(seen)


def forbidden_scan(pid=None):
    """The grep gate: no Admitted/admit/Axiom/... in the files the property's theorems depend on
    (whole development when pid is None)."""
    bad = []
    for rel in (dep_closure(pid) if pid else coq_files()):
        src = open(os.path.join(COQ, rel)).read()
        # strip comments (non-nested is enough for our files; nested handled by loop)
        prev = None
        while prev != src:
            prev = src
            src = re.sub(r"\(\*[^()]*?\*\)", "", src, flags=re.S)
        for m in FORBIDDEN.finditer(src):
            bad.append("%s: %s" % (rel, m.group(0)))
    return bad


def proof_stage(ctx, pid, extra_targets=()):
    """Build props/<pid>.vo and collect assumptions. Returns dict for evidence + ok flag."""
    names = theorem_names(pid)
    t = time.time()
    ok, log = coq_make(["props/%s.vo" % pid] + list(extra_targets))
    info = {"obligations": len(names), "discharged": 0, "theorems": {}, "build_ok": ok,
            "build_s": round(time.time() - t, 1)}
    if not ok:
        info["build_log_tail"] = log[-3000:]
        m = re.search(r'File "\./([^"]+)", line (\d+)', log)
        info["broken_at"] = "%s:%s" % (m.group(1), m.group(2)) if m else "unknown"
        return False, info
    bad = forbidden_scan(pid)
    if bad:
        info["forbidden"] = bad
        return False, info
    ass = coq_assumptions(ctx, pid, names)
    axioms = set()
    allok = True
    for n in names:
        closed, ax, okk = ass[n]
        info["theorems"][n] = "closed" if closed else ("axioms: " + ", ".join(ax))
        if okk:
            info["discharged"] += 1
        else:
            allok = False
        axioms.update(ax)
    info["axioms"] = sorted(axioms)
    if ctx.tier == "thorough" and allok and os.environ.get("VERIF_NO_COQCHK") != "1":
        # independent re-check of the compiled theorems and everything they depend on
        t = time.time()
        try:
            with CoqLock():
                p = subprocess.run(["timeout", "3000", "coqchk", "-silent", "-o", "-Q", COQ, "Hy", "Hy.props.%s" % pid],
                                   cwd=COQ, capture_output=True, text=True)
            txt = p.stdout + p.stderr
            sect = txt.split("* Axioms:")[-1].split("* Constants/Inductives")[0] if "* Axioms:" in txt else ""
            chk_ax = [l.strip() for l in sect.splitlines() if l.strip() and l.strip() != "<none>"]
            unsafe = [k for k in ("type-in-type", "unsafe (co)fixpoints", "positivity is assumed")
                      if re.search(re.escape(k) + r":\s*(?!<none>)\S", txt)]
            info["coqchk"] = {"rc": p.returncode, "axioms": chk_ax, "unsafe": unsafe, "wall_s": round(time.time() - t, 1)}
            if p.returncode != 0 or unsafe:
                allok = False
                info["coqchk"]["tail"] = txt[-1500:]
        except Exception as ex:  # pragma: no cover
            info["coqchk"] = {"error": str(ex)}
    return allok, info


def coq_eval(ctx, name, text, timeout=900):
    """Compile one generated .v file and return (rc, stdout, stderr)."""
    p = ctx.path(name + ".v")
    with open(p, "w") as f:
        f.write(text)
    return coqc_file(p, timeout)


def coq_eval_shards(ctx, prefix, texts, timeout=900, workers=12):
    with ThreadPoolExecutor(max_workers=workers) as ex:
        futs = [ex.submit(coq_eval, ctx, "%s_%03d" % (prefix, i), t, timeout) for i, t in enumerate(texts)]
        return [f.result() for f in futs]


def parse_mismatches(out):
    """Our cases files end with `Print M.` style output `M = [..] : list nat` or use idtac lines.
    Returns (count_line:int|None, list of mismatching indices) parsed from lines `@@N <n>` and `@@M <i>`."""
    n = None
    mm = []
    flat = out.replace("\n", " ")
    m = re.search(r"@@COUNT\s*=\s*(\d+)", flat)
    if m:
        n = int(m.group(1))
    m = re.search(r"@@MISMATCH\s*=\s*\[(.*?)\]", flat)
    if m is None:
        return n, None
    body = m.group(1).strip()
    if body:
        mm = [int(x.strip().rstrip("%nat").rstrip("%N")) for x in re.split(r";", body) if x.strip()]
    return n, mm


CASES_TAIL = """
Definition M_ := Eval vm_compute in mismatches cases.
Definition C_ := Eval vm_compute in length cases.
Goal True. let m := eval cbv delta [M_] in M_ in idtac "@@MISMATCH =" m. let c := eval cbv delta [C_] in C_ in idtac "@@COUNT =" c. Abort.
"""


# ---------------------------------------------------------------- byte literals

def coq_bytes(bs):
    """bytes -> Coq list of Init.Byte constructors (cheapest literal form)."""
    if len(bs) <= 4096:
        return "[" + ";".join("x%02x" % b for b in bs) + "]"
    # a single literal of tens of thousands of elements overflows coqc's stack (one cons per nesting level while it
    # is elaborated): long strings are emitted as a concatenation of short literals
    parts = ["[" + ";".join("x%02x" % b for b in bs[i:i + 4096]) + "]" for i in range(0, len(bs), 4096)]
    return "(" + " ++ ".join(parts) + ")%list"


def digest(bs):
    """Polynomial digest used on both sides to compare long byte strings cheaply."""
    h = 0
    for b in bs:
        h = (h * 131 + b + 1) % 4294967291
    return h


def gen_data(a, b, n):
    """deterministic payload: byte i = (a*i + b) mod 256 (same function in coq/lib/Harness.v and Go)."""
    return bytes(((a * i + b) % 256) for i in range(n))


# ---------------------------------------------------------------- findings / reporting

def load_known(pid):
    p = os.path.join(VERIF, "known_findings.jsonl")
    out = []
    if os.path.exists(p):
        for line in open(p):
            line = line.strip()
            if not line or line.startswith("#"):
                continue
            try:
                r = json.loads(line)
            except Exception:
                continue
            if r.get("property") == pid:
                out.append(r)
    return out


def write_replay(ctx, obj):
    d = os.path.join(VERIF, "replays", ctx.pid)
    os.makedirs(d, exist_ok=True)
    s = json.dumps(obj, indent=1, sort_keys=True)
    p = os.path.join(d, hashlib.sha1(s.encode()).hexdigest()[:12] + ".json")
    with open(p, "w") as f:
        f.write(s)
    return p


def finish(ctx, proof_info, coverage, violations, assumptions, level="proof", trusted_extra=()):
    """violations: list of dicts {replay: obj, what: str, fingerprint: str|None, found_input: bool}.
    Applies known_findings, prints VIOLATION / KNOWN-FINDING lines, writes evidence, returns exit code."""
    known = [k for k in load_known(ctx.pid) if k.get("status") == "open"]
    real = []
    known_printed = set()
    for v in violations:
        fp = v.get("fingerprint")
        hit = next((k for k in known if fp and k.get("fingerprint") == fp), None)
        if hit:
            if fp not in known_printed:
                known_printed.add(fp)
                print("KNOWN-FINDING: property=%s %s" % (ctx.pid, hit.get("what", fp)), flush=True)
        else:
            real.append(v)
    # at most one VIOLATION line per distinct fingerprint / message class (digits normalised)
    seen = set()
    nviol = 0
    for v in real:
        key = v.get("fingerprint") or re.sub(r"\d+", "N", str(v.get("what")))
        if key in seen:
            continue
        seen.add(key)
        nviol += 1
        rp = write_replay(ctx, {"property": ctx.pid, "what": v.get("what"), "seed": ctx.seed,
                                "tier": ctx.tier, "replay": v.get("replay")})
        tail = "" if v.get("found_input", True) else " no-failing-input-found"
        print("VIOLATION property=%s replay=%s%s" % (ctx.pid, rp, tail), flush=True)
        print("  what: %s" % v.get("what"), flush=True)
    cov = dict(coverage)
    cov.setdefault("obligations", proof_info.get("obligations", 0))
    cov.setdefault("discharged", proof_info.get("discharged", 0))
    cov.setdefault("checker_cmd", "make -C /verif/coq props/%s.vo (coqc 8.16.1, full .vo) + Print Assumptions on every theorem of props/%s.v" % (ctx.pid, ctx.pid))
    tb = list(KERNEL_TB) + list(trusted_extra)
    ax = proof_info.get("axioms") or []
    tb.append("axioms reported by Print Assumptions: " + (", ".join(ax) if ax else "none (all property theorems closed under the global context)"))
    cov.setdefault("trusted_base", tb)
    cov["theorems"] = proof_info.get("theorems", {})
    cov["proof_build_ok"] = proof_info.get("build_ok", False)
    if "coqchk" in proof_info:
        cov["coqchk"] = proof_info["coqchk"]
    if getattr(ctx, "notes", None):
        cov["driver_notes"] = list(ctx.notes)  # harness re-bindings, parameter refresh problems
    if "broken_at" in proof_info:
        cov["proof_broken_at"] = proof_info["broken_at"]
    ev = {"property_id": ctx.pid, "tier": ctx.tier, "seed": ctx.seed, "level": level, "coverage": cov,
          "assumptions": list(assumptions), "wall_s": round(time.time() - ctx.t0, 1), "violations": nviol}
    os.makedirs(os.path.join(VERIF, "evidence"), exist_ok=True)
    with open(getattr(ctx, "evidence_path", os.path.join(VERIF, "evidence", ctx.pid + ".json")), "w") as f:
        json.dump(ev, f, indent=1)
    print("%s %s: obligations=%s discharged=%s evaluations=%s violations=%d wall=%.1fs" % (
        ctx.pid, ctx.tier, cov.get("obligations"), cov.get("discharged"), cov.get("evaluations"), nviol,
        time.time() - ctx.t0), flush=True)
    return 1 if nviol else 0


# ---------------------------------------------------------------- generic driver for case-based checks

def make_util(ctx, pkgname):
    """Instantiate the shared Go helper file for a package; returns path relative to harness/go."""
    tmpl = open(os.path.join(VERIF, "harness", "go", "util", "util_test.go.tmpl")).read()
    d = os.path.join(VERIF, "harness", "go", "_gen")
    os.makedirs(d, exist_ok=True)
    p = os.path.join(d, "util_%s_test.go" % pkgname)
    text = tmpl.replace("__PKG__", pkgname)
    if not os.path.exists(p) or open(p).read() != text:
        with open(p, "w") as f:
            f.write(text)
    return "_gen/util_%s_test.go" % pkgname


def run_go_cases(ctx, gospec, cases, tag="main", timeout=900, race=False):
    """gospec: dict(module, pkg, pkgname, files={dst: src}, run). Returns (ok, outs, params, log)."""
    inp = ctx.path("in_%s.jsonl" % tag)
    outp = ctx.path("out_%s.jsonl" % tag)
    parp = ctx.path("params_%s.json" % tag)
    for p in (outp, parp):
        if os.path.exists(p):
            os.remove(p)
    write_jsonl(inp, cases)
    overlay = dict(gospec["files"])
    overlay["zz_verif_util_test.go"] = make_util(ctx, gospec["pkgname"])
    rc, log = go_test(ctx, gospec["module"], gospec["pkg"], overlay, gospec["run"],
                      env={"VERIF_IN": inp, "VERIF_OUT": outp, "VERIF_PARAMS": parp}, timeout=timeout, race=race)
    outs = read_jsonl(outp)
    params = json.load(open(parp)) if os.path.exists(parp) else None
    ok = (rc == 0 and len(outs) == len(cases))
    return ok, outs, params, log


def refresh_foreign_params(ctx):
    """Regenerate, from the tree under check, the gen/Params<Cyy>.v files of OTHER properties that this property's
    theorems and correspondence depend on (C03 cites C13's lemmas, which are stated over ParamsC13, and so on).
    Without this a constant changed in /repo would reach those files only when the other property's check runs.
    The other property's Go harness is run on an empty case list: it only reports its parameters."""
    import importlib
    import threading
    todo = []
    try:
        own = getattr(importlib.import_module("vlib.props." + ctx.pid), "PARAMS_NAME", None)
    except Exception:  # pragma: no cover
        own = None
    for rel in dep_closure(ctx.pid):
        m = re.match(r"gen/Params(C\d\d)\.v$", rel)
        # a file this property's own harness rewrites anyway (C02 shares ParamsC01 with C01) is left to it
        if m and m.group(1) != ctx.pid and "Params" + m.group(1) != own:
            todo.append(m.group(1))
    notes = []

    def one(other):
        try:
            mod = importlib.import_module("vlib.props." + other)
            go = getattr(mod, "GO", None)
            name = getattr(mod, "PARAMS_NAME", None)
            if not go or not name:
                notes.append("%s: no parameter source" % other)
                return
            _ok, _outs, params, log = run_go_cases(ctx, go, [], tag="params_" + other, timeout=600)
            xp = getattr(mod, "EXTRA_PARAMS", None)  # parameters a second Go package contributes to the same file
            if params is not None and xp is not None:
                more, log2 = xp(ctx)
                params = None if more is None else list(params) + list(more)
                log = log2 if more is None else log
            if params is None:
                notes.append("%s: parameters of %s could not be regenerated from the current tree (%s)"
                             % (ctx.pid, other, log.strip()[-300:]))
                return
            if write_params(name, [tuple(p) for p in params]):
                ctx.say("parameters of %s changed in the tree under check -> gen/%s.v rewritten" % (other, name))
        except Exception as ex:  # pragma: no cover
            notes.append("%s: refresh of %s parameters failed: %r" % (ctx.pid, other, ex))

    ths = [threading.Thread(target=one, args=(o,)) for o in sorted(set(todo))]
    for t in ths:
        t.start()
    for t in ths:
        t.join()
    for n in notes:
        ctx.say("note: " + n)
    ctx.notes += notes
    return notes


def eval_cases(ctx, prefix, header, terms, per_shard=250, timeout=900):
    """Evaluate `mismatches cases` in Coq over shards (round-robin so heavy cases spread).
    Returns (ok, mismatching global indices, err)."""
    if not terms:
        return True, [], ""
    ns = max(1, -(-len(terms) // per_shard))
    groups = [terms[si::ns] for si in range(ns)]
    # one Definition per case: elaborating one big list literal is quadratic in its size
    texts = []
    for g in groups:
        defs = "\n".join("Definition c%d_ : case := %s." % (i, t) for i, t in enumerate(g))
        lst = "Definition cases : list case := [" + ";".join("c%d_" % i for i in range(len(g))) + "]."
        texts.append(header + "\n" + defs + "\n" + lst + "\n" + CASES_TAIL)
    res = coq_eval_shards(ctx, prefix, texts, timeout)
    mism = []
    for si, (rc, out, err) in enumerate(res):
        n, mm = parse_mismatches(out)
        if rc != 0 or mm is None or n != len(groups[si]):
            return False, mism, "shard %d: rc=%s count=%s expected=%s err=%s" % (si, rc, n, len(groups[si]), (err or out)[-1500:])
        mism += [j * ns + si for j in mm]
    return True, sorted(mism), ""


def run_case_check(ctx, spec):
    """spec: object with attributes
         GO (gospec dict), PARAMS_NAME, gen(rng, tier)->cases, to_coq(case,out)->str|None,
         HEADER (coq imports for cases files), klass(case,out)->str, nontrivial(case,out)->bool,
         fingerprint(case,out)->str|None, RULE, ASSUMPTIONS, TRUSTED (extra trusted base),
         optional search(ctx)->list of violations, PER_SHARD."""
    import random
    rng = random.Random(ctx.seed)
    cases = spec.gen(rng, ctx.tier)
    violations = []
    ok, outs, params, golog = run_go_cases(ctx, spec.GO, cases)
    if not ok:
        ctx.say("Go harness failed:\n" + golog[-3000:])
        violations.append({"what": "tie broken: Go harness for %s did not build/run against the current tree (%s)" % (ctx.pid, golog.strip()[-400:]),
                           "replay": {"broken": "go harness", "log": golog[-4000:]}, "found_input": False,
                           "fingerprint": None})
        outs = outs if len(outs) == len(cases) else []
    if params is not None:
        changed = write_params(spec.PARAMS_NAME, [tuple(p) for p in params])
        if changed:
            ctx.say("Params changed -> rebuilding dependants")
    proof_ok, pinfo = proof_stage(ctx, ctx.pid, extra_targets=getattr(spec, "EXTRA_TARGETS", ()))
    if not proof_ok:
        ctx.say("PROOF STAGE BROKEN: " + json.dumps({k: pinfo[k] for k in pinfo if k != "theorems"})[:3000])
    # correspondence
    mism = []
    corr_ok = True
    corr_err = ""
    compared = 0
    if outs:
        terms, idxmap = [], []
        for i, (c, o) in enumerate(zip(cases, outs)):
            t = spec.to_coq(c, o)
            if t is not None:
                terms.append(t)
                idxmap.append(i)
        compared = len(terms)
        t1 = time.time()
        eok, mm, err = eval_cases(ctx, "cases", spec.HEADER, terms, getattr(spec, "PER_SHARD", 250))
        ctx.say("coq evaluation of %d cases: %.1fs" % (len(terms), time.time() - t1))
        if not eok:
            corr_ok = False
            corr_err = err
            ctx.say("CORRESPONDENCE EVALUATION FAILED: " + err)
        mism = [idxmap[j] for j in mm]
    # property verdicts on the implementation
    hist = {}
    nontriv = set()
    for c, o in zip(cases, outs):
        k = spec.klass(c, o)
        hist[k] = hist.get(k, 0) + 1
        if spec.nontrivial(c, o):
            nontriv.add(json.dumps(c, sort_keys=True))
        if o.get("ok") is False:
            violations.append({"what": "%s: %s" % (c.get("k"), o.get("why")), "replay": {"case": c, "impl": o},
                               "fingerprint": spec.fingerprint(c, o), "found_input": True})
    # violations that are listed open known findings do not count as "a failing input was found" for the purpose of
    # deciding whether a model/implementation disagreement still has to be reported on its own
    _known_fps = {k.get("fingerprint") for k in load_known(ctx.pid) if k.get("status") == "open"}
    impl_bad = any(v.get("found_input") and not (v.get("fingerprint") and v.get("fingerprint") in _known_fps) for v in violations)
    broken = []
    if not proof_ok:
        broken.append("proof obligation (%s)" % pinfo.get("broken_at", pinfo.get("forbidden", "assumptions")))
    if mism:
        broken.append("correspondence %s on %d case(s)" % (spec.HEADER.split("corr.")[-1].split(".")[0] if "corr." in spec.HEADER else "check", len(mism)))
    if not corr_ok:
        broken.append("correspondence evaluation (%s)" % corr_err[:200])
    if broken and not impl_bad:
        found = []
        if hasattr(spec, "search"):
            found = spec.search(ctx, [cases[i] for i in mism[:20]]) or []
        if found:
            violations += found
        else:
            violations.append({
                "what": "no longer shown to hold: " + "; ".join(broken),
                "replay": {"broken": broken, "proof": {k: pinfo.get(k) for k in ("broken_at", "build_log_tail", "forbidden", "theorems")},
                           "disagreeing_cases": [{"case": cases[i], "impl": outs[i]} for i in mism[:10]]},
                "fingerprint": None, "found_input": False})
    elif mism and impl_bad:
        ctx.say("model/implementation disagree on %d case(s) (implementation also violates the property directly)" % len(mism))
    samples = [{"case": c, "impl": {k: v for k, v in o.items() if k not in ("i",)}} for c, o in list(zip(cases, outs))[:3]]
    if outs:
        for c, o in zip(cases, outs):
            if spec.nontrivial(c, o):
                samples.append({"case": c, "impl": {k: v for k, v in o.items() if k != "i"}})
                break
    cov = {"evaluations": len(cases), "distinct_nontrivial": len(nontriv), "rule": spec.RULE,
           "samples": samples, "traces_validated_against_impl": compared, "model_impl_disagreements": len(mism),
           "input_classes": hist}
    return finish(ctx, pinfo, cov, violations, spec.ASSUMPTIONS, trusted_extra=getattr(spec, "TRUSTED", ()))
