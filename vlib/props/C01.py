"""C01 - No proxying before authentication on the same connection (DESIGN.md section 4, C01)."""
import sys

from vlib import c01lib, common

GO = dict(module="core", pkg=c01lib.PKG, pkgname=c01lib.PKGNAME,
          files=dict(c01lib.ENV_FILES, **{"zz_verif_c01_test.go": "c01/c01_test.go"}), run="TestVerifC01")
PARAMS_NAME = c01lib.PARAMS_NAME
EXTRA_PARAMS = c01lib.proto_params  # used by common.refresh_foreign_params (C15 depends on ParamsC01)
HEADER = c01lib.HEADER + "From Hy Require Import corr.C01K_Corr corr.C01L_Corr.\n"   # check = C01_Corr.check && the product check && the lifecycle LTS accepts
CORR_NAME = "C01L_Corr"
PER_SHARD = 6
EXTRA_TARGETS = ["corr/C01_Corr.vo", "corr/C01K_Corr.vo", "corr/C01L_Corr.vo"]
RULE = ("seeded generator of histories on 1-3 raw QUIC connections to one real server.NewServer (loopback): auth requests with "
        "accepted / rejected credentials (CC-RX values incl. overflow and syntax errors), near-miss HTTP/3 requests, raw bidirectional "
        "streams opening with 0x401 + TCPRequest (and other / unreadable frame types), UDPMessage datagrams, repeated auth, close; "
        "connections driven sequentially or concurrently; servers with/without UDP, with no / custom masquerade handler, bandwidth "
        "settings varied; directed templates (proxy attempt before auth on c0 while c1 is accepted; accept-reject-repeat; all "
        "unauthenticated); ONE credential string presented on several connections while the authenticator's verdict for it differs "
        "between the presentations (recording authenticator whose verdict is a function of the presenting connection, the attempt "
        "number, the announced bandwidth and of revoke / grant steps of the history): accepted on one connection and to be rejected on "
        "another, in both orders, sequentially and concurrently, each followed by proxy attempts on the rejected connection. "
        "Client ids: accepting verdicts whose id is EMPTY, one id shared by several connections, a 1200-byte id, ids with odd bytes "
        "(NUL, newline, invalid UTF-8) or looking like another connection's id (authenticator policy field idhex), each followed on "
        "the same connection by rejected credentials, the same credential again, other accepted credentials, concurrent bursts of auth "
        "requests, proxy streams / datagrams and close (directed templates D1-D3 per id class + random histories); online / connect "
        "events are attributed to connections by their neighbours in the log (never by the id) and counted per connection. "
        "Connection LIFECYCLES on one server (connections end, new ones are accepted afterwards; a connection index is never reused; "
        "`open` steps dial a connection in the middle of a history, optionally from the local socket of a connection that has ended): "
        "4-6 rounds of connect / accept / proxy / disconnect followed by a fresh connection that never authenticates, is rejected, or "
        "presents the credential its predecessor was accepted with, and proxies at once (streams, datagrams); waves of 3 connections "
        "accepted side by side, all ended, 3 new ones unauthenticated, one of the next wave accepted; predecessors that were never "
        "accepted; 8 connections driven concurrently; random lifecycles of 6-10 connections with at most 3 alive; about half of these "
        "histories run alone in the process with GOMAXPROCS(1) and the collector off (runtime caches such as sync.Pool behave "
        "reproducibly; the harness waits until handleClient of every ended connection has returned), the others under the default "
        "scheduling next to five other histories. Near-miss authentication requests carrying ACCEPTABLE credentials: POST /auth with "
        "22 authorities (hysteria:443, :8443, :0, empty port, upper / mixed case, trailing dot, brackets, sub / super-strings, "
        "escapes), 14 paths, 9 methods, each followed by proxy attempts and, on some connections, by the real request; the verdict "
        "demands that every Authenticate call belongs to an in-flight POST hysteria /auth request with the same credentials on that "
        "connection, that no other request is answered 233 and that it gets the masquerade handler's status. "
        "After every stream / datagram an ordering barrier (HTTP request on the same connection). "
        "Non-trivial = the history contains a proxy attempt (0x401 stream or datagram) on a connection that has not been accepted "
        "AND an accepted connection that reaches the outbound. Distinct = distinct JSON history.")
ASSUMPTIONS = [
    "quic-go/http3 deliver every request and stream to the handler / dispatcher of the connection it arrived on (library, not modelled)",
    "h.authenticated read without authMutex in ProxyStreamHijacker sees the write of an earlier ServeHTTP on the same connection (run under -race at the thorough tier)",
    "schedules are covered at the granularity of the model's atomic sections (ServeHTTP up to / after Authenticate under authMutex, dispatcher check, goroutine start)",
    "a datagram sent on an unauthenticated connection has no awaitable outcome: absence of an outbound call is observed up to the end of the history plus 25 ms",
]
TRUSTED = ["modelled rather than verified: core/server/server.go ServeHTTP / ProxyStreamHijacker / handleClient and protocol/http.go "
           "(hand transcription in coq/model/C01_ServerAuth.v); in the abstract LTS the TCP request handler and the UDP session manager are "
           "'may reach the outbound / relay for their own connection once they exist'; coq/model/C01_Compose.v replaces them by the concrete "
           "C06 handler LTS and C07 session-manager LTS (per-connection product), proved to refine the abstract LTS and to take no component "
           "action before authentication; the glue of the product (a handler is spawned exactly by an accepted 0x401 stream, the manager by the "
           "accepting ServeHTTP, ReceiveMessage takes queued datagrams) is hand-written and tied by replaying every recorded log through the product"]

CCRX = ["", "0", "100000", "65536", "99999999999999999999999", "+5", "12a", "18446744073709551615", "18446744073709551616",
        "1844674407370955162", "007"]
# accepted requests: a CC-RX at or above 2^63 puts a nonsensical rate into the Brutal sender (property C10's finding)
# and stalls the connection; it is kept out of ACCEPTED auth requests only (rejected ones keep the whole list)
CCRX_ACCEPTED = ["", "0", "100000", "65536", "+5", "12a", "4294967296", "300000"]  # ("007" = 7 bytes/s would throttle the connection to a standstill)


def auth_req(rng, c, n, good, form=None):
    r = {"m": "POST", "h": "hysteria", "t": "/auth", "auth": ("good" if good else "bad") + "-c%d-%d" % (c, n), "hasa": True,
         "ccrx": rng.choice(CCRX_ACCEPTED if good else CCRX), "hasrx": True, "pad": rng.random() < 0.5, "body": ""}
    if rng.random() < 0.15:
        r["hasrx"] = False
        r["ccrx"] = ""
    if rng.random() < 0.1:
        r["t"] = rng.choice(["/auth?x=1", "/%61uth"])
    return r


def near_miss(rng, c, n):
    m, h, t = rng.choice([("GET", "hysteria", "/auth"), ("POST", "Hysteria", "/auth"), ("POST", "hysteria:443", "/auth"),
                          ("POST", "hysteria", "/auth/"), ("POST", "hysteria", "/Auth"), ("POST", "hysteria", "//auth"),
                          ("PUT", "hysteria", "/auth"), ("HEAD", "hysteria", "/auth"), ("POST", "example.com", "/auth"),
                          ("GET", "example.com", "/index.html?q=%d" % n), ("post", "hysteria", "/auth"),
                          ("POST", "hysteria", "/auth/../auth"), ("DELETE", "hysteria.", "/auth")])
    return {"m": m, "h": h, "t": t, "auth": "good-c%d-%d" % (c, n), "hasa": rng.random() < 0.6, "ccrx": "1000", "hasrx": rng.random() < 0.3,
            "pad": False, "body": ""}


def shared_req(rng, cred, ccrx=None):
    """an auth request presenting a credential that is NOT tied to one connection (several connections present it)"""
    return {"m": "POST", "h": "hysteria", "t": "/auth", "auth": cred, "hasa": True,
            "ccrx": ccrx if ccrx is not None else rng.choice(CCRX_ACCEPTED), "hasrx": True, "pad": rng.random() < 0.5, "body": ""}


def rand_pol(rng, nconn):
    """authenticator policy for one shared credential: verdict = f(presenting connection, attempt number, tx, time)"""
    r = rng.random()
    if r < 0.3:
        return {"conns": sorted(rng.sample(range(nconn), rng.randint(1, max(1, nconn - 1))))}
    if r < 0.5:
        return {"max": rng.randint(1, 2)}
    if r < 0.65:
        return {"skip": rng.randint(1, 2)}
    if r < 0.8:
        return {"maxtx": 70000}
    if r < 0.9:
        return {"revoked": True}
    return {}


def rand_cfg(rng):
    return {"udp": rng.random() < 0.8, "masq": rng.choice([0, 0, 1, 2]), "ignbw": rng.random() < 0.25,
            "maxtx": rng.choice([0, 0, 65536, 1000000]), "maxrx": rng.choice([0, 65536, 200000])}


def act(rng, c, n, kind):
    if kind == "good":
        return {"c": c, "a": "auth", "req": auth_req(rng, c, n, True)}
    if kind == "bad":
        return {"c": c, "a": "auth", "req": auth_req(rng, c, n, False)}
    if kind == "miss":
        return {"c": c, "a": "req", "req": near_miss(rng, c, n)}
    if kind == "tcp":
        return {"c": c, "a": "tcp", "ft": 0x401, "addr": "c%d-%d-%s:%d" % (c, n, rng.choice(["echo", "echo", "fail"]), rng.choice([80, 443]))}
    if kind == "ft":
        return {"c": c, "a": "tcp", "ft": rng.choice([0x400, 0x402, 0x21, 0x3, 0x4001, 0x40]), "addr": "c%d-%d-echo:80" % (c, n)}
    if kind == "nobytes":
        return {"c": c, "a": "tcp", "ft": -1, "addr": "c%d-%d-echo:80" % (c, n)}
    if kind == "udp":
        return {"c": c, "a": "udp", "addr": "c%d-%du:53" % (c, n)}
    if kind in ("burst-good", "burst-bad", "burst-mixed"):
        rs = []
        for j in range(4):
            good = kind == "burst-good" or (kind == "burst-mixed" and j % 2 == 1)
            r = auth_req(rng, c, n, good)
            r["auth"] = ("good" if good else "bad") + "-slow-c%d-%d-%d" % (c, n, j)
            r["t"] = "/auth"
            rs.append(r)
        return {"c": c, "a": "burst", "burst": rs}
    if kind.startswith("cred:"):         # "cred:<credential>[:<ccrx>]"
        p = kind.split(":")
        return {"c": c, "a": "auth", "req": shared_req(rng, p[1], p[2] if len(p) > 2 else None)}
    if kind == "open":                   # the connection is dialled at this point of the history (not at its start)
        return {"c": c, "a": "open"}
    if kind.startswith("open:from:"):    # ... from the local socket of a connection the history has closed before
        return {"c": c, "a": "open", "from": int(kind.split(":")[2])}
    if kind.startswith("host:") or kind.startswith("path:") or kind.startswith("meth:"):
        # "the authentication request, except for ...": accepted credentials on a request that is NOT POST hysteria /auth
        r = auth_req(rng, c, n, True)
        r["t"] = "/auth"
        r["hasa"], r["hasrx"], r["ccrx"] = True, True, rng.choice(["100000", "65536", "0"])
        r[{"host": "h", "path": "t", "meth": "m"}[kind[:4]]] = kind[5:]
        return {"c": c, "a": "req", "req": r}
    if kind.startswith("revoke:") or kind.startswith("grant:"):
        a, cred = kind.split(":")
        return {"c": c, "a": a, "cred": cred}
    return {"c": c, "a": "close"}


KINDS = ["good"] * 13 + ["bad"] * 14 + ["miss"] * 12 + ["tcp"] * 27 + ["ft"] * 5 + ["nobytes"] * 2 + ["udp"] * 20 + ["close"] * 5


def history(rng, cfg, nconn, par, kinds_by_pos, pol=None):
    acts = [act(rng, c, n, k) for n, (c, k) in enumerate(kinds_by_pos)]
    h = {"k": "hist", "cfg": cfg, "nconn": nconn, "par": par, "acts": acts}
    if pol:
        h["pol"] = pol
    return h


def shared_templates(rng, rep):
    """One credential string presented on several connections of one server while the authenticator's answer for it
    differs between the presentations (it depends on the presenting connection, the attempt number, the announced
    bandwidth, or on a revocation / grant in between).  a = the connection that is to be accepted, b = the one that is
    to be rejected; both orders; b then tries to proxy, a must (still) be served."""
    out = []
    a, b = (0, 1) if rep % 2 == 0 else (1, 0)
    x = "shared-k%d" % rep
    cx = "cred:" + x
    if rep % 4 < 2:
        cx += ":" + rng.choice(CCRX_ACCEPTED)     # every presentation announces the same bandwidth (same (auth, tx) pair throughout)
    udp = lambda: dict(rand_cfg(rng), udp=True)
    # S1 verdict depends on the presenting connection (address): accepted first, then presented by the other one
    out.append(history(rng, udp(), 2, False, [(a, cx), (b, cx), (b, "tcp"), (b, "udp"), (a, "tcp"), (b, cx), (b, "tcp"), (a, "udp"), (a, "close"),
                                              (b, cx), (b, "tcp")], {x: {"conns": [a]}}))
    # S2 the other order: rejected on b first, accepted on a afterwards, b again
    out.append(history(rng, udp(), 3, False, [(b, cx), (b, "tcp"), (a, cx), (a, "tcp"), (b, cx), (b, "tcp"), (b, "udp"), (2, cx), (2, "tcp"),
                                              (a, "udp")], {x: {"conns": [a]}}))
    # S3 verdict depends on time: accepted, revoked, presented again elsewhere; granted again, accepted there
    out.append(history(rng, udp(), 2, False, [(a, cx), (a, "tcp"), (a, "revoke:" + x), (b, cx), (b, "tcp"), (b, "udp"), (a, "tcp"), (a, cx),
                                              (a, "grant:" + x), (b, cx), (b, "tcp")], {x: {}}))
    # S4 revoked at first (rejected), granted, accepted on the other connection; the first one stays shut
    out.append(history(rng, rand_cfg(rng), 2, False, [(b, cx), (b, "grant:" + x), (a, cx), (b, "tcp"), (b, "udp"), (a, "tcp"), (a, "revoke:" + x),
                                                      (b, cx), (b, "tcp"), (a, "tcp")], {x: {"revoked": True}}))
    # S5 verdict depends on the attempt number: only the first presentation is accepted / only the second one is
    out.append(history(rng, udp(), 3, False, [(a, cx), (b, cx), (2, cx), (b, "tcp"), (2, "udp"), (a, "tcp"), (b, cx), (b, "tcp")], {x: {"max": 1}}))
    out.append(history(rng, rand_cfg(rng), 2, False, [(b, cx), (a, cx), (b, "tcp"), (b, "udp"), (a, "tcp"), (b, cx), (b, "tcp")], {x: {"skip": 1, "max": 1}}))
    # S6 verdict depends on the announced bandwidth
    out.append(history(rng, dict(rand_cfg(rng), ignbw=False), 2, False,
                       [(a, "cred:" + x + ":65536"), (b, "cred:" + x + ":300000"), (b, "tcp"), (b, "udp"), (a, "tcp"), (b, "cred:" + x + ":4294967296"), (b, "tcp")], {x: {"maxtx": 70000}}))
    # S7 the same, connections driven concurrently (whatever the order of the presentations turns out to be)
    out.append(history(rng, udp(), 3, True, [(c, k) for k in (cx, "tcp", "udp", cx, "tcp") for c in (0, 1, 2)], {x: {"conns": [a]}}))
    return out


# ---- client ids: Authenticate(addr, auth, tx) -> (ok, id) may answer an accepting verdict with ANY id.  Classes of ids the
# recording authenticator hands out (policy field idhex): the EMPTY id (the http / command authenticators of extras pass a
# backend's answer through, which may be empty), ONE id shared by every accepted credential / connection of the history
# (one user, several devices), a very long id, ids with odd bytes (NUL, newline, invalid UTF-8, a lone space) and ids that
# look like ANOTHER connection's default id / carry another connection's tag.
ID_CLASSES = ["empty", "shared", "long", "odd"]
ODD_IDS = [b"\x00", b" ", b"\n", b"\xff\xfe", b"c1-", b"c0-", b"id/c1-good-c1-0", b"id/c0-good-c0-0", b"\xe2\x80\xae", b"0", b"false", b"nobody",
           b"\x00\x00", b"a\x00b", b"\r\n\r\n", b"%00", b"id/"]


def id_hex(rng, klass):
    if klass == "empty":
        return ""
    if klass == "shared":
        return b"user".hex()
    if klass == "long":
        return (b"L" * 1199 + b"!").hex()
    return rng.choice(ODD_IDS).hex()


def apply_ids(rng, h, klass, keep_default=0.0):
    """every credential that the authenticator will accept in this history (good-*, or one with a policy) is answered with an
    id of the given class (a fraction keep_default keeps the default id: histories mixing both)."""
    pol = h.setdefault("pol", {})
    for a in h["acts"]:
        rs = [a["req"]] if a["a"] == "auth" else a.get("burst", []) if a["a"] == "burst" else []
        for r in rs:
            cred = r.get("auth", "")
            if not r.get("hasa") or not (cred.startswith("good") or cred in pol):
                continue
            if cred in pol and "idhex" in pol[cred]:
                continue
            if rng.random() < keep_default:
                pol.setdefault(cred, {})
                pol[cred].setdefault("idhex", None)
                continue
            pol.setdefault(cred, {})["idhex"] = id_hex(rng, klass)
    h["idclass"] = klass
    return h


def id_templates(rng, rep):
    """accepted with an id of each class, THEN rejected / repeated / other accepted credentials on the same, now authenticated,
    connection: no further Authenticate call for it, every later auth request answered 233, one Connect / online event, proxying
    goes on; the same with two connections that are given the SAME id (sequentially / driven concurrently), and with
    concurrent auth requests (bursts) after the accept."""
    out = []
    for ki, klass in enumerate(ID_CLASSES):
        x = "good-k%d-%s" % (rep, klass)
        cx = "cred:" + x + ":" + rng.choice(CCRX_ACCEPTED)
        cfg = lambda: dict(rand_cfg(rng), udp=True)
        # D1 one connection: rejected, accepted (id of the class), rejected, the SAME credential again, another accepted one, ...
        out.append(apply_ids(rng, history(rng, rand_cfg(rng), 1, False,
                                          [(0, "bad"), (0, cx), (0, "bad"), (0, "tcp"), (0, cx), (0, "good"), (0, "miss"), (0, "udp"), (0, "bad"),
                                           (0, "tcp"), (0, "close")], {x: {}}), klass))
        # D2 two connections accepted with the same credential (same id unless the class draws one per credential), later attempts on both
        out.append(apply_ids(rng, history(rng, cfg(), 2, (rep + ki) % 2 == 1,
                                          [(0, cx), (1, cx), (0, "bad"), (1, cx), (0, "tcp"), (1, "udp"), (1, "bad"), (0, cx), (0, "udp"), (1, "tcp"),
                                           (0, "close"), (1, "good"), (1, "tcp"), (1, "close")], {x: {}}), klass))
        # D3 concurrent auth requests on the connection after the accept (go verdict only)
        out.append(apply_ids(rng, history(rng, cfg(), 1, False,
                                          [(0, cx), (0, "burst-mixed"), (0, "tcp"), (0, "burst-bad"), (0, "udp"), (0, "burst-good"), (0, "close")],
                                          {x: {}}), klass))
    return out


# ---- connection lifecycles: connections END and new ones are accepted afterwards by the same server.  A connection's
# index is never reused (a new connection = a new index); a connection that has an `open` step is dialled at that step.
def cycle_templates(rng, rep):
    """connect / authenticate / disconnect cycles, many rounds on one server: the later connection never authenticates (or
    is rejected, or presents the credential an earlier connection was accepted with) and sends proxy streams / datagrams
    at once.  gmp1 histories run alone in the process with GOMAXPROCS(1) and the collector off."""
    out = []
    cfg = lambda: dict(rand_cfg(rng), udp=True)

    def h(nconn, par, kinds, pol=None, gmp1=False):
        x = history(rng, cfg(), nconn, par, kinds, pol)
        x["gmp1"] = gmp1
        x["life"] = True
        return x

    # L1 rounds of: A opens, is accepted, proxies, ends; B opens and proxies without a word / after a rejected request
    for gmp1 in (True, False):
        R = rng.randint(4, 6)
        ks = []
        for r in range(R):
            a, b = 2 * r, 2 * r + 1
            ks += [(a, "open"), (a, "good")] + ([(a, "tcp")] if r % 2 == 0 else [(a, "udp")]) + [(a, "close")]
            ks += [(b, "open"), (b, "tcp"), (b, "udp")] + ([(b, "bad"), (b, "tcp")] if r % 3 != 2 else [(b, "miss"), (b, "udp")])
            ks += [(b, "close")] if r % 2 == 1 else []
        out.append(h(2 * R, False, ks, gmp1=gmp1))
    # L2 the same peer again: B is dialled from the local socket of the connection that has just ended
    R = rng.randint(3, 5)
    ks = []
    for r in range(R):
        a, b = 2 * r, 2 * r + 1
        ks += [(a, "open" if r == 0 else "open:from:%d" % (b - 2)), (a, "good"), (a, "tcp"), (a, "close"),
               (b, "open:from:%d" % a), (b, "tcp"), (b, "bad"), (b, "udp"), (b, "tcp"), (b, "close")]
    out.append(h(2 * R, False, ks, gmp1=rep % 2 == 0))
    # L3 waves: K connections accepted side by side, all end; K new ones proxy unauthenticated; one of the next wave is accepted
    # (its own Authenticate call, served), its neighbours are not; a last wave after everybody has gone
    for gmp1 in (True, False):
        K = 3
        w = lambda i: list(range(i * K, (i + 1) * K))
        ks = [(c, "good") for c in w(0)] + [(c, "tcp") for c in w(0)] + [(c, "close") for c in w(0)]
        ks += [(c, "open") for c in w(1)] + [(c, k) for k in ("tcp", "udp", "bad", "tcp") for c in w(1)] + [(c, "close") for c in w(1)[:2]]
        ks += [(c, "open") for c in w(2)] + [(w(2)[0], "tcp"), (w(2)[1], "good"), (w(2)[0], "tcp"), (w(2)[1], "tcp"), (w(2)[2], "udp"), (w(2)[2], "tcp")]
        ks += [(c, "close") for c in w(2)] + [(c, "open") for c in w(3)] + [(c, k) for k in ("tcp", "udp") for c in w(3)]
        out.append(h(4 * K, False, ks, gmp1=gmp1))
    # L4 the credential an ended connection was accepted with, presented by the new connection, for which the authenticator rejects it
    x = "shared-life%d" % rep
    R = 4
    ks = []
    for r in range(R):
        a, b = 2 * r, 2 * r + 1
        ks += [(a, "open"), (a, "cred:" + x + ":65536"), (a, "tcp"), (a, "close"), (b, "open"), (b, "tcp"), (b, "cred:" + x + ":65536"), (b, "tcp"), (b, "udp")]
    out.append(h(2 * R, False, ks, {x: {"conns": [2 * r for r in range(R)]}}, gmp1=rep % 2 == 1))
    # L5 the predecessor was never accepted: the new connection can authenticate (consulting the authenticator) and is served; its successor is not
    ks = []
    for r in range(3):
        a, b, c = 3 * r, 3 * r + 1, 3 * r + 2
        ks += [(a, "open"), (a, "bad"), (a, "tcp"), (a, "close"), (b, "open"), (b, "tcp"), (b, "good"), (b, "tcp"), (b, "udp"), (b, "close"),
               (c, "open"), (c, "udp"), (c, "tcp"), (c, "bad"), (c, "close")]
    out.append(h(9, False, ks, gmp1=True))
    # L6 default scheduling, connections driven concurrently: the even ones are accepted and end, the odd ones never authenticate
    ks = []
    for c in range(8):
        ks += [(c, "open"), (c, "good"), (c, "tcp"), (c, "close")] if c % 2 == 0 else [(c, "open"), (c, "tcp"), (c, "udp"), (c, "bad"), (c, "tcp"), (c, "close")]
    out.append(h(8, True, ks))
    # random lifecycles: at most 3 connections alive at a time, up to 10 in all; every second connection is never given accepted credentials
    LK = ["good"] * 6 + ["bad"] * 4 + ["miss"] * 2 + ["tcp"] * 10 + ["udp"] * 6
    for i in range(4):
        nconn = rng.randint(6, 10)
        nxt, alive, ks = 0, [], []
        while nxt < nconn or alive:
            r = rng.random()
            if nxt < nconn and (not alive or (len(alive) < 3 and r < 0.25)):
                ks.append((nxt, "open"))
                ks.append((nxt, "tcp" if nxt % 2 else rng.choice(["good", "tcp", "bad"])))
                alive.append(nxt)
                nxt += 1
            elif r < 0.5 or len(ks) > 60:
                c = alive.pop(rng.randrange(len(alive)))
                ks.append((c, "close"))
            else:
                c = rng.choice(alive)
                k = rng.choice(LK)
                ks.append((c, "bad" if k == "good" and c % 2 else k))
        out.append(h(nconn, False, ks, gmp1=i % 2 == 0))
    return out


# requests that are the authentication request EXCEPT for the authority / the path / the method, carrying credentials the
# authenticator would accept: served by the masquerade handler alone, the authenticator is not consulted, the
# connection stays shut.  (the authority as the client puts it into :authority; the server's r.Host.  Authorities with
# userinfo - user@hysteria - are refused by the http3 client before anything is sent: not in the list.)
NEAR_HOSTS = ["hysteria:443", "hysteria:8443", "hysteria:0", "hysteria:", "hysteria:80", "HYSTERIA", "Hysteria", "hYSTERIA:443", "hysteria.",
              "hysteria.:443", "[hysteria]", "[hysteria]:443", "hysteria.example.com",
              "www.hysteria", "hysteri", "hysteriaa", "hysteria%2e", "hysteria:443:443", "xn--hysteria", "hysteria-", "127.0.0.1", "localhost"]
NEAR_PATHS = ["/auth/", "//auth", "/Auth", "/AUTH", "/auth/.", "/./auth", "/auth/../auth", "/auth;x", "/auth%2f", "/auth%20", "/authh", "/aut", "/", "/x/../auth"]
NEAR_METHODS = ["GET", "PUT", "HEAD", "post", "Post", "PATCH", "DELETE", "OPTIONS", "POSTT"]


def near_templates(rng, rep):
    out = []
    hosts = NEAR_HOSTS[:]
    rng.shuffle(hosts)
    forms = ["host:" + x for x in hosts] + ["path:" + x for x in rng.sample(NEAR_PATHS, 6)] + ["meth:" + x for x in rng.sample(NEAR_METHODS, 4)]
    # N1 one connection per form: the near-miss request with accepted credentials, then proxy attempts; then the real request, served
    per = 6
    for i in range(0, len(forms), per):
        grp = forms[i:i + per]
        ks = []
        for c, f in enumerate(grp):
            ks += [(c, "open"), (c, f), (c, "tcp"), (c, "udp")]
            if c % 3 == 0:
                ks += [(c, f), (c, "good"), (c, "tcp"), (c, f)]
            ks += [(c, "close")] if c % 2 == 0 else []
        x = history(rng, dict(rand_cfg(rng), udp=True, masq=rng.choice([0, 1, 2])), len(grp), False, ks)
        x["life"] = True
        out.append(x)
    return out


def gen(rng, tier):
    scale = 1 if tier == "quick" else 15
    cases = []
    for rep in range(2 * scale):
        for masq in (0, 1):
            cfg = dict(rand_cfg(rng), udp=True, masq=masq)
            # T1: c0 tries to proxy before / after a rejected auth while c1 gets accepted; c0 must stay shut
            cases.append(history(rng, cfg, 2, rep % 2 == 1, [(0, "tcp"), (0, "udp"), (0, "bad"), (1, "good"), (0, "tcp"), (0, "udp"),
                                                             (1, "tcp"), (1, "udp"), (0, "miss"), (0, "tcp"), (1, "close"), (0, "tcp")]))
        cfg = rand_cfg(rng)
        # T2: accept, then reject / repeat / near-miss: access stays, authenticator not consulted again
        cases.append(history(rng, cfg, 1, False, [(0, "bad"), (0, "good"), (0, "bad"), (0, "tcp"), (0, "good"), (0, "miss"), (0, "udp"),
                                                  (0, "bad"), (0, "tcp"), (0, "close")]))
        # T3: nobody is ever accepted
        cases.append(history(rng, rand_cfg(rng), 3, True, [(c, k) for k in ("tcp", "udp", "bad", "ft", "tcp", "miss", "nobytes", "udp") for c in (0, 1, 2)][:12]))
        # T4: three connections, only the middle one is accepted, all try everything
        cases.append(history(rng, dict(rand_cfg(rng), udp=True), 3, rep % 2 == 0,
                             [(1, "good")] + [(c, k) for k in ("tcp", "udp") for c in (0, 1, 2)] + [(0, "bad"), (2, "bad"), (0, "tcp"), (2, "udp"), (1, "close")]))
        # T5: concurrent auth attempts on ONE connection (authMutex): judged by the harness verdict only
        cases.append(history(rng, dict(rand_cfg(rng), udp=True), 2, True,
                             [(0, "burst-bad"), (0, "tcp"), (0, "burst-good"), (0, "tcp"), (0, "burst-mixed"), (1, "burst-mixed"), (1, "udp"), (1, "tcp"), (0, "close")]))
        cases += shared_templates(rng, rep)
    for i in range(34 * scale):
        nconn = rng.choice([1, 2, 2, 3, 3])
        n = rng.randint(5, 12)
        kinds = [(rng.randrange(nconn), rng.choice(KINDS)) for _ in range(n)]
        pol = None
        if i % 2 == 1 and nconn > 1:
            # shared credentials with a random policy, mixed into the random history
            creds = ["shared-r%d-%d" % (i, j) for j in range(2)]
            pol = {x: rand_pol(rng, nconn) for x in creds}
            extra = ["cred:" + x for x in creds] * 4 + ["revoke:" + creds[0], "grant:" + creds[0], "revoke:" + creds[1], "grant:" + creds[1]]
            kinds = [(c, rng.choice(extra)) if rng.random() < 0.45 else (c, k) for (c, k) in kinds]
            kinds += [(c, "tcp") for c in range(nconn)]
        cases.append(history(rng, rand_cfg(rng), nconn, rng.random() < 0.5, kinds, pol))
    # (appended last, from a generator of their own: the cases above are the same as before for a given seed)
    import random
    rng2 = random.Random(rng.getrandbits(64))
    for rep in range(scale):
        cases += id_templates(rng2, rep)
    IDKINDS = ["good"] * 25 + ["bad"] * 20 + ["miss"] * 8 + ["tcp"] * 20 + ["udp"] * 15 + ["close"] * 4 + ["burst-mixed"] * 2
    for i in range(8 * scale):
        nconn = rng2.choice([1, 1, 2, 3])
        kinds = [(rng2.randrange(nconn), rng2.choice(IDKINDS)) for _ in range(rng2.randint(6, 12))]
        creds = ["good-r%d-%d" % (i, j) for j in range(2)]
        kinds = [(c, "cred:" + rng2.choice(creds)) if rng2.random() < 0.3 else (c, k) for (c, k) in kinds]
        kinds += [(c, "tcp") for c in range(nconn)]
        h = history(rng2, rand_cfg(rng2), nconn, rng2.random() < 0.4, kinds, {x: {} for x in creds})
        cases.append(apply_ids(rng2, h, ID_CLASSES[i % len(ID_CLASSES)] if i % 8 < 6 else "empty", keep_default=0.3 if i % 2 else 0.0))
    # (appended last again, generators of their own) connection lifecycles and near-miss authorities
    rng3 = random.Random(rng2.getrandbits(64))
    rng4 = random.Random(rng3.getrandbits(64))
    for rep in range(scale):
        cases += cycle_templates(rng3, rep)
        cases += near_templates(rng4, rep)
    return cases


def to_coq(c, o):
    if not o.get("log") or any(a["a"] == "burst" for a in c["acts"]):
        # concurrent requests on one connection: the per-connection order of the log is not the order of the
        # model's atomic sections; these histories are judged by the harness verdict (incl. mutual exclusion)
        return None
    return c01lib.hist_term(c["cfg"], c["nconn"], o["log"], life=True)


def klass(c, o):
    if any(a["a"] == "burst" for a in c["acts"]):
        return "concurrent-auth-burst(go verdict only)" + ("/ids=" + c["idclass"] if c.get("idclass") else "")
    if c.get("life"):
        return "lifecycle/conns=%s/%s/%s" % ("4-6" if c["nconn"] <= 6 else "7-9" if c["nconn"] <= 9 else "10+",
                                             "concurrent" if c["par"] else "sequential", "gomaxprocs1" if c.get("gmp1") else "default-scheduling")
    return "conns=%d/%s/masq=%d/%s%s" % (c["nconn"], "concurrent" if c["par"] else "sequential", c["cfg"]["masq"],
                                        "udp" if c["cfg"]["udp"] else "noudp", "/ids=" + c["idclass"] if c.get("idclass") else "")


def features(c, o):
    return c01lib.log_features(o.get("log") or [])


def nontrivial(c, o):
    f = features(c, o)
    return bool(f & {"proxy-stream-before-auth", "datagram-before-auth"}) and bool(f & {"outtcp", "outudp"})


def fingerprint(c, o):
    import re
    why = o.get("why") or ""
    return "c01:" + re.sub(r'"[^"]*"|\d+', "#", why)[:90]


def search(ctx, disagreeing):
    import random
    found = []
    for s in range(2):
        rng = random.Random(ctx.seed * 1000 + s + 17)
        cases = gen(rng, "quick")
        ok, outs, _, log = common.run_go_cases(ctx, GO, cases, tag="search%d" % s)
        for c, o in zip(cases, outs):
            if o.get("ok") is False:
                found.append({"what": "%s: %s" % (c["k"], o.get("why")), "replay": {"case": c, "impl": o},
                              "fingerprint": fingerprint(c, o), "found_input": True})
        if found:
            break
    return found


def run(ctx):
    return c01lib.run_check(ctx, sys.modules[__name__])


def replay(ctx, path):
    return c01lib.replay(ctx, sys.modules[__name__], path)


LEVEL_TEXT = ("Machine-checked Coq theorems over a labelled-transition-system model of the server's per-connection authentication gate "
              "(ServeHTTP, ProxyStreamHijacker, handleClient): for every action sequence on any number of connections, every outbound "
              "TCP/UDP call and every relayed payload for a connection is preceded by an accepting authenticator verdict on that same "
              "connection; a step on one connection leaves every other connection's state unchanged; once authenticated nothing clears "
              "the flag and the authenticator is not consulted again; online/offline events are paired. Lifecycle layer (accept of a "
              "new connection with a never-used id and a zero handler, on a server that has served and seen the end of any number of "
              "connections): refines the base LTS; an id is accepted at most once; a new connection starts unauthenticated with no "
              "proxy step enabled and needs an accepting verdict of its own, taken after its accept, before any outbound call; a "
              "connection's handler and everything observable of it are a function of its own history (two runs that differ only in "
              "what other connections did agree on it); only the exact POST hysteria /auth request consults the authenticator. "
              "Tied to /repo on every run by "
              "regenerated constants and by replaying boundary logs of a real server (real QUIC/HTTP3 clients, recording fakes) through "
              "the model inside Coq (vm_compute). The abstraction of the TCP handler / UDP session manager is discharged by composition: the product of the "
              "C01 control LTS with the C06 handler LTS (per accepted stream) and the C07 session-manager LTS is proved to refine the abstract LTS and to "
              "allow no component action on a connection before an accepting verdict on it; every recorded log is also replayed through the product.")
LEVEL_NOTE = ("Trusted: Coq kernel + vm_compute; hand-written model (tie = sampled end-to-end boundary logs + regenerated Params); python/Go glue. "
              "No axioms. Not proved: quic-go/http3 dispatching per connection; the unlocked read of h.authenticated in the dispatcher; "
              "inner behaviour of the TCP handler / UDP session manager is C06 / C07's (their LTSs are embedded unchanged in the product; C08's policy / hook is the "
              "environment choice ADrop / AHookErr of C07).")
TECHNIQUE = "Coq proof (invariants over an LTS of atomic sections) on a hand-written model + end-to-end boundary-log replay in vm_compute"
DESIGN_REF = "DESIGN.md section 4 C01"
