"""C02 - Unauthenticated peers see only the masquerade web server (DESIGN.md section 4, C02)."""
import sys

from vlib import c01lib, common

GO = dict(module="core", pkg=c01lib.PKG, pkgname=c01lib.PKGNAME,
          files=dict(c01lib.ENV_FILES, **{"zz_verif_c02_test.go": "c02/c02_test.go", "zz_verif_c02gate_test.go": "c02/c02gate_test.go",
                                          "zz_verif_c02abort_test.go": "c02/c02abort_test.go", "zz_verif_c02big_test.go": "c02/c02big_test.go"}),
          run="TestVerifC02")
PARAMS_NAME = c01lib.PARAMS_NAME
HEADER = ("From Hy Require Import gen.ParamsC01 model.C01_ServerAuth corr.C01_Corr model.C02_Abort corr.C02_Corr.\n"
          "Local Open Scope N_scope.\n")
CORR_NAME = "C02_Corr"
PER_SHARD = 3
EXTRA_TARGETS = ["corr/C01_Corr.vo", "corr/C02_Corr.vo"]
RULE = ("seeded generator of request sequences (25-30 requests per connection) over real HTTP/3 to a real server.NewServer with "
        "(0) no masquerade handler (plain 404), (1)/(2) custom handlers with unusual status codes (incl. 232/234), headers "
        "(multi-valued Set-Cookie, Location) and bodies: the grid methods x authorities x request-targets around POST hysteria /auth "
        "(GET/HEAD/PUT/post, Hysteria, hysteria:443, hysteria., /auth/, /Auth, //auth, /auth/../auth, /auth?x=1 and /%61uth which ARE "
        "auth requests), with Hysteria-Auth / Hysteria-CC-RX / Hysteria-Padding headers, accepted-looking and rejected credentials, "
        "CC-RX overflow / syntax errors; a third of the connections get accepted in the middle and go on sending near-misses and "
        "repeats; every connection ends with a raw 0x401 stream and a datagram. Every response is compared with the same handler on an "
        "httptest recorder (status, headers minus Date/Content-Length, body). Gate histories: an auth request (credentials that will be "
        "accepted / rejected) is HELD inside Authenticator.Authenticate by a blocking fake; while it is undecided further auth requests "
        "(junk, empty and good-looking credentials), requests that are not auth requests, raw 0x401 / other streams and datagrams arrive on "
        "the same connection; then the harness releases the authenticator and goes on; verdict on the boundary log: no response other "
        "than the masquerade's, no stream / datagram reply and no outbound call before an Authenticate call on that connection has "
        "returned an accepting verdict. Abort histories (12 per quick run): one connection on which user callbacks of ServeHTTP end "
        "abnormally at some requests - the masquerade handler panics with http.ErrAbortHandler before / after flushing part of the "
        "response, panics with another value (nil-map write, error after a complete buffered response), takes the HTTP/3 stream over "
        "(http3.HTTPStreamer) and closes / resets it; Authenticator.Authenticate panics; TrafficLogger.LogOnlineState / "
        "EventLogger.Connect panic after an accepting verdict - at rejected auth requests and at requests that are not auth requests, "
        "each followed by further rejected auth requests, other requests, more faults and (45%) an accepted auth request and traffic "
        "after it, on the same connection (same h3sHandler); every request runs under a real-time bound (8 s): NO response is a "
        "violation (confirmed by a liveness request on the same connection), a request whose callbacks return gets exactly the "
        "handler's response, an aborted one shows nothing beyond what the handler alone had flushed. Big histories (6 per quick run, "
        "~13 requests each): the header-SIZE dimension of 'every header set' - one header value of 8..64 KiB around every power of two "
        "(Cookie, Authorization, the client's own Hysteria-Padding, ...), 100-800 header fields, one field name with 50-400 values, "
        "a highly compressible value (decoded >> encoded), mixtures, and one request above 512 KiB per class (not an auth request / "
        "rejected auth request) - all far below http.DefaultMaxHeaderBytes; the custom handlers of these histories answer with a "
        "digest (count, bytes, SHA-256) of ALL header fields they were given; and the connection-STATE dimension: after an accepted "
        "auth request (itself possibly with 20-70 KiB of padding) the near misses of the auth request - every other method to "
        "hysteria/auth, other hosts, other paths, with credentials that would be accepted - arrive between repeats of the auth "
        "request; every request runs under a real-time bound (25 s), anything but a complete response equal to the handler-alone "
        "oracle (no 233, no Hysteria-* header) is a violation. Non-trivial = a request that is not an accepted auth "
        "request and whose response was compared with the oracle; distinct = distinct (config, request) pairs.")
ASSUMPTIONS = [
    "a panic of a handler / authenticator / logger callback is recovered by the HTTP/3 server, which resets the request's stream and goes on "
    "serving the connection (quic-go http3 server_conn.go; exercised by every abort history, not modelled)",
    "an HTTP/3 request on a loopback connection that has no final outcome after 8 s while a later request on the same connection is "
    "answered counts as never answered",
    "net/http and quic-go/http3 turn :method / :authority / :path into r.Method / r.Host / r.URL.Path as url.ParseRequestURI does (the harness "
    "computes the path the same way; exercised by the near-miss corpus, not modelled)",
    "Date and Content-Length are transport-level headers added by http3 to every response and are excluded from the comparison; a HEAD response has no body",
    "the custom masquerade handlers of the harness are deterministic functions of (method, host, path, query, Hysteria-Auth); those of the "
    "big histories also of the complete set of request header fields",
    "a header block above http.DefaultMaxHeaderBytes (1 MiB, the limit the HTTP/3 library applies when MaxHeaderBytes is not set - as every "
    "server of the net/http family does) is answered 431 by the library and is outside the property; the harness stays below 700 KiB",
    "the encoded HEADERS frame of a request is never longer than its RFC 9114 field section size (name + value + 32 per field), so the "
    "field section size the harness computes stands for both sizes the library compares (model/C02_Front.v)",
]
TRUSTED = ["modelled rather than verified: h3sHandler.ServeHTTP / masqHandler of core/server/server.go and protocol/http.go "
           "(hand transcription in coq/model/C01_ServerAuth.v, shared with C01)"]

METHODS = ["POST"] * 6 + ["GET", "HEAD", "PUT", "post", "DELETE", "OPTIONS", "PATCH"]
HOSTS = ["hysteria"] * 6 + ["Hysteria", "HYSTERIA", "hysteria:443", "hysteria.", "hysteri", "www.hysteria", "example.com", "127.0.0.1:443"]
TARGETS = ["/auth"] * 6 + ["/auth/", "/Auth", "//auth", "/auth/../auth", "/auth?x=1", "/%61uth", "/auth%2f", "/", "/index.html", "/a/b?c=d",
                            "/auth;x", "/AUTH", "/aut", "/authh"]
CCRX = ["", "0", "100000", "99999999999999999999999", "+5", "12a", "18446744073709551615", "18446744073709551616", "5 5", "0x10", "1_000"]
CCRX_OK = ["", "0", "100000", "65536", "+5", "12a", "4294967296"]


def req(rng, n, good=False):
    m, h, t = rng.choice(METHODS), rng.choice(HOSTS), rng.choice(TARGETS)
    r = rng.random()
    if r < 0.25:
        m, h, t = "POST", "hysteria", rng.choice(["/auth", "/auth", "/auth?x=1", "/%61uth"])     # a real auth request (rejected credentials)
    elif r < 0.45:
        # exactly one coordinate off
        k = rng.randrange(3)
        m = rng.choice(["GET", "HEAD", "PUT", "post"]) if k == 0 else "POST"
        h = rng.choice(["Hysteria", "hysteria:443", "hysteria.", "hysteri"]) if k == 1 else "hysteria"
        t = rng.choice(["/auth/", "/Auth", "//auth", "/auth/../auth", "/aut", "/authh"]) if k == 2 else "/auth"
    hasa = rng.random() < 0.7
    cred = rng.choice(["bad-c0-%d" % n, "", "good", "GOOD-c0-%d" % n, "x good-c0-%d" % n])
    is_auth = m == "POST" and h == "hysteria" and t in ("/auth", "/auth?x=1", "/%61uth")
    if not is_auth and rng.random() < 0.6:
        cred = "good-c0-%d" % n          # credentials that WOULD be accepted, on a request that is not an auth request
    if is_auth and cred == "good":
        cred = "bad"
    out = {"m": m, "h": h, "t": t, "auth": cred if hasa else "", "hasa": hasa, "ccrx": rng.choice(CCRX), "hasrx": rng.random() < 0.6,
           "pad": rng.random() < 0.3, "body": rng.choice(["", "", "hello"]) if m in ("POST", "PUT", "PATCH") else ""}
    if not out["hasrx"]:
        out["ccrx"] = ""
    return out


def accepted_auth(rng, n):
    return {"m": "POST", "h": "hysteria", "t": "/auth", "auth": "good-c0-%d" % n, "hasa": True, "ccrx": rng.choice(CCRX_OK), "hasrx": True,
            "pad": True, "body": ""}


def non_auth_req(rng, n):
    while True:
        r = req(rng, n)
        if not (r["m"] == "POST" and r["h"] == "hysteria" and r["t"] in ("/auth", "/auth?x=1", "/%61uth")):
            return r


def gate_case(rng, masq, good_first, idx):
    """an auth request held inside Authenticate; what arrives on the connection while the authenticator is undecided"""
    cfg = {"udp": rng.random() < 0.8, "masq": masq, "ignbw": rng.random() < 0.3, "maxtx": rng.choice([0, 65536]),
           "maxrx": rng.choice([0, 65536, 250000])}
    pre = [req(rng, j) for j in range(rng.randint(0, 3))]
    first = {"m": "POST", "h": "hysteria", "t": "/auth", "auth": ("good" if good_first else "bad") + "-hold-c0-%d" % idx, "hasa": True,
             "ccrx": rng.choice(CCRX_OK), "hasrx": True, "pad": rng.random() < 0.5, "body": ""}
    win = []
    creds = ["junk-c0-w%d" % j for j in range(4)] + ["bad-c0-w9", "x good-c0-w8"]
    rng.shuffle(creds)
    nj = rng.randint(2, 3)
    for j in range(nj):
        cred = creds[j]
        if j == 1 and rng.random() < 0.4:
            cred = "good-c0-w7"              # would be accepted - when its turn comes, after the held one has been decided
        a = {"m": "POST", "h": "hysteria", "t": rng.choice(["/auth", "/auth", "/auth?x=1", "/%61uth"]), "auth": cred, "hasa": True,
             "ccrx": rng.choice(CCRX_OK), "hasrx": rng.random() < 0.7, "pad": rng.random() < 0.3, "body": ""}
        if not a["hasrx"]:
            a["ccrx"] = ""
        win.append({"a": "auth", "req": a})
    if rng.random() < 0.4:
        win.append({"a": "auth", "req": {"m": "POST", "h": "hysteria", "t": "/auth", "auth": "", "hasa": False, "ccrx": "", "hasrx": False,
                                         "pad": False, "body": ""}})
    for j in range(rng.randint(3, 5)):
        win.append({"a": "req", "req": non_auth_req(rng, 50 + j)})
    for j in range(rng.randint(1, 2)):
        win.append({"a": "tcp", "ft": 0x401, "addr": "c0-w%d-%s:80" % (j, rng.choice(["echo", "echo", "fail"]))})
    if rng.random() < 0.5:
        win.append({"a": "tcp", "ft": rng.choice([0x400, 0x402, 0x21, -1]), "addr": "c0-wx-echo:80"})
    win.append({"a": "udp", "addr": "c0-wu:53"})
    rng.shuffle(win)
    post = [{"a": "tcp", "ft": 0x401, "addr": "c0-p0-echo:80"}]
    for j in range(rng.randint(2, 4)):
        post.append({"a": "req", "req": req(rng, 100 + j)})
    post.append({"a": "udp", "addr": "c0-pu:53"})
    rng.shuffle(post)
    return {"k": "gate", "cfg": cfg, "reqs": pre, "first": first, "win": win, "post": post, "probe": True}


# ---- abort histories: a user callback of ServeHTTP (masquerade handler, authenticator, logger) ends abnormally at some
# requests of a multi-request history on one connection (harness/go/c02/c02abort_test.go)
MASQ_FAULTS = ["abort0", "aborth", "panicv", "panich", "panicw", "hijack", "hijackabort"]
AUTH_TARGETS = ["/auth", "/auth", "/auth?x=1", "/%61uth"]
# (where the fault strikes, which fault): rejected auth request / request that is not an auth request / authenticator
DIRECTED = [("rejf", f) for f in MASQ_FAULTS] + [("nonf", f) for f in MASQ_FAULTS] + [("apanic", "apanic"), ("apanic", "apanicv")]


def with_fault(t, f):
    return t + ("&" if "?" in t else "?") + "vf=" + f


def xreq(rng, n, kind, f=None):
    """one request of an abort history; n makes credentials distinct"""
    a = {"m": "POST", "h": "hysteria", "t": rng.choice(AUTH_TARGETS), "auth": "", "hasa": True, "ccrx": rng.choice(CCRX_OK),
         "hasrx": rng.random() < 0.7, "pad": rng.random() < 0.3, "body": ""}
    if kind in ("rej", "rejf"):
        a["auth"] = rng.choice(["bad-c0-%d" % n, "junk-c0-%d" % n, "x good-c0-%d" % n, ""])
        if a["auth"] == "" and rng.random() < 0.5:
            a["hasa"] = False
        if kind == "rejf":
            a["t"] = with_fault(a["t"], f)
    elif kind == "apanic":
        a["auth"] = rng.choice(["bad-%s-c0-%d", "good-%s-c0-%d"]) % (f, n)      # the verdict never comes
    elif kind == "acc":
        a["auth"] = "good-c0-%d" % n
    elif kind == "lpanic":
        a["auth"] = "good-%s-c0-%d" % (f, n)
    else:
        a = non_auth_req(rng, n)
        if kind == "nonf":
            if a["m"] == "HEAD":
                a["m"] = "GET"
            a["t"] = with_fault(a["t"], f)
    if not a["hasrx"]:
        a["ccrx"] = ""
    return a


def abort_case(rng, masq, directed, ending):
    cfg = {"udp": rng.random() < 0.8, "masq": masq, "ignbw": rng.random() < 0.3, "maxtx": rng.choice([0, 65536]),
           "maxrx": rng.choice([0, 65536, 250000])}
    reqs = []

    def add(kind, f=None):
        reqs.append(xreq(rng, len(reqs), kind, f))
    for _ in range(rng.randint(0, 2)):
        add(rng.choice(["rej", "non"]))
    faults = [directed] + [rng.choice(DIRECTED) for _ in range(rng.randint(1, 2))]
    for kind, f in faults:
        add(kind, f)
        follow = ["rej", "non", rng.choice(["rej", "non", "rej"])]
        rng.shuffle(follow)
        for k in follow:
            add(k)
    if ending is not None:
        # the connection gets accepted in the end (possibly with a logger that panics) and goes on
        if ending == "acc":
            add("acc")
        else:
            add("lpanic", ending)
        tail = ["rej", "non", "nonf", rng.choice(["non", "rej", "nonf"])]
        rng.shuffle(tail)
        for k in tail:
            add(k, rng.choice(MASQ_FAULTS))
    return {"k": "abort", "cfg": cfg, "reqs": reqs, "probe": True}


def gen_abort(rng, tier):
    """per block of 12 histories: every masquerade fault at a REJECTED AUTH request (the exit of the auth branch that runs user
    code under authMutex), both authenticator panics, three faults at requests that are not auth requests; four of the twelve
    connections are accepted in the end, two of them with a logger that panics"""
    out = []
    for blk in range(1 if tier == "quick" else 16):
        nonf = [("nonf", f) for f in MASQ_FAULTS]
        rng.shuffle(nonf)
        directed = [("rejf", f) for f in MASQ_FAULTS] + [("apanic", "apanic"), ("apanic", "apanicv")] + nonf[:3]
        rng.shuffle(directed)
        endings = ["lpanicx", "lpanicy", "acc", "acc"] + [None] * 8
        rng.shuffle(endings)
        out += [abort_case(rng, (i + blk) % 3, directed[i], endings[i]) for i in range(12)]
    return out


# ---- big histories: LARGE header blocks, and requests that are not auth requests AFTER an accepted authentication on the
# same connection (harness/go/c02/c02big_test.go)
KIB = 1024
# sizes around every power of two a header-block limit could sit at, and a few ordinary ones (a real-world cookie jar)
ONE_VALUE = [8191, 8192, 12000, 16383, 16384, 16385, 20000, 24598, 32767, 32768, 40000, 65535, 65536, 66000]
BIG_NAMES = ["Cookie", "Authorization", "X-Token", "Hysteria-Padding", "Referer", "X-Amz-Security-Token", "Hysteria-Extra"]
METHOD_OFF = ["GET", "HEAD", "PUT", "post", "DELETE", "OPTIONS", "PATCH"]
HOST_OFF = ["Hysteria", "HYSTERIA", "hysteria:443", "hysteria.", "hysteri", "www.hysteria"]
PATH_OFF = ["/auth/", "/Auth", "//auth", "/auth/../auth", "/aut", "/authh", "/AUTH", "/auth;x", "/auth%2f"]


def big_headers(rng, shape=None, total=None):
    """generated header fields of one request (vHdrGen of the harness); total: aim at this many bytes"""
    shape = shape or rng.choice(["one", "one", "one", "many", "many", "multi", "rep", "mix"])
    a, b = rng.randrange(1, 250), rng.randrange(256)
    if shape == "one":
        n = total or rng.choice(ONE_VALUE)
        name = rng.choice(BIG_NAMES)
        return [{"n": name, "cnt": 1, "same": False, "kind": "cookie" if name == "Cookie" else "gd", "a": a, "b": b, "len": n}]
    if shape == "rep":
        # decodes to much more than it encodes to (one 5-bit Huffman symbol repeated)
        n = total or rng.choice([20000, 26000, 33000, 50000, 100000])
        return [{"n": rng.choice(["X-Pad", "Hysteria-Padding", "Cookie"]), "cnt": 1, "same": False, "kind": "rep", "a": rng.choice([0, 4, 8, 14, 18, 19]),
                 "b": 0, "len": n}]
    if shape == "many":
        cnt = rng.choice([100, 200, 300, 500, 800])
        ln = (total // cnt) if total else rng.choice([0, 8, 40, 200, 600])
        ln = min(ln, 600 * KIB // cnt)
        return [{"n": "X-F", "cnt": cnt, "same": False, "kind": "gd", "a": a, "b": b, "len": ln}]
    if shape == "multi":
        cnt = rng.choice([50, 150, 400])
        ln = (total // cnt) if total else rng.choice([16, 100, 500])
        return [{"n": rng.choice(["X-Forwarded-For", "Accept-Language", "Via"]), "cnt": cnt, "same": True, "kind": "gd", "a": a, "b": b, "len": ln}]
    # mix: a cookie jar, a token and a crowd of small fields
    return [{"n": "Cookie", "cnt": 1, "same": False, "kind": "cookie", "a": a, "b": b, "len": rng.choice([4096, 9000, 17000])},
            {"n": "Authorization", "cnt": 1, "same": False, "kind": "gd", "a": b + 1, "b": a, "len": rng.choice([2000, 8200, 16400])},
            {"n": "X-Client-Hint", "cnt": rng.choice([20, 60]), "same": False, "kind": "gd", "a": a + 2, "b": b, "len": rng.choice([10, 80])}]


def near_miss(rng, n, coord, good=True):
    """POST hysteria /auth with exactly one coordinate off, carrying what an auth request carries"""
    m = rng.choice(METHOD_OFF) if coord == 0 else "POST"
    h = rng.choice(HOST_OFF) if coord == 1 else "hysteria"
    t = rng.choice(PATH_OFF) if coord == 2 else "/auth"
    return {"m": m, "h": h, "t": t, "auth": ("good-c0-%d" if good else "bad-c0-%d") % n, "hasa": True, "ccrx": rng.choice(CCRX_OK), "hasrx": True,
            "pad": rng.random() < 0.5, "body": ""}


def big_case(rng, masq, accept, huge):
    """huge: one of "non" / "rej" / None - this history carries a request of that class with a header block above 512 KiB"""
    cfg = {"udp": rng.random() < 0.8, "masq": masq, "ignbw": rng.random() < 0.3, "maxtx": rng.choice([0, 65536]),
           "maxrx": rng.choice([0, 65536, 250000])}
    reqs, xh = [], []

    def add(r, hdrs):
        reqs.append(r)
        xh.append(hdrs or [])

    def maybe_big(p):
        return big_headers(rng) if rng.random() < p else []
    # before any authentication: requests that are not auth requests and rejected auth requests, most of them large
    kinds = ["non", "rej", rng.choice(["non", "rej"]), rng.choice(["non", "rej", "near"])]
    rng.shuffle(kinds)
    for k in kinds:
        n = len(reqs)
        if k == "near":
            add(near_miss(rng, n, rng.randrange(3)), maybe_big(0.8))
        else:
            add(xreq(rng, n, k), maybe_big(0.8))
    if huge:
        add(xreq(rng, len(reqs), huge), big_headers(rng, rng.choice(["one", "many", "multi"]), rng.randint(540, 640) * KIB))
    if accept:
        # the accepted auth request itself may be large (the client's padding is the client's business)
        a = accepted_auth(rng, len(reqs))
        add(a, [{"n": "Hysteria-Padding", "cnt": 1, "same": False, "kind": "gd", "a": 7, "b": 3, "len": rng.choice([2048, 20000, 70000])}]
            if rng.random() < 0.5 else [])
    # afterwards (authenticated or not): every coordinate off in turn, between repeats of the auth request
    tail = [("near", 0), ("near", 0), ("near", 1), ("near", 2), ("near", rng.randrange(3)), ("rep", 0), ("rep", 0), ("non", 0)]
    rng.shuffle(tail)
    for k, coord in tail:
        n = len(reqs)
        if k == "near":
            add(near_miss(rng, n, coord, good=rng.random() < 0.8), maybe_big(0.4))
        elif k == "rep":
            # (on an authenticated connection it is answered 233 whatever it carries; a never-accepted connection stays so)
            r = xreq(rng, n, "acc" if accept and rng.random() < 0.5 else "rej")
            add(r, maybe_big(0.4))
        else:
            add(xreq(rng, n, "non"), maybe_big(0.6))
    return {"k": "big", "cfg": cfg, "reqs": reqs, "xh": xh, "probe": True}


def gen_big(rng, tier):
    out = []
    for blk in range(1 if tier == "quick" else 12):
        huge = ["non", "rej", None]
        rng.shuffle(huge)
        for masq in (0, 1, 2):
            # two of three connections get accepted midway; each block has one never-accepted connection per three
            out.append(big_case(rng, masq, True, huge[masq]))
            out.append(big_case(rng, masq, (masq + blk) % 3 == 0, None))
    return out


def gen(rng, tier):
    scale = 1 if tier == "quick" else 16
    cases = []
    i = 0
    for rep in range(2 * scale):
        for masq in (0, 1, 2):
            cases.append(gate_case(rng, masq, (rep + masq) % 2 == 0, len(cases)))
    for rep in range(4 * scale):
        for masq in (0, 1, 2):
            cfg = {"udp": rng.random() < 0.8, "masq": masq, "ignbw": rng.random() < 0.3, "maxtx": rng.choice([0, 65536]),
                   "maxrx": rng.choice([0, 65536, 250000])}
            n = rng.randint(24, 30)
            reqs = [req(rng, j) for j in range(n)]
            if (rep + masq) % 3 == 2:
                reqs[rng.randint(8, 16)] = accepted_auth(rng, 99)
            cases.append({"k": "conn", "cfg": cfg, "reqs": reqs, "probe": True})
            i += 1
    # (appended last: the cases above are the same as before for a given seed)
    cases += gen_abort(rng, tier)
    cases += gen_big(rng, tier)
    return cases


def mres_term(out, have, st, hdr, body):
    """a handler / client outcome as a Coq term of type mres"""
    if out == "resp":
        return "(MResp %s)" % c01lib.resp_term(st, hdr, body)
    if have:
        return "(MAbort (Some %s))" % c01lib.resp_term(st, hdr, body)
    return "(MAbort None)"


def padn_of(hdr):
    for k, v in hdr or []:
        if k == "Hysteria-Padding" and v.startswith("#"):
            return int(v[1:])
    return 0


def wrap_base(e):
    if e.startswith("EAct "):
        return "XA (XBase %s)" % e[5:]
    assert e.startswith("EObs "), e
    return "XE (XO %s)" % e[5:]


def abort_log_to_events(log):
    """boundary log of an abort history (sequential: one request in flight) -> (events : list xev, table : list mres)"""
    xresp = {x.get("rid", 0): x for x in log if x["k"] == "xresp"}
    table, ev = [], []
    cur = None
    for i, x in enumerate(log):
        k = x["k"]
        c = c01lib.conn(x.get("c", -1))
        if k == "req":
            tag = len(table)
            rp = xresp.get(x.get("rid", 0))
            if rp is not None:
                table.append(mres_term("resp" if rp.get("err") == "resp" else "abort", rp.get("err") == "abort-sent",
                                       rp.get("ost", 0), rp.get("ohdr"), rp.get("obody")))
            else:
                table.append("(MResp resp0)")
            padn = padn_of(rp.get("hdr")) if rp is not None else 0
            rt = c01lib.req_term(x, tag)
            cur = (x, tag, rt, padn)
            ev.append("XA (XBase (HttpReq %d %s (pad_of %d)))" % (c, rt, padn))
        elif k == "authcall":
            ev.append("XE (XO (ObsAuthCall %d %s %s))" % (c, c01lib.cb(x.get("auth", "")), x.get("rx", "0")))
        elif k == "authret":
            # the verdict, and whether a logger callback panics afterwards (inside the same ServeHTTP)
            site = None
            for y in log[i + 1:]:
                if y["k"] in ("req", "xresp"):
                    break
                if y["k"] == "fault" and y.get("res") in ("online", "connect"):
                    site = y.get("res")
            padn = cur[3] if cur else 0
            if site is not None and x.get("ok"):
                ev.append("XA (XLogPanic %d %s (pad_of %d) %s)" % (c, c01lib.cb(x.get("id", "")), padn, "true" if site == "connect" else "false"))
            else:
                ev.append("XA (XBase (AuthVerdict %d %s %s (pad_of %d)))" % (c, "true" if x.get("ok") else "false", c01lib.cb(x.get("id", "")), padn))
        elif k == "fault":
            if x.get("res") == "auth":
                ev.append("XA (XAuthPanic %d)" % c)
            # masq:* faults are the handler's outcome (table); logger faults are part of XLogPanic
        elif k == "masq":
            q, tag = (cur[0], cur[1]) if cur else ({}, 0)
            e2 = {"m": x.get("m", ""), "h": x.get("h", ""), "p": x.get("p", ""), "auth": q.get("auth", ""), "ccrx": q.get("ccrx", "")}
            ev.append("XE (XO (ObsMasq %d %s))" % (c, c01lib.req_term(e2, tag)))
        elif k == "xresp":
            rt = cur[2] if cur else c01lib.req_term({}, 0)
            if x.get("res") == "resp":
                ev.append("XE (XO (ObsResp %d %s %s))" % (c, rt, c01lib.resp_term(x.get("status", 0), x.get("hdr"), x.get("body"))))
            elif x.get("res") == "abort":
                sent = "(Some %s)" % c01lib.resp_term(x.get("status", 0), x.get("hdr"), x.get("body")) if x.get("n") else "None"
                ev.append("XE (XAbort %d %s %s)" % (c, rt, sent))
            # noresp: nothing was observed - the model's response has no counterpart in the log
        else:
            e1, _ = c01lib.log_to_events([x])
            ev += [wrap_base(e) for e in e1]
    return ev, table


FAULT_CODE = {"": 0, "auth": 2, "online": 3, "connect": 3}


def abort_to_coq(c, o):
    ev, table = abort_log_to_events(o["log"])
    rs = []
    for r in o.get("rs") or []:
        if r.get("skip"):
            continue
        e = {"m": r["m"], "h": r["h"], "p": r["p"], "auth": r.get("auth", ""), "ccrx": r.get("ccrx", "")}
        have = r.get("st", 0) > 0
        out = r.get("out")
        if out == "noresp":
            observed = "(MAbort None)"          # (never equal to what the model expects of an unfaulted request; the Go verdict names it)
        else:
            observed = mres_term(out, have, r.get("st", 0), r.get("hdr"), r.get("body"))
        oracle = mres_term(r.get("oout", "resp"), r.get("osent", False), r.get("ost", 0), r.get("ohdr"), r.get("obody"))
        f = r.get("fault", "")
        rs.append("mkXRq %s %s %s %s %s %d %d %s %s" % (
            c01lib.req_term(e, 0), "true" if r["was"] else "false", "true" if r["called"] else "false", r.get("crx") or "0",
            "true" if r["acc"] else "false", padn_of(r.get("hdr")), FAULT_CODE.get(f, 1), observed, oracle))
    return "CAbort %s\n [%s]\n [%s]\n [%s]" % (c01lib.cfg_term(c["cfg"]), ";\n  ".join(table), ";\n  ".join(ev), ";\n  ".join(rs))


def to_coq(c, o):
    if not o.get("log"):
        return None
    if c["k"] == "abort":
        return abort_to_coq(c, o)
    cfg = c["cfg"]
    gate = c["k"] == "gate"
    big = c["k"] == "big"
    ev, table = c01lib.log_to_events(o["log"], conc=gate)
    rs = []
    for r in o.get("rs") or []:
        if r.get("skip"):
            continue
        padn = 0
        for k, v in r.get("hdr") or []:
            if k == "Hysteria-Padding" and v.startswith("#"):
                padn = int(v[1:])
        e = {"m": r["m"], "h": r["h"], "p": r["p"], "auth": r.get("auth", ""), "ccrx": r.get("ccrx", "")}
        rs.append("mkRq %s %s %s %s %s %d %s %s" % (
            c01lib.req_term(e, 0), "true" if r["was"] else "false", "true" if r["called"] else "false", r.get("crx") or "0",
            "true" if r["acc"] else "false", padn, c01lib.resp_term(r["st"], r["hdr"], r["body"]),
            c01lib.resp_term(r["ost"], r["ohdr"], r["obody"])))
    t = "%s %s %s\n [%s]\n [%s]\n [%s]" % ("CGate" if gate else "CBig" if big else "CConn", c01lib.cfg_term(cfg), "true" if cfg["masq"] != 0 else "false",
                                             ";\n  ".join(table), ";\n  ".join(ev), ";\n  ".join(rs))
    if big:
        # the size of every request's field section, in the order of the HttpReq actions of the log
        t += "\n [%s]" % "; ".join(str(x.get("n", 0)) for x in o["log"] if x["k"] == "req")
    return t


def req_class(r):
    form = r["m"] == "POST" and r["h"] == "hysteria" and r["p"] == "/auth"
    if r.get("skip"):
        return "not-sent"
    if form:
        return "auth:accepted" if r["acc"] else "auth:repeat-on-authed" if r["was"] else "auth:rejected"
    off = (r["m"] != "POST") + (r["h"] != "hysteria") + (r["p"] != "/auth")
    return "near-miss(1 off)" if off == 1 else "other"


def size_class(n):
    for lim, name in ((8 << 10, "<8KiB"), (16 << 10, "8-16KiB"), (64 << 10, "16-64KiB"), (256 << 10, "64-256KiB"), (512 << 10, "256-512KiB")):
        if n < lim:
            return name
    return ">=512KiB"


def klass(c, o):
    if c["k"] == "big":
        return "big/masq=%d/%s" % (c["cfg"]["masq"], "accepted-midway" if o.get("authed") else "never-accepted")
    if c["k"] == "abort":
        return "abort/masq=%d/%s" % (c["cfg"]["masq"], "accepted-in-the-end" if o.get("authed") else "never-accepted")
    if c["k"] == "gate":
        return "gate(held auth %s)/masq=%d" % ("accepted" if c["first"]["auth"].startswith("good") else "rejected", c["cfg"]["masq"])
    return "masq=%d/%s" % (c["cfg"]["masq"], "accepted-midway" if o.get("authed") else "never-accepted")


def features(c, o):
    f = set(req_class(r) + ("/after-auth" if r["was"] else "") for r in o.get("rs") or [])
    if c["k"] == "abort":
        faulted = False
        for r in o.get("rs") or []:
            if r.get("skip"):
                continue
            if r.get("fault"):
                f.add("callback-fault:" + r["fault"])
                faulted = True
            elif faulted and r.get("out") == "resp":
                f.add("after-a-callback-fault:" + req_class(r))
            if r.get("out") == "noresp":
                f.add("NO-RESPONSE:" + req_class(r))
    if c["k"] == "big":
        for r in o.get("rs") or []:
            if r.get("skip"):
                continue
            if r.get("fsz", 0) >= (8 << 10):
                f.add("header-block:%s:%s%s" % (size_class(r["fsz"]), req_class(r), "/after-auth" if r["was"] else ""))
            if r.get("hn", 0) >= 100:
                f.add("header-fields>=100:" + req_class(r))
            if r.get("out") not in (None, "", "resp"):
                f.add("NO-COMPLETE-RESPONSE:" + req_class(r))
    if c["k"] == "gate":
        held = False
        for x in o.get("log") or []:
            if x["k"] == "window":
                held = True
            elif x["k"] == "release":
                held = False
            elif held and x["k"] == "req" and not x.get("bar"):
                f.add("while-authenticator-undecided:" + ("auth-request" if x.get("af") else "other-request"))
            elif held and x["k"] == "resp" and not x.get("bar"):
                f.add("while-authenticator-undecided:response")
            elif held and x["k"] == "stream":
                f.add("while-authenticator-undecided:stream")
            elif held and x["k"] == "dgram":
                f.add("while-authenticator-undecided:datagram")
    if o.get("stream") is not None:
        f.add("probe-stream:" + ("reply" if o.get("streamn") else "no-reply"))
        f.add("probe-datagram:" + ("reply" if o.get("dreply") else "no-reply"))
    return f


def nontrivial(c, o):
    return any(not r.get("skip") and not r["acc"] and not (r["was"] and req_class(r).startswith("auth")) for r in o.get("rs") or [])


def count_evaluations(cases, outs):
    """one evaluation = one HTTP/3 request sent and compared (plus the two probes per connection)."""
    return sum(len([r for r in o.get("rs") or [] if not r.get("skip")]) + (2 if o.get("stream") is not None else 0) for o in outs)


def nontrivial_keys(c, o):
    """distinct (configuration, request) pairs that were NOT accepted auth requests and were compared with the oracle."""
    import json
    ks = set()
    for r in o.get("rs") or []:
        if r.get("skip") or r["acc"] or (r["was"] and req_class(r).startswith("auth")):
            continue
        ks.add(json.dumps([c["cfg"]["masq"], r["was"], r["m"], r["h"], r["p"], r.get("auth"), r.get("ccrx")]))
    return ks


def fingerprint(c, o):
    import re
    why = o.get("why") or ""
    return "c02:" + re.sub(r'"[^"]*"|\d+', "#", why)[:90]


def search(ctx, disagreeing):
    import random
    found = []
    for s in range(2):
        rng = random.Random(ctx.seed * 1000 + s + 29)
        cases = gen(rng, "quick")
        ok, outs, _, log = common.run_go_cases(ctx, GO, cases, tag="search%d" % s)
        for c, o in zip(cases, outs):
            if o.get("ok") is False:
                found.append({"what": "%s: %s" % (c["k"], o.get("why")), "replay": {"case": c, "impl": o},
                              "fingerprint": fingerprint(c, o), "found_input": True})
        if found:
            break
    return found


def run(ctx):
    return c01lib.run_check(ctx, sys.modules[__name__])


def replay(ctx, path):
    return c01lib.replay(ctx, sys.modules[__name__], path)


LEVEL_TEXT = ("Machine-checked Coq theorems over the model of ServeHTTP shared with C01, for ANY masquerade handler (a function from "
              "requests to responses): a non-auth request and a rejected auth request get exactly the handler's response (status, headers, "
              "body); in every run a response that differs from the handler's is the 233 response to an auth request preceded by an "
              "accepting verdict on the same connection; is_auth_req holds for exactly one (method, host, path) triple; on an "
              "unauthenticated connection a proxy stream / datagram makes nothing observable and no dialling / relaying step is enabled. "
              "HTTP/3 front of a connection (model/C02_Front.v: the http3.Server handleClient builds, MaxHeaderBytes unset = 1 MiB): in EVERY "
              "state of a connection, authenticated or not, a request that is not an auth request and whose header block is at most "
              "1 MiB - whatever its size - gets exactly the handler's response and changes nothing; the front passes exactly the "
              "header blocks <= 1 MiB to ServeHTTP unchanged; in every run through the front a response is the handler's, or 233 "
              "after an accepting verdict, or the library's 431 for a block above 1 MiB. "
              "Extended LTS (model/C02_Abort.v) in which the masquerade handler may abort (outcome MResp / MAbort sent) and the "
              "authenticator / loggers may panic: authMutex is released on every exit of the auth branch, no request on a live "
              "connection waits for ever (every end of a pending Authenticate call is enabled and frees the mutex), responses and "
              "aborts in every run are the handler's own unless an accepting verdict precedes, and the extension coincides with the "
              "shared model when every callback returns. "
              "Tied to /repo on every run by regenerated constants and by ~380 real HTTP/3 requests per run compared with the handler "
              "mounted on an httptest recorder and replayed through the model in Coq (vm_compute).")
LEVEL_NOTE = ("Trusted: Coq kernel + vm_compute; hand-written model (tie = sampled end-to-end requests + regenerated Params); python/Go glue. "
              "No axioms. Not proved: how net/http / http3 canonicalise :authority and :path; transport-level headers.")
TECHNIQUE = "Coq proof on a hand-written model (any masquerade handler) + end-to-end differential check against an httptest oracle, replayed in vm_compute"
DESIGN_REF = "DESIGN.md section 4 C02"
